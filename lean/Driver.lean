import DynasmVerif.Drv.Reloc
import DynasmVerif.Drv.Asm
import DynasmVerif.Drv.Fold
import DynasmVerif.Drv.A64Imm
import DynasmVerif.Drv.RvExec
import DynasmVerif.Drv.X64Mem
import DynasmVerif.Drv.A64Enc
import DynasmVerif.Drv.Conc

/-! Line-protocol driver: reads request lines on stdin, answers each with one `= …` line.
The first line `hdr <stream> …` selects the stream. The harness output (requests interleaved with its own
`= answer` lines) can be piped in unchanged: an answer line is handed to the model as the *environment hint*
of the request before it (addresses chosen by the OS are inputs of the model). Lines starting with `#` are skipped. -/

open DynasmVerif

structure DState where
  stream : String := ""
  pending : Option String := none
  asm : Asm.Machine := {}
  conc : Drv.Conc.DState := {}

/-- execute one request with the implementation's answer (or "" when none is available) -/
def exec (st : DState) (req hint : String) : DState × String :=
  let ws := Util.words req
  match ws with
  | "hdr" :: s :: _ => ({ st with stream := s, asm := {}, conc := {} }, s!"= hdr {s}")
  | _ =>
    match st.stream with
    | "reloc" => (st, Drv.Reloc.handle ws)
    | "fold" => (st, Drv.Fold.handle ws)
    | "a64imm" => (st, Drv.A64Imm.handle ws)
    | "rvexec" => (st, Drv.RvExec.handle ws)
    | "x64mem" => (st, Drv.X64Mem.handle ws)
    | "a64enc" => (st, Drv.A64Enc.handle ws)
    | "conc" =>
      match ws with
      | ["reset"] => ({ st with conc := {} }, "= ok")
      | _ => let (c, a) := Drv.Conc.handle st.conc ws; ({ st with conc := c }, a)
    | "asm" =>
      match ws with
      | ["reset"] => ({ st with asm := {} }, "= ok")
      | _ => let (m, a) := Drv.Asm.handle st.asm ws hint; ({ st with asm := m }, a)
    | _ => (st, "= bad-stream")

def flushPending (st : DState) (hint : String) (out : IO.FS.Stream) : IO DState := do
  match st.pending with
  | none => return st
  | some req =>
    let (st', a) := exec { st with pending := none } req hint
    out.putStrLn a
    return st'

partial def loop (h : IO.FS.Stream) (out : IO.FS.Stream) (st : DState) : IO Unit := do
  let line ← h.getLine
  if line.isEmpty then
    let _ ← flushPending st "" out
    return ()
  let t := line.trimAscii.toString
  if t.isEmpty || t.startsWith "#" then loop h out st
  else if t.startsWith "= " || t == "=" then
    let st' ← flushPending st (t.drop 2).toString out
    loop h out st'
  else
    let st' ← flushPending st "" out
    loop h out { st' with pending := some t }

def main : IO Unit := do
  let out ← IO.getStdout
  loop (← IO.getStdin) out {}
  out.flush
