import DynasmVerif.Drv.Reloc

/-! Line-protocol driver: reads request lines on stdin, answers each with one `= …` line.
The first line `hdr <stream> …` selects the stream. Lines starting with `#` or `=` are skipped
(the harness output, which interleaves requests and its own answers, can be piped in unchanged). -/

open DynasmVerif

structure DState where
  stream : String := ""

def stepLine (st : DState) (line : String) : DState × Option String :=
  let ws := Util.words line
  match ws with
  | [] => (st, none)
  | "hdr" :: s :: _ => ({ st with stream := s }, some s!"= hdr {s}")
  | w :: _ =>
    if w.startsWith "#" || w == "=" then (st, none)
    else match st.stream with
      | "reloc" => (st, some (Drv.Reloc.handle ws))
      | _ => (st, some "= bad-stream")

partial def loop (h : IO.FS.Stream) (out : IO.FS.Stream) (st : DState) : IO Unit := do
  let line ← h.getLine
  if line.isEmpty then return ()
  let (st', o) := stepLine st line
  match o with
  | some s => out.putStrLn s
  | none => pure ()
  loop h out st'

def main : IO Unit := do
  let out ← IO.getStdout
  loop (← IO.getStdin) out {}
  out.flush
