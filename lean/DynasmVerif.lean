-- Root of the `DynasmVerif` library. Models (import-free), proofs, property theorems and audits.
import DynasmVerif.Model.Util
import DynasmVerif.Model.Reloc
