/-!
# Model of the constant-folding pass of `plugin/src/serialize.rs::serialize`

Statements are abstracted to what the pass distinguishes: constant bytes (`Stmt::Const` in little-endian order,
`Stmt::Extend`) and everything else (labels, references, aligns, runtime-valued emissions, plain Rust statements),
kept as an opaque tag. Import-free.
-/

namespace DynasmVerif.Ser

inductive Stmt
  | bytes (bs : List Nat)
  | ev (tag : Nat)
deriving DecidableEq, Repr, Inhabited

/-- `while const_buffer.len() > 32 { … split_off(32) … }`: emit full 32-byte chunks while more than 32 bytes are pending;
`fuel` bounds the loop (the length of the buffer suffices) -/
def drain32 : Nat → List Nat → List Stmt × List Nat
  | 0, buf => ([], buf)
  | fuel + 1, buf =>
    if buf.length > 32 then
      let (out, rest) := drain32 fuel (buf.drop 32)
      (.bytes (buf.take 32) :: out, rest)
    else ([], buf)

def flush (buf : List Nat) : List Stmt := if buf.isEmpty then [] else [.bytes buf]

/-- the folding loop with the pending constant buffer as accumulator -/
def foldAux : List Stmt → List Nat → List Stmt
  | [], buf => flush buf
  | .bytes bs :: r, buf =>
    let (out, rest) := drain32 (buf ++ bs).length (buf ++ bs)
    out ++ foldAux r rest
  | .ev t :: r, buf => flush buf ++ [.ev t] ++ foldAux r []

def fold (s : List Stmt) : List Stmt := foldAux s []

/-- the sequence of bytes and non-constant events, in order: what the generated code does to the assembler -/
def atoms : List Stmt → List (Nat ⊕ Nat)
  | [] => []
  | .bytes bs :: r => bs.map Sum.inl ++ atoms r
  | .ev t :: r => Sum.inr t :: atoms r

end DynasmVerif.Ser
