/-!
# riscv instruction-table entries: data types and the internal-consistency predicate (C19), feature data (C20)

Mirrors `plugin/src/arch/riscv/riscvdata.rs`. `flatArgs` transcribes `matching.rs::flatten_args`, `walk` the cursor
handling of `compiler.rs::compile_instruction`, `cmdFields` the bits each command ORs into the template words
(`Command::Offset` through the equivalent bit ranges listed in the compiler). Import-free.
-/

namespace DynasmVerif.Rv

inductive Matcher
  | X | F | Reg (family code : Nat) | Ref | RefOffset | RefSp | RefLabel | Imm | Offset | Ident | Xlist | Lit (name : String)
deriving Repr, Inhabited

inductive Reloc | B | J | BC | JC | HI20 | LO12 | LO12S | SPLIT32 | SPLIT32S | LITERAL8 | LITERAL16 | LITERAL32 | LITERAL64
deriving DecidableEq, Repr, Inhabited

inductive Command
  | Repeat | Next
  | R (o : Nat) | Reven (o : Nat) | Rno0 (o : Nat) | Rno02 (o : Nat) | Rpop (o : Nat) | Rpops (o : Nat) | Rpops2 (o : Nat) | Rlist (o : Nat)
  | RoundingMode (o : Nat) | FenceSpec (o : Nat) | Csr (o : Nat) | FloatingPointImmediate (o : Nat) | SPImm (o : Nat) (neg : Bool)
  | UImm (bits scale : Nat) | SImm (bits scale : Nat) | BigImm (bits : Nat) | UImmNo0 (bits scale : Nat) | SImmNo0 (bits scale : Nat)
  | UImmOdd (bits scale : Nat) | UImmRange (lo hi : Nat)
  | BitRange (o l s : Nat) | RBitRange (o l s : Nat)
  | Offset (r : Reloc)
deriving Repr, Inhabited

inductive Template
  | Compressed (v : Nat) | Single (v : Nat) | Double (a b : Nat) | Many (vs : List Nat)
deriving Repr, Inhabited

structure Opdata where
  template : Template
  /-- `ISAFlags` bits: 1 = RV32, 2 = RV64 -/
  isa : Nat
  /-- alternative required extension sets (`ExtensionFlags` bit masks): one of them must be contained in the enabled set -/
  exts : List Nat
  matchers : List Matcher
  commands : List Command
deriving Repr, Inhabited

def Template.words : Template → List Nat
  | .Compressed v => [v] | .Single v => [v] | .Double a b => [a, b] | .Many vs => vs

def Template.wordBits : Template → Nat
  | .Compressed _ => 16 | _ => 32

/-! ## flat arguments (`flatten_args`) -/

inductive ArgTy | Register | Immediate | ImmOrDefault | JumpTarget | RegisterList
deriving DecidableEq, Repr, Inhabited

def flatArgs : List Matcher → List ArgTy
  | [] => []
  | m :: r =>
    (match m with
     | .X | .F | .Ref => [.Register]
     | .Reg _ _ | .Lit _ => []
     | .RefOffset => [.Register, .ImmOrDefault]
     | .RefSp => [.ImmOrDefault]
     | .RefLabel => [.Register, .JumpTarget]
     -- `Matcher::Offset` also matches a plain immediate
     | .Imm | .Ident => [.Immediate]
     | .Offset => [.JumpTarget]
     | .Xlist => [.RegisterList]) ++ flatArgs r

/-! ## cursor walk and command/argument compatibility (`compile_instruction`) -/

def Command.isImmCheck : Command → Bool
  | .UImm _ _ | .SImm _ _ | .BigImm _ | .UImmNo0 _ _ | .SImmNo0 _ _ | .UImmOdd _ _ | .UImmRange _ _ => true
  | _ => false

def Command.isBitRange : Command → Bool
  | .BitRange _ _ _ | .RBitRange _ _ _ => true
  | _ => false

def Command.advances : Command → Bool
  | .Repeat | .Next => false
  | c => !(c.isImmCheck || c.isBitRange)

/-- which flat argument kinds a command has an arm for (anything else is `panic!("Invalid argument processor")`) -/
def typeOK (c : Command) (t : ArgTy) : Bool :=
  match c with
  | .R _ | .Reven _ | .Rno0 _ | .Rno02 _ | .Rpop _ | .Rpops _ | .Rpops2 _ => t == .Register
  | .Rlist _ => t == .RegisterList
  | .UImm _ _ | .SImm _ _ | .BitRange _ _ _ => t == .Immediate || t == .ImmOrDefault || t == .JumpTarget
  | .BigImm _ | .UImmNo0 _ _ | .SImmNo0 _ _ | .UImmOdd _ _ | .UImmRange _ _ | .RBitRange _ _ _ => t == .Immediate || t == .JumpTarget
  | .RoundingMode _ | .FenceSpec _ | .Csr _ | .FloatingPointImmediate _ | .SPImm _ _ => t == .Immediate
  -- a jump target operand is either a label (relocation) or a plain immediate encoded through the equivalent ranges
  | .Offset _ => t == .JumpTarget
  | .Repeat | .Next => false

/-- `gather_fields(commands, i + 1)`: the commands after an immediate check up to the first `Next` must be bit ranges -/
def terminated : List Command → Bool
  | [] => false
  | .Next :: _ => true
  | c :: r => c.isBitRange && terminated r

/-- walk: `none` when the cursor underflows, a command meets no argument / an argument of the wrong kind, or an immediate
check is not followed by a terminated bit-range sequence; otherwise the final cursor -/
def walk (args : List ArgTy) : List Command → Nat → Option Nat
  | [], cur => some cur
  | .Repeat :: r, cur => if cur = 0 then none else walk args r (cur - 1)
  | .Next :: r, cur => walk args r (cur + 1)
  | c :: r, cur =>
    match args[cur]? with
    | none => none
    | some t =>
      if !typeOK c t then none
      else if c.isImmCheck && !terminated r then none
      else if (match c with | .Rpops2 _ | .SPImm _ _ => cur == 0 | _ => false) then none
      else walk args r (if c.advances then cur + 1 else cur)

/-! ## bit fields -/

/-- the bit ranges the compiler uses for `Command::Offset` when the operand is an immediate, and that the runtime
relocation of the same name patches -/
def relocFields : Reloc → List (Nat × Nat)
  | .B => [(31, 1), (25, 6), (8, 4), (7, 1)]
  | .J => [(31, 1), (21, 10), (20, 1), (12, 8)]
  | .BC => [(12, 1), (10, 2), (5, 2), (3, 2), (2, 1)]
  | .JC => [(12, 1), (11, 1), (9, 2), (8, 1), (7, 1), (6, 1), (3, 3), (2, 1)]
  | .HI20 => [(12, 20)]
  | .LO12 => [(20, 12)]
  | .LO12S => [(7, 5), (25, 7)]
  | .SPLIT32 => [(12, 20), (52, 12)]
  | .SPLIT32S => [(12, 20), (39, 5), (57, 7)]
  | _ => []

/-- (offset, length) of every field a command writes; offsets ≥ 32 address later template words -/
def cmdFields : Command → List (Nat × Nat)
  | .R o | .Reven o | .Rno0 o | .Rno02 o => [(o, 5)]
  | .Rpop o | .Rpops o | .Rpops2 o => [(o, 3)]
  | .Rlist o => [(o, 4)]
  | .RoundingMode o => [(o, 3)]
  | .FenceSpec o => [(o, 4)]
  | .Csr o => [(o, 12)]
  | .FloatingPointImmediate o => [(o, 5)]
  | .SPImm o _ => [(o, 2)]
  | .BitRange o l _ | .RBitRange o l _ => [(o, l)]
  | .Offset r => relocFields r
  | _ => []

/-- check the fields in order against the template words; `used` holds the bits already owned, per word -/
def fieldsOK (wordBits : Nat) (words : List Nat) : List (Nat × Nat) → List Nat → Bool
  | [], _ => true
  | (o, l) :: r, used =>
    let wi := o / 32
    let b := o % 32
    match words[wi]?, used[wi]? with
    | some w, some u =>
      let m := (2 ^ l - 1) <<< b
      b + l ≤ wordBits && m &&& w == 0 && m &&& u == 0 && fieldsOK wordBits words r (used.set wi (u ||| m))
    | _, _ => false

/-- **internal consistency of one entry** -/
def wellFormed (e : Opdata) : Bool :=
  let args := flatArgs e.matchers
  let words := e.template.words
  walk args e.commands 0 == some args.length &&
  words.length ≤ 8 && !words.isEmpty && words.all (· < 2 ^ e.template.wordBits) &&
  fieldsOK e.template.wordBits words (e.commands.flatMap cmdFields) (words.map fun _ => 0) &&
  !e.exts.isEmpty && e.isa ≥ 1 && e.isa ≤ 3

end DynasmVerif.Rv
