import DynasmVerif.Model.Asm

/-!
# The operation-level machine: one `step` for every request of the `asm` stream

Ties the pieces of `Model/Asm.lean` into the five assembler types as a user drives them:
`SimpleAssembler`, `VecAssembler<R>`, `Assembler<R>`, `Modifier` (inside `alter{ … }alter`),
`UncommittedModifier` (inside `unc{ … }unc`) and `LitPool` (inside `pool{ … }pool`).
-/

namespace DynasmVerif.Asm
open DynasmVerif.Reloc

/-- the user-supplied part of a reference: `(target_offset, field_offset, ref_offset, relocation)` -/
structure RefArgs where
  targetOff : Int
  fieldOff : Nat
  refOff : Nat
  reloc : RelocT
deriving Repr, Inhabited

def RefArgs.at (r : RefArgs) (location : Nat) : PatchLoc :=
  { location := location, fieldOff := r.fieldOff, refOff := r.refOff, reloc := r.reloc, targetOff := r.targetOff }

inductive PoolLabel | dyn | glob | fwd | bwd
deriving Repr, Inhabited, DecidableEq

inductive Op
  | newSimple | newVec (base : Nat) | newExec
  | emit (bs : List Byte)
  | align (alignment filler : Nat)
  | localLabel (n : Nat) | globalLabel (n : Nat) | newDyn | dynLabel (id : Nat)
  | fwd (n : Nat) (r : RefArgs) | bwd (n : Nat) (r : RefArgs) | glob (n : Nat) (r : RefArgs)
  | dyn (id : Nat) (r : RefArgs) | bare (target : Nat) (r : RefArgs)
  | commit | fin | take | drain | buf | off | ptr (n : Nat)
  | alterBegin | alterEnd | goto (n : Nat) | chk (n : Nat) | chkx (n : Nat)
  | uncBegin | uncEnd
  | poolBegin | poolEnd | poolVal (size v : Nat) | poolAlign (size filler : Nat)
  | poolLabel (k : PoolLabel) (name size : Nat)
deriving Repr, Inhabited

inductive Front
  | none
  | simple (ops : List Byte)
  | vec (a : VecAsm)
  | exec (a : ExecAsm)

inductive Mode
  | top
  | session (s : Session)
  /-- inside `alter{ … }alter` whose initial commit failed: the closure never runs -/
  | skipped (e : Err)
  | unc (u : Unc)
  | pool (p : Pool) (back : Option Session)

structure Machine where
  front : Front := .none
  mode : Mode := .top
  /-- a panic happened (or the assembler was consumed by finalize): nothing more is executed -/
  dead : Bool := false

/-- the answer line of a request -/
inductive Ans
  | ok | okAddr (a : Nat) (moved : Bool) | num (n : Nat) | id (k : Nat) | bytes (bs : List Byte)
  | okBytes (bs : List Byte) | okAddrBytes (a : Nat) (bs : List Byte)
  | err (e : Err) | errAddr (e : Err) (a : Nat) (moved : Bool) | panic | dead | skipped | badOp
deriving Repr, Inhabited

def Ans.ofOut : Out → Ans
  | .ok => .ok | .err e => .err e | .panic => .panic

def die (m : Machine) : Machine × Ans := ({ m with dead := true }, .panic)

/-- current offset of the active emitter -/
def Machine.offset (m : Machine) : Nat :=
  match m.mode, m.front with
  | .session s, _ => s.cursor
  | .unc u, _ => u.offset
  | .pool _ (some s), _ => s.cursor
  | _, .simple ops => ops.length
  | _, .vec a => a.offset
  | _, .exec a => a.offset
  | _, .none => 0

/-- run a `Core` transformer with the session's own error slot in place of the assembler's -/
def withSessionErr (c : Core) (s : Session) (f : Core → Core) : Core × Session :=
  let c' := f { c with error := s.error }
  ({ c' with error := c.error }, { s with error := c'.error })

/-- label-API operations that only touch the `Core` (all front-ends, offset supplied) -/
def coreOp (c : Core) (off : Nat) : Op → Option Core
  | .localLabel n => some (c.localLabel n off)
  | .globalLabel n => some (c.globalLabel n off)
  | .dynLabel id => some (c.dynamicLabel id off)
  | .fwd n r => some (c.forwardReloc n (r.at off))
  | .bwd n r => some (c.backwardReloc n (r.at off))
  | .glob n r => some (c.globalReloc n (r.at off))
  | .dyn id r => some (c.dynamicReloc id (r.at off))
  | _ => none

/-- expansion of `LitPool::emit` into primitive operations -/
def poolOps : List PoolEntry → List Op
  | [] => []
  | .val size v :: r => .emit (leBytesNat size v) :: poolOps r
  | .dyn size id :: r => .emit (List.replicate size 0) :: .dyn id ⟨0, size, size, ⟨plainOfSize size, .relative⟩⟩ :: poolOps r
  | .glob size n :: r => .emit (List.replicate size 0) :: .glob n ⟨0, size, size, ⟨plainOfSize size, .relative⟩⟩ :: poolOps r
  | .fwd size n :: r => .emit (List.replicate size 0) :: .fwd n ⟨0, size, size, ⟨plainOfSize size, .relative⟩⟩ :: poolOps r
  | .bwd size n :: r => .emit (List.replicate size 0) :: .bwd n ⟨0, size, size, ⟨plainOfSize size, .relative⟩⟩ :: poolOps r
  | .align filler a :: r => .align a filler :: poolOps r
where
  plainOfSize : Nat → Fmt
    | 1 => .p1 | 2 => .p2 | 4 => .p4 | _ => .p8

/-- operations valid while emitting at top level (no session open) -/
def stepTop (m : Machine) (op : Op) (addrHint : Nat) : Machine × Ans :=
  match m.front, op with
  -- construction
  | _, .newSimple => ({ front := .simple [] }, .ok)
  | _, .newVec base => ({ front := .vec { base := base } }, .ok)
  | _, .newExec => ({ front := .exec (ExecAsm.new addrHint) }, .okAddr addrHint false)
  -- SimpleAssembler
  | .simple ops, .emit bs => ({ m with front := .simple (ops ++ bs) }, .ok)
  | .simple ops, .align a f =>
      if a = 0 then die m else ({ m with front := .simple (ops ++ List.replicate (alignPad ops.length a) (BitVec.ofNat 8 f)) }, .ok)
  | .simple ops, .off => (m, .num ops.length)
  | .simple ops, .buf => (m, .bytes ops)
  | .simple ops, .fin => ({ m with front := .none, dead := true }, .okBytes ops)
  | .simple ops, .uncBegin => ({ m with mode := .unc { buf := ops, base := 0, offset := 0 } }, .ok)
  -- VecAssembler
  | .vec a, .emit bs => ({ m with front := .vec { a with ops := a.ops ++ bs } }, .ok)
  | .vec a, .align al f =>
      if al = 0 then die m else
      ({ m with front := .vec { a with ops := a.ops ++ List.replicate (alignPad a.offset al) (BitVec.ofNat 8 f) } }, .ok)
  | .vec a, .off => (m, .num a.offset)
  | .vec a, .buf => (m, .bytes a.ops)
  | .vec a, .newDyn => let (c, id) := a.core.newDynamic; ({ m with front := .vec { a with core := c } }, .id id)
  | .vec a, .bare target r =>
      let (c, buf, _, panicked) := bareReloc a.core a.ops 0 a.base target (r.at a.offset)
      if panicked then die m else ({ m with front := .vec { a with core := c, ops := buf } }, .ok)
  | .vec a, .commit =>
      let (a', o) := a.commit
      if o matches .panic then die m else ({ m with front := .vec a' }, Ans.ofOut o)
  | .vec a, .fin =>
      let (a', o) := a.commit
      match o with
      | .ok => ({ m with front := .none, dead := true }, .okBytes a'.ops)
      | .panic => die m
      | o => ({ m with front := .none, dead := true }, Ans.ofOut o)
  | .vec a, .take =>
      let (a', o) := a.commit
      match o with
      | .ok => ({ m with front := .vec { a' with ops := [], core := { a'.core with labels := {} } } }, .okBytes a'.ops)
      | .panic => die m
      | o => ({ m with front := .vec a' }, Ans.ofOut o)
  | .vec a, .drain =>
      let (a', o) := a.commit
      match o with
      | .ok => ({ m with front := .vec { a' with ops := [], core := { a'.core with labels := {} } } }, .okBytes a'.ops)
      | .panic => die m
      | o => ({ m with front := .vec a' }, Ans.ofOut o)
  | .vec a, .uncBegin => ({ m with mode := .unc { buf := a.ops, base := 0, offset := 0 } }, .ok)
  | .vec _, .poolBegin => ({ m with mode := .pool {} none }, .ok)
  | .vec a, op =>
      match coreOp a.core a.offset op with
      | some c => ({ m with front := .vec { a with core := c } }, .ok)
      | none => (m, .badOp)
  -- Assembler
  | .exec a, .emit bs => ({ m with front := .exec { a with ops := a.ops ++ bs } }, .ok)
  | .exec a, .align al f =>
      if al = 0 then die m else
      ({ m with front := .exec { a with ops := a.ops ++ List.replicate (alignPad a.offset al) (BitVec.ofNat 8 f) } }, .ok)
  | .exec a, .off => (m, .num a.offset)
  | .exec a, .buf => (m, .bytes a.mem.view)
  -- `*reader.lock().ptr(offset)`: indexing the visible buffer (out of bounds is a panic)
  | .exec a, .ptr n => match a.mem.view[n]? with
      | some b => (m, .num b.toNat)
      | none => die m
  | .exec a, .newDyn => let (c, id) := a.core.newDynamic; ({ m with front := .exec { a with core := c } }, .id id)
  | .exec a, .bare target r =>
      let (c, buf, madd, panicked) := bareReloc a.core a.ops a.mem.committed a.mem.addr target (r.at a.offset)
      if panicked then die m else
      ({ m with front := .exec { a with core := c, ops := buf, managed := a.managed.addAll madd } }, .ok)
  | .exec a, .commit =>
      match a.commit addrHint with
      | none => die m
      | some (a', .ok) => ({ m with front := .exec a' }, .okAddr a'.mem.addr (a'.mem.cap != a.mem.cap))
      -- the adjustment pass of a growing commit failed: the error is reported after the buffer was moved and published
      | some (a', .err (.impossible .managed)) => ({ m with front := .exec a' }, .errAddr (.impossible .managed) a'.mem.addr (a'.mem.cap != a.mem.cap))
      | some (a', o) => ({ m with front := .exec a' }, Ans.ofOut o)
  | .exec a, .fin =>
      -- `commit().expect(..)`: an error is a panic; then `Arc::try_unwrap` (no reader is kept by the harness)
      match a.commit addrHint with
      | some (a', .ok) => ({ m with front := .none, dead := true }, .okAddrBytes a'.mem.addr a'.mem.view)
      | _ => die m
  | .exec a, .alterBegin =>
      match a.commit addrHint with
      | none => die m
      | some (a', .ok) => ({ m with front := .exec a', mode := .session { buf := a'.mem.view } }, .okAddr a'.mem.addr (a'.mem.cap != a.mem.cap))
      | some (a', .err e) => ({ m with front := .exec a', mode := .skipped e }, .err e)
      | some (_, _) => die m
  | .exec a, .uncBegin =>
      ({ m with mode := .unc { buf := a.ops, base := a.mem.committed, offset := a.mem.committed } }, .ok)
  | .exec _, .poolBegin => ({ m with mode := .pool {} none }, .ok)
  | .exec a, op =>
      match coreOp a.core a.offset op with
      | some c => ({ m with front := .exec { a with core := c } }, .ok)
      | none => (m, .badOp)
  | _, _ => (m, .badOp)

/-- `ManagedRelocs::append`: entries of `new` replace entries of `old` with the same key -/
def mergeManaged (old new : Managed) : Managed := new.foldl (fun (acc : Managed) e => acc.add e.2) old

/-- `Modifier::goto` -/
def sessionGoto (a : ExecAsm) (s : Session) (off : Nat) : Option (ExecAsm × Session) :=
  -- `&self.buffer[prev .. cursor]`
  if s.prev > s.cursor ∨ s.cursor > s.buf.length then none else
  -- … and the fields this session wrote so far join the registry (`old_managed.append(&mut new_managed)`), so that a later part
  -- of the same session that overwrites one of them forgets it again
  some ({ a with managed := mergeManaged (a.managed.removeBetween s.prev s.cursor) s.newManaged },
        { s with cursor := off, prev := off, newManaged := [] })

/-- `Modifier::encode_relocs` + putting the buffer back (`Assembler::alter` after the closure returned) -/
def sessionEnd (a : ExecAsm) (s : Session) : Option (ExecAsm × Out) :=
  if s.prev > s.cursor ∨ s.cursor > s.buf.length then none else
  let restore (a : ExecAsm) (buf : List Byte) : ExecAsm :=
    { a with mem := { a.mem with map := buf ++ a.mem.map.drop a.mem.len } }
  -- the modifier's loops use the shared label and relocation registries but its own error slot
  let (c, buf, madd, o) := ({ a.core with error := s.error } : Core).encodeRelocs s.buf 0 a.mem.addr true
  -- before anything can fail: what the last run of emissions replaced is forgotten, what the session wrote is tracked;
  -- label references are added one by one as they are patched (also those patched before a later one fails)
  let managed := (mergeManaged (a.managed.removeBetween s.prev s.cursor) s.newManaged).addAll madd
  let a1 := { a with core := { c with error := a.core.error }, managed := managed }
  match o with
  | .panic => none
  | e => some (restore a1 buf, e)

def stepSession (m : Machine) (a : ExecAsm) (s : Session) (op : Op) : Machine × Ans :=
  let put (a : ExecAsm) (s : Session) : Machine := { m with front := .exec a, mode := .session s }
  match op with
  | .emit bs =>
      match s.emit bs with
      | some s' => (put a s', .ok)
      | none => die m
  | .align al f =>
      if al = 0 then die m else
      match s.emit (List.replicate (alignPad s.cursor al) (BitVec.ofNat 8 f)) with
      | some s' => (put a s', .ok)
      | none => die m
  | .off => (m, .num s.cursor)
  | .goto n =>
      match sessionGoto a s n with
      | some (a', s') => (put a' s', .ok)
      | none => die m
  | .chk n => (m, Ans.ofOut (s.check n))
  | .chkx n => (m, Ans.ofOut (s.checkExact n))
  | .newDyn => (m, .badOp)
  | .bare target r =>
      let p := r.at s.cursor
      match p.patch s.buf 0 a.mem.addr target with
      | .panic => die m
      | .impossible => (put a { s with error := some (.impossible (.ext target)) }, .ok)
      | .ok buf' => (put a { s with buf := buf', newManaged := if p.needsAdjustment then Managed.add s.newManaged p else s.newManaged }, .ok)
  | .poolBegin => ({ m with mode := .pool {} (some s) }, .ok)
  | .alterEnd =>
      match sessionEnd a s with
      | none => die m
      | some (a', .ok) => ({ m with front := .exec a', mode := .top }, .ok)
      | some (a', o) => ({ m with front := .exec a', mode := .top }, Ans.ofOut o)
  | op =>
      match coreOp { a.core with error := s.error } s.cursor op with
      | some c => (put { a with core := { c with error := a.core.error } } { s with error := c.error }, .ok)
      | none => (m, .badOp)

def stepUnc (m : Machine) (u : Unc) (op : Op) : Machine × Ans :=
  match op with
  | .emit bs =>
      match u.emit bs with
      | some u' => ({ m with mode := .unc u' }, .ok)
      | none => die m
  | .align al f =>
      if al = 0 then die m else
      match u.emit (List.replicate (alignPad u.offset al) (BitVec.ofNat 8 f)) with
      | some u' => ({ m with mode := .unc u' }, .ok)
      | none => die m
  | .off => (m, .num u.offset)
  | .goto n => ({ m with mode := .unc { u with offset := n } }, .ok)
  | .chk n => (m, if u.offset > n then .err .checkFailed else .ok)
  | .chkx n => (m, if u.offset ≠ n then .err .checkFailed else .ok)
  | .uncEnd =>
      match m.front with
      | .simple _ => ({ m with front := .simple u.buf, mode := .top }, .ok)
      | .vec a => ({ m with front := .vec { a with ops := u.buf }, mode := .top }, .ok)
      | .exec a => ({ m with front := .exec { a with ops := u.buf }, mode := .top }, .ok)
      | .none => (m, .badOp)
  | _ => (m, .badOp)

/-- one request. `addrHint` is the address the implementation reported for this request (environment input;
only used when a new mapping is created). `fuel` bounds the nested expansion of a pool. -/
def step (fuel : Nat) (m : Machine) (op : Op) (addrHint : Nat) : Machine × Ans :=
  -- constructing a new assembler is always possible (the previous one is dropped)
  if op matches .newSimple | .newVec _ | .newExec then stepTop {} op addrHint else
  if m.dead then (m, .dead) else
  match m.mode with
  | .top => stepTop m op addrHint
  | .skipped e =>
      match op with
      | .alterEnd => ({ m with mode := .top }, .err e)
      | _ => (m, .skipped)
  | .unc u => stepUnc m u op
  | .session s =>
      match m.front with
      | .exec a => stepSession m a s op
      | _ => (m, .badOp)
  | .pool p back =>
      match op with
      | .poolVal size v =>
          if size = 0 then die m else
          let (p', o) := p.push size (.val size v); ({ m with mode := .pool p' back }, .num o)
      | .poolAlign size filler =>
          if size = 0 then die m else ({ m with mode := .pool (p.align size filler) back }, .ok)
      | .poolLabel k name size =>
          if size = 0 then die m else
          let e := match k with
            | .dyn => PoolEntry.dyn size name | .glob => .glob size name | .fwd => .fwd size name | .bwd => .bwd size name
          let (p', o) := p.push size e; ({ m with mode := .pool p' back }, .num o)
      | .poolEnd =>
          match fuel with
          | 0 => (m, .badOp)
          | fuel + 1 =>
            let m0 : Machine := { m with mode := match back with | some s => .session s | none => .top }
            let m' := (poolOps p.entries).foldl (fun acc o => (step fuel acc o addrHint).1) m0
            if m'.dead then (m', .panic) else (m', .ok)
      | _ => (m, .badOp)

end DynasmVerif.Asm
