/-!
# x86/x64 instruction-table entries: data and mutual compatibility of format string, opcode bytes, reg digit, flags (C19);
feature / mode data (C20)

Mirrors `plugin/src/arch/x64/{compiler.rs::Opdata, x64data.rs::{Flags, Features}}`. The predicate lists the conditions
under which none of the `panic!("bad formatting data")` / `expect` / `unwrap` sites of `compile_instruction`,
`size_operands`, `match_format_string`, `extract_args` can be reached by a matched instruction. Import-free.
-/

namespace DynasmVerif.X64

structure Opdata where
  /-- the operand format string as bytes: (type letter, size letter) pairs -/
  args : List Nat
  ops : List Nat
  reg : Nat
  flags : Nat
  features : Nat
deriving Repr, Inhabited

def VEX_OP := 0x1
def XOP_OP := 0x2
def IMM_OP := 0x4
def AUTO_SIZE := 0x8
def AUTO_NO32 := 0x10
def AUTO_REXW := 0x20
def AUTO_VEXL := 0x40
def SHORT_ARG := 0x40000
def ENC_VM := 0x100000
def X86_ONLY := 0x400000

def has (flags bit : Nat) : Bool := flags &&& bit != 0

def pairs : List Nat → Option (List (Nat × Nat))
  | [] => some []
  | [_] => none
  | t :: s :: r => (pairs r).map ((t, s) :: ·)

def c (ch : Char) : Nat := ch.toNat

def isMem (t : Nat) : Bool := t == c 'm' || t == c 'u' || t == c 'v' || t == c 'w' || t == c 'k' || t == c 'l'
def isReg (t : Nat) : Bool := t == c 'f' || t == c 'x' || t == c 'r' || t == c 'y' || t == c 'b'
def isSpecial (t : Nat) : Bool := t == c 'c' || t == c 'd' || t == c 's'
def isImm (t : Nat) : Bool := t == c 'i' || t == c 'o'
/-- hard-coded registers: `A`..`P` general purpose, `Q`..`V` segment, `W` cr8, `X` st0 -/
def isFixed (t : Nat) : Bool := c 'A' ≤ t && t ≤ c 'X'
def isFixedGp (t : Nat) : Bool := c 'A' ≤ t && t ≤ c 'P'

def sizeLetterOK (s : Nat) : Bool :=
  s == c 'b' || s == c 'w' || s == c 'd' || s == c 'q' || s == c 'f' || s == c 'p' || s == c 'o' || s == c 'h' || s == c 't' ||
  s == c '*' || s == c '!'

/-- `match_format_string`: which type letters may carry the wildcard size (`(b'*', _) => panic!("Invalid size wildcard")`) -/
def wildcardOK (t : Nat) : Bool :=
  t == c 'i' || t == c 'k' || t == c 'l' || t == c 'y' || t == c 'w' || t == c 'r' || t == c 'v' || t == c 'm' || isFixedGp t

def pairOK (p : Nat × Nat) : Bool :=
  (isMem p.1 || isReg p.1 || isSpecial p.1 || isImm p.1 || isFixed p.1) && sizeLetterOK p.2 &&
  (p.2 != c '*' || wildcardOK p.1) && (p.2 != c '!' || p.1 == c 'm')

def count (p : Nat → Bool) (ps : List (Nat × Nat)) : Nat := (ps.filter (fun x => p x.1)).length

/-- **mutual compatibility of one entry** -/
def wellFormed (e : Opdata) : Bool :=
  match pairs e.args with
  | none => false
  | some ps =>
    let f := e.flags
    let wild := ps.filter (fun p => p.2 == c '*' && !isImm p.1)
    let wimm := ps.filter (fun p => p.2 == c '*' && isImm p.1)
    let nauto := [AUTO_SIZE, AUTO_NO32, AUTO_REXW, AUTO_VEXL].countP (has f)
    let anyAuto := nauto != 0
    let nm := count isMem ps
    let ns := count isSpecial ps
    let nr := count isReg ps
    let need := (if has f IMM_OP then 1 else 0) + (if has f VEX_OP || has f XOP_OP then 1 else 0) + (if has f SHORT_ARG then 1 else 0)
    ps.all pairOK &&
    -- the AUTO_* flags are mutually exclusive and need an operand size: `op_size.expect("No wildcard sizes")`
    nauto ≤ 1 && (!anyAuto || !wild.isEmpty) &&
    -- AUTO_VEXL: the operand size must be 16 or 32 bytes, the others: 2, 4 or 8 (`panic!("bad formatting data")`)
    (!has f AUTO_VEXL || (wild.all (fun p => p.1 == c 'y' || p.1 == c 'w' || p.1 == c 'k' || p.1 == c 'l' || p.1 == c 'm') &&
        -- … and must come from a vector operand: with only `m*` any size keyword matches and 8 bytes reaches the panic
        wild.any (fun p => p.1 == c 'y' || p.1 == c 'w' || p.1 == c 'k' || p.1 == c 'l'))) &&
    (!(has f AUTO_SIZE || has f AUTO_NO32 || has f AUTO_REXW) ||
        wild.all (fun p => p.1 == c 'r' || p.1 == c 'v' || p.1 == c 'm' || isFixedGp p.1)) &&
    -- AUTO_SIZE lets the operands be 16, 32 or 64 bits wide (66 prefix / nothing / REX.W): an immediate of one fixed width other than a byte
    -- cannot be right for all of them (`cmp ax, imm32` after a 66 prefix is read as `cmp ax, imm16` + two stray bytes)
    (!has f AUTO_SIZE || ps.all (fun p => !isImm p.1 || p.2 == c '*' || p.2 == c 'b')) &&
    -- at most one wildcard-sized immediate, and only next to a wildcard-sized operand (`im_size.unwrap()`)
    wimm.length ≤ 1 && (wimm.isEmpty || !wild.isEmpty) &&
    -- prefixes / opcode bytes: map-select byte, immediate opcode byte, short-argument byte
    !(has f VEX_OP && has f XOP_OP) && e.ops.length ≥ max need 1 && e.ops.all (· < 256) &&
    -- `extract_args`: at most one memory operand, one segment/control/debug register, four encoded registers
    nm ≤ 1 && ns ≤ 1 && nm + ns + nr ≤ 4 &&
    -- SHORT_ARG encodes a direct register in the last opcode byte
    (!has f SHORT_ARG || (nr ≥ 1 && nm == 0)) &&
    -- the reg digit is an opcode extension 0..7 or absent
    (e.reg ≤ 7 || e.reg == 255) &&
    -- an opcode-extension digit occupies ModRM.reg: `extract_args` must not put an operand there, i.e. at most the r/m operand, or
    -- (ENC_VM) one operand in VEX.vvvv and one in r/m; otherwise the register number silently overwrites the digit
    (e.reg == 255 || (ns == 0 && (nm + nr ≤ 1 || (nm + nr == 2 && has f ENC_VM))))

end DynasmVerif.X64
