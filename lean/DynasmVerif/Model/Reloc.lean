/-!
# Model of the relocation formats (`runtime/src/{relocations,x64,x86,aarch64,riscv}.rs`)

Import-free.  Values are `BitVec 64` (Rust `isize`/`i64` on the 64-bit host), instruction words are
kept in a `BitVec 64` container (little-endian word of `size` bytes, zero-extended).

`RelocSpec` is the data the translator (`lib/relocspec.py`) extracts from the Rust source text; the
constants below (`Fmt.spec`) are the hand-written copy the theorems are proved about, and
`Generated/RelocSpec.lean` must be equal to it (`by decide`), see `Props/C05.lean`.
-/

namespace DynasmVerif.Reloc

/-- one `instr |= (((val + bias) >> vshift) & mask) << ishift` step of a `write_value` arm. -/
structure Piece where
  bias   : Nat
  vshift : Nat
  mask   : Nat
  ishift : Nat
deriving DecidableEq, Repr, Inhabited

/-- one `unpacked |= ((instr >> ishift) & mask) << vshift` step of a `read_value` arm. -/
structure RPiece where
  ishift : Nat
  mask   : Nat
  vshift : Nat
deriving DecidableEq, Repr, Inhabited

/-- the shape of the range test in front of the packing code -/
inductive RangeKind
  /-- `value & (2^align - 1) == 0 && fits_signed_bitfield(value >> align, bits)` (aarch64 B/BCOND/TBZ/ADR) -/
  | shifted (align bits : Nat)
  /-- `fits_signed_bitfield((value + bias) >> shift, bits)` (aarch64 ADRP) -/
  | biased (bias shift bits : Nat)
  /-- `fits_signed_bitfield(value, bits) && value & (2^scale - 1) == 0` (riscv single instruction, plain) -/
  | fits (bits scale : Nat)
  /-- `lo <= value <= hi` given as offsets from zero: `-(nlo) <= value <= hi` (riscv auipc pairs) -/
  | interval (nlo hi : Nat)
deriving DecidableEq, Repr, Inhabited

/-- how `read_value` post-processes the gathered bits -/
inductive ReadKind
  /-- gather `pieces`, sign-extend from `bits` -/
  | gather (pieces : List RPiece) (bits : Nat)
  /-- riscv SPLIT32/SPLIT32S: `hi` pieces, plus the 12-bit sign-extended `lo` pieces, wrapping in u32, then sign-extend 32 -/
  | hiLo (hi lo : List RPiece)
deriving DecidableEq, Repr, Inhabited

structure RelocSpec where
  size   : Nat            -- bytes touched
  keep   : Nat            -- `instr &= keep` (bits that survive)
  pieces : List Piece
  range  : RangeKind
  read   : ReadKind
deriving DecidableEq, Repr, Inhabited

/-- relocation formats; `p1 … p8` cover `RelocationSize`, `X64Relocation`, `X86Relocation` and the `Plain` arms -/
inductive Fmt
  | p1 | p2 | p4 | p8
  | a64B | a64BCOND | a64ADR | a64ADRP | a64TBZ
  | rvB | rvJ | rvBC | rvJC | rvHI20 | rvLO12 | rvLO12S | rvSPLIT32 | rvSPLIT32S
deriving DecidableEq, Repr, Inhabited

/-! ## the code's constants, copied by hand (checked against the extracted ones on every run) -/

def specPlain (n : Nat) : RelocSpec :=
  { size := n, keep := 0,
    pieces := [⟨0, 0, 2 ^ (8 * n) - 1, 0⟩],
    range := .fits (8 * n) 0,
    read := .gather [⟨0, 2 ^ (8 * n) - 1, 0⟩] (8 * n) }

def specA64B : RelocSpec :=
  { size := 4, keep := 0xFC000000,
    pieces := [⟨0, 2, 0x3FFFFFF, 0⟩],
    range := .shifted 2 26,
    read := .gather [⟨0, 0x3FFFFFF, 2⟩] 28 }

def specA64BCOND : RelocSpec :=
  { size := 4, keep := 0xFF00001F,
    pieces := [⟨0, 2, 0x7FFFF, 5⟩],
    range := .shifted 2 19,
    read := .gather [⟨5, 0x7FFFF, 2⟩] 21 }

def specA64ADR : RelocSpec :=
  { size := 4, keep := 0x9F00001F,
    pieces := [⟨0, 2, 0x7FFFF, 5⟩, ⟨0, 0, 3, 29⟩],
    range := .shifted 0 21,
    read := .gather [⟨5, 0x7FFFF, 2⟩, ⟨29, 3, 0⟩] 21 }

def specA64ADRP : RelocSpec :=
  { size := 4, keep := 0x9F00001F,
    pieces := [⟨0xFFF, 14, 0x7FFFF, 5⟩, ⟨0xFFF, 12, 3, 29⟩],
    range := .biased 0xFFF 12 21,
    read := .gather [⟨5, 0x7FFFF, 14⟩, ⟨29, 3, 12⟩] 33 }

def specA64TBZ : RelocSpec :=
  { size := 4, keep := 0xFFF8001F,
    pieces := [⟨0, 2, 0x3FFF, 5⟩],
    range := .shifted 2 14,
    read := .gather [⟨5, 0x3FFF, 2⟩] 16 }

def specRvB : RelocSpec :=
  { size := 4, keep := 0x01FFF07F,
    pieces := [⟨0, 12, 0x1, 31⟩, ⟨0, 5, 0x3F, 25⟩, ⟨0, 1, 0xF, 8⟩, ⟨0, 11, 0x1, 7⟩],
    range := .fits 12 1,
    read := .gather [⟨31, 0x1, 12⟩, ⟨25, 0x3F, 5⟩, ⟨8, 0xF, 1⟩, ⟨7, 0x1, 11⟩] 13 }

def specRvJ : RelocSpec :=
  { size := 4, keep := 0x00000FFF,
    pieces := [⟨0, 20, 0x1, 31⟩, ⟨0, 1, 0x3FF, 21⟩, ⟨0, 11, 0x1, 20⟩, ⟨0, 12, 0xFF, 12⟩],
    range := .fits 20 1,
    read := .gather [⟨31, 0x1, 20⟩, ⟨21, 0x3FF, 1⟩, ⟨20, 0x1, 11⟩, ⟨12, 0xFF, 12⟩] 21 }

def specRvBC : RelocSpec :=
  { size := 2, keep := 0xE383,
    pieces := [⟨0, 8, 0x1, 12⟩, ⟨0, 3, 0x3, 10⟩, ⟨0, 6, 0x3, 5⟩, ⟨0, 1, 0x3, 3⟩, ⟨0, 5, 0x1, 2⟩],
    range := .fits 9 1,
    read := .gather [⟨12, 0x1, 8⟩, ⟨10, 0x3, 3⟩, ⟨5, 0x3, 6⟩, ⟨3, 0x3, 1⟩, ⟨2, 0x1, 5⟩] 9 }

def specRvJC : RelocSpec :=
  { size := 2, keep := 0xE003,
    pieces := [⟨0, 11, 0x1, 12⟩, ⟨0, 4, 0x1, 11⟩, ⟨0, 8, 0x3, 9⟩, ⟨0, 10, 0x1, 8⟩, ⟨0, 6, 0x1, 7⟩,
               ⟨0, 7, 0x1, 6⟩, ⟨0, 1, 0x7, 3⟩, ⟨0, 5, 0x1, 2⟩],
    range := .fits 12 1,
    read := .gather [⟨12, 0x1, 11⟩, ⟨11, 0x1, 4⟩, ⟨9, 0x3, 8⟩, ⟨8, 0x1, 10⟩, ⟨7, 0x1, 6⟩,
                     ⟨6, 0x1, 7⟩, ⟨3, 0x7, 1⟩, ⟨2, 0x1, 5⟩] 12 }

def specRvHI20 : RelocSpec :=
  { size := 4, keep := 0x00000FFF,
    pieces := [⟨0x800, 0, 0xFFFFF000, 0⟩],
    range := .interval 0x80000800 0x7FFFF7FF,
    read := .gather [⟨12, 0xFFFFF, 12⟩] 32 }

def specRvLO12 : RelocSpec :=
  { size := 4, keep := 0x000FFFFF,
    pieces := [⟨0, 0, 0xFFF, 20⟩],
    range := .interval 0x80000800 0x7FFFF7FF,
    read := .gather [⟨20, 0xFFF, 0⟩] 12 }

def specRvLO12S : RelocSpec :=
  { size := 4, keep := 0x01FFF07F,
    pieces := [⟨0, 0, 0x1F, 7⟩, ⟨0, 5, 0x7F, 25⟩],
    range := .interval 0x80000800 0x7FFFF7FF,
    read := .gather [⟨7, 0x1F, 0⟩, ⟨25, 0x7F, 5⟩] 12 }

/-- the pair formats: the second instruction is the high half of the 8-byte little-endian word -/
def specRvSPLIT32 : RelocSpec :=
  { size := 8, keep := 0x000FFFFF00000FFF,
    pieces := [⟨0x800, 0, 0xFFFFF000, 0⟩, ⟨0, 0, 0xFFF, 52⟩],
    range := .interval 0x80000800 0x7FFFF7FF,
    read := .hiLo [⟨12, 0xFFFFF, 12⟩] [⟨52, 0xFFF, 0⟩] }

def specRvSPLIT32S : RelocSpec :=
  { size := 8, keep := 0x01FFF07F00000FFF,
    pieces := [⟨0x800, 0, 0xFFFFF000, 0⟩, ⟨0, 0, 0x1F, 39⟩, ⟨0, 5, 0x7F, 57⟩],
    range := .interval 0x80000800 0x7FFFF7FF,
    read := .hiLo [⟨12, 0xFFFFF, 12⟩] [⟨39, 0x1F, 0⟩, ⟨57, 0x7F, 5⟩] }

def Fmt.spec : Fmt → RelocSpec
  | .p1 => specPlain 1 | .p2 => specPlain 2 | .p4 => specPlain 4 | .p8 => specPlain 8
  | .a64B => specA64B | .a64BCOND => specA64BCOND | .a64ADR => specA64ADR
  | .a64ADRP => specA64ADRP | .a64TBZ => specA64TBZ
  | .rvB => specRvB | .rvJ => specRvJ | .rvBC => specRvBC | .rvJC => specRvJC
  | .rvHI20 => specRvHI20 | .rvLO12 => specRvLO12 | .rvLO12S => specRvLO12S
  | .rvSPLIT32 => specRvSPLIT32 | .rvSPLIT32S => specRvSPLIT32S

def Fmt.size (f : Fmt) : Nat := f.spec.size

/-! ## the generic interpreter of a spec (what `write_value` / `read_value` do) -/

/-- `fits_signed_bitfield(value, bits)` of `relocations.rs` on an `i64` bit pattern -/
def fitsSigned (v : BitVec 64) (bits : Nat) : Bool :=
  if bits ≥ 64 then true
  else
    let half : BitVec 64 := 1#64 <<< (bits - 1)
    v.slt half && (-half).sle v

/-- the range / alignment test, as the code performs it (wrapping `i64` arithmetic) -/
def inRangeCode (r : RangeKind) (v : BitVec 64) : Bool :=
  match r with
  | .shifted align bits =>
      (v &&& ((1#64 <<< align) - 1#64)) == 0#64 && fitsSigned (v.sshiftRight align) bits
  | .biased bias shift bits =>
      fitsSigned ((v + BitVec.ofNat 64 bias).sshiftRight shift) bits
  | .fits bits scale =>
      fitsSigned v bits && (v &&& ((1#64 <<< scale) - 1#64)) == 0#64
  | .interval nlo hi =>
      (-(BitVec.ofNat 64 nlo)).sle v && v.sle (BitVec.ofNat 64 hi)

def applyPiece (v : BitVec 64) (p : Piece) : BitVec 64 :=
  ((((v + BitVec.ofNat 64 p.bias) >>> p.vshift) &&& BitVec.ofNat 64 p.mask) <<< p.ishift)

def applyPieces (v : BitVec 64) : List Piece → BitVec 64
  | [] => 0#64
  | p :: ps => applyPiece v p ||| applyPieces v ps

/-- the word written back by `write_value` when the range test passed -/
def scatterWrite (s : RelocSpec) (old v : BitVec 64) : BitVec 64 :=
  (old &&& BitVec.ofNat 64 s.keep) ||| applyPieces v s.pieces

/-- `write_value`: `none` = `Err(ImpossibleRelocation)` -/
def write (f : Fmt) (old v : BitVec 64) : Option (BitVec 64) :=
  if inRangeCode f.spec.range v then some (scatterWrite f.spec old v) else none

def gatherPiece (w : BitVec 64) (p : RPiece) : BitVec 64 :=
  (((w >>> p.ishift) &&& BitVec.ofNat 64 p.mask) <<< p.vshift)

def gatherPieces (w : BitVec 64) : List RPiece → BitVec 64
  | [] => 0#64
  | p :: ps => gatherPiece w p ||| gatherPieces w ps

/-- `(x ^ offset).wrapping_sub(offset)` with `offset = 1 << (bits-1)` -/
def signExtendFrom (x : BitVec 64) (bits : Nat) : BitVec 64 :=
  let off : BitVec 64 := 1#64 <<< (bits - 1)
  (x ^^^ off) - off

/-- `read_value` -/
def read (f : Fmt) (w : BitVec 64) : BitVec 64 :=
  match f.spec.read with
  | .gather ps bits => signExtendFrom (gatherPieces w ps) bits
  | .hiLo hi lo =>
      let h : BitVec 32 := (gatherPieces w hi).truncate 32
      let l : BitVec 32 := (gatherPieces w lo).truncate 32
      let l' : BitVec 32 := (l ^^^ 0x800#32) - 0x800#32
      signExtendFrom ((h + l').zeroExtend 64) 32

/-- the mask of the bits a format may change (complement of `keep` inside the word) -/
def fieldMask (f : Fmt) : BitVec 64 :=
  BitVec.ofNat 64 (2 ^ (8 * f.size) - 1) &&& ~~~ BitVec.ofNat 64 f.spec.keep

/-! ## architecture-side decoders, written from the manuals (independent of the code above)

All take the instruction word(s) and return the signed displacement the hardware adds to the
reference point (`pc` for branches/`adr`/`auipc`, the page of `pc` for `adrp`). -/


/-- A64 `B`/`BL`: `SignExtend(imm26:'00', 64)` -/
def decA64B (w : BitVec 32) : BitVec 64 := (w.extractLsb' 0 26 ++ 0#2).signExtend 64
/-- A64 `B.cond`, `CBZ`, `LDR (literal)`: `SignExtend(imm19:'00', 64)`, imm19 = bits 23:5 -/
def decA64BCOND (w : BitVec 32) : BitVec 64 := (w.extractLsb' 5 19 ++ 0#2).signExtend 64
/-- A64 `TBZ`/`TBNZ`: `SignExtend(imm14:'00', 64)`, imm14 = bits 18:5 -/
def decA64TBZ (w : BitVec 32) : BitVec 64 := (w.extractLsb' 5 14 ++ 0#2).signExtend 64
/-- A64 `ADR`: `SignExtend(immhi:immlo, 64)`, immhi = bits 23:5, immlo = bits 30:29 -/
def decA64ADR (w : BitVec 32) : BitVec 64 := (w.extractLsb' 5 19 ++ w.extractLsb' 29 2).signExtend 64
/-- A64 `ADRP`: `SignExtend(immhi:immlo:Zeros(12), 64)`, added to `pc` with its low 12 bits cleared -/
def decA64ADRP (w : BitVec 32) : BitVec 64 :=
  (w.extractLsb' 5 19 ++ w.extractLsb' 29 2 ++ 0#12).signExtend 64

/-- RISC-V B-type: `imm[12|10:5]` = bits 31:25, `imm[4:1|11]` = bits 11:7 -/
def decRvB (w : BitVec 32) : BitVec 64 :=
  (w.extractLsb' 31 1 ++ w.extractLsb' 7 1 ++ w.extractLsb' 25 6 ++ w.extractLsb' 8 4 ++ 0#1).signExtend 64
/-- RISC-V J-type: `imm[20|10:1|11|19:12]` = bits 31:12 -/
def decRvJ (w : BitVec 32) : BitVec 64 :=
  (w.extractLsb' 31 1 ++ w.extractLsb' 12 8 ++ w.extractLsb' 20 1 ++ w.extractLsb' 21 10 ++ 0#1).signExtend 64
/-- RVC CB-type (`c.beqz`/`c.bnez`): `offset[8|4:3]` = bits 12:10, `offset[7:6|2:1|5]` = bits 6:2 -/
def decRvBC (w : BitVec 16) : BitVec 64 :=
  (w.extractLsb' 12 1 ++ w.extractLsb' 5 2 ++ w.extractLsb' 2 1 ++ w.extractLsb' 10 2 ++ w.extractLsb' 3 2 ++ 0#1).signExtend 64
/-- RVC CJ-type (`c.j`/`c.jal`): `offset[11|4|9:8|10|6|7|3:1|5]` = bits 12:2 -/
def decRvJC (w : BitVec 16) : BitVec 64 :=
  (w.extractLsb' 12 1 ++ w.extractLsb' 8 1 ++ w.extractLsb' 9 2 ++ w.extractLsb' 6 1 ++ w.extractLsb' 7 1
    ++ w.extractLsb' 2 1 ++ w.extractLsb' 11 1 ++ w.extractLsb' 3 3 ++ 0#1).signExtend 64
/-- U-type (`auipc`/`lui`) contribution on RV64: `SignExtend(imm[31:12]:Zeros(12))` -/
def decRvU (w : BitVec 32) : BitVec 64 := (w.extractLsb' 12 20 ++ 0#12).signExtend 64
/-- I-type immediate: `SignExtend(bits 31:20)` -/
def decRvI (w : BitVec 32) : BitVec 64 := (w.extractLsb' 20 12).signExtend 64
/-- S-type immediate: `SignExtend(bits 31:25 : bits 11:7)` -/
def decRvS (w : BitVec 32) : BitVec 64 := (w.extractLsb' 25 7 ++ w.extractLsb' 7 5).signExtend 64

/-- What the architecture makes of the patched word(s), as a 64-bit displacement (RV64 semantics for the
auipc pairs; `HI20`/`LO12`/`LO12S` alone decode to their own share of the pair). -/
def archDecode (f : Fmt) (w : BitVec 64) : BitVec 64 :=
  match f with
  -- two's-complement little-endian data fields
  | .p1 => (w.truncate 8).signExtend 64
  | .p2 => (w.truncate 16).signExtend 64
  | .p4 => (w.truncate 32).signExtend 64
  | .p8 => w
  | .a64B => decA64B (w.truncate 32)
  | .a64BCOND => decA64BCOND (w.truncate 32)
  | .a64ADR => decA64ADR (w.truncate 32)
  | .a64ADRP => decA64ADRP (w.truncate 32)
  | .a64TBZ => decA64TBZ (w.truncate 32)
  | .rvB => decRvB (w.truncate 32)
  | .rvJ => decRvJ (w.truncate 32)
  | .rvBC => decRvBC (w.truncate 16)
  | .rvJC => decRvJC (w.truncate 16)
  | .rvHI20 => decRvU (w.truncate 32)
  | .rvLO12 => decRvI (w.truncate 32)
  | .rvLO12S => decRvS (w.truncate 32)
  | .rvSPLIT32 => decRvU (w.truncate 32) + decRvI ((w >>> 32).truncate 32)
  | .rvSPLIT32S => decRvU (w.truncate 32) + decRvS ((w >>> 32).truncate 32)

/-- The value the architecture-side decoding must equal for the property to hold (the "meaning" of writing `v`):
`v` itself, except that `adrp` only promises the page delta for page-aligned targets (see `Props/C05`), and the
halves of an auipc pair carry their share. -/
def expectedDecode (f : Fmt) (v : BitVec 64) : BitVec 64 :=
  match f with
  | .a64ADRP => ((v + 0xFFF#64).sshiftRight 12) <<< 12
  | .rvHI20 => ((v + 0x800#64).sshiftRight 12) <<< 12
  | .rvLO12 | .rvLO12S => (v.truncate 12).signExtend 64
  | _ => v

/-! ## little-endian bytes -/

def leBytes (n : Nat) (w : BitVec 64) : List (BitVec 8) :=
  (List.range n).map fun i => (w >>> (8 * i)).truncate 8

def ofLeBytes (bs : List (BitVec 8)) : BitVec 64 :=
  bs.foldr (fun b acc => (acc <<< 8) ||| b.zeroExtend 64) 0#64

/-! ## names used by the line protocol -/

def Fmt.ofName? : String → Option Fmt
  | "x64.1" | "a64.P1" | "rv.P1" | "x86.1" | "p.1" => some .p1
  | "x64.2" | "a64.P2" | "rv.P2" | "x86.2" | "p.2" => some .p2
  | "x64.4" | "a64.P4" | "rv.P4" | "x86.4" | "p.4" => some .p4
  | "x64.8" | "a64.P8" | "rv.P8" | "x86.8" | "p.8" => some .p8
  | "a64.B" => some .a64B | "a64.BCOND" => some .a64BCOND | "a64.ADR" => some .a64ADR
  | "a64.ADRP" => some .a64ADRP | "a64.TBZ" => some .a64TBZ
  | "rv.B" => some .rvB | "rv.J" => some .rvJ | "rv.BC" => some .rvBC | "rv.JC" => some .rvJC
  | "rv.HI20" => some .rvHI20 | "rv.LO12" => some .rvLO12 | "rv.LO12S" => some .rvLO12S
  | "rv.SPLIT32" => some .rvSPLIT32 | "rv.SPLIT32S" => some .rvSPLIT32S
  | _ => none

/-! ## the property, as an executable predicate on an observed result (used on the implementation's outputs) -/

/-- documented range of a format: inclusive bounds and required alignment (independent of `inRangeCode`) -/
def docRange : Fmt → Int × Int × Nat
  | .p1 => (-128, 127, 1)
  | .p2 => (-32768, 32767, 1)
  | .p4 => (-0x80000000, 0x7FFFFFFF, 1)
  | .p8 => (-0x8000000000000000, 0x7FFFFFFFFFFFFFFF, 1)
  | .a64B => (-(2 ^ 27 : Nat), (2 ^ 27 : Nat) - 4, 4)
  | .a64BCOND => (-(2 ^ 20 : Nat), (2 ^ 20 : Nat) - 4, 4)
  | .a64ADR => (-(2 ^ 20 : Nat), (2 ^ 20 : Nat) - 1, 1)
  -- page delta `(v + 0xFFF) >> 12` in 21 bits
  | .a64ADRP => (-(2 ^ 32 : Nat) - 0xFFF, (2 ^ 32 : Nat) - 0x1000, 1)
  | .a64TBZ => (-(2 ^ 15 : Nat), (2 ^ 15 : Nat) - 4, 4)
  -- langref_riscv.md table 7: B +-2 KiB, J +-512 KiB as implemented
  | .rvB => (-2048, 2046, 2)
  | .rvJ => (-(2 ^ 19 : Nat), (2 ^ 19 : Nat) - 2, 2)
  | .rvBC => (-256, 254, 2)
  | .rvJC => (-2048, 2046, 2)
  | .rvHI20 | .rvLO12 | .rvLO12S | .rvSPLIT32 | .rvSPLIT32S => (-0x80000800, 0x7FFFF7FF, 1)

def intLe (a b : Int) : Bool := decide (a ≤ b)

def inRangeDoc (f : Fmt) (v : BitVec 64) : Bool :=
  intLe (docRange f).1 v.toInt && intLe v.toInt (docRange f).2.1 && (v.toInt % ((docRange f).2.2 : Int) == 0)

/-- where reading a patched field back is defined (C05: all of the range for single-field formats, page multiples
for ADRP, the 12-bit share for LO12/LO12S, the i32 part of the range for the pairs, nowhere for HI20) -/
def readDefined (f : Fmt) (v : BitVec 64) : Bool :=
  inRangeDoc f v &&
  match f with
  | .a64ADRP => v.toInt % 4096 == 0
  | .rvHI20 => false
  | .rvLO12 | .rvLO12S => intLe (-2048) v.toInt && intLe v.toInt 2047
  | .rvSPLIT32 | .rvSPLIT32S => intLe (-0x80000000) v.toInt
  | _ => true

/-- evaluate the C05 write clause on an observed result (`none` = impossible-relocation error) -/
def checkWrite (f : Fmt) (old v : BitVec 64) (res : Option (BitVec 64)) : String :=
  match res with
  | none => if inRangeDoc f v then "fails rejected-in-range" else "holds"
  | some w =>
    if !inRangeDoc f v then "fails accepted-out-of-range"
    else if archDecode f w != expectedDecode f v then "fails decode"
    else if (w &&& ~~~ fieldMask f) != (old &&& ~~~ fieldMask f) then "fails clobbered-other-bits"
    else "holds"

/-- evaluate the C05 read-back clause on an observed read of the word produced by writing `v` -/
def checkRead (f : Fmt) (v : BitVec 64) (got : BitVec 64) : String :=
  if readDefined f v && got != v then "fails read-back" else "holds"

end DynasmVerif.Reloc
