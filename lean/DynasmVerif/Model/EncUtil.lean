import DynasmVerif.Model.A64Enc
import DynasmVerif.Model.RvEnc

/-! helpers shared by the generated obligation files (C03, C04) -/

namespace DynasmVerif.Enc
open DynasmVerif

/-- documented operand set `Range(lo, hi, step)`: lo ≤ v < hi, v ≡ lo (mod step) -/
def inRange (lo hi : Int) (step : Nat) (v : BitVec 64) : Bool :=
  (BitVec.ofInt 64 lo).sle v && v.slt (BitVec.ofInt 64 hi) && ((v - BitVec.ofInt 64 lo) % BitVec.ofNat 64 step == 0)

/-- `Range2`: 1 ≤ v < hi - prev (the previous operand is itself inside its own range) -/
def inRange2 (hi : Int) (prev v : BitVec 64) : Bool :=
  (1#64).sle v && v.slt (BitVec.ofInt 64 hi - prev) && prev.slt (BitVec.ofInt 64 hi) && (0#64).sle prev

def l32val (v : BitVec 32) : BitVec 13 := (A64Imm.L32.encVal v).truncate 13
def l64val (v : BitVec 64) : BitVec 13 := (A64Imm.L64.encVal v).truncate 13

end DynasmVerif.Enc

open DynasmVerif.A64Enc DynasmVerif.Enc in
/-- unfold the literal-path model down to bit-vector operations on literals -/
macro "enc_unfold" : tactic => `(tactic|
  simp only [slotStatic, cmdStatic, staticCheck, bitmask, at_, half, rpos, rposFound, rposIdx, ufieldsAux, special, offsetImm, inRange, inRange2, l32val, l64val,
    List.reverse_cons, List.reverse_nil, List.nil_append, List.cons_append, List.length_cons, List.length_nil,
    DynasmVerif.A64Imm.W32.encOk, DynasmVerif.A64Imm.W32.encVal, DynasmVerif.A64Imm.W32.masked, DynasmVerif.A64Imm.W32.offset, DynasmVerif.A64Imm.W32.ctz,
    DynasmVerif.A64Imm.W64.encOk, DynasmVerif.A64Imm.W64.encVal, DynasmVerif.A64Imm.W64.masked, DynasmVerif.A64Imm.W64.offset, DynasmVerif.A64Imm.W64.ctz,
    DynasmVerif.A64Imm.Stretched.encOk, DynasmVerif.A64Imm.Stretched.encVal, DynasmVerif.A64Imm.Stretched.spread,
    DynasmVerif.A64Imm.Float.encOk, DynasmVerif.A64Imm.Float.encVal] at *)

open DynasmVerif.RvEnc DynasmVerif.Enc in
/-- unfold the riscv literal-path model down to bit-vector operations on literals -/
macro "rv_unfold" : tactic => `(tactic|
  simp only [Check.ok, rangeOk, DynasmVerif.RvEnc.bitmask, contrib, Field.value, shl32, inRange, inRange2,
    Nat.reduceDiv, Nat.reduceMod, Nat.reduceBEq, Nat.reducePow, Nat.reduceSub, if_true, if_false, Bool.false_eq_true, BitVec.or_zero, BitVec.zero_or] at *)
