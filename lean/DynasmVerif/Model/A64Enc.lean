import DynasmVerif.Model.A64Table
import DynasmVerif.Model.A64Imm

/-!
# A64Enc — the compile-time (literal operand) path of the aarch64 immediate commands (C03, C04)

Transcription of the `Some(static value)` arms of `plugin/src/arch/aarch64/compiler.rs compile_instruction`
(`FlatArg::Immediate`), `static_range_check` and `handle_special_immediates`: what a LITERAL operand contributes to the
instruction word, or that it is rejected. The run-time path is not transcribed by hand: the Rust expression the macro generates
is translated mechanically on every run (lib/rustexpr.py → Generated/A64Dyn.lean) and proved equal to this model.

A literal is the `i64` / `u64` the plugin parses (`as_signed_number` / `as_unsigned_number`): a `BitVec 64`.
-/

namespace DynasmVerif.A64Enc
open DynasmVerif.A64 DynasmVerif

def bitmask (l : Nat) : BitVec 32 := BitVec.ofNat 32 (2 ^ l - 1)

/-- place a field -/
def at_ (x : BitVec 32) (o : Nat) : BitVec 32 := x <<< o

/-- accepted? and the contribution to the instruction word (meaningful when accepted). Kept as a pair of a `Bool` and a bit-vector
(not an `Option`) so that every statement about it is a bit-blasting goal. -/
abbrev Res := Bool × BitVec 32

/-- `static_range_check(value, bias, range, scale)`: accepted?, `biased`, `scaled` (both as `u32`) -/
def staticCheck (v : BitVec 64) (bias : Int) (range : BitVec 32) (scale : Nat) : Bool × BitVec 32 × BitVec 32 :=
  let scaled := v.sshiftRight scale
  let biased := scaled - BitVec.ofInt 64 bias
  ((scaled <<< scale) == v && !(biased.slt 0) && !((range.zeroExtend 64).slt biased), biased.truncate 32, scaled.truncate 32)

/-- `options.iter().rposition(|&n| u64::from(n) == number)`: found?, index (the last match wins) -/
def rposFound : List Nat → BitVec 64 → Bool
  | [], _ => false
  | o :: rest, v => BitVec.ofNat 64 o == v || rposFound rest v

def rposIdx : List Nat → Nat → BitVec 64 → BitVec 32 → BitVec 32
  | [], _, _, acc => acc
  | o :: rest, i, v, acc => rposIdx rest (i + 1) v (if BitVec.ofNat 64 o == v then BitVec.ofNat 32 i else acc)

def rpos (opts : List Nat) (v : BitVec 64) : Bool × BitVec 32 := (rposFound opts v, rposIdx opts 0 v 0)

/-- `Ufields`: bit `i` of the value (counted from the last listed field) goes to that field's position -/
def ufieldsAux : List Nat → Nat → BitVec 32 → BitVec 32
  | [], _, _ => 0
  | f :: rest, i, biased => at_ ((biased >>> i) &&& 1) f ||| ufieldsAux rest (i + 1) biased

def half (l : Nat) : Int := -(2 ^ (l - 1) : Int)

/-- special immediates: the helper functions are the C14 models -/
def special (o : Nat) (k : SpecialComm) (v : BitVec 64) : Res :=
  let fits32 := v >>> 32 == 0
  let v32 : BitVec 32 := v.truncate 32
  match k with
  | .WIDE_IMMEDIATE_W => (fits32 && A64Imm.W32.encOk v32, at_ (A64Imm.W32.encVal v32) o)
  | .INVERTED_WIDE_IMMEDIATE_W => (fits32 && A64Imm.W32.encOk (~~~v32), at_ (A64Imm.W32.encVal (~~~v32)) o)
  | .WIDE_IMMEDIATE_X => (A64Imm.W64.encOk v, at_ (A64Imm.W64.encVal v) o)
  -- the literal path of INVERTED_WIDE_IMMEDIATE_X is switched off in the source (`None::<u64>`): a literal runs the run-time code,
  -- whose meaning is this
  | .INVERTED_WIDE_IMMEDIATE_X => (A64Imm.W64.encOk (~~~v), at_ (A64Imm.W64.encVal (~~~v)) o)
  | .LOGICAL_IMMEDIATE_W => (fits32 && A64Imm.L32.encOk v32, at_ ((A64Imm.L32.encVal v32).zeroExtend 32) o)
  | .LOGICAL_IMMEDIATE_X => (A64Imm.L64.encOk v, at_ ((A64Imm.L64.encVal v).zeroExtend 32) o)
  | .STRETCHED_IMMEDIATE =>
    (A64Imm.Stretched.encOk v, at_ (A64Imm.Stretched.encVal v &&& 0x1F) o ||| at_ (A64Imm.Stretched.encVal v &&& 0xE0) (o + 6))
  -- floats enter as the bits of the f32 the literal rounds to
  | .FLOAT_IMMEDIATE => (A64Imm.Float.encOk v32, at_ ((A64Imm.Float.encVal v32).zeroExtend 32) o)
  | .SPLIT_FLOAT_IMMEDIATE =>
    (A64Imm.Float.encOk v32, at_ ((A64Imm.Float.encVal v32).zeroExtend 32 &&& 0x1F) o ||| at_ ((A64Imm.Float.encVal v32).zeroExtend 32 &&& 0xE0) (o + 6))

/-- jump-target slots given as an immediate -/
def offsetImm (r : Reloc) (v : BitVec 64) : Res :=
  match r with
  | .B => let p := staticCheck v (half 26) (bitmask 26) 2; (p.1, p.2.2 &&& bitmask 26)
  | .BCOND => let p := staticCheck v (half 19) (bitmask 19) 2; (p.1, at_ (p.2.2 &&& bitmask 19) 5)
  | .TBZ => let p := staticCheck v (half 14) (bitmask 14) 2; (p.1, at_ (p.2.2 &&& bitmask 14) 5)
  | .ADR => let p := staticCheck v (half 21) (bitmask 21) 0; (p.1, at_ ((p.2.2 >>> 2) &&& 0x7FFFF) 5 ||| at_ (p.2.2 &&& 3) 29)
  | .ADRP => let p := staticCheck v (half 21) (bitmask 21) 12; (p.1, at_ ((p.2.2 >>> 2) &&& 0x7FFFF) 5 ||| at_ (p.2.2 &&& 3) 29)
  | _ => (false, 0)

/-- one command on a literal operand: accepted? and its contribution to the word (`prev` = the previous literal operand, for Usum/CUsum) -/
def cmdStatic (c : Command) (prev v : BitVec 64) : Res :=
  match c with
  | .Ubits o l => let p := staticCheck v 0 (bitmask l) 0; (p.1, at_ p.2.1 o)
  | .Uscaled o l s => let p := staticCheck v 0 (bitmask l) s; (p.1, at_ p.2.1 o)
  | .Uslice o l s => (true, at_ (((v.truncate 32 : BitVec 32) >>> s) &&& bitmask l) o)
  | .Ulist o opts => let p := rpos opts v; (p.1, at_ p.2 o)
  | .Urange o mn mx => let p := staticCheck v mn (BitVec.ofNat 32 (mx - mn)) 0; (p.1, at_ p.2.1 o)
  | .Usubone o l => let p := staticCheck v 1 (bitmask l) 0; (p.1, at_ (bitmask l - p.2.1) o)
  | .Usubzero o l => let p := staticCheck v 0 (bitmask l) 0; (p.1, at_ (bitmask l - p.2.1) o)
  | .Usubmod o l => let p := staticCheck v 0 (bitmask l) 0; (p.1, at_ ((-p.2.1) &&& bitmask l) o)
  | .Usum o l =>
    let p := staticCheck v 1 (bitmask l - prev.truncate 32) 0
    (!(((bitmask l).zeroExtend 64).ult prev) && p.1, at_ ((p.2.1 + prev.truncate 32) &&& bitmask l) o)
  | .Ufields fs => let p := staticCheck v 0 (bitmask fs.length) 0; (p.1, ufieldsAux fs.reverse 0 p.2.1)
  | .Sbits o l => let p := staticCheck v (half l) (bitmask l) 0; (p.1, at_ (p.2.2 &&& bitmask l) o)
  | .Sscaled o l s => let p := staticCheck v (half l) (bitmask l) s; (p.1, at_ (p.2.2 &&& bitmask l) o)
  | .Sslice o l s => (true, at_ ((v.sshiftRight s).truncate 32 &&& bitmask l) o)
  | .CUbits l => ((staticCheck v 0 (bitmask l) 0).1, 0)
  | .CUsum l => (!(((bitmask l).zeroExtend 64).ult prev) && (staticCheck v 1 (bitmask l - prev.truncate 32) 0).1, 0)
  | .CSscaled l s => ((staticCheck v (half l) (bitmask l) s).1, 0)
  | .CUrange mn mx => ((staticCheck v mn (BitVec.ofNat 32 (mx - mn)) 0).1, 0)
  | .Special o k => special o k v
  | .Offset r => offsetImm r v
  | _ => (false, 0)

/-- all commands that look at one operand: accepted if all accept, the union of the contributions -/
def slotStatic : List Command → BitVec 64 → BitVec 64 → Res
  | [], _, _ => (true, 0)
  | c :: rest, prev, v => ((cmdStatic c prev v).1 && (slotStatic rest prev v).1, (cmdStatic c prev v).2 ||| (slotStatic rest prev v).2)

end DynasmVerif.A64Enc
