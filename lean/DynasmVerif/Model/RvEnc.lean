/-!
# RvEnc — the compile-time (literal operand) path of the riscv immediate commands (C03, C04)

Transcription of `plugin/src/arch/riscv/compiler.rs`: the `Some(static_value)` arms of UImm / SImm / BigImm / UImmNo0 / SImmNo0 /
UImmOdd / UImmRange / Offset(with an immediate), `static_range_check`, and `ImmediateEncoder::gather_fields` (BitRange / RBitRange with
offsets ≥ 32 addressing the later words of a multi-word template). A literal is the `i64` the plugin parses: a `BitVec 64`.
The run-time path is translated mechanically from the generated Rust on every run (Generated/RvDyn.lean) and proved equal to this.
-/

namespace DynasmVerif.RvEnc

def bitmask (l : Nat) : BitVec 32 := BitVec.ofNat 32 (2 ^ l - 1)

/-- the check a command performs on the literal -/
inductive Check
  /-- `static_range_check(value, min, range, scale)`: min ≤ value, value - min ≤ range, the low `scale` bits of value - min are zero -/
  | range (min : Int) (range : Nat) (scale : Nat)
  /-- the same and value ≠ 0 -/
  | rangeNo0 (min : Int) (range : Nat) (scale : Nat)
  /-- UImmOdd: 0 ≤ value ≤ range and the low `scale` bits are all ones -/
  | odd (range : Nat) (scale : Nat)
  /-- BigImm(bits): -(2^(bits-1)) ≤ value < 2^(bits-1) in 64-bit arithmetic -/
  | big (bits : Nat)
  /-- UImmRange(lo, hi) -/
  | between (lo hi : Nat)
deriving Repr, Inhabited

def rangeOk (v : BitVec 64) (min : Int) (range : Nat) (scale : Nat) : Bool :=
  let m := BitVec.ofInt 64 min
  let biased := v - m
  -- `checked_sub`: v ≥ min, so a negative difference is an overflow ("Immediate too high")
  !(v.slt m) && !(biased.slt 0) && !((BitVec.ofNat 64 range).slt biased) && ((biased.truncate 32 : BitVec 32) &&& bitmask scale == 0)

def Check.ok (c : Check) (v : BitVec 64) : Bool :=
  match c with
  | .range mn r s => rangeOk v mn r s
  | .rangeNo0 mn r s => rangeOk v mn r s && !(v == 0)
  | .odd r s => rangeOk v 0 r 0 && ((v.truncate 32 : BitVec 32) &&& bitmask s == bitmask s)
  | .big bits =>
    let m := BitVec.ofInt 64 (-(2 ^ (bits - 1) : Int))
    !(v.slt m) && !((BitVec.ofNat 64 (2 ^ bits - 1)).ult (v - m))
  | .between lo hi => !(v.slt (BitVec.ofNat 64 lo)) && !((BitVec.ofNat 64 hi).slt v)

/-- BitRange(offset, bits, shift) / RBitRange (rounded: value + 2^(shift-1) before the shift) -/
structure Field where
  rounded : Bool
  offset : Nat
  bits : Nat
  shift : Nat
deriving Repr, Inhabited

def Field.value (f : Field) (v : BitVec 64) : BitVec 32 :=
  let src := if f.rounded then v + BitVec.ofNat 64 (2 ^ (f.shift - 1)) else v
  ((src.sshiftRight f.shift).truncate 32 : BitVec 32) &&& bitmask f.bits

def shl32 (x : BitVec 32) (o : Nat) : BitVec 32 := x <<< o

/-- what the fields contribute to word number `w` of the template -/
def contrib : List Field → BitVec 64 → Nat → BitVec 32
  | [], _, _ => 0
  | f :: rest, v, w => (if f.offset / 32 == w then shl32 (f.value v) (f.offset % 32) else 0) ||| contrib rest v w

end DynasmVerif.RvEnc
