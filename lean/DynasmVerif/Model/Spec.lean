import DynasmVerif.Model.Machine

/-!
# The meaning of a label program, by scanning (nothing in the code corresponds to this file)

A label history is a list of `LOp`s; `lrun` executes it on the shared `Core` with the same functions every front-end
uses. The functions below find definitions by scanning the list — no registry, no generation counters.
-/

namespace DynasmVerif.Spec
open DynasmVerif.Asm

inductive LOp
  | emit (n : Nat)
  | loc (a : Nat) | glob (a : Nat) | newDyn | dynDef (id : Nat)
  | fwd (a : Nat) (r : RefArgs) | bwd (a : Nat) (r : RefArgs) | gref (a : Nat) (r : RefArgs) | dref (id : Nat) (r : RefArgs)

/-- one label-API call on (core, current offset) — exactly what `coreOp` does, plus emission advancing the offset -/
def lstep (s : Core × Nat) : LOp → Core × Nat
  | .emit n => (s.1, s.2 + n)
  | .loc a => (s.1.localLabel a s.2, s.2)
  | .glob a => (s.1.globalLabel a s.2, s.2)
  | .newDyn => (s.1.newDynamic.1, s.2)
  | .dynDef id => (s.1.dynamicLabel id s.2, s.2)
  | .fwd a r => (s.1.forwardReloc a (r.at s.2), s.2)
  | .bwd a r => (s.1.backwardReloc a (r.at s.2), s.2)
  | .gref a r => (s.1.globalReloc a (r.at s.2), s.2)
  | .dref id r => (s.1.dynamicReloc id (r.at s.2), s.2)

def lrun (s : Core × Nat) (ops : List LOp) : Core × Nat := ops.foldl lstep s

/-- offset after the operations, starting at `o` -/
def endOff : Nat → List LOp → Nat
  | o, [] => o
  | o, .emit n :: r => endOff (o + n) r
  | o, _ :: r => endOff o r

/-- offsets of the definitions of local label `a`, in order -/
def localDefs (a : Nat) : Nat → List LOp → List Nat
  | _, [] => []
  | o, .emit n :: r => localDefs a (o + n) r
  | o, .loc b :: r => if b = a then o :: localDefs a o r else localDefs a o r
  | o, _ :: r => localDefs a o r

/-- offsets of the definitions of global label `a`, in order (only the first one counts; further ones are defects) -/
def globalDefs (a : Nat) : Nat → List LOp → List Nat
  | _, [] => []
  | o, .emit n :: r => globalDefs a (o + n) r
  | o, .glob b :: r => if b = a then o :: globalDefs a o r else globalDefs a o r
  | o, _ :: r => globalDefs a o r

/-- number of dynamic labels allocated -/
def dynCount : List LOp → Nat
  | [] => 0
  | .newDyn :: r => dynCount r + 1
  | _ :: r => dynCount r

/-- offsets of the definitions of dynamic label `id` that happen while it is allocated (`cnt` = allocated so far) -/
def dynDefs (id : Nat) : Nat → Nat → List LOp → List Nat
  | _, _, [] => []
  | cnt, o, .emit n :: r => dynDefs id cnt (o + n) r
  | cnt, o, .newDyn :: r => dynDefs id (cnt + 1) o r
  | cnt, o, .dynDef j :: r => if j = id ∧ id < cnt then o :: dynDefs id cnt o r else dynDefs id cnt o r
  | cnt, o, _ :: r => dynDefs id cnt o r

end DynasmVerif.Spec
