/-!
# Conc — the executable buffer shared between one assembling thread and its executors (C08, C09)

A transition system over the steps the code performs, in the order it performs them, inside
`MemoryManager::commit` (in-place and growing branch), `Assembler::alter` and `Assembler::finalize`
(`runtime/src/components.rs`, `runtime/src/lib.rs`), with the `RwLock<ExecutableBuffer>` modelled as an ideal reader-writer lock
(writer flag + reader count) and `Arc` as a count of live executors. Each program counter value is one of the
`cfg(dynasm_verif)` observation points of the source, so a recorded run of the real code can be replayed step by step.

A buffer is a mapping with ONE protection (`rx` or `rw` — `memmap2`'s `Mmap` / `MmapMut` type states), the committed version its
contents equal, and whether the contents are complete (`clean`).
-/

namespace DynasmVerif.Conc

inductive Prot | rx | rw
deriving DecidableEq, Repr, Inhabited

structure Buf where
  prot : Prot
  ver : Nat
  clean : Bool
deriving DecidableEq, Repr, Inhabited

/-- where the assembling thread is: the name of the observation point it passed last -/
inductive Pc
  | idle
  | ipLocked | ipTaken | ipMut | ipWritten | ipExec | ipRestored | ipDone
  | gAlloc | gCopied | gAdjusted | gSwapped | gDone
  | aCommitted | aLocked | aTaken | aMut | aUser | aRelocs | aExec | aRestored
  | fCommitted | finalized
  | dead                    -- the assembling thread unwound (a panic inside commit / alter / the user's closure)
deriving DecidableEq, Repr, Inhabited

structure State where
  pc : Pc
  writer : Bool            -- the write guard is held (by the assembling thread)
  readers : Nat            -- read guards held by executor threads
  slot : Option Buf        -- contents of the shared RwLock; none = `ExecutableBuffer::default()` (no mapping)
  own : Option Buf         -- buffer owned by the assembling thread: taken out of the slot, or the new larger mapping
  done : Nat               -- completed commit / alter operations = the version a reader is entitled to
  executors : Nat          -- live `Executor` handles
  poisoned : Bool := false -- a thread panicked while it held the write guard (`std::sync::RwLock` poisoning): every later `read()` / `write()` is an `Err`
deriving DecidableEq, Repr, Inhabited

def init (executors : Nat) : State := ⟨.idle, false, 0, some ⟨.rx, 0, true⟩, none, 0, executors, false⟩

inductive Act
  | startInPlace | startGrow | startAlter | startFinalize    -- the assembling thread enters an operation
  | step                                                      -- … performs the next step of the operation it is in
  | rlock | runlock | dropExecutor | newExecutor              -- executor threads
  | abort                                                     -- the assembling thread panics where it is and unwinds
deriving DecidableEq, Repr, Inhabited

/-- `write().unwrap()` / `read().unwrap()` succeed: the lock is free for that mode and not poisoned (on a poisoned lock the
`unwrap` panics in the calling thread, which therefore gets no guard) -/
def canWrite (s : State) : Bool := !s.writer && s.readers == 0 && !s.poisoned
def canRead (s : State) : Bool := !s.writer && !s.poisoned

def setProt (b : Option Buf) (p : Prot) : Option Buf := b.map fun x => { x with prot := p }

/-- one transition; `none` = not enabled (the thread would block, or there is no such step here) -/
def step (s : State) : Act → Option State
  -- in-place commit: `let mut lock = self.write()`
  | .startInPlace => if s.pc == .idle && canWrite s then some { s with pc := .ipLocked, writer := true } else none
  -- growing commit: `MutableBuffer::new(..)` — a fresh writable mapping, not shared
  | .startGrow => if s.pc == .idle then some { s with pc := .gAlloc, own := some ⟨.rw, 0, false⟩ } else none
  | .startAlter => if s.pc == .idle then some { s with pc := .aCommitted } else none
  | .startFinalize => if s.pc == .idle then some { s with pc := .fCommitted } else none
  | .step =>
    match s.pc with
    | .idle | .finalized | .dead => none
    -- in place
    | .ipLocked => some { s with pc := .ipTaken, own := s.slot, slot := none }            -- mem::replace(&mut *lock, default())
    | .ipTaken => some { s with pc := .ipMut, own := setProt s.own .rw }                   -- make_mut
    | .ipMut => some { s with pc := .ipWritten, own := s.own.map fun b => { b with ver := s.done + 1 } }   -- set_len + copy
    | .ipWritten => some { s with pc := .ipExec, own := setProt s.own .rx }                -- make_exec
    | .ipExec => some { s with pc := .ipRestored, slot := s.own, own := none }             -- *lock = buffer
    | .ipRestored => some { s with pc := .ipDone, writer := false, done := s.done + 1 }    -- guard dropped at the end of the block
    | .ipDone => some { s with pc := .idle }
    -- grow
    | .gAlloc => if canRead s then some { s with pc := .gCopied, own := some ⟨.rw, s.done + 1, true⟩ } else none   -- copy under a read guard
    | .gCopied => some { s with pc := .gAdjusted }
    | .gAdjusted =>                                                                       -- make_exec, then `*self.execbuffer.write() = ..`
      if canWrite s then some { s with pc := .gSwapped, slot := setProt s.own .rx, own := none, done := s.done + 1 } else none
    | .gSwapped => some { s with pc := .gDone }
    | .gDone => some { s with pc := .idle }
    -- alter
    | .aCommitted => if canWrite s then some { s with pc := .aLocked, writer := true } else none
    | .aLocked => some { s with pc := .aTaken, own := s.slot, slot := none }
    | .aTaken => some { s with pc := .aMut, own := setProt s.own .rw }
    | .aMut => some { s with pc := .aUser, own := s.own.map fun b => { b with clean := false } }      -- user closure writes
    | .aUser => some { s with pc := .aRelocs, own := s.own.map fun b => { b with ver := s.done + 1, clean := true } }
    | .aRelocs => some { s with pc := .aExec, own := setProt s.own .rx }
    | .aExec => some { s with pc := .aRestored, slot := s.own, own := none }
    | .aRestored => some { s with pc := .idle, writer := false, done := s.done + 1 }
    -- finalize: Arc::try_unwrap
    | .fCommitted => if s.executors == 0 then some { s with pc := .finalized } else some { s with pc := .idle }
  | .rlock => if canRead s && 0 < s.executors then some { s with readers := s.readers + 1 } else none
  | .runlock => if 0 < s.readers then some { s with readers := s.readers - 1 } else none
  | .dropExecutor => if 0 < s.executors && (s.readers == 0 || 1 < s.executors) then some { s with executors := s.executors - 1 } else none
  | .newExecutor => if s.pc != .finalized then some { s with executors := s.executors + 1 } else none
  -- unwinding drops what the thread owns: the buffer it had taken out (unmapped) and the write guard, which poisons the lock.
  -- the shared slot keeps whatever it holds at that moment (the empty placeholder if the buffer was taken out)
  | .abort =>
    if s.pc == .finalized || s.pc == .dead then none
    else some { s with pc := .dead, own := none, writer := false, poisoned := s.poisoned || s.writer }

def run (s : State) : List Act → Option State
  | [] => some s
  | a :: rest => (step s a).bind fun s' => run s' rest

/-- what a granted read guard shows -/
def view (s : State) : Option Buf := s.slot

end DynasmVerif.Conc
