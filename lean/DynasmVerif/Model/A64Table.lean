/-!
# aarch64 instruction-table entries: data types and the internal-consistency predicate (C19)

The types mirror `plugin/src/arch/aarch64/aarch64data.rs` (`Matcher`, `Command`, `Opdata`); the table itself is
regenerated from the compiled working tree on every run (`Generated/A64Chunk*.lean`).  `flattenMatchers`,
`groupCommands`, `typeOK`, `defaultOK` transcribe `debug.rs::{flatten_matchers, group_commands, check_command_sanity}`;
`cmdMasks` lists the bits each command ORs into the instruction word (`compiler.rs::compile_instruction`).
Import-free.
-/

namespace DynasmVerif.A64

inductive Size | BYTE | B_2 | B_4 | B_6 | B_8 | B_10 | B_16 | B_32 | B_64
deriving DecidableEq, Repr, Inhabited

inductive Modifier | LSL | LSR | ASR | ROR | SXTX | SXTW | SXTH | SXTB | UXTX | UXTW | UXTH | UXTB | MSL
deriving DecidableEq, Repr, Inhabited

inductive Matcher
  | Dot | Lit (s : String) | LitInt (n : Nat) | LitFloat (s : String) | Ident | Cond | Imm
  | W | X | WSP | XSP | B | H | S | D | Q
  | V (sz : Size) | VStatic (sz : Size) (n : Nat) | VElement (sz : Size) | VElementStatic (sz : Size) (n : Nat)
  | VStaticElement (sz : Size) (n : Nat)
  | RegList (n : Nat) (sz : Size) | RegListStatic (n : Nat) (sz : Size) (l : Nat) | RegListElement (n : Nat) (sz : Size)
  | Offset | RefBase | RefOffset | RefPre | RefIndex
  | LitMod (m : Modifier) | Mod (ms : List Modifier) | End
deriving Repr, Inhabited

inductive SpecialComm
  | INVERTED_WIDE_IMMEDIATE_W | INVERTED_WIDE_IMMEDIATE_X | WIDE_IMMEDIATE_W | WIDE_IMMEDIATE_X | STRETCHED_IMMEDIATE
  | LOGICAL_IMMEDIATE_W | LOGICAL_IMMEDIATE_X | FLOAT_IMMEDIATE | SPLIT_FLOAT_IMMEDIATE
deriving DecidableEq, Repr, Inhabited

inductive Reloc | B | BCOND | ADR | ADRP | TBZ | LITERAL8 | LITERAL16 | LITERAL32 | LITERAL64
deriving DecidableEq, Repr, Inhabited

inductive Command
  | R (o : Nat) | REven (o : Nat) | RNoZr (o : Nat) | R4 (o : Nat) | RNext
  | Ubits (o l : Nat) | Uscaled (o l s : Nat) | Ulist (o : Nat) (opts : List Nat) | Urange (o min max : Nat)
  | Usubone (o l : Nat) | Usubzero (o l : Nat) | Usubmod (o l : Nat) | Usum (o l : Nat) | Ufields (fs : List Nat)
  | Sbits (o l : Nat) | Sscaled (o l s : Nat)
  | CUbits (l : Nat) | CUsum (l : Nat) | CSscaled (l s : Nat) | CUrange (min max : Nat)
  | Uslice (o l s : Nat) | Sslice (o l s : Nat)
  | Special (o : Nat) (k : SpecialComm)
  | Rwidth (o : Nat) | Rotates (o : Nat) | ExtendsW (o : Nat) | ExtendsX (o : Nat)
  | Cond (o : Nat) | CondInv (o : Nat)
  /-- `LitList(offset, name)`: `list` is the index of the named literal→bits map in the generated `litLists` -/
  | LitList (o : Nat) (list : Nat)
  | Offset (r : Reloc)
  | A | C
deriving Repr, Inhabited

structure Opdata where
  base : Nat
  matchers : List Matcher
  commands : List Command
deriving Repr, Inhabited

/-! ## `debug.rs::flatten_matchers` -/

inductive ArgTy | Direct | Immediate | Modifier | JumpTarget | Lit
deriving DecidableEq, Repr, Inhabited

def flattenMatchersAux : List Matcher → Bool → List (ArgTy × Bool)
  | [], _ => []
  | m :: r, d =>
    match m with
    | .Dot | .Lit _ | .LitInt _ | .LitFloat _ => flattenMatchersAux r d
    | .Ident | .Cond | .Imm => (.Immediate, d) :: flattenMatchersAux r d
    | .W | .X | .WSP | .XSP | .B | .H | .S | .D | .Q => (.Direct, d) :: flattenMatchersAux r d
    | .V _ | .VStatic _ _ | .VElementStatic _ _ | .RegList _ _ | .RegListStatic _ _ _ => (.Direct, d) :: flattenMatchersAux r d
    | .VElement _ | .VStaticElement _ _ | .RegListElement _ _ => (.Direct, d) :: (.Immediate, d) :: flattenMatchersAux r d
    | .Offset => (.JumpTarget, d) :: flattenMatchersAux r d
    | .RefBase => (.Direct, d) :: flattenMatchersAux r d
    | .RefOffset => (.Direct, d) :: (.Immediate, true) :: flattenMatchersAux r d
    | .RefPre => (.Direct, d) :: (.Immediate, d) :: flattenMatchersAux r d
    | .RefIndex => (.Direct, d) :: (.Direct, d) :: (.Modifier, true) :: (.Immediate, true) :: flattenMatchersAux r d
    | .LitMod _ => (.Immediate, true) :: flattenMatchersAux r d
    | .Mod _ => (.Modifier, d) :: (.Immediate, true) :: flattenMatchersAux r d
    | .End => flattenMatchersAux r true

def flattenMatchers (ms : List Matcher) : List (ArgTy × Bool) := flattenMatchersAux ms false

/-- `matching.rs::flatarg_count` summed over the matchers: the number of flat arguments the compiler receives -/
def flatargCount : List Matcher → Nat
  | [] => 0
  | m :: r =>
    (match m with
     | .Dot | .Lit _ | .LitInt _ | .LitFloat _ | .End => 0
     | .VElement _ | .VStaticElement _ _ | .RegListElement _ _ | .RefOffset | .RefPre | .Mod _ => 2
     | .RefIndex => 4
     | _ => 1) + flatargCount r

/-! ## `compile_instruction`'s cursor walk (`group_commands`) -/

/-- does the command advance the argument cursor after being processed (`cursor += 1` at the end of the loop body) -/
def Command.advances : Command → Bool
  | .Uslice _ _ _ | .Sslice _ _ _ | .CUbits _ | .CUsum _ | .CSscaled _ _ | .CUrange _ _ => false
  | .A | .C | .Rwidth _ => false
  | _ => true

/-- walk the commands: `none` if the cursor would go below zero (`cursor -= 1` on a `usize` 0 panics);
otherwise the final cursor and every argument-processing command with the index of the argument it meets -/
def groupCommands : List Command → Nat → Option (Nat × List (Command × Nat))
  | [], cur => some (cur, [])
  | .A :: r, cur => groupCommands r (cur + 1)
  | .C :: r, cur => if cur = 0 then none else groupCommands r (cur - 1)
  | .Rwidth _ :: r, cur => groupCommands r cur
  | c :: r, cur =>
    match groupCommands r (if c.advances then cur + 1 else cur) with
    | none => none
    | some (e, l) => some (e, (c, cur) :: l)

/-! ## `check_command_sanity` -/

def typeOK (c : Command) (t : ArgTy) : Bool :=
  match c with
  | .R _ | .REven _ | .R4 _ | .RNoZr _ | .RNext => t == .Direct
  | .Ubits _ _ | .Uscaled _ _ _ | .Ulist _ _ | .Urange _ _ _ | .Usubone _ _ | .Usubzero _ _ | .Usubmod _ _ | .Usum _ _
  | .Ufields _ | .Sbits _ _ | .Sscaled _ _ _ | .CUbits _ | .CUsum _ | .CSscaled _ _ | .CUrange _ _ | .Uslice _ _ _
  | .Sslice _ _ _ | .Special _ _ => t == .Immediate
  | .Cond _ | .CondInv _ | .LitList _ _ => t == .Lit || t == .Immediate
  | .Offset _ => t == .JumpTarget
  | .Rotates _ | .ExtendsW _ | .ExtendsX _ => t == .Modifier
  | .A | .C | .Rwidth _ => false

/-- commands whose `FlatArg::Default` arm exists in the compiler (others panic with "Invalid argument processor") -/
def defaultOK (c : Command) (canBeDefault : Bool) : Bool :=
  match c with
  | .R _ | .Ubits _ _ | .Uscaled _ _ _ | .Uslice _ _ _ | .Urange _ _ _ | .Ulist _ _ | .Ufields _ | .Sbits _ _ | .Sscaled _ _ _
  | .Sslice _ _ _ | .CUbits _ | .CUsum _ | .CSscaled _ _ | .Rotates _ | .ExtendsW _ | .ExtendsX _ => true
  | _ => !canBeDefault

/-- commands that look at the previous flat argument (`data.args.get(cursor - 1)`) and what it must be -/
def prevOK (c : Command) (idx : Nat) (args : List (ArgTy × Bool)) : Bool :=
  match c with
  | .RNext => idx ≥ 1 && (args[idx - 1]?.map (·.1)) == some .Direct
  | .Usum _ _ | .CUsum _ => idx ≥ 1 && (args[idx - 1]?.map (·.1)) == some .Immediate
  | _ => true

/-! ## the bits a command writes -/

def bitWidth (n : Nat) : Nat := if n = 0 then 1 else Nat.log2 n + 1

def field (pos len : Nat) : Nat := (2 ^ len - 1) <<< pos

/-- OR of the fields the command may set (for every operand value); `LitList` is handled separately -/
def cmdMask (c : Command) : Nat :=
  match c with
  | .R o | .REven o | .RNoZr o => field o 5
  | .R4 o => field o 4
  | .Ubits o l | .Usubone o l | .Usubzero o l | .Usubmod o l | .Usum o l | .Sbits o l => field o l
  | .Uscaled o l _ | .Sscaled o l _ | .Uslice o l _ | .Sslice o l _ => field o l
  | .Ulist o opts => field o (bitWidth (opts.length - 1))
  -- dynamic path: `(imm - min) & ((range + 1).next_power_of_two() - 1)`
  | .Urange o mn mx => field o (bitWidth (mx - mn))
  | .Ufields fs => fs.foldl (fun acc f => acc ||| field f 1) 0
  | .Rwidth o => field o 1
  | .Rotates o => field o 2
  | .ExtendsW o | .ExtendsX o => field o 3
  | .Cond o | .CondInv o => field o 4
  | .Offset .B => field 0 26
  | .Offset .BCOND => field 5 19
  | .Offset .ADR | .Offset .ADRP => field 5 19 ||| field 29 2
  | .Offset .TBZ => field 5 14
  | .Special o .WIDE_IMMEDIATE_W | .Special o .INVERTED_WIDE_IMMEDIATE_W => field o 17
  | .Special o .WIDE_IMMEDIATE_X | .Special o .INVERTED_WIDE_IMMEDIATE_X => field o 18
  | .Special o .LOGICAL_IMMEDIATE_W => field o 12
  | .Special o .LOGICAL_IMMEDIATE_X => field o 13
  | .Special o .FLOAT_IMMEDIATE => field o 8
  -- low five bits at `offset`, high three bits (`encoded & 0xE0`) shifted by `offset + 6`
  | .Special o .SPLIT_FLOAT_IMMEDIATE | .Special o .STRETCHED_IMMEDIATE => field o 5 ||| field (o + 11) 3
  | _ => 0

/-- the literal values a `LitList` command can OR in at its offset (`none` for other commands) -/
def litValues (lits : List (List Nat)) : Command → Option (List Nat)
  | .LitList o i => some ((lits.getD i []).map (· <<< o))
  | _ => none

/-- masks are checked in command order: `used` accumulates the bits already owned by earlier commands.
* an ordinary command's field must not meet the template's set bits nor an earlier field, and must lie in the 32-bit word;
* a literal list may share bits with the template only where *every* literal has those bits set, and no literal may put
  a bit into another command's field. -/
def masksOK (lits : List (List Nat)) (base : Nat) : List Command → Nat → Bool
  | [], _ => true
  | c :: r, used =>
    match litValues lits c with
    | some vs =>
      let span := vs.foldl (· ||| ·) 0
      let others := r.foldl (fun acc c' => acc ||| cmdMask c') used
      vs.all (fun v => v &&& others == 0 && (base &&& span) &&& v == base &&& span) && span < 2 ^ 32 && !vs.isEmpty
        && masksOK lits base r (used ||| (span ^^^ (span &&& base)))
    | none =>
      let m := cmdMask c
      m &&& base == 0 && m &&& used == 0 && m < 2 ^ 32 && masksOK lits base r (used ||| m)

/-- **internal consistency of one entry** -/
def wellFormed (lits : List (List Nat)) (e : Opdata) : Bool :=
  let args := flattenMatchers e.matchers
  match groupCommands e.commands 0 with
  | none => false
  | some (endCursor, cmds) =>
    args.length == endCursor && flatargCount e.matchers == endCursor &&
    (List.range args.length).all (fun i => cmds.any (fun ci => ci.2 == i)) &&
    cmds.all (fun ci =>
      match args[ci.2]? with
      | none => false
      | some (t, d) => typeOK ci.1 t && defaultOK ci.1 d && prevOK ci.1 ci.2 args) &&
    e.base < 2 ^ 32 && masksOK lits e.base e.commands 0

end DynasmVerif.A64
