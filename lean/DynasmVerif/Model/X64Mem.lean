/-!
# X64Mem — x86/x64 memory operands: from the written operand to prefix/ModRM/SIB/displacement (C13)

Transcription of `plugin/src/arch/x64/compiler.rs`:
* `clean` — `clean_memoryref` (RawArg::IndirectRaw): pick a base, join equal registers, pick an index;
* `sanitize` — `sanitize_indirect` + the scale / displacement-size rules of `sanitize_indirects_and_sizes` and the address
  size decision of `compile_instruction`;
* `encode` — the 'Indirect ModRM (+SIB) addressing' block, `check_rex` (is a REX prefix emitted), REX/VEX X and B bits;
* `toBytes` — byte layout for a carrier instruction (`compile_rex`, `compile_vex_xop`, `compile_modrm_sib`).
`decode` is the reader's side, written from the Intel SDM (vol. 2, 2.1.5 / 2.2.1.2 / 2.3.12 VSIB), NOT from dynasm.

Registers are records of bit-vectors so that the main theorem is a single bit-blasting goal: a dynamic register is the same record
with `dyn = true` and `num` = the value it has at run time (the emitted runtime expression `(expr & 7) << k` / `(expr & 8) >> k`
computes exactly what the static path computes from the register code).
Not modelled: 16-bit addressing (never accepted by the implementation: rejected by `sanitize_indirect` in protected mode and by
the address-size check in long mode), type-mapped operands (`reg => Type[..]`, runtime scale), rip-relative operands in protected
mode (emitted as an absolute relocation), segment prefixes.
-/

namespace DynasmVerif.X64Mem

/-- register family codes -/
abbrev LEGACY : BitVec 2 := 0
abbrev RIP : BitVec 2 := 1
abbrev XMM : BitVec 2 := 2
abbrev OTHERFAM : BitVec 2 := 3

/-- size codes (log2 of bytes): 0 = BYTE, 1 = WORD, 2 = DWORD, 3 = QWORD, 4 = OWORD (xmm), 5 = HWORD (ymm), 7 = anything else -/
structure Reg where
  fam : BitVec 2
  size : BitVec 3
  num : BitVec 4
  dyn : Bool
deriving DecidableEq, Repr, Inhabited

def Reg.zero : Reg := ⟨0, 0, 0, false⟩

/-- Rust `impl PartialEq<Register> for Register`: equal sizes and both static with the same id; a dynamic register equals nothing -/
def regEq (a b : Reg) : Bool := a.size == b.size && !a.dyn && !b.dyn && a.fam == b.fam && a.num == b.num

/-- `reg == RegId::X` for a legacy id -/
def isStaticLegacy (r : Reg) (n : BitVec 4) : Bool := !r.dyn && r.fam == LEGACY && r.num == n

/-- `RegKind::is_extended` (families reaching a memory operand: LEGACY, XMM; RIP is never extended) -/
def isExtended (r : Reg) : Bool := (r.fam == LEGACY || r.fam == XMM) && (r.dyn || r.num.getLsbD 3)

/-- base/index after `clean_memoryref` -/
structure BI where
  hasBase : Bool
  base : Reg
  hasIndex : Bool
  index : Reg
  scale : BitVec 8
deriving DecidableEq, Repr, Inhabited

/-- the displacement as written: `ovr` 0 none, 1 BYTE, 2 DWORD, 3 any other size keyword; `lit` 0 = runtime expression,
1 = literal for which `derive_size` says BYTE, 2 = any other literal; `value` = its value -/
structure Disp where
  present : Bool
  ovr : BitVec 2
  lit : BitVec 2
  value : BitVec 32
deriving DecidableEq, Repr, Inhabited

/-- result of sanitising: rejected, or the final base/index, whether an effective address size was determined and which -/
structure San where
  reject : Bool
  hasAddr : Bool
  addr : BitVec 3
  bi : BI
deriving DecidableEq, Repr, Inhabited

def rsp : BitVec 4 := 4
def rbp : BitVec 4 := 5
def r12 : BitVec 4 := 12
def r13 : BitVec 4 := 13

/-- `sanitize_indirect` (long = X86Mode::Long) -/
def sanitize (long nosplit : Bool) (m : BI) : San :=
  let rej : San := ⟨true, false, 0, m⟩
  if !m.hasBase && !m.hasIndex then ⟨false, false, 0, m⟩ else
  -- addressing mode and size
  let both := m.hasBase && m.hasIndex
  let f1 := m.base.fam
  let f2 := m.index.fam
  let s1 := m.base.size
  let s2 := m.index.size
  let sameFam := f1 == f2
  -- (size, family, vsib, early error)
  let size := if !both then (if m.hasBase then s1 else s2) else if sameFam then s1 else if f1 == XMM then s2 else s1
  let family := if !both then (if m.hasBase then f1 else f2) else if sameFam then f1 else if f1 == XMM then f2 else f1
  let vsib := both && !sameFam && (f1 == XMM || f2 == XMM)
  let err1 := both && ((sameFam && s1 != s2) || (!sameFam && f1 != XMM && f2 != XMM))
  if err1 then rej else
  -- combinations that cannot be encoded
  let err2 :=
    if family == RIP then both
    else if family == LEGACY then
      (if size == 2 || size == 3 then false else true)     -- WORD: rejected here (protected / vsib) or by the address size check (long)
    else if family == XMM then both
    else true
  if err2 then rej else
  -- RIP-relative
  if family == RIP then
    if m.hasIndex then
      (if m.scale == 1 then ⟨false, true, size, ⟨true, m.index, false, Reg.zero, 0⟩⟩ else rej)
    else ⟨false, true, size, m⟩
  else
  -- VSIB without base
  if family == XMM then
    if m.hasBase then ⟨false, false, 0, ⟨false, Reg.zero, true, m.base, 1⟩⟩ else ⟨false, false, 0, m⟩
  else
  -- VSIB with base
  if vsib then
    if m.base.fam == XMM then
      (if m.scale == 1 then ⟨false, true, size, ⟨true, m.index, true, m.base, 1⟩⟩ else rej)
    else ⟨false, true, size, m⟩
  else
  -- normal addressing: split a lone scaled index
  let split := !nosplit && !m.hasBase && m.hasIndex && (m.scale == 2 || m.scale == 3 || m.scale == 5 || m.scale == 9)
  let m1 : BI := if split then ⟨true, m.index, true, m.index, m.scale - 1⟩ else m
  -- RSP cannot be an index
  let idxRsp := m1.hasIndex && isStaticLegacy m1.index rsp
  let canSwap := !(m1.hasBase && isStaticLegacy m1.base rsp) && m1.scale == 1
  if idxRsp && !canSwap then rej else
  let m2 : BI := if idxRsp then ⟨true, m1.index, m1.hasBase, m1.base, 1⟩ else m1
  -- RSP / R12 / dynamic base without index: escape into SIB
  let esc := !m2.hasIndex && m2.hasBase && (isStaticLegacy m2.base rsp || isStaticLegacy m2.base r12 || m2.base.dyn)
  let m3 : BI := if esc then ⟨true, m2.base, true, ⟨LEGACY, size, rsp, false⟩, 1⟩ else m2
  ⟨false, true, size, m3⟩

/-- what is emitted for the operand (fields, not yet bytes) -/
structure Enc where
  reject : Bool
  pref67 : Bool
  needRex : Bool          -- legacy carriers: is a REX prefix emitted because of the memory operand
  x : Bool                -- REX.X / VEX.~X (as the positive bit)
  b : Bool
  md : BitVec 2
  rm : BitVec 3
  hasSib : Bool
  ss : BitVec 2
  idx : BitVec 3
  sbase : BitVec 3
  dispSize : BitVec 3     -- 0, 1 or 4 bytes
  disp : BitVec 32
  baseDyn : Bool          -- for the 2-byte / 3-byte VEX choice
  indexDyn : Bool
  reloc : Bool            -- protected-mode `[rip + x]`: absolute relocation, outside the theorem
deriving DecidableEq, Repr, Inhabited

def Enc.zero : Enc := ⟨false, false, false, false, false, 0, 0, false, 0, 0, 0, 0, 0, false, false, false⟩
def Enc.rejected : Enc := { Enc.zero with reject := true }

def encodeScale (s : BitVec 8) : BitVec 2 := if s == 2 then 1 else if s == 4 then 2 else if s == 8 then 3 else 0
def scaleOk (s : BitVec 8) : Bool := s == 1 || s == 2 || s == 4 || s == 8

/-- sanitize + displacement size + the ModRM/SIB block. `vsibCarrier`: the instruction's operand slot is a VSIB one (k / l) -/
def encode (long nosplit vsibCarrier : Bool) (m : BI) (d : Disp) : Enc :=
  let s := sanitize long nosplit m
  if s.reject then Enc.rejected else
  let bi := s.bi
  -- "Impossible scale"
  if bi.hasIndex && !scaleOk bi.scale then Enc.rejected else
  -- displacement size
  if d.ovr != 0 && !d.present then Enc.rejected else
  if d.ovr == 3 then Enc.rejected else
  let dispByte := if d.ovr != 0 then d.ovr == 1 else (d.present && d.lit == 1)
  -- effective address size, address size prefix
  let addr : BitVec 3 := if s.hasAddr then s.addr else (if long then 3 else 2)
  if !((long && (addr == 3 || addr == 2)) || (!long && addr == 2)) then Enc.rejected else
  let pref67 := long && addr == 2
  -- operand slot kind must match (match_format_string)
  let modeVsib := bi.hasIndex && bi.index.fam == XMM
  if modeVsib != vsibCarrier then Enc.rejected else
  let ripRel := bi.hasBase && bi.base.fam == RIP
  let rbpBase := bi.hasBase && (isStaticLegacy bi.base rbp || isStaticLegacy bi.base r13 || bi.base.dyn)
  let needRex := long && ((bi.hasBase && isExtended bi.base) || (bi.hasIndex && isExtended bi.index))
  let x := bi.hasIndex && bi.index.num.getLsbD 3
  let b := bi.hasBase && !ripRel && bi.base.num.getLsbD 3
  let bnum : BitVec 3 := bi.base.num.truncate 3
  let inum : BitVec 3 := bi.index.num.truncate 3
  let common : Enc := { Enc.zero with pref67 := pref67, needRex := needRex, x := x, b := b,
                                             baseDyn := bi.hasBase && bi.base.dyn, indexDyn := bi.hasIndex && bi.index.dyn }
  if modeVsib then
    let md : BitVec 2 := if bi.hasBase then (if d.present then (if dispByte then 1 else 2) else 1) else 0
    { common with md := md, rm := 4, hasSib := true, ss := encodeScale bi.scale, idx := inum, sbase := if bi.hasBase then bnum else 5,
                  dispSize := if md == 1 then 1 else 4, disp := if d.present then d.value else 0 }
  else if ripRel then
    if long then { common with md := 0, rm := 5, dispSize := 4, disp := if d.present then d.value else 0 }
    else { common with md := 0, rm := 5, dispSize := 4, disp := 0, reloc := true }
  else
    let noBase := !bi.hasBase
    let md : BitVec 2 := if rbpBase && !d.present then 1 else if !d.present || noBase then 0 else if dispByte then 1 else 2
    let dispSize : BitVec 3 := if d.present then (if md == 1 then 1 else 4) else if noBase then 4 else if md == 1 then 1 else 0
    let disp := if d.present then d.value else 0
    if bi.hasIndex then
      { common with md := md, rm := 4, hasSib := true, ss := encodeScale bi.scale, idx := inum, sbase := if bi.hasBase then bnum else 5,
                    dispSize := dispSize, disp := disp }
    else if bi.hasBase then
      { common with md := md, rm := bnum, dispSize := dispSize, disp := disp }
    else if long then
      { common with md := md, rm := 4, hasSib := true, ss := 0, idx := 4, sbase := 5, dispSize := dispSize, disp := disp }
    else
      { common with md := md, rm := 5, dispSize := dispSize, disp := disp }

/-! ## the reader's side (Intel SDM) -/

/-- a linear address expression: base + index*scale + disp at an address width -/
structure Lin where
  hasBase : Bool
  baseRip : Bool
  baseNum : BitVec 4
  hasIndex : Bool
  indexXmm : Bool
  indexNum : BitVec 4
  scale : BitVec 8
  disp : BitVec 32
  width32 : Bool
deriving DecidableEq, Repr, Inhabited

/-- SDM 32/64-bit addressing forms: ModRM/SIB with REX.X/B (or VEX ~X/~B), `vsib`: the instruction uses VSIB addressing.
`hasRex`: for a legacy-encoded instruction without a REX prefix X and B read as 0. -/
def decode (long vsib : Bool) (e : Enc) (hasXB : Bool) : Lin :=
  let x := hasXB && e.x
  let b := hasXB && e.b
  let width32 := !long || e.pref67
  let dispv : BitVec 32 := if e.md == 1 then (e.disp.truncate 8 : BitVec 8).signExtend 32 else if e.md == 2 then e.disp else 0
  if e.rm != 4 then
    if e.md == 0 && e.rm == 5 then
      -- disp32 alone (protected) / RIP + disp32 (long)
      ⟨long, long, 0, false, false, 0, 0, e.disp, width32⟩
    else
      ⟨true, false, (BitVec.ofBool b).zeroExtend 4 <<< 3 ||| e.rm.zeroExtend 4, false, false, 0, 0, dispv, width32⟩
  else
    let inum : BitVec 4 := (BitVec.ofBool x).zeroExtend 4 <<< 3 ||| e.idx.zeroExtend 4
    let noIndex := !vsib && inum == 4
    let noBase := e.md == 0 && e.sbase == 5
    let bnum : BitVec 4 := (BitVec.ofBool b).zeroExtend 4 <<< 3 ||| e.sbase.zeroExtend 4
    ⟨!noBase, false, if noBase then 0 else bnum, !noIndex, vsib, if noIndex then 0 else inum,
     if noIndex then 0 else (1 : BitVec 8) <<< e.ss.toNat, if noBase then e.disp else dispv, width32⟩

/-! ## what an address expression denotes: a coefficient per register -/

/-- register classes of an address: 0 general purpose, 1 rip, 2 vector -/
def Lin.coef (l : Lin) (cls : BitVec 2) (n : BitVec 4) : BitVec 8 :=
  (if l.hasBase && (if l.baseRip then cls == RIP else cls == LEGACY && n == l.baseNum) then 1 else 0) +
  (if l.hasIndex && cls == (if l.indexXmm then XMM else LEGACY) && n == l.indexNum then l.scale else 0)

def regCoef (present : Bool) (r : Reg) (k : BitVec 8) (cls : BitVec 2) (n : BitVec 4) : BitVec 8 :=
  if present && cls == r.fam && (r.fam == RIP || n == r.num) then k else 0

/-- the written operand (after joining): base + index*scale -/
def BI.coef (m : BI) (cls : BitVec 2) (n : BitVec 4) : BitVec 8 :=
  regCoef m.hasBase m.base 1 cls n + regCoef m.hasIndex m.index m.scale cls n

/-- the address width the written registers ask for: the size of the general purpose / rip registers, else the mode's default -/
def BI.width32 (long : Bool) (m : BI) : Bool :=
  if m.hasBase && m.base.fam != XMM then m.base.size == 2
  else if m.hasIndex && m.index.fam != XMM then m.index.size == 2
  else !long

/-- inputs the theorem ranges over: families that can reach a memory operand, protected mode has 8 registers,
a BYTE-sized displacement fits in a byte (literal: `derive_size`; runtime: the expression has type i8) -/
def wellFormed (long : Bool) (m : BI) (d : Disp) : Bool :=
  (!m.hasBase || (m.base.fam != OTHERFAM && (long || !m.base.num.getLsbD 3) && (m.base.fam != RIP || !m.base.dyn))) &&
  (!m.hasIndex || (m.index.fam != OTHERFAM && (long || !m.index.num.getLsbD 3) && (m.index.fam != RIP || !m.index.dyn)
                   && m.scale.ult 128)) &&
  (!((d.ovr == 1 || (d.ovr == 0 && d.lit == 1)) && d.present) || d.value == (d.value.truncate 8 : BitVec 8).signExtend 32)

/-- "several limitations cannot be checked when dynamic registers are used" (langref_x64): the general purpose register that
ends up in the SIB index field, when it is a dynamic one, must not be number 4 at run time (rsp cannot be an index) -/
def dynIndexOk (long nosplit : Bool) (m : BI) : Bool :=
  let s := sanitize long nosplit m
  !(s.bi.hasIndex && s.bi.index.dyn && s.bi.index.fam == LEGACY && s.bi.index.num == 4)

/-- SDM: the displacement size the reader expects from mod / rm / SIB.base -/
def sdmDispSize (e : Enc) : BitVec 3 :=
  if e.md == 1 then 1 else if e.md == 2 then 4
  else if e.rm == 5 then 4 else if e.rm == 4 && e.sbase == 5 then 4 else 0

/-! ## byte layout for a carrier instruction -/

/-- the instruction around the operand: legacy/REX encoded (`lea`) or VEX encoded -/
structure Carrier where
  vex : Bool
  opcode : List (BitVec 8)      -- legacy: opcode bytes; vex: the single opcode byte
  reg : BitVec 4                -- register operand in ModRM.reg (static)
  rexW : Bool
  mapSel : BitVec 8 := 1
  pp : BitVec 8 := 0
  vexL : Bool := false
  vvvv : BitVec 4 := 0
  vsib : Bool := false
deriving Repr, Inhabited

def leBytes32 (v : BitVec 32) : List (BitVec 8) := [v.truncate 8, (v >>> 8).truncate 8, (v >>> 16).truncate 8, (v >>> 24).truncate 8]

def b2u (b : Bool) : BitVec 8 := if b then 1 else 0

/-- `compile_rex` / `compile_vex_xop` / `compile_modrm_sib` and the displacement -/
def toBytes (long : Bool) (c : Carrier) (e : Enc) : List (BitVec 8) :=
  let regLow : BitVec 8 := (c.reg.truncate 3 : BitVec 3).zeroExtend 8
  let regHi := c.reg.getLsbD 3
  let pre : List (BitVec 8) := if e.pref67 then [0x67] else []
  let prefix_ : List (BitVec 8) :=
    if c.vex then
      let byte1 : BitVec 8 := if long then (c.mapSel &&& 0x1F) ||| (b2u (!regHi) <<< 7) ||| (b2u (!e.x) <<< 6) ||| (b2u (!e.b) <<< 5)
                              else (c.mapSel &&& 0x1F) ||| 0xE0
      -- the decision between the 2- and 3-byte form is taken on the statically known bits
      let xs := e.x && !e.indexDyn
      let bs := e.b && !e.baseDyn
      let byte1s : BitVec 8 := if long then (c.mapSel &&& 0x1F) ||| (b2u (!regHi) <<< 7) ||| (b2u (!xs) <<< 6) ||| (b2u (!bs) <<< 5)
                               else (c.mapSel &&& 0x1F) ||| 0xE0
      let byte2 : BitVec 8 := (c.pp &&& 3) ||| (b2u c.rexW <<< 7) ||| (((~~~c.vvvv).zeroExtend 8 &&& 0xF) <<< 3) ||| (b2u c.vexL <<< 2)
      if (byte1s &&& 0x7F) == 0x61 && (byte2 &&& 0x80) == 0 && ((!e.indexDyn && !e.baseDyn) || !long) then
        [0xC5, (byte1s &&& 0x80) ||| (byte2 &&& 0x7F)]
      else [0xC4, byte1, byte2]
    else if long && (e.needRex || c.rexW || regHi) then
      [0x40 ||| (b2u c.rexW <<< 3) ||| (b2u regHi <<< 2) ||| (b2u e.x <<< 1) ||| b2u e.b]
    else []
  let modrm : BitVec 8 := (e.md.zeroExtend 8 <<< 6) ||| (regLow <<< 3) ||| e.rm.zeroExtend 8
  let sib : List (BitVec 8) := if e.hasSib then [(e.ss.zeroExtend 8 <<< 6) ||| (e.idx.zeroExtend 8 <<< 3) ||| e.sbase.zeroExtend 8] else []
  let disp : List (BitVec 8) := if e.dispSize == 1 then [e.disp.truncate 8] else if e.dispSize == 4 then leBytes32 e.disp else []
  pre ++ prefix_ ++ c.opcode ++ [modrm] ++ sib ++ disp

/-- are X and B available to the reader (a REX prefix is present / VEX always carries them) -/
def hasXB (long : Bool) (c : Carrier) (e : Enc) : Bool :=
  if c.vex then long else long && (e.needRex || c.rexW || c.reg.getLsbD 3)

/-! ## `clean_memoryref`: from the written items to base/index -/

/-- `joined_regs`: add `s` to the first entry equal to `r`, else append -/
def joinAdd : List (Reg × Int) → Reg → Int → List (Reg × Int)
  | [], r, s => [(r, s)]
  | (o, t) :: rest, r, s => if regEq r o then (o, t + s) :: rest else (o, t) :: joinAdd rest r s

def joinAll (acc : List (Reg × Int)) (l : List (Reg × Int)) : List (Reg × Int) :=
  l.foldl (fun a p => joinAdd a p.1 p.2) acc

/-- the first unscaled register that equals no other unscaled register and no scaled one; returns it and the others in order -/
def findBase (scaled : List (Reg × Int)) : List Reg → List Reg → Option (Reg × List Reg)
  | _, [] => none
  | pre, r :: rs =>
    if (pre ++ rs).any (regEq r) || scaled.any (fun p => regEq r p.1) then findBase scaled (pre ++ [r]) rs
    else some (r, pre ++ rs)

/-- first joined entry with scale 1, and the rest -/
def findScale1 : List (Reg × Int) → List (Reg × Int) → Option (Reg × List (Reg × Int))
  | _, [] => none
  | pre, (r, s) :: rest => if s == 1 then some (r, pre ++ rest) else findScale1 (pre ++ [(r, s)]) rest

/-- written items: unscaled registers and scaled registers in source order (displacements are summed separately) -/
structure Items where
  regs : List Reg
  scaled : List (Reg × Int)
deriving Repr, Inhabited

/-- `clean_memoryref`: `none` = "Impossible memory argument" -/
def clean (nosplit : Bool) (it : Items) : Option (Option Reg × Option (Reg × Int)) :=
  let fb := findBase it.scaled [] it.regs
  let base := fb.map (·.1)
  let regs := match fb with | some (_, rest) => rest | none => it.regs
  let joined := joinAll [] (it.scaled ++ regs.map (fun r => (r, 1)))
  match base with
  | some b =>
    let index := joined.getLast?
    if joined.dropLast.isEmpty then some (some b, index) else none
  | none =>
    let f1 := findScale1 [] joined
    let base := f1.map (·.1)
    let joined := match f1 with | some (_, rest) => rest | none => joined
    let index := joined.getLast?
    if !joined.dropLast.isEmpty then none else
    if nosplit && index.isNone && base.isSome then some (none, base.map (fun r => (r, 1)))
    else some (base, index)

/-- scale as the 8-bit quantity of the finite layer; anything outside 0..127 can never be encoded -/
def toBI (r : Option Reg × Option (Reg × Int)) : Option BI :=
  match r with
  | (b, none) => some ⟨b.isSome, b.getD Reg.zero, false, Reg.zero, 0⟩
  | (b, some (i, s)) => if 0 ≤ s ∧ s < 128 then some ⟨b.isSome, b.getD Reg.zero, true, i, BitVec.ofInt 8 s⟩ else none

end DynasmVerif.X64Mem
