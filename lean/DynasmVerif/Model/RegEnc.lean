/-!
# RegEnc — register slots: what a register named literally contributes, or that it is rejected (C03, C04)

Transcription of the `RegKind::Static` / `Register::Static` arms of the aarch64 and riscv `compile_instruction`: the register code
goes into its field unless the field's class excludes it. `n` is the register code (0..31 within the family).
The run-time arms are translated from the generated Rust (Generated/RegDyn.lean) and proved equal to this for every in-family number.
-/

namespace DynasmVerif.RegEnc

/-- register field classes of both backends -/
inductive Cls
  | any        -- aarch64 R, riscv R
  | even       -- aarch64 REven, riscv Reven: even registers only
  | noZr       -- aarch64 RNoZr: not 31
  | low16      -- aarch64 R4: 0..15, four-bit field
  | no0        -- riscv Rno0
  | no02       -- riscv Rno02
  | pop        -- riscv Rpop: x8..x15, three-bit field
  | pops       -- riscv Rpops: s0..s7 = x8, x9, x18..x23, three-bit field
  | popsNe (prev : Nat)   -- riscv Rpops2: as Rpops and different from the previous operand's register
deriving Repr, Inhabited

/-- accepted? -/
def Cls.ok (c : Cls) (embedded : Bool) (n : BitVec 32) : Bool :=
  -- RV32E / RV64E: only x0..x15 exist, whatever the slot
  (!embedded || n.ult 16) &&
  match c with
  | .any => true
  | .even => n &&& 1 == 0
  | .noZr => !(n == 31)
  | .low16 => n.ult 16
  | .no0 => !(n == 0) && n.ult 32
  | .no02 => !(n == 0) && !(n == 2) && n.ult 32
  | .pop => (8 : BitVec 32).ule n && n.ule 15
  | .pops => ((1 : BitVec 32) <<< n) &&& 0x00FC0300 != 0
  | .popsNe prev => (((1 : BitVec 32) <<< n) &&& 0x00FC0300 != 0) && !(n == BitVec.ofNat 32 prev)

/-- the field value -/
def Cls.code (c : Cls) (n : BitVec 32) : BitVec 32 :=
  match c with
  | .any | .noZr | .no0 | .no02 => n &&& 0x1F
  | .even => n &&& 0x1E
  | .low16 => n &&& 0xF
  | .pop | .pops | .popsNe _ => n &&& 7

def place (x : BitVec 32) (o : Nat) : BitVec 32 := x <<< o

end DynasmVerif.RegEnc
