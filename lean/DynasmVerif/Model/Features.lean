import DynasmVerif.Model.RvTable
import DynasmVerif.Model.X64Table

/-!
# Architecture / feature gating (C20)

* `splitIdent`, `expand`, `identFlags`, `parseFeatures` — `plugin/src/arch/riscv/mod.rs::parse_features` over code points
  (`List Nat`; the identifier is lower-cased first, `z…` starts a long name that runs to the next `_`).
* `rvEnabled`, `rvSelect` — the gating loop of `riscv/matching.rs::match_instruction`.
* `x64Enabled`, `x64Select` — `x64/compiler.rs`: `match_op_format` never looks at features (first matching format wins),
  then `ctx.features.contains(data.features)`; `X86_ONLY` forms are skipped in long mode.
Import-free besides the table types.
-/

namespace DynasmVerif.Feat

def lower (c : Nat) : Nat := if 65 ≤ c ∧ c ≤ 90 then c + 32 else c

/-- the splitter of `parse_features`: `cur = some acc` while inside a long (`z…`) name (accumulated reversed) -/
def splitAux : List Nat → Option (List Nat) → List (List Nat)
  | [], none => []
  | [], some cur => [cur.reverse]
  | c :: r, some cur => if c = 95 then cur.reverse :: splitAux r none else splitAux r (some (c :: cur))
  | c :: r, none => if c = 122 then splitAux r (some [122]) else [c] :: splitAux r none

def splitIdent (s : List Nat) : List (List Nat) := splitAux (s.map lower) none

def str (s : String) : List Nat := s.toList.map Char.toNat

/-- `g` → m a f d zicsr zifencei, `b` → zba zbb zbs, `ztso` dropped -/
def expand : List (List Nat) → List (List Nat)
  | [] => []
  | x :: r =>
    (if x = [103] then [[109], [97], [102], [100], str "zicsr", str "zifencei"]
     else if x = [98] then [str "zba", str "zbb", str "zbs"]
     else if x = str "ztso" then []
     else [x]) ++ expand r

def lookup (tbl : List (List Nat × Nat)) (name : List Nat) : Option Nat :=
  (tbl.find? (fun e => e.1 == name)).map (·.2)

/-- flags contributed by one identifier (unknown names are reported and skipped) -/
def identFlags (tbl : List (List Nat × Nat)) (s : List Nat) : Nat :=
  (expand (splitIdent s)).foldl (fun acc n => acc ||| (lookup tbl n).getD 0) 0

def identUnknown (tbl : List (List Nat × Nat)) (s : List Nat) : List (List Nat) :=
  (expand (splitIdent s)).filter (fun n => (lookup tbl n).isNone)

/-- `parse_features`: starts from `ExtensionFlags::default()` = I -/
def parseFeatures (tbl : List (List Nat × Nat)) (exI : Nat) (idents : List (List Nat)) : Nat :=
  idents.foldl (fun acc s => acc ||| identFlags tbl s) exI

/-! ## gating -/

def subset (a b : Nat) : Bool := a &&& b == a

/-- riscv: is the form available under (xlen flag 1 = RV32 / 2 = RV64, enabled extension set) -/
def rvEnabled (xlen enabled : Nat) (e : Rv.Opdata) : Bool :=
  e.isa &&& xlen != 0 && e.exts.any (fun f => subset f enabled)

/-- the selection loop: first enabled form whose matchers accept the arguments -/
def rvSelect (xlen enabled : Nat) (accepts : Rv.Opdata → Bool) : List Rv.Opdata → Option Rv.Opdata
  | [] => none
  | e :: r => if rvEnabled xlen enabled e && accepts e then some e else rvSelect xlen enabled accepts r

/-- x64: first format that matches (mode only), then the feature test -/
def x64Matchable (longMode : Bool) (e : X64.Opdata) : Bool := !(longMode && X64.has e.flags X64.X86_ONLY)

def x64Select (longMode : Bool) (accepts : X64.Opdata → Bool) : List X64.Opdata → Option X64.Opdata
  | [] => none
  | e :: r => if x64Matchable longMode e && accepts e then some e else x64Select longMode accepts r

def x64Accept (longMode : Bool) (enabled : Nat) (accepts : X64.Opdata → Bool) (forms : List X64.Opdata) : Option X64.Opdata :=
  match x64Select longMode accepts forms with
  | some e => if subset e.features enabled then some e else none
  | none => none

/-! ## table predicates -/

/-- riscv: can two matcher lists accept a common argument list? (conservative: same length, pairwise compatible kinds) -/
def matcherCompat : Rv.Matcher → Rv.Matcher → Bool
  | .X, .X | .F, .F | .Ref, .Ref | .RefSp, .RefSp | .RefLabel, .RefLabel | .Xlist, .Xlist => true
  | .X, .Reg 0 _ | .Reg 0 _, .X | .F, .Reg 1 _ | .Reg 1 _, .F => true
  | .Reg a b, .Reg c d => a == c && b == d
  | .Ref, .RefOffset | .RefOffset, .Ref | .RefOffset, .RefOffset | .RefOffset, .RefSp | .RefSp, .RefOffset => true
  | .Imm, .Imm | .Imm, .Offset | .Offset, .Imm | .Offset, .Offset | .Imm, .Ident | .Ident, .Imm | .Ident, .Ident => true
  | .Ident, .Offset | .Offset, .Ident | .Lit _, .Imm | .Imm, .Lit _ | .Lit _, .Ident | .Ident, .Lit _ | .Lit _, .Offset | .Offset, .Lit _ => true
  | .Lit a, .Lit b => a == b
  | _, _ => false

def matchersOverlap : List Rv.Matcher → List Rv.Matcher → Bool
  | [], [] => true
  | a :: r, b :: s => matcherCompat a b && matchersOverlap r s
  | _, _ => false

/-- every feature set that enables `later` also enables `earlier` -/
def impliedBy (earlier later : Rv.Opdata) : Bool :=
  later.exts.all (fun fj => earlier.exts.any (fun fi => subset fi fj))

/-- pairs (i, j), i < j, of forms of one mnemonic valid for a common XLEN whose matchers overlap but where some feature
set selects j and a larger one selects i: adding features changes the selected form -/
def unstablePairs : List Rv.Opdata → List (Nat × Nat)
  | forms =>
    (List.range forms.length).flatMap fun i =>
      (List.range forms.length).filterMap fun j =>
        match forms[i]?, forms[j]? with
        | some a, some b =>
          if i < j && a.isa &&& b.isa != 0 && matchersOverlap a.matchers b.matchers && !impliedBy a b then some (i, j) else none
        | _, _ => none

/-- group consecutive table rows by mnemonic: the dump lists the forms of one mnemonic consecutively with their index in
the mnemonic's form list, so a group starts at index 0 (no string comparison needed) -/
def groups {α : Type} : List (String × Nat × α) → List (List α)
  | [] => []
  | (_, i, e) :: r =>
    match groups r, r with
    | g :: gs, (_, j, _) :: _ => if j = 0 then [e] :: g :: gs else (e :: g) :: gs
    | gs, _ => [e] :: gs

def unstableGroupsAux : List (List Rv.Opdata) → Nat → List Nat
  | [], _ => []
  | g :: gs, k => if (unstablePairs g).isEmpty then unstableGroupsAux gs (k + 1) else k :: unstableGroupsAux gs (k + 1)

/-- ordinals (in table order) of the mnemonics that have an unstable pair -/
def unstableGroups (table : List (String × Nat × Rv.Opdata)) : List Nat := unstableGroupsAux (groups table) 0

/-- x64: a later form with the same operand format and mode availability but a different feature set can never be
selected (matching ignores features): the earlier one shadows it -/
def x64ShadowedIn : List X64.Opdata → List Nat
  | forms =>
    (List.range forms.length).filter fun j =>
      (List.range j).any fun i =>
        match forms[i]?, forms[j]? with
        | some a, some b => a.args == b.args && a.features != b.features &&
                            (X64.has a.flags X64.X86_ONLY == X64.has b.flags X64.X86_ONLY || !X64.has a.flags X64.X86_ONLY)
        | _, _ => false

def x64ShadowedAux : List (List X64.Opdata) → Nat → List (Nat × List Nat)
  | [], _ => []
  | g :: gs, k =>
    match x64ShadowedIn g with
    | [] => x64ShadowedAux gs (k + 1)
    | s => (k, s) :: x64ShadowedAux gs (k + 1)

/-- (ordinal of the mnemonic, indices of its shadowed forms) -/
def x64ShadowedGroups (table : List (String × Nat × X64.Opdata)) : List (Nat × List Nat) := x64ShadowedAux (groups table) 0

end DynasmVerif.Feat
