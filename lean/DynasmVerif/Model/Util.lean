/-!
# Small helpers for the line-protocol driver (hex, parsing, digest).  Import-free.
-/

namespace DynasmVerif.Util

def hexDigit (n : Nat) : Char :=
  if n < 10 then Char.ofNat (48 + n) else Char.ofNat (87 + n)

def hexByte (b : Nat) : List Char := [hexDigit (b / 16 % 16), hexDigit (b % 16)]

/-- bytes as `x` followed by two lowercase hex digits per byte, in buffer order -/
def hexOfBytes (bs : List (BitVec 8)) : String :=
  String.ofList ('x' :: bs.flatMap (fun b => hexByte b.toNat))

def hexVal? (c : Char) : Option Nat :=
  if '0' ≤ c ∧ c ≤ '9' then some (c.toNat - 48)
  else if 'a' ≤ c ∧ c ≤ 'f' then some (c.toNat - 87)
  else if 'A' ≤ c ∧ c ≤ 'F' then some (c.toNat - 55)
  else none

def bytesOfHexAux : List Char → List (BitVec 8) → Option (List (BitVec 8))
  | [], acc => some acc.reverse
  | [_], _ => none
  | a :: b :: rest, acc =>
    match hexVal? a, hexVal? b with
    | some x, some y => bytesOfHexAux rest (BitVec.ofNat 8 (16 * x + y) :: acc)
    | _, _ => none

/-- parse `xDEADBEEF` (also plain `x` for the empty string) -/
def bytesOfHex? (s : String) : Option (List (BitVec 8)) :=
  match s.toList with
  | 'x' :: rest => bytesOfHexAux rest []
  | _ => none

def words (line : String) : List String :=
  (line.trimAscii.toString.splitOn " ").filter (· ≠ "")

/-- one mixing step of the sweep digest (FNV-1a style on 64-bit words); the Rust harness has the same function -/
@[inline] def mix (h x : UInt64) : UInt64 := (h ^^^ x) * 0x100000001B3

def digestInit : UInt64 := 0xCBF29CE484222325

def hex64 (x : UInt64) : String :=
  let ds := Nat.toDigits 16 x.toNat
  String.ofList (List.replicate (16 - ds.length) '0' ++ ds)

/-- SplitMix64, the PRNG shared with the harness -/
def splitmix (s : UInt64) : UInt64 × UInt64 :=
  let s := s + 0x9E3779B97F4A7C15
  let z := s
  let z := (z ^^^ (z >>> 30)) * 0xBF58476D1CE4E5B9
  let z := (z ^^^ (z >>> 27)) * 0x94D049BB133111EB
  (s, z ^^^ (z >>> 31))

end DynasmVerif.Util
