import DynasmVerif.Model.Reloc

/-!
# Model of the runtime assemblers (`runtime/src/lib.rs`, `components.rs`, `mmap.rs`)

Import-free (besides the relocation model).  One executable definition per piece of the Rust code:

* `Labels`   — `LabelRegistry` (generation counters for locals, version 0 = global, dynamic id vector)
* `Core`     — what the three `DynasmLabelApi` implementations share: label registry, `RelocRegistry`, error slot
* `encodeRelocs` — the drain-and-patch loops at the head of `commit` / `alter` end (with the early-return behaviour
                   of `Vec::drain`: the static list is emptied even when the loop returns early, the dynamic list is not)
* `Mem`      — `MemoryManager` + `ExecutableBuffer`: a mapping of `cap` bytes, a length, an address
* `VecAsm`, `ExecAsm`, `Session` (= `Modifier`), `Unc` (= `UncommittedModifier`), `Pool` (= `LitPool`)

Offsets, lengths and addresses are `Nat`; values written into fields are `BitVec 64` (wrapping `isize`).
`Out.panic` stands for a Rust panic (slice index out of range, arithmetic underflow with overflow checks on).
-/

namespace DynasmVerif.Asm
open DynasmVerif.Reloc

abbrev Byte := BitVec 8

inductive RelKind | relative | absToRel | relToAbs
deriving DecidableEq, Repr, Inhabited

/-- a relocation instance `R` (format + x86 kind) -/
structure RelocT where
  fmt : Fmt
  kind : RelKind := .relative
deriving DecidableEq, Repr, Inhabited

inductive LabelKind | loc (n : Nat) | glob (n : Nat) | dyn (k : Nat)
deriving DecidableEq, Repr, Inhabited

inductive TargetKind | loc (n : Nat) | glob (n : Nat) | dyn (k : Nat) | ext (a : Nat) | managed
deriving DecidableEq, Repr, Inhabited

inductive Err
  | checkFailed | duplicate (l : LabelKind) | unknown (l : LabelKind) | impossible (t : TargetKind)
deriving DecidableEq, Repr, Inhabited

structure PatchLoc where
  location : Nat
  fieldOff : Nat
  refOff : Nat
  reloc : RelocT
  targetOff : Int
deriving DecidableEq, Repr, Inhabited

/-! ## byte-list helpers -/

/-- overwrite `bs.length` bytes of `buf` starting at `start` (caller checks the bounds) -/
def splice (buf : List Byte) (start : Nat) (bs : List Byte) : List Byte :=
  buf.take start ++ bs ++ buf.drop (start + bs.length)

def slice (buf : List Byte) (start len : Nat) : List Byte := (buf.drop start).take len

/-! ## LabelRegistry -/

structure Labels where
  /-- `local_versions`: 0 = no entry -/
  localVer : Nat → Nat := fun _ => 0
  /-- `static_labels`: name → version (0 = global) → offset -/
  statics : Nat → Nat → Option Nat := fun _ _ => none
  /-- `dynamic_labels` -/
  dynamics : List (Option Nat) := []

def Labels.defineLocal (l : Labels) (name off : Nat) : Labels :=
  let g := l.localVer name + 1
  { l with localVer := fun n => if n = name then g else l.localVer n,
           statics := fun n v => if n = name ∧ v = g then some off else l.statics n v }

def Labels.defineGlobal (l : Labels) (name off : Nat) : Except Err Labels :=
  match l.statics name 0 with
  | some _ => .error (.duplicate (.glob name))
  | none => .ok { l with statics := fun n v => if n = name ∧ v = 0 then some off else l.statics n v }

def Labels.newDynamic (l : Labels) : Labels × Nat :=
  ({ l with dynamics := l.dynamics ++ [none] }, l.dynamics.length)

def Labels.defineDynamic (l : Labels) (id off : Nat) : Except Err Labels :=
  match l.dynamics[id]? with
  | some (some _) => .error (.duplicate (.dyn id))
  | some none => .ok { l with dynamics := l.dynamics.set id (some off) }
  | none => .error (.unknown (.dyn id))

/-- `resolve_static` for the label `(name, version)`; version 0 is the global namespace -/
def Labels.resolveStatic (l : Labels) (name ver : Nat) : Except Err Nat :=
  match l.statics name ver with
  | some o => .ok o
  | none => .error (.unknown (if ver = 0 then .glob name else .loc name))

def Labels.resolveDynamic (l : Labels) (id : Nat) : Except Err Nat :=
  match l.dynamics[id]? with
  | some (some o) => .ok o
  | _ => .error (.unknown (.dyn id))

/-! ## the shared label front-end: registry + pending relocations + error slot -/

structure Core where
  labels : Labels := {}
  /-- `static_targets`, in push order: (patch location, name, version) -/
  statics : List (PatchLoc × Nat × Nat) := []
  /-- `dynamic_targets`, in push order -/
  dynamics : List (PatchLoc × Nat) := []
  error : Option Err := none

def Core.localLabel (c : Core) (name off : Nat) : Core :=
  { c with labels := c.labels.defineLocal name off }

def Core.globalLabel (c : Core) (name off : Nat) : Core :=
  match c.labels.defineGlobal name off with
  | .ok l => { c with labels := l }
  | .error e => { c with error := some e }

def Core.dynamicLabel (c : Core) (id off : Nat) : Core :=
  match c.labels.defineDynamic id off with
  | .ok l => { c with labels := l }
  | .error e => { c with error := some e }

def Core.newDynamic (c : Core) : Core × Nat :=
  let (l, id) := c.labels.newDynamic
  ({ c with labels := l }, id)

def Core.globalReloc (c : Core) (name : Nat) (p : PatchLoc) : Core :=
  { c with statics := c.statics ++ [(p, name, 0)] }

def Core.dynamicReloc (c : Core) (id : Nat) (p : PatchLoc) : Core :=
  { c with dynamics := c.dynamics ++ [(p, id)] }

/-- forward reference: filed under the *next* generation of the name -/
def Core.forwardReloc (c : Core) (name : Nat) (p : PatchLoc) : Core :=
  { c with statics := c.statics ++ [(p, name, c.labels.localVer name + 1)] }

/-- backward reference: filed under the current generation; none yet → error slot -/
def Core.backwardReloc (c : Core) (name : Nat) (p : PatchLoc) : Core :=
  if c.labels.localVer name = 0 then { c with error := some (.unknown (.loc name)) }
  else { c with statics := c.statics ++ [(p, name, c.labels.localVer name)] }

/-! ## PatchLoc -/

inductive PRes (α : Type) | ok (a : α) | impossible | panic
deriving Repr

/-- `PatchLoc::value` (wrapping; `none` = the `location - ref_offset` subtraction underflows) -/
def PatchLoc.value (p : PatchLoc) (target bufAddr : Nat) : Option (BitVec 64) :=
  if p.location < p.refOff then none else
  let refp := p.location - p.refOff
  let raw : BitVec 64 :=
    match p.reloc.kind with
    | .relative => BitVec.ofNat 64 target - BitVec.ofNat 64 refp
    | .relToAbs => BitVec.ofNat 64 target - BitVec.ofNat 64 (refp + bufAddr)
    | .absToRel => BitVec.ofNat 64 (target + bufAddr)
  some (raw + BitVec.ofInt 64 p.targetOff)

/-- `PatchLoc::range(buf_offset)`: start index of the field in the buffer being patched (`none` = underflow) -/
def PatchLoc.start (p : PatchLoc) (bufOffset : Nat) : Option Nat :=
  if p.location < bufOffset + p.fieldOff then none else some (p.location - bufOffset - p.fieldOff)

/-- apply a word transformer to the `size`-byte field at `start` -/
def patchField (buf : List Byte) (start size : Nat) (f : BitVec 64 → Option (BitVec 64)) : PRes (List Byte) :=
  if start + size > buf.length then .panic else
  match f (ofLeBytes (slice buf start size)) with
  | none => .impossible
  | some w => .ok (splice buf start (leBytes size w))

/-- `&mut buf[loc.range(off)]` then `loc.patch(buf, addr, target)` -/
def PatchLoc.patch (p : PatchLoc) (buf : List Byte) (bufOffset bufAddr target : Nat) : PRes (List Byte) :=
  match p.start bufOffset, p.value target bufAddr with
  | some st, some v => patchField buf st p.reloc.fmt.size (fun old => write p.reloc.fmt old v)
  | _, _ => .panic

def PatchLoc.needsAdjustment (p : PatchLoc) : Bool := p.reloc.kind != .relative

/-- `PatchLoc::adjust(buf, adjustment)` on the whole (new) buffer, `range(0)` -/
def PatchLoc.adjust (p : PatchLoc) (buf : List Byte) (delta : BitVec 64) : PRes (List Byte) :=
  match p.reloc.kind with
  | .relative => .ok buf
  | k =>
    match p.start 0 with
    | none => .panic
    | some st =>
      patchField buf st p.reloc.fmt.size (fun old =>
        let r := read p.reloc.fmt old
        write p.reloc.fmt old (if k == .relToAbs then r - delta else r + delta))

/-! ## the drain-and-patch loops -/

inductive Out
  | ok | err (e : Err) | panic
deriving Repr, Inhabited

def staticTarget (name ver : Nat) : TargetKind := if ver = 0 then .glob name else .loc name

/-- the `for (loc, label) in self.relocs.take_statics()` loop. Returns buffer, managed additions, and the outcome. -/
def patchStatics (l : Labels) (bufOffset bufAddr : Nat) :
    List (PatchLoc × Nat × Nat) → List Byte → List PatchLoc → List Byte × List PatchLoc × Out
  | [], buf, m => (buf, m, .ok)
  | (p, name, ver) :: rest, buf, m =>
    match l.resolveStatic name ver with
    | .error e => (buf, m, .err e)
    | .ok target =>
      match p.patch buf bufOffset bufAddr target with
      | .panic => (buf, m, .panic)
      | .impossible => (buf, m, .err (.impossible (staticTarget name ver)))
      | .ok buf' => patchStatics l bufOffset bufAddr rest buf' (if p.needsAdjustment then m ++ [p] else m)

/-- the `for (loc, id) in self.relocs.take_dynamics()` loop -/
def patchDynamics (l : Labels) (bufOffset bufAddr : Nat) :
    List (PatchLoc × Nat) → List Byte → List PatchLoc → List Byte × List PatchLoc × Out
  | [], buf, m => (buf, m, .ok)
  | (p, id) :: rest, buf, m =>
    match l.resolveDynamic id with
    | .error e => (buf, m, .err e)
    | .ok target =>
      match p.patch buf bufOffset bufAddr target with
      | .panic => (buf, m, .panic)
      | .impossible => (buf, m, .err (.impossible (.dyn id)))
      | .ok buf' => patchDynamics l bufOffset bufAddr rest buf' (if p.needsAdjustment then m ++ [p] else m)

/-- what is still registered when the static loop stops early: the reference that could not be resolved or patched and every
reference behind it (they are put back; `[]` when the loop ran to its end) -/
def staticsRest (l : Labels) (bufOffset bufAddr : Nat) :
    List (PatchLoc × Nat × Nat) → List Byte → List (PatchLoc × Nat × Nat)
  | [], _ => []
  | (p, name, ver) :: rest, buf =>
    match l.resolveStatic name ver with
    | .error _ => (p, name, ver) :: rest
    | .ok target =>
      match p.patch buf bufOffset bufAddr target with
      | .ok buf' => staticsRest l bufOffset bufAddr rest buf'
      | _ => (p, name, ver) :: rest

def dynamicsRest (l : Labels) (bufOffset bufAddr : Nat) :
    List (PatchLoc × Nat) → List Byte → List (PatchLoc × Nat)
  | [], _ => []
  | (p, id) :: rest, buf =>
    match l.resolveDynamic id with
    | .error _ => (p, id) :: rest
    | .ok target =>
      match p.patch buf bufOffset bufAddr target with
      | .ok buf' => dynamicsRest l bufOffset bufAddr rest buf'
      | _ => (p, id) :: rest

/-- `encode_relocs` of all three front-ends: error slot first, then statics, then dynamics.
`VecAssembler::commit` and `Assembler::encode_relocs` (`drainAll = false`): a reference that cannot be resolved or does not fit
ends the loop with its error and STAYS registered together with every reference behind it (the ones in front of it are patched
and gone), so that a later commit attempts them again instead of publishing their fields unpatched; the dynamic list is only
touched once the static loop has succeeded; nothing is touched when the error slot fires.
`Modifier::encode_relocs` takes both lists out of the shared registry before anything else (`drainAll = true`), because its
patch locations are only meaningful for the committed buffer. -/
def Core.encodeRelocs (c : Core) (buf : List Byte) (bufOffset bufAddr : Nat) (drainAll : Bool := false) :
    Core × List Byte × List PatchLoc × Out :=
  match c.error with
  | some e =>
    (if drainAll then { c with error := none, statics := [], dynamics := [] } else { c with error := none }, buf, [], .err e)
  | none =>
    match patchStatics c.labels bufOffset bufAddr c.statics buf [] with
    | (buf1, m1, .ok) =>
      let (buf2, m2, o) := patchDynamics c.labels bufOffset bufAddr c.dynamics buf1 m1
      ({ c with statics := [],
                dynamics := if drainAll then [] else dynamicsRest c.labels bufOffset bufAddr c.dynamics buf1 }, buf2, m2, o)
    | (buf1, m1, o) =>
      (if drainAll then { c with statics := [], dynamics := [] }
       else { c with statics := staticsRest c.labels bufOffset bufAddr c.statics buf }, buf1, m1, o)

/-! ## alignment and little-endian pushes (all five `align` implementations compute the same padding) -/

/-- number of filler bytes `align(alignment, _)` emits at offset `off`; `alignment = 0` is a division by zero (panic) -/
def alignPad (off alignment : Nat) : Nat :=
  if off % alignment = 0 then 0 else alignment - off % alignment

def leBytesNat (n : Nat) (v : Nat) : List Byte :=
  (List.range n).map fun i => BitVec.ofNat 8 (v / 2 ^ (8 * i))

/-! ## ManagedRelocs: a map keyed by field start -/

abbrev Managed := List (Nat × PatchLoc)

def managedKey (p : PatchLoc) : Nat := p.location - p.fieldOff

def Managed.add (m : Managed) (p : PatchLoc) : Managed :=
  (m.filter (fun e => e.1 != managedKey p)) ++ [(managedKey p, p)]

def Managed.addAll (m : Managed) (ps : List PatchLoc) : Managed := ps.foldl Managed.add m

def Managed.removeBetween (m : Managed) (s e : Nat) : Managed :=
  if s = e then m else m.filter (fun x => !(s ≤ x.1 && x.1 < e))

/-! ## VecAssembler -/

structure VecAsm where
  ops : List Byte := []
  base : Nat := 0
  core : Core := {}

def VecAsm.offset (a : VecAsm) : Nat := a.ops.length

def VecAsm.commit (a : VecAsm) : VecAsm × Out :=
  let (c, buf, _, o) := a.core.encodeRelocs a.ops 0 a.base
  ({ a with core := c, ops := buf }, o)

/-- `bare_relocation`: patched immediately against the pending buffer -/
def bareReloc (c : Core) (buf : List Byte) (bufOffset bufAddr : Nat) (target : Nat) (p : PatchLoc) :
    Core × List Byte × List PatchLoc × Bool :=
  match p.patch buf bufOffset bufAddr target with
  | .panic => (c, buf, [], true)
  | .impossible => ({ c with error := some (.impossible (.ext target)) }, buf, [], false)
  | .ok buf' => (c, buf', if p.needsAdjustment then [p] else [], false)

/-! ## MemoryManager / ExecutableBuffer -/

structure Mem where
  /-- contents of the mapping (`cap` bytes) -/
  map : List Byte
  /-- `ExecutableBuffer.length` -/
  len : Nat := 0
  /-- `execbuffer_size` -/
  cap : Nat
  /-- `asmoffset` -/
  committed : Nat := 0
  /-- `execbuffer_addr` -/
  addr : Nat := 0

def Mem.new (pageSize addr : Nat) : Mem :=
  { map := List.replicate pageSize 0, cap := pageSize, addr := addr }

/-- the visible buffer (`Deref`): the first `len` bytes of the mapping -/
def Mem.view (m : Mem) : List Byte := m.map.take m.len

/-- `while self.execbuffer_size <= new_asmoffset { self.execbuffer_size *= 2 }` with fuel -/
def growCap : Nat → Nat → Nat → Nat
  | 0, cap, _ => cap
  | fuel + 1, cap, need => if cap ≤ need then growCap fuel (cap * 2) need else cap

/-- `MemoryManager::commit(new, f)`; `newAddr` is the address the OS gives a fresh mapping (environment input);
`f buffer oldAddr newAddr` is the closure run on the new buffer when it moved; it reports
(adjusted buffer, some adjustment failed, some adjustment panicked).
Returns `none` when a slice operation (or the closure) would panic. -/
def Mem.commit (m : Mem) (new : List Byte) (newAddr : Nat)
    (f : List Byte → Nat → Nat → List Byte × Bool × Bool) : Option (Mem × Bool) :=
  let old := m.committed
  let nw := m.committed + new.length
  if old ≥ nw then some (m, false)
  else if nw > m.cap then
    if m.cap = 0 then none else
    let cap' := growCap (nw + 1) m.cap nw
    -- `new_buffer[..old].copy_from_slice(&execbuffer)` needs equal lengths
    if m.len ≠ old then none else
    let (adjusted, failed, panicked) := f (m.view ++ new) m.addr newAddr
    if panicked then none else
    some ({ map := adjusted ++ List.replicate (cap' - nw) 0, len := nw, cap := cap', committed := nw, addr := newAddr }, failed)
  else
    -- in place: `buffer.set_len(new); buffer[old..].copy_from_slice(new)`
    if nw > m.map.length then none else
    some ({ m with map := splice m.map old new, len := nw, committed := nw }, false)

/-! ## Assembler (executable memory) -/

structure ExecAsm where
  ops : List Byte := []
  mem : Mem
  core : Core := {}
  managed : Managed := []

def ExecAsm.new (addr : Nat) : ExecAsm := { mem := Mem.new 4096 addr }

def ExecAsm.offset (a : ExecAsm) : Nat := a.mem.committed + a.ops.length

/-- the closure passed to `MemoryManager::commit`: adjust every managed relocation; a failure sets the error slot.
Returns the buffer and whether some adjustment failed / panicked. -/
def adjustManaged (ms : List PatchLoc) (buf : List Byte) (delta : BitVec 64) : List Byte × Bool × Bool :=
  ms.foldl (fun (acc : List Byte × Bool × Bool) p =>
    match p.adjust acc.1 delta with
    | .ok b => (b, acc.2.1, acc.2.2)
    | .impossible => (acc.1, true, acc.2.2)
    | .panic => (acc.1, acc.2.1, true)) (buf, false, false)

/-- `Assembler::commit`; `newAddr` = address of the new mapping if one is made.
`none` = a panic somewhere inside. -/
def ExecAsm.commit (a : ExecAsm) (newAddr : Nat) : Option (ExecAsm × Out) :=
  let (c, buf, madd, o) := a.core.encodeRelocs a.ops a.mem.committed a.mem.addr
  let a1 := { a with core := c, ops := buf, managed := a.managed.addAll madd }
  match o with
  | .ok =>
    let ms := a1.managed.map (·.2)
    match a1.mem.commit a1.ops newAddr
        (fun b oldA newA => adjustManaged ms b (BitVec.ofNat 64 newA - BitVec.ofNat 64 oldA)) with
    | none => none
    | some (mem', failed) =>
      let a2 := { a1 with mem := mem', ops := [] }
      if failed then some (a2, .err (.impossible .managed)) else some (a2, .ok)
  | .panic => none
  | e => some (a1, e)

/-! ## Modifier (an `alter` session on the committed buffer) -/

structure Session where
  buf : List Byte
  cursor : Nat := 0
  prev : Nat := 0
  newManaged : Managed := []
  error : Option Err := none

/-- `Modifier::push` / `extend` (after the fix both index the buffer byte by byte): `none` = index out of bounds -/
def Session.emit (s : Session) : List Byte → Option Session
  | [] => some s
  | b :: bs =>
    if s.cursor < s.buf.length then
      Session.emit { s with buf := s.buf.set s.cursor b, cursor := s.cursor + 1 } bs
    else none

def Session.check (s : Session) (off : Nat) : Out := if s.cursor > off then .err .checkFailed else .ok
def Session.checkExact (s : Session) (off : Nat) : Out := if s.cursor ≠ off then .err .checkFailed else .ok

/-! ## UncommittedModifier -/

structure Unc where
  buf : List Byte
  base : Nat
  offset : Nat

def Unc.emit (u : Unc) : List Byte → Option Unc
  | [] => some u
  | b :: bs =>
    if u.offset < u.base then none
    else if u.offset - u.base < u.buf.length then
      Unc.emit { u with buf := u.buf.set (u.offset - u.base) b, offset := u.offset + 1 } bs
    else none

/-! ## LitPool -/

inductive PoolEntry
  | val (size : Nat) (v : Nat)
  | dyn (size id : Nat) | glob (size name : Nat) | fwd (size name : Nat) | bwd (size name : Nat)
  | align (filler : Nat) (alignment : Nat)
deriving Repr, Inhabited, DecidableEq

structure Pool where
  offset : Nat := 0
  entries : List PoolEntry := []
deriving DecidableEq

/-- `LitPool::align(size, with)`; `size = 0` is a division by zero (panic) in the code -/
def Pool.align (p : Pool) (size filler : Nat) : Pool :=
  if p.offset % size = 0 then p
  else { offset := p.offset + (size - p.offset % size), entries := p.entries ++ [.align filler size] }

/-- `bump_offset(size)` followed by the entry push; returns the pool-relative offset handed to the user -/
def Pool.push (p : Pool) (size : Nat) (e : PoolEntry) : Pool × Nat :=
  let p1 := p.align size 0
  ({ offset := p1.offset + size, entries := p1.entries ++ [e] }, p1.offset)

end DynasmVerif.Asm
