/-!
# Reference semantics for the RISC-V instructions that load-immediate and pc-relative sequences use (C15)

Nothing in the code corresponds to this file: it is written from the ISA manual (RV32I/RV64I: LUI, AUIPC, ADDI, SLLI,
ADDIW, JALR, and the effective-address computation of loads and stores). The semantics *tracks one register* `rd`
(every other register holds the arbitrary value `other`, x0 holds 0) so that whole sequences unfold to bit-vector
expressions `bv_decide` can bit-blast. Import-free.
-/

namespace DynasmVerif.RvExec

structure T where
  /-- value of the tracked register -/
  acc : BitVec 64
  /-- last jump target (JALR) or effective address (load/store) computed -/
  out : BitVec 64
  pc : BitVec 64

def sext32 (x : BitVec 64) : BitVec 64 := (x.truncate 32 : BitVec 32).signExtend 64

/-- one instruction. `xlen64 = false` models RV32 by keeping registers as sign-extended 32-bit values. -/
def step (xlen64 : Bool) (rd : BitVec 5) (other : BitVec 64) (w : BitVec 32) (t : T) : T :=
  let opcode := w &&& 0x7F#32
  let rdf : BitVec 5 := (w >>> 7).truncate 5
  let rs1 : BitVec 5 := (w >>> 15).truncate 5
  let funct3 := (w >>> 12) &&& 7#32
  let immI : BitVec 64 := ((w >>> 20).truncate 12 : BitVec 12).signExtend 64
  let immS : BitVec 64 := ((((w >>> 25) <<< 5) ||| ((w >>> 7) &&& 0x1F#32)).truncate 12 : BitVec 12).signExtend 64
  let immU : BitVec 64 := ((w &&& 0xFFFFF000#32) : BitVec 32).signExtend 64
  let shamt : BitVec 64 := ((w >>> 20) &&& 0x3F#32).zeroExtend 64
  let rd1 : BitVec 64 := if rs1 == 0#5 then 0#64 else if rs1 == rd then t.acc else other
  let norm (v : BitVec 64) : BitVec 64 := if xlen64 then v else sext32 v
  let wr (v : BitVec 64) : BitVec 64 := if rdf == rd && rdf != 0#5 then norm v else t.acc
  let next := t.pc + 4#64
  if opcode == 0x37#32 then { acc := wr immU, out := t.out, pc := next }                       -- LUI
  else if opcode == 0x17#32 then { acc := wr (t.pc + immU), out := t.out, pc := next }          -- AUIPC
  else if opcode == 0x13#32 && funct3 == 0#32 then { acc := wr (rd1 + immI), out := t.out, pc := next }   -- ADDI
  else if opcode == 0x13#32 && funct3 == 1#32 then { acc := wr (rd1 <<< shamt), out := t.out, pc := next } -- SLLI
  else if opcode == 0x1B#32 && funct3 == 0#32 then { acc := wr (sext32 (rd1 + immI)), out := t.out, pc := next } -- ADDIW
  -- JALR: `out` is the address formed, rs1 + imm (the hardware then clears bit 0 of the jump target)
  else if opcode == 0x67#32 then { acc := wr next, out := norm (rd1 + immI), pc := next }
  else if opcode == 0x03#32 || opcode == 0x07#32 then { acc := t.acc, out := norm (rd1 + immI), pc := next } -- loads: address
  else if opcode == 0x23#32 || opcode == 0x27#32 then { acc := t.acc, out := norm (rd1 + immS), pc := next } -- stores: address
  else { acc := t.acc, out := t.out, pc := next }

def run (xlen64 : Bool) (rd : BitVec 5) (other : BitVec 64) (t : T) : List (BitVec 32) → T
  | [] => t
  | w :: r => run xlen64 rd other (step xlen64 rd other w t) r

/-- `fits_signed(v, bits)` -/
def fitsSigned (v : BitVec 64) (bits : Nat) : Bool :=
  if bits ≥ 64 then true else
  let half : BitVec 64 := 1#64 <<< (bits - 1)
  v.slt half && (-half).sle v

end DynasmVerif.RvExec
