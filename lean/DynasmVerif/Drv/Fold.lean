import DynasmVerif.Model.Util
import DynasmVerif.Model.Serialize

/-! Line-protocol handler of the `fold` stream (C18): `f b:<hex> e:<tag> …` → the folded list in the same encoding. -/

namespace DynasmVerif.Drv.Fold
open DynasmVerif.Util DynasmVerif.Ser

def parseStmt? (w : String) : Option Stmt :=
  match w.dropPrefix? "b:" with
  | some h => (bytesOfHex? ("x" ++ h.toString)).map fun bs => .bytes (bs.map (·.toNat))
  | none =>
    match w.dropPrefix? "e:" with
    | some t => t.toString.toNat?.map Stmt.ev
    | none => none

def showStmt : Stmt → String
  | .bytes bs => "b:" ++ String.ofList (bs.flatMap hexByte)
  | .ev t => s!"e:{t}"

def handle (ws : List String) : String :=
  match ws with
  | "f" :: rest =>
    match rest.mapM parseStmt? with
    | some ss => "= " ++ " ".intercalate ((fold ss).map showStmt)
    | none => "= bad-op"
  | _ => "= bad-op"

end DynasmVerif.Drv.Fold
