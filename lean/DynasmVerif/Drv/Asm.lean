import DynasmVerif.Model.Util
import DynasmVerif.Model.Machine

/-! Line-protocol handlers of the `asm` stream (C01 C06 C07 C10 C11 C12 C16 C17). -/

namespace DynasmVerif.Drv.Asm
open DynasmVerif.Util DynasmVerif.Reloc DynasmVerif.Asm

def showLabelKind : LabelKind → String
  | .loc n => s!"local {n}" | .glob n => s!"global {n}" | .dyn k => s!"dyn {k}"

def showTargetKind : TargetKind → String
  | .loc n => s!"local {n}" | .glob n => s!"global {n}" | .dyn k => s!"dyn {k}"
  | .ext a => s!"extern {a}" | .managed => "managed"

def showErr : Err → String
  | .checkFailed => "CheckFailed"
  | .duplicate l => s!"Duplicate({showLabelKind l})"
  | .unknown l => s!"Unknown({showLabelKind l})"
  | .impossible t => s!"Impossible({showTargetKind t})"

def showAns : Ans → String
  | .ok => "ok"
  | .okAddr a moved => s!"ok addr={a} moved={if moved then 1 else 0}"
  | .num n => toString n
  | .id k => s!"id {k}"
  | .bytes bs => hexOfBytes bs
  | .okBytes bs => "ok " ++ hexOfBytes bs
  | .okAddrBytes a bs => s!"ok addr={a} " ++ hexOfBytes bs
  | .err e => "err " ++ showErr e
  | .errAddr e a moved => s!"err {showErr e} addr={a} moved={if moved then 1 else 0}"
  | .panic => "panic"
  | .dead => "dead"
  | .skipped => "skipped"
  | .badOp => "bad-op"

/-- `x64.4`, `x86.4.2` (size.kind), `a64.B`, `rv.J`, `p.4` -/
def parseReloc? (s : String) : Option RelocT :=
  match s.splitOn "." with
  | ["x86", sz, k] =>
    match Fmt.ofName? ("x86." ++ sz), k with
    | some f, "0" => some ⟨f, .relative⟩
    | some f, "1" => some ⟨f, .absToRel⟩
    | some f, "2" => some ⟨f, .relToAbs⟩
    | _, _ => none
  | _ => (Fmt.ofName? s).map fun f => ⟨f, .relative⟩

def parseRef? (toff foff roff fmt : String) : Option RefArgs := do
  let t ← toff.toInt?
  let f ← foff.toNat?
  let r ← roff.toNat?
  let rel ← parseReloc? fmt
  some ⟨t, f, r, rel⟩

def leOfInt (n : Nat) (v : Int) : List Byte := leBytesNat n (v % (2 ^ (8 * n) : Nat)).toNat

def parseOp? (ws : List String) : Option Op :=
  match ws with
  | ["new", "simple"] => some .newSimple
  | ["new", "vec", _, base] => (base.dropPrefix? "base=").bind (·.toString.toNat?) |>.map Op.newVec
  | ["new", "asm", _] => some .newExec
  | ["e", h] | ["ex", h] | ["ev", h] => (bytesOfHex? h).map Op.emit
  | ["p16", v] => v.toNat?.map fun x => .emit (leBytesNat 2 x)
  | ["p32", v] => v.toNat?.map fun x => .emit (leBytesNat 4 x)
  | ["p64", v] => v.toNat?.map fun x => .emit (leBytesNat 8 x)
  | ["pi8", v] => v.toInt?.map fun x => .emit (leOfInt 1 x)
  | ["pi16", v] => v.toInt?.map fun x => .emit (leOfInt 2 x)
  | ["pi32", v] => v.toInt?.map fun x => .emit (leOfInt 4 x)
  | ["pi64", v] => v.toInt?.map fun x => .emit (leOfInt 8 x)
  | ["al", a, f] => do some (.align (← a.toNat?) (← f.toNat?))
  | ["ll", n] => n.toNat?.map Op.localLabel
  | ["gl", n] => n.toNat?.map Op.globalLabel
  | ["nd"] => some .newDyn
  | ["dl", n] => n.toNat?.map Op.dynLabel
  | ["rf", n, t, f, r, fmt] => do some (.fwd (← n.toNat?) (← parseRef? t f r fmt))
  | ["rb", n, t, f, r, fmt] => do some (.bwd (← n.toNat?) (← parseRef? t f r fmt))
  | ["rg", n, t, f, r, fmt] => do some (.glob (← n.toNat?) (← parseRef? t f r fmt))
  | ["rd", n, t, f, r, fmt] => do some (.dyn (← n.toNat?) (← parseRef? t f r fmt))
  | ["rx", tg, f, r, fmt] => do some (.bare (← tg.toNat?) (← parseRef? "0" f r fmt))
  | ["c"] => some .commit
  | ["fin"] => some .fin
  | ["take"] => some .take
  | ["drain"] => some .drain
  | ["buf"] => some .buf
  | ["off"] => some .off
  | ["ptr", n] => n.toNat?.map Op.ptr
  | ["alter{"] => some .alterBegin
  | ["}alter"] => some .alterEnd
  | ["goto", n] => n.toNat?.map Op.goto
  | ["chk", n] => n.toNat?.map Op.chk
  | ["chkx", n] => n.toNat?.map Op.chkx
  | ["unc{"] => some .uncBegin
  | ["}unc"] => some .uncEnd
  | ["pool{"] => some .poolBegin
  | ["}pool"] => some .poolEnd
  | ["pv", sz, v] => do some (.poolVal (← sz.toNat?) (← v.toNat?))
  | ["pa", sz, f] => do some (.poolAlign (← sz.toNat?) (← f.toNat?))
  | ["pl", "d", n, sz] => do some (.poolLabel .dyn (← n.toNat?) (← sz.toNat?))
  | ["pl", "g", n, sz] => do some (.poolLabel .glob (← n.toNat?) (← sz.toNat?))
  | ["pl", "f", n, sz] => do some (.poolLabel .fwd (← n.toNat?) (← sz.toNat?))
  | ["pl", "b", n, sz] => do some (.poolLabel .bwd (← n.toNat?) (← sz.toNat?))
  | _ => none

/-- `addr=<n>` token of the implementation's answer, 0 if absent -/
def addrHint (implAns : String) : Nat :=
  match (words implAns).filterMap (fun w => (w.dropPrefix? "addr=").bind (·.toString.toNat?)) with
  | a :: _ => a
  | [] => 0

/-- `@<int>` as a target means "current buffer address + int" (mapping addresses are not known to the generator) -/
def resolveAt (m : Machine) (w : String) : String :=
  match w.dropPrefix? "@" with
  | some rest =>
    match rest.toString.toInt? with
    | some d =>
      let base : Nat := match m.front with
        | .exec a => a.mem.addr
        | .vec a => a.base
        | _ => 0
      toString ((base : Int) + d).toNat
    | none => w
  | none => w

def handle (m : Machine) (ws0 : List String) (implAns : String) : Machine × String :=
  let ws := ws0.map (resolveAt m)
  match parseOp? ws with
  | none => (m, "= bad-op")
  | some op =>
    let (m', a) := step 2 m op (addrHint implAns)
    (m', "= " ++ showAns a)

end DynasmVerif.Drv.Asm
