import DynasmVerif.Model.Util
import DynasmVerif.Model.X64Mem

/-! Line-protocol handler of the `x64mem` stream (C13):
`m <long 0|1> <nosplit 0|1> <carrier> <disp> <ovr> <item>*` → `= ok x<HEX> <linear form read back by the SDM decoder>` | `= reject` | `= reloc`.
item: `r:<fam>:<size>:<num>:<dyn>` | `s:<fam>:<size>:<num>:<dyn>:<scale>`; disp: `none` | `lit8:<v>` | `lit32:<v>` | `rt:<v>`; ovr: none|byte|dword|other -/

namespace DynasmVerif.Drv.X64Mem
open DynasmVerif.Util DynasmVerif.X64Mem

def carrierOf : String → Option Carrier
  | "lea32" => some { vex := false, opcode := [0x8D], reg := 0, rexW := false }
  | "lea64" => some { vex := false, opcode := [0x8D], reg := 1, rexW := true }
  | "lear9" => some { vex := false, opcode := [0x8D], reg := 9, rexW := false }
  | "vex" => some { vex := true, opcode := [0x58], reg := 0, rexW := false, mapSel := 1, pp := 0, vexL := false, vvvv := 1 }
  | "vexy" => some { vex := true, opcode := [0x58], reg := 8, rexW := false, mapSel := 1, pp := 0, vexL := true, vvvv := 1 }
  | "vsibx" => some { vex := true, opcode := [0x92], reg := 1, rexW := false, mapSel := 2, pp := 1, vexL := false, vvvv := 2, vsib := true }
  | "vsiby" => some { vex := true, opcode := [0x92], reg := 1, rexW := false, mapSel := 2, pp := 1, vexL := true, vvvv := 2, vsib := true }
  | "vsibd" => some { vex := true, opcode := [0x90], reg := 9, rexW := false, mapSel := 2, pp := 1, vexL := false, vvvv := 2, vsib := true }
  | _ => none

def regOf (f s n d : String) : Option Reg :=
  match f.toNat?, s.toNat?, n.toNat?, d.toNat? with
  | some f, some s, some n, some d => some ⟨BitVec.ofNat 2 f, BitVec.ofNat 3 s, BitVec.ofNat 4 n, d == 1⟩
  | _, _, _, _ => none

def itemsOf : List String → Option Items
  | [] => some ⟨[], []⟩
  | t :: rest =>
    match itemsOf rest with
    | none => none
    | some it =>
      match t.splitOn ":" with
      | ["r", f, s, n, d] => (regOf f s n d).map fun r => { it with regs := r :: it.regs }
      | ["s", f, s, n, d, k] =>
        match regOf f s n d, k.toInt? with
        | some r, some k => some { it with scaled := (r, k) :: it.scaled }
        | _, _ => none
      | _ => none

def dispOf (d ovr : String) : Option Disp :=
  let o : Option (BitVec 2) := match ovr with | "none" => some 0 | "byte" => some 1 | "dword" => some 2 | "other" => some 3 | _ => none
  match o with
  | none => none
  | some o =>
    match d.splitOn ":" with
    | ["none"] => some ⟨false, o, 0, 0⟩
    | ["lit8", v] => v.toInt?.map fun v => ⟨true, o, 1, BitVec.ofInt 32 v⟩
    | ["lit32", v] => v.toInt?.map fun v => ⟨true, o, 2, BitVec.ofInt 32 v⟩
    | ["rt", v] => v.toInt?.map fun v => ⟨true, o, 0, BitVec.ofInt 32 v⟩
    | _ => none

def showLin (l : Lin) : String :=
  let b := if !l.hasBase then "-" else if l.baseRip then "rip" else s!"g{l.baseNum.toNat}"
  let i := if !l.hasIndex then "-" else s!"{if l.indexXmm then "x" else "g"}{l.indexNum.toNat}*{l.scale.toNat}"
  s!"base={b} index={i} disp={l.disp.toInt} w={if l.width32 then 32 else 64}"

def handle (ws : List String) : String :=
  match ws with
  | "m" :: long :: nosplit :: car :: disp :: ovr :: items =>
    match carrierOf car, dispOf disp ovr, itemsOf items with
    | some c, some d, some it =>
      let long := long == "1"
      let nosplit := nosplit == "1"
      match clean nosplit it with
      | none => "= reject"
      | some r =>
        match toBI r with
        | none => "= reject"
        | some m =>
          let e := encode long nosplit c.vsib m d
          if e.reject then "= reject"
          else if e.reloc then "= reloc"
          else if !long && (c.rexW || c.reg.getLsbD 3) then "= reject"
          else
            let bytes := toBytes long c e
            s!"= ok {hexOfBytes bytes} {showLin (decode long c.vsib e (hasXB long c e))} wf={wellFormed long m d} dyn4={!dynIndexOk long nosplit m}"
    | _, _, _ => "= bad-op"
  | _ => "= bad-op"

end DynasmVerif.Drv.X64Mem
