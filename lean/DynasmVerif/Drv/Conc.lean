import DynasmVerif.Model.Util
import DynasmVerif.Model.Conc

/-! Line-protocol handler of the `conc` stream (C08/C09): replays the event lines of one steered run of the real code
(harness/rt `conc`) on the Conc model. `prog <op>,<op>,…` gives the assembling thread's program (inplace|grow|alter|finalize). -/

namespace DynasmVerif.Drv.Conc
open DynasmVerif.Util DynasmVerif.Conc

structure DState where
  s : State := init 1
  prog : List String := []      -- operations not yet started
  stale : Bool := false         -- the address the harness tracks belongs to the mapping released by a growing commit
  skipUnlock : Bool := false
  total : Nat := 0              -- operations in the program
  returns : Nat := 0            -- `returned` events seen: every one of them closes exactly one operation of the program
deriving Inhabited

def pcOfHook : String → Option Pc
  | "commit.inplace.locked" => some .ipLocked | "commit.inplace.taken" => some .ipTaken | "commit.inplace.made_mut" => some .ipMut
  | "commit.inplace.written" => some .ipWritten | "commit.inplace.made_exec" => some .ipExec | "commit.inplace.restored" => some .ipRestored
  | "commit.grow.allocated" => some .gAlloc | "commit.grow.copied" => some .gCopied | "commit.grow.adjusted" => some .gAdjusted
  | "commit.grow.swapped" => some .gSwapped
  | "alter.committed" => some .aCommitted | "alter.locked" => some .aLocked | "alter.taken" => some .aTaken | "alter.made_mut" => some .aMut
  | "alter.user_done" => some .aUser | "alter.relocs_done" => some .aRelocs | "alter.made_exec" => some .aExec | "alter.restored" => some .aRestored
  | "finalize.committed" => some .fCommitted
  | _ => none

def startOf : String → Option Act
  | "inplace" => some .startInPlace | "grow" => some .startGrow | "alter" => some .startAlter | "finalize" => some .startFinalize | _ => none

/-- one move of the assembling thread: the next step of the current operation, or the start of the next one -/
def asmMove (d : DState) : Option DState :=
  if d.s.pc == .idle then
    match d.prog with
    | [] => none
    | op :: rest => (startOf op).bind fun a => (step d.s a).map fun s' => { d with s := s', prog := rest }
  else (step d.s .step).map fun s' => { d with s := s' }

/-- advance the assembling thread until `p` holds (at most `fuel` moves); none = blocked or program exhausted -/
def advance (p : DState → Bool) : Nat → DState → Option DState
  | 0, d => if p d then some d else none
  | fuel + 1, d => if p d then some d else (asmMove d).bind (advance p fuel)

def protText : Prot → String | .rx => "rx" | .rw => "rw"

def curOf (d : DState) : String :=
  if d.stale then "unmapped" else
  match d.s.own, d.s.slot with
  | some b, none => protText b.prot
  | _, some b => if b.ver == 0 && d.s.done == 0 && d.s.pc == .idle then "none" else protText b.prot
  | none, none => "none"

/-- hook points the assembling thread can still pass while a read guard is held (until it blocks, or its program ends) -/
def hooksWhileHeld : Nat → DState → Nat
  | 0, _ => 0
  | fuel + 1, d =>
    match asmMove d with
    | none => 0
    | some d' =>
      -- a refused finalize leaves the thread waiting for the executor to go away
      if d.s.pc == .fCommitted then 0
      -- reaching idle = the operation returned: the harness passes its `api.boundary` point there
      else (if d'.s.pc == .finalized then 0 else 1) + hooksWhileHeld fuel d'

def kv (ws : List String) (k : String) : Option String :=
  ws.findSome? fun w => match w.splitOn "=" with | [a, b] => if a == k then some b else none | _ => none

def handle (d : DState) (ws : List String) : DState × String :=
  match ws with
  | ["prog", ops] => ({ d with prog := ops.splitOn ",", total := (ops.splitOn ",").length }, "= ok")
  | "hook" :: "api.boundary" :: _ =>
    -- between two API calls: the assembling thread is idle, nothing is locked by it
    if d.s.pc == .idle && !d.s.writer then (d, s!"= ok writer=0 cur={curOf d} readers={d.s.readers}") else (d, s!"= stuck at={reprStr d.s.pc}")
  | "hook" :: name :: _ =>
    let name' := if name == "commit.done" then none else pcOfHook name
    let target : DState → Bool := fun x =>
      match name' with
      | some pc => x.s.pc == pc
      | none => x.s.pc == .ipDone || x.s.pc == .gDone
    -- the previous point must be left first (the same point can recur, e.g. repeated finalize attempts)
    match asmMove d with
    | none => (d, "= stuck")
    | some d1 =>
      match advance target 3 d1 with
      | none => (d, s!"= stuck at={reprStr d.s.pc}")
      | some d' =>
        let d' := if d'.s.pc == .gSwapped then { d' with stale := true } else d'
        (d', s!"= ok writer={if d'.s.writer then 1 else 0} cur={curOf d'} readers={d'.s.readers}")
  | "returned" :: _ :: rest =>
    -- an operation that returned without passing any observation point (skipped, or returned early) has still to be performed by the model
    let d0 := if d.s.pc == .idle && d.total - d.prog.length ≤ d.returns then asmMove d else some d
    match d0.bind (advance (fun x => x.s.pc == .idle) 12) with
    | none => (d, "= stuck")
    | some d' =>
      let d' := { d' with stale := false, returns := d.returns + 1 }
      let v := (kv rest "ver").bind (·.toNat?)
      (d', if v == some d'.s.done then s!"= ok ver={d'.s.done}" else s!"= mismatch model-ver={d'.s.done}")
  | "rlock" :: "granted-later" :: _ => ({ d with skipUnlock := true }, "= ok")
  | "rlock" :: "granted" :: rest =>
    match step d.s .rlock with
    | none => (d, "= mismatch model=blocked")
    | some s' =>
      let v := (kv rest "ver").bind (·.toNat?)
      let p := kv rest "prot"
      let ok := match view d.s with
        | some b => v == some b.ver && b.clean && (p == some (protText b.prot) || (b.ver == 0 && p == some "none"))
        | none => false
      ({ d with s := s' }, if ok then "= ok" else s!"= mismatch model-view={reprStr (view d.s)}")
  | ["abort"] =>
    -- the assembling thread panicked at the observation point it had just reported
    match step d.s .abort with
    | none => (d, "= mismatch model=cannot-abort")
    | some s' => ({ d with s := s', prog := [] }, s!"= ok poisoned={if s'.poisoned then 1 else 0}")
  | ["rlock", "poisoned"] =>
    -- `Executor::lock` panicked on the `PoisonError`: the reader got nothing
    if d.s.poisoned && (step d.s .rlock).isNone then (d, "= ok") else (d, s!"= mismatch model=not-poisoned view={reprStr (view d.s)}")
  | ["rlock", "blocked"] =>
    match step d.s .rlock with
    | none => (d, "= ok")
    | some _ => (d, s!"= mismatch model=granted view={reprStr (view d.s)}")
  | ["runlock"] =>
    if d.skipUnlock then ({ d with skipUnlock := false }, "= ok") else
    match step d.s .runlock with
    | none => (d, "= mismatch model=no-guard")
    | some s' => ({ d with s := s' }, "= ok")
  | "while-held" :: rest =>
    let n := (kv rest "hooks").bind (·.toNat?)
    let m := hooksWhileHeld 40 d
    (d, s!"= ok observed={n.getD 0} still-possible={m}")
  | "held" :: _ => (d, "= ok")
  | ["finalize", "refused"] =>
    match advance (fun x => x.s.pc == .idle) 2 d with
    | some d' =>
      let d' := { d' with prog := "finalize" :: d'.prog }
      if 0 < d'.s.executors then (d', "= ok") else (d', "= mismatch model=would-succeed")
    | none => (d, "= stuck")
  | "finalized" :: rest =>
    -- the controller has dropped its executor by now
    let s1 := { d.s with executors := 0 }
    match advance (fun x => x.s.pc == .finalized) 3 { d with s := s1 } with
    | none => (d, "= stuck")
    | some d' =>
      let v := (kv rest "ver").bind (·.toNat?)
      (d', if v == some d'.s.done then "= ok" else s!"= mismatch model-ver={d'.s.done}")
  | ["end"] => (d, "= ok")
  | _ => (d, "= bad-op")

end DynasmVerif.Drv.Conc
