import DynasmVerif.Model.Util
import DynasmVerif.Model.Reloc

/-! Line-protocol handlers of the `reloc` stream (C05). -/

namespace DynasmVerif.Drv.Reloc
open DynasmVerif.Util DynasmVerif.Reloc

def wordOfHex? (f : Fmt) (s : String) : Option (BitVec 64) := do
  let bs ← bytesOfHex? s
  if bs.length ≠ f.size then none else some (ofLeBytes bs)

def showRes (f : Fmt) : Option (BitVec 64) → String
  | none => "impossible"
  | some w => "ok " ++ hexOfBytes (leBytes f.size w)

/-- digest of `count` writes starting at `start` with stride `step`, each followed by a read-back -/
def sweep (f : Fmt) (old : BitVec 64) (start : Int) (count step : Nat) : UInt64 × Nat := Id.run do
  let mut h := digestInit
  let mut oks := 0
  for i in [0:count] do
    let v := BitVec.ofInt 64 (start + (i * step : Nat))
    match write f old v with
    | none => h := mix h 0xFFFFFFFFFFFFFFFF; h := mix h 1
    | some w =>
      oks := oks + 1
      h := mix h (UInt64.ofNat w.toNat); h := mix h 0
      h := mix h (UInt64.ofNat (read f w).toNat)
  return (h, oks)

def handle (ws : List String) : String :=
  match ws with
  | ["w", fmt, old, v] =>
    match Fmt.ofName? fmt, v.toInt? with
    | some f, some vi =>
      match wordOfHex? f old with
      | some o => "= " ++ showRes f (write f o (BitVec.ofInt 64 vi))
      | none => "= bad-op"
    | _, _ => "= bad-op"
  | ["r", fmt, buf] =>
    match Fmt.ofName? fmt with
    | some f =>
      match wordOfHex? f buf with
      | some w => "= " ++ toString (read f w).toInt
      | none => "= bad-op"
    | none => "= bad-op"
  | ["sw", fmt, old, start, count, step] =>
    match Fmt.ofName? fmt, start.toInt?, count.toNat?, step.toNat? with
    | some f, some st, some c, some sp =>
      match wordOfHex? f old with
      | some o => let (h, n) := sweep f o st c sp; s!"= {hex64 h} ok={n}"
      | none => "= bad-op"
    | _, _, _, _ => "= bad-op"
  -- property checkers applied to the implementation's observed outputs
  | ["chk", fmt, old, v, "impossible"] =>
    match Fmt.ofName? fmt, v.toInt? with
    | some f, some vi =>
      match wordOfHex? f old with
      | some o => "= " ++ checkWrite f o (BitVec.ofInt 64 vi) none
      | none => "= bad-op"
    | _, _ => "= bad-op"
  | ["chk", fmt, old, v, "ok", res] =>
    match Fmt.ofName? fmt, v.toInt? with
    | some f, some vi =>
      match wordOfHex? f old, wordOfHex? f res with
      | some o, some r => "= " ++ checkWrite f o (BitVec.ofInt 64 vi) (some r)
      | _, _ => "= bad-op"
    | _, _ => "= bad-op"
  | ["chkr", fmt, v, got] =>
    match Fmt.ofName? fmt, v.toInt?, got.toInt? with
    | some f, some vi, some g => "= " ++ checkRead f (BitVec.ofInt 64 vi) (BitVec.ofInt 64 g)
    | _, _, _ => "= bad-op"
  -- read-back on an arbitrary word: it is the patched word of `v = archDecode w` whenever `write w v = some w`
  | ["chkrw", fmt, buf, got] =>
    match Fmt.ofName? fmt, got.toInt? with
    | some f, some g =>
      match wordOfHex? f buf with
      | some w =>
        let v := archDecode f w
        if write f w v == some w then "= " ++ checkRead f v (BitVec.ofInt 64 g) ++ s!" v={v.toInt}"
        else "= holds not-a-patched-word"
      | none => "= bad-op"
    | _, _ => "= bad-op"
  | _ => "= bad-op"

end DynasmVerif.Drv.Reloc
