import DynasmVerif.Model.Util
import DynasmVerif.Model.A64Imm

/-! Line-protocol handlers of the `a64imm` stream (C14).
`q <fn> <value>` → `= some <enc>` | `= none` (the model's encoder);
`img <fn>` → `= n=<count> <value>:<enc> …` — the image of the architectural decoder: every valid encoding is expanded
and the canonical (model-encoder) encoding of its value listed, in value order, duplicates removed. -/

namespace DynasmVerif.Drv.A64Imm
open DynasmVerif.A64Imm

def q (fn : String) (v : Nat) : String :=
  let opt (ok : Bool) (e : Nat) : String := if ok then s!"= some {e}" else "= none"
  match fn with
  | "logical32" => let x := BitVec.ofNat 32 v; opt (L32.encOk x) (L32.encVal x).toNat
  | "logical64" => let x := BitVec.ofNat 64 v; opt (L64.encOk x) (L64.encVal x).toNat
  | "wide32" => let x := BitVec.ofNat 32 v; opt (W32.encOk x) (W32.encVal x).toNat
  | "wide64" => let x := BitVec.ofNat 64 v; opt (W64.encOk x) (W64.encVal x).toNat
  | "stretched" => let x := BitVec.ofNat 64 v; opt (Stretched.encOk x) (Stretched.encVal x).toNat
  | "float" => let x := BitVec.ofNat 32 v; opt (Float.encOk x) (Float.encVal x).toNat
  | _ => "= bad-op"

/-- (value, canonical encoding) for every valid encoding below `bound`; `none` = encoder rejects a representable value -/
def image (bound : Nat) (decOk : Nat → Bool) (decVal : Nat → Nat) (enc : Nat → Option Nat) : List (Nat × Option Nat) :=
  let raw := (List.range bound).filterMap fun e => if decOk e then some (decVal e, enc (decVal e)) else none
  let sorted := raw.toArray.qsort (fun a b => a.1 < b.1) |>.toList
  -- drop adjacent duplicates (the list is sorted by value)
  let rec dedup : List (Nat × Option Nat) → List (Nat × Option Nat)
    | a :: b :: r => if a.1 == b.1 then dedup (b :: r) else a :: dedup (b :: r)
    | l => l
  dedup sorted

def showImage (l : List (Nat × Option Nat)) : String :=
  s!"= n={l.length} " ++ " ".intercalate (l.map fun p => match p.2 with | some e => s!"{p.1}:{e}" | none => s!"{p.1}:REJECTED")

def img (fn : String) : String :=
  match fn with
  | "logical32" => showImage (image 4096 (fun e => L32.decOk (BitVec.ofNat 16 e)) (fun e => (L32.decVal (BitVec.ofNat 16 e)).toNat)
      (fun v => let x := BitVec.ofNat 32 v; if L32.encOk x then some (L32.encVal x).toNat else none))
  | "logical64" => showImage (image 8192 (fun e => L64.decOk (BitVec.ofNat 16 e)) (fun e => (L64.decVal (BitVec.ofNat 16 e)).toNat)
      (fun v => let x := BitVec.ofNat 64 v; if L64.encOk x then some (L64.encVal x).toNat else none))
  | "wide32" => showImage (image 131072 (fun e => W32.decOk (BitVec.ofNat 32 e)) (fun e => (W32.decVal (BitVec.ofNat 32 e)).toNat)
      (fun v => let x := BitVec.ofNat 32 v; if W32.encOk x then some (W32.encVal x).toNat else none))
  | "wide64" => showImage (image 262144 (fun e => W64.decOk (BitVec.ofNat 32 e)) (fun e => (W64.decVal (BitVec.ofNat 32 e)).toNat)
      (fun v => let x := BitVec.ofNat 64 v; if W64.encOk x then some (W64.encVal x).toNat else none))
  | "stretched" => showImage (image 256 (fun e => Stretched.decOk (BitVec.ofNat 32 e)) (fun e => (Stretched.decVal (BitVec.ofNat 32 e)).toNat)
      (fun v => let x := BitVec.ofNat 64 v; if Stretched.encOk x then some (Stretched.encVal x).toNat else none))
  | "float" => showImage (image 256 (fun _ => true) (fun e => (Float.decVal (BitVec.ofNat 8 e)).toNat)
      (fun v => let x := BitVec.ofNat 32 v; if Float.encOk x then some (Float.encVal x).toNat else none))
  | _ => "= bad-op"

def handle (ws : List String) : String :=
  match ws with
  | ["q", fn, v] => match v.toNat? with | some n => q fn n | none => "= bad-op"
  | ["img", fn] => img fn
  | _ => "= bad-op"

end DynasmVerif.Drv.A64Imm
