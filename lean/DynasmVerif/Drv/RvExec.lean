import DynasmVerif.Model.Util
import DynasmVerif.Model.RvExec

/-! Line-protocol handler of the `rvexec` stream (C15): `x <64|32> <rd> <pc> <xHEX>` executes the little-endian 32-bit words
with the reference semantics (tracked register `rd`, every other register = 0x5555…) → `= acc=<int> out=<int>`. -/

namespace DynasmVerif.Drv.RvExec
open DynasmVerif.Util DynasmVerif.RvExec

def wordsOf : List (BitVec 8) → Option (List (BitVec 32))
  | [] => some []
  | a :: b :: c :: d :: r =>
    (wordsOf r).map fun ws => (a.zeroExtend 32 ||| (b.zeroExtend 32 <<< 8) ||| (c.zeroExtend 32 <<< 16) ||| (d.zeroExtend 32 <<< 24)) :: ws
  | _ => none

def handle (ws : List String) : String :=
  match ws with
  | ["x", xlen, rd, pc, hex] =>
    match rd.toNat?, pc.toInt?, (bytesOfHex? hex).bind wordsOf with
    | some r, some p, some words =>
      let t := run (xlen == "64") (BitVec.ofNat 5 r) 0x5555555555555555#64 ⟨0x5555555555555555#64, 0#64, BitVec.ofInt 64 p⟩ words
      s!"= acc={t.acc.toInt} out={t.out.toInt}"
    | _, _, _ => "= bad-op"
  | _ => "= bad-op"

end DynasmVerif.Drv.RvExec
