import DynasmVerif.Model.Util
import DynasmVerif.Model.A64Enc

/-! Line-protocol handler of the `a64enc` stream (C03/C04): `s <prev> <v> <cmd>;<cmd>;…` evaluates the literal-path model
`A64Enc.slotStatic` → `= ok <contribution to the word>` | `= reject`. Command tokens: `Ubits,10,12` `Ulist,22,0:12` `Ufields,11:21:20`
`Special,5,WIDE_IMMEDIATE_X` `Offset,BCOND` … (the table's own constructor names). -/

namespace DynasmVerif.Drv.A64Enc
open DynasmVerif.Util DynasmVerif.A64 DynasmVerif.A64Enc

def natList (s : String) : Option (List Nat) := (s.splitOn ":").mapM (·.toNat?)

def specialOf : String → Option SpecialComm
  | "INVERTED_WIDE_IMMEDIATE_W" => some .INVERTED_WIDE_IMMEDIATE_W | "INVERTED_WIDE_IMMEDIATE_X" => some .INVERTED_WIDE_IMMEDIATE_X
  | "WIDE_IMMEDIATE_W" => some .WIDE_IMMEDIATE_W | "WIDE_IMMEDIATE_X" => some .WIDE_IMMEDIATE_X | "STRETCHED_IMMEDIATE" => some .STRETCHED_IMMEDIATE
  | "LOGICAL_IMMEDIATE_W" => some .LOGICAL_IMMEDIATE_W | "LOGICAL_IMMEDIATE_X" => some .LOGICAL_IMMEDIATE_X
  | "FLOAT_IMMEDIATE" => some .FLOAT_IMMEDIATE | "SPLIT_FLOAT_IMMEDIATE" => some .SPLIT_FLOAT_IMMEDIATE | _ => none

def relocOf : String → Option Reloc
  | "B" => some .B | "BCOND" => some .BCOND | "ADR" => some .ADR | "ADRP" => some .ADRP | "TBZ" => some .TBZ | _ => none

def cmdOf (t : String) : Option Command :=
  match t.splitOn "," with
  | ["Ubits", o, l] => do some (.Ubits (← o.toNat?) (← l.toNat?))
  | ["Uscaled", o, l, s] => do some (.Uscaled (← o.toNat?) (← l.toNat?) (← s.toNat?))
  | ["Uslice", o, l, s] => do some (.Uslice (← o.toNat?) (← l.toNat?) (← s.toNat?))
  | ["Ulist", o, opts] => do some (.Ulist (← o.toNat?) (← natList opts))
  | ["Urange", o, a, b] => do some (.Urange (← o.toNat?) (← a.toNat?) (← b.toNat?))
  | ["Usubone", o, l] => do some (.Usubone (← o.toNat?) (← l.toNat?))
  | ["Usubzero", o, l] => do some (.Usubzero (← o.toNat?) (← l.toNat?))
  | ["Usubmod", o, l] => do some (.Usubmod (← o.toNat?) (← l.toNat?))
  | ["Usum", o, l] => do some (.Usum (← o.toNat?) (← l.toNat?))
  | ["Ufields", fs] => do some (.Ufields (← natList fs))
  | ["Sbits", o, l] => do some (.Sbits (← o.toNat?) (← l.toNat?))
  | ["Sscaled", o, l, s] => do some (.Sscaled (← o.toNat?) (← l.toNat?) (← s.toNat?))
  | ["Sslice", o, l, s] => do some (.Sslice (← o.toNat?) (← l.toNat?) (← s.toNat?))
  | ["CUbits", l] => do some (.CUbits (← l.toNat?))
  | ["CUsum", l] => do some (.CUsum (← l.toNat?))
  | ["CSscaled", l, s] => do some (.CSscaled (← l.toNat?) (← s.toNat?))
  | ["CUrange", a, b] => do some (.CUrange (← a.toNat?) (← b.toNat?))
  | ["Special", o, k] => do some (.Special (← o.toNat?) (← specialOf k))
  | ["Offset", r] => do some (.Offset (← relocOf r))
  | _ => none

def handle (ws : List String) : String :=
  match ws with
  | ["s", prev, v, cmds] =>
    match prev.toInt?, v.toInt?, (cmds.splitOn ";").mapM cmdOf with
    | some p, some v, some cs =>
      let r := slotStatic cs (BitVec.ofInt 64 p) (BitVec.ofInt 64 v)
      if r.1 then s!"= ok {r.2.toNat}" else "= reject"
    | _, _, _ => "= bad-op"
  | _ => "= bad-op"

end DynasmVerif.Drv.A64Enc
