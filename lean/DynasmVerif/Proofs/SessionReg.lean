import DynasmVerif.Model.Machine

/-!
# SessionReg — what an alter session does to the registry of address-dependent fields (C12)

The code purges the registry lazily (`Modifier::goto` and `Modifier::encode_relocs` drop the range written since the cursor was placed)
and keeps the fields the session writes in a second map until the cursor leaves them. The specification is the simplest reading of
the property: a byte written over the START of a tracked field forgets the field at once, a field written is tracked at once.
`session_refines_spec`: both give the same registry (as a lookup function) after any sequence of goto / emit / bare-reference steps,
whatever the session's outcome. The steps are the projections of `stepSession` / `sessionGoto` / `sessionEnd`
(lemmas `sessionGoto_reg`, `sessionEnd_reg`, `emit_reg`).
-/

namespace DynasmVerif.SessionReg
open DynasmVerif.Asm DynasmVerif.Reloc

/-- lookup by field start -/
def get? (m : Managed) (k : Nat) : Option PatchLoc := (m.find? (fun e => e.1 == k)).map (·.2)

/-- every entry is stored under its own field start, once (true of everything `Managed.add` builds) -/
def WF (m : Managed) : Prop := (∀ e ∈ m, e.1 = managedKey e.2) ∧ (m.map (·.1)).Nodup

theorem find_congr {α} (p q : α → Bool) (l : List α) (h : ∀ x ∈ l, p x = q x) : l.find? p = l.find? q := by
  induction l with
  | nil => rfl
  | cons x xs ih =>
    simp only [List.find?_cons, h x List.mem_cons_self]
    rw [ih (fun y hy => h y (List.mem_cons_of_mem _ hy))]

theorem get?_nil (k : Nat) : get? [] k = none := rfl

theorem get?_cons (x : Nat × PatchLoc) (xs : Managed) (k : Nat) :
    get? (x :: xs) k = if x.1 = k then some x.2 else get? xs k := by
  unfold get?
  by_cases h : x.1 = k <;> simp [List.find?_cons, h]

theorem get?_some_mem {m : Managed} {k : Nat} {p : PatchLoc} (h : get? m k = some p) : k ∈ m.map (·.1) := by
  unfold get? at h
  cases hf : List.find? (fun e => e.1 == k) m with
  | none => simp [hf] at h
  | some v =>
    have h1 := List.mem_of_find?_eq_some hf
    have h2 := List.find?_some hf
    simp only [beq_iff_eq] at h2
    exact List.mem_map.mpr ⟨v, h1, h2⟩

theorem get?_none_of_not_mem {m : Managed} {k : Nat} (h : k ∉ m.map (·.1)) : get? m k = none := by
  cases hg : get? m k with
  | none => rfl
  | some v => exact absurd (get?_some_mem hg) h

theorem get?_add (m : Managed) (p : PatchLoc) (k : Nat) :
    get? (m.add p) k = if k = managedKey p then some p else get? m k := by
  unfold get? Managed.add
  rw [List.find?_append]
  by_cases h : k = managedKey p
  · subst h
    have : List.find? (fun e => e.1 == managedKey p) (List.filter (fun e => e.1 != managedKey p) m) = none := by
      rw [List.find?_eq_none]; intro x hx
      simp only [List.mem_filter] at hx
      simpa using hx.2
    simp [this]
  · have h' : (managedKey p == k) = false := by simpa using fun e => h e.symm
    have : List.find? (fun e => e.1 == k) (List.filter (fun e => e.1 != managedKey p) m) = List.find? (fun e => e.1 == k) m := by
      rw [List.find?_filter]
      apply find_congr
      intro x _
      by_cases hx : x.1 = k
      · simp [hx, h]
      · simp [hx]
    simp [h, this, List.find?_cons, h']

theorem get?_removeBetween (m : Managed) (s e k : Nat) :
    get? (m.removeBetween s e) k = if s ≤ k ∧ k < e then none else get? m k := by
  unfold Managed.removeBetween
  by_cases hse : s = e
  · subst hse
    have : ¬ (s ≤ k ∧ k < s) := by omega
    simp [this]
  · simp only [hse, if_false]
    unfold get?
    by_cases h : s ≤ k ∧ k < e
    · have : List.find? (fun x => x.1 == k) (List.filter (fun x => !(decide (s ≤ x.1) && decide (x.1 < e))) m) = none := by
        rw [List.find?_filter, List.find?_eq_none]
        intro x _
        by_cases hx : x.1 = k
        · subst hx; simp; omega
        · simp [hx]
      rw [this]; simp [h]
    · have : List.find? (fun x => x.1 == k) (List.filter (fun x => !(decide (s ≤ x.1) && decide (x.1 < e))) m)
          = List.find? (fun e => e.1 == k) m := by
        rw [List.find?_filter]
        apply find_congr
        intro x _
        by_cases hx : x.1 = k
        · subst hx; simp; omega
        · simp [hx]
      rw [this]; simp [h]

/-! ### well-formedness is preserved by every registry operation -/

theorem wf_nil : WF [] := ⟨by simp, by simp⟩

theorem wf_add (m : Managed) (p : PatchLoc) (h : WF m) : WF (m.add p) := by
  unfold Managed.add
  refine ⟨?_, ?_⟩
  · intro e he
    simp only [List.mem_append, List.mem_filter, List.mem_singleton] at he
    rcases he with ⟨h1, _⟩ | rfl
    · exact h.1 e h1
    · rfl
  · rw [List.map_append, List.nodup_append]
    refine ⟨(h.2.sublist ((List.filter_sublist).map _)), by simp, ?_⟩
    intro a ha b hb
    simp only [List.map_cons, List.map_nil, List.mem_singleton] at hb
    simp only [List.mem_map, List.mem_filter] at ha
    obtain ⟨x, ⟨_, hx⟩, rfl⟩ := ha
    subst hb
    simpa using hx

theorem wf_addAll (m : Managed) (ps : List PatchLoc) (h : WF m) : WF (m.addAll ps) := by
  unfold Managed.addAll
  induction ps generalizing m with
  | nil => simpa
  | cons p ps ih => exact ih _ (wf_add m p h)

theorem wf_removeBetween (m : Managed) (s e : Nat) (h : WF m) : WF (m.removeBetween s e) := by
  unfold Managed.removeBetween
  split
  · exact h
  · exact ⟨fun x hx => h.1 x (List.mem_filter.mp hx).1, h.2.sublist ((List.filter_sublist).map _)⟩

theorem wf_merge (old new : Managed) (h : WF old) : WF (mergeManaged old new) := by
  unfold mergeManaged
  induction new generalizing old with
  | nil => simpa
  | cons x xs ih => exact ih _ (wf_add old x.2 h)

/-- `ManagedRelocs::append`: the entries of `new` win -/
theorem get?_merge (old new : Managed) (hw : WF new) (k : Nat) :
    get? (mergeManaged old new) k = match get? new k with | some p => some p | none => get? old k := by
  unfold mergeManaged
  induction new generalizing old with
  | nil => simp [get?_nil]
  | cons x xs ih =>
    have hkx : WF xs := ⟨fun e he => hw.1 e (List.mem_cons_of_mem _ he), (List.nodup_cons.mp hw.2).2⟩
    have hx : x.1 = managedKey x.2 := hw.1 x List.mem_cons_self
    have hn : x.1 ∉ xs.map (·.1) := (List.nodup_cons.mp hw.2).1
    rw [List.foldl_cons, ih _ hkx, get?_cons, get?_add]
    by_cases h : x.1 = k
    · have hnone : get? xs k = none := get?_none_of_not_mem (h ▸ hn)
      have hk' : k = managedKey x.2 := by rw [← hx]; exact h.symm
      rw [hnone]; simp [h, ← hk']
    · have : ¬ k = managedKey x.2 := by rw [← hx]; exact fun e => h e.symm
      simp [h, this]

/-! ## the registry-relevant projection of a session -/

/-- the steps of a session that matter to the registry -/
inductive ROp
  | emit (n : Nat)            -- `n` bytes written at the cursor
  | bare (p : PatchLoc)       -- an address-dependent reference to an external target, patched and tracked at once
  | goto (off : Nat)
deriving Repr

structure RState where
  managed : Managed           -- `old_managed` (the assembler's registry)
  new : Managed               -- `new_managed`
  prev : Nat
  cursor : Nat

def rstep (s : RState) : ROp → RState
  | .emit n => { s with cursor := s.cursor + n }
  | .bare p => { s with new := s.new.add p }
  | .goto off => { managed := mergeManaged (s.managed.removeBetween s.prev s.cursor) s.new, new := [], prev := off, cursor := off }

/-- the registry after `encode_relocs`, whatever its outcome; `madd` = the label references it patched before returning -/
def rend (s : RState) (madd : List PatchLoc) : Managed :=
  (mergeManaged (s.managed.removeBetween s.prev s.cursor) s.new).addAll madd

/-! ### the same steps in `Model/Machine` -/

theorem sessionGoto_reg (a a' : ExecAsm) (s s' : Session) (off : Nat) (h : sessionGoto a s off = some (a', s')) :
    (⟨a'.managed, s'.newManaged, s'.prev, s'.cursor⟩ : RState) = rstep ⟨a.managed, s.newManaged, s.prev, s.cursor⟩ (.goto off) := by
  unfold sessionGoto at h
  split at h
  · cases h
  · cases h; rfl

theorem emit_reg (s s' : Session) (bs : List Byte) (h : s.emit bs = some s') :
    s'.cursor = s.cursor + bs.length ∧ s'.prev = s.prev ∧ s'.newManaged = s.newManaged := by
  induction bs generalizing s with
  | nil => simp [Session.emit] at h; subst h; simp
  | cons b bs ih =>
    simp only [Session.emit] at h
    split at h
    · have := ih _ h
      simp only [List.length_cons] at *
      refine ⟨by omega, this.2.1, this.2.2⟩
    · cases h

theorem sessionEnd_reg (a a' : ExecAsm) (s : Session) (o : Out) (h : sessionEnd a s = some (a', o)) :
    ∃ madd, a'.managed = rend ⟨a.managed, s.newManaged, s.prev, s.cursor⟩ madd := by
  unfold sessionEnd at h
  split at h
  · cases h
  · simp only at h
    split at h
    · cases h
    · cases h; exact ⟨_, rfl⟩

/-- `Modifier::bare_relocation` in the machine: the cursor stays, and an address-dependent field is added to `new_managed` -/
theorem bare_reg (m : Machine) (a : ExecAsm) (s s' : Session) (target : Nat) (r) (m' : Machine) (ans : Ans)
    (h : stepSession m a s (.bare target r) = (m', ans)) (hm : m'.mode = .session s') (hd : m'.dead = false) :
    s'.cursor = s.cursor ∧ s'.prev = s.prev ∧
    (s'.newManaged = s.newManaged ∨ ((r.at s.cursor).needsAdjustment ∧ s'.newManaged = s.newManaged.add (r.at s.cursor))) := by
  unfold stepSession at h
  simp only at h
  split at h
  · simp [die] at h; obtain ⟨rfl, _⟩ := h; simp at hd
  · cases h; simp at hm; subst hm; simp
  · cases h; simp at hm; subst hm
    by_cases hn : (r.at s.cursor).needsAdjustment <;> simp [hn]

/-! ## the specification: forget at once, track at once -/

abbrev Reg := Nat → Option PatchLoc

structure Spec where
  reg : Reg
  cursor : Nat

def specStep (s : Spec) : ROp → Spec
  | .emit n => { reg := fun k => if s.cursor ≤ k ∧ k < s.cursor + n then none else s.reg k, cursor := s.cursor + n }
  | .bare p => { s with reg := fun k => if k = managedKey p then some p else s.reg k }
  | .goto off => { s with cursor := off }

def specEnd (s : Spec) (madd : List PatchLoc) : Reg :=
  madd.foldl (fun r p => fun k => if k = managedKey p then some p else r k) s.reg

/-- a bare reference's field lies in the bytes written since the cursor was placed (it is emitted, then declared) -/
def FieldsInSpan (s : RState) : List ROp → Prop
  | [] => True
  | .bare p :: rest => (s.prev ≤ managedKey p ∧ managedKey p < s.cursor) ∧ FieldsInSpan (rstep s (.bare p)) rest
  | op :: rest => FieldsInSpan (rstep s op) rest

/-- the relation between the lazy registry pair and the specification's registry -/
def Rel (s : RState) (sp : Spec) : Prop :=
  sp.cursor = s.cursor ∧ s.prev ≤ s.cursor ∧ WF s.new ∧
  (∀ k, k ∈ s.new.map (·.1) → s.prev ≤ k ∧ k < s.cursor) ∧
  ∀ k, sp.reg k = match get? s.new k with
                  | some p => some p
                  | none => if s.prev ≤ k ∧ k < s.cursor then none else get? s.managed k

theorem mem_keys_add {m : Managed} {p : PatchLoc} {k : Nat} (h : k ∈ (m.add p).map (·.1)) : k = managedKey p ∨ k ∈ m.map (·.1) := by
  unfold Managed.add at h
  simp only [List.map_append, List.mem_append, List.mem_map, List.mem_filter, List.mem_singleton] at h
  rcases h with ⟨x, ⟨hx, _⟩, rfl⟩ | ⟨x, rfl, rfl⟩
  · right; exact List.mem_map.mpr ⟨x, hx, rfl⟩
  · left; rfl

theorem rel_step (s : RState) (sp : Spec) (op : ROp) (h : Rel s sp)
    (hf : match op with | .bare p => s.prev ≤ managedKey p ∧ managedKey p < s.cursor | _ => True) :
    Rel (rstep s op) (specStep sp op) := by
  obtain ⟨hc, hle, hwf, hspan, hreg⟩ := h
  cases op with
  | emit n =>
    refine ⟨by simp [rstep, specStep, hc], by simp [rstep]; omega, hwf, ?_, ?_⟩
    · intro k hk; have := hspan k hk; simp only [rstep]; omega
    · intro k
      simp only [rstep, specStep, hc, hreg k]
      cases hg : get? s.new k with
      | some p =>
        have := hspan k (get?_some_mem hg)
        have : ¬ (s.cursor ≤ k ∧ k < s.cursor + n) := by omega
        simp [this]
      | none =>
        simp only
        by_cases h1 : s.cursor ≤ k ∧ k < s.cursor + n
        · have : s.prev ≤ k ∧ k < s.cursor + n := by omega
          simp [h1, this]
        · by_cases h2 : s.prev ≤ k ∧ k < s.cursor
          · have : s.prev ≤ k ∧ k < s.cursor + n := by omega
            simp [h1, h2, this]
          · have : ¬ (s.prev ≤ k ∧ k < s.cursor + n) := by omega
            simp [h1, h2, this]
  | bare p =>
    simp only at hf
    refine ⟨by simp [rstep, specStep, hc], by simp [rstep]; exact hle, wf_add _ _ hwf, ?_, ?_⟩
    · intro k hk
      rcases mem_keys_add hk with rfl | hk
      · exact hf
      · exact hspan k hk
    · intro k
      simp only [rstep, specStep, get?_add]
      by_cases hk : k = managedKey p
      · simp [hk]
      · simp only [hk, if_false]; exact hreg k
  | goto off =>
    refine ⟨by simp [rstep, specStep], by simp [rstep], wf_nil, by simp [rstep], ?_⟩
    intro k
    have : ¬ (off ≤ k ∧ k < off) := by omega
    simp only [rstep, specStep, get?_nil, this, if_false, get?_merge _ _ hwf, get?_removeBetween, hreg k]

/-- **refinement**: after any session made of goto / emit / bare-reference steps the code's registry equals the specification's,
for every outcome of the session (`rend` does not depend on it) -/
theorem session_refines_spec (ops : List ROp) (s : RState) (sp : Spec) (madd : List PatchLoc)
    (h : Rel s sp) (hf : FieldsInSpan s ops) :
    ∀ k, get? (rend (ops.foldl rstep s) madd) k = specEnd (ops.foldl specStep sp) madd k := by
  induction ops generalizing s sp with
  | nil =>
    obtain ⟨hc, hle, hwf, hspan, hreg⟩ := h
    simp only [List.foldl_nil, rend, specEnd]
    -- label references patched at the end are added on both sides in the same order
    have base : ∀ k, get? (mergeManaged (s.managed.removeBetween s.prev s.cursor) s.new) k = sp.reg k := by
      intro k; rw [get?_merge _ _ hwf, get?_removeBetween, hreg k]
    generalize mergeManaged (s.managed.removeBetween s.prev s.cursor) s.new = m at base
    generalize sp.reg = r at base
    unfold Managed.addAll
    induction madd generalizing m r with
    | nil => simpa using base
    | cons p ps ih =>
      intro k
      simp only [List.foldl_cons]
      apply ih
      intro k'
      rw [get?_add, base k']
  | cons op rest ih =>
    simp only [List.foldl_cons]
    apply ih
    · apply rel_step s sp op h
      cases op <;> simp_all [FieldsInSpan]
    · cases op <;> simp_all [FieldsInSpan]

/-- the state a session starts in (`Assembler::alter`: cursor 0, nothing written) is related to the registry as it stands -/
theorem rel_init (m : Managed) : Rel ⟨m, [], 0, 0⟩ ⟨get? m, 0⟩ := by
  refine ⟨rfl, by simp, wf_nil, by simp, ?_⟩
  intro k
  simp [get?_nil]

/-! ## reading the property's sentences off the specification -/

/-- nothing in `ops` (run from `sp`) writes over field start `k` or declares a field there -/
def NoTouch (k : Nat) (sp : Spec) : List ROp → Prop
  | [] => True
  | .emit n :: rest => ¬ (sp.cursor ≤ k ∧ k < sp.cursor + n) ∧ NoTouch k (specStep sp (.emit n)) rest
  | .bare p :: rest => managedKey p ≠ k ∧ NoTouch k (specStep sp (.bare p)) rest
  | .goto o :: rest => NoTouch k (specStep sp (.goto o)) rest

/-- nothing in `ops` declares a field at `k` (it may be overwritten) -/
def NoDecl (k : Nat) : List ROp → Prop
  | [] => True
  | .bare p :: rest => managedKey p ≠ k ∧ NoDecl k rest
  | _ :: rest => NoDecl k rest

theorem noTouch_keeps (k : Nat) (ops : List ROp) (sp : Spec) (h : NoTouch k sp ops) :
    (ops.foldl specStep sp).reg k = sp.reg k := by
  induction ops generalizing sp with
  | nil => rfl
  | cons op rest ih =>
    cases op with
    | emit n => simp only [NoTouch] at h; rw [List.foldl_cons, ih _ h.2]; simp [specStep, h.1]
    | bare p => simp only [NoTouch] at h; rw [List.foldl_cons, ih _ h.2]; simp [specStep, Ne.symm h.1]
    | goto o => simp only [NoTouch] at h; rw [List.foldl_cons, ih _ h]; simp [specStep]

theorem noDecl_stays_none (k : Nat) (ops : List ROp) (sp : Spec) (h : NoDecl k ops) (h0 : sp.reg k = none) :
    (ops.foldl specStep sp).reg k = none := by
  induction ops generalizing sp with
  | nil => exact h0
  | cons op rest ih =>
    cases op with
    | emit n => simp only [NoDecl] at h; rw [List.foldl_cons]; apply ih _ h; simp only [specStep]; split <;> simp [h0]
    | bare p => simp only [NoDecl] at h; rw [List.foldl_cons]; apply ih _ h.2; simp [specStep, Ne.symm h.1, h0]
    | goto o => simp only [NoDecl] at h; rw [List.foldl_cons]; apply ih _ h; simp [specStep, h0]

theorem specEnd_other (sp : Spec) (madd : List PatchLoc) (k : Nat) (h : ∀ p ∈ madd, managedKey p ≠ k) :
    specEnd sp madd k = sp.reg k := by
  unfold specEnd
  generalize sp.reg = r
  induction madd generalizing r with
  | nil => rfl
  | cons p ps ih =>
    rw [List.foldl_cons, ih (fun q hq => h q (List.mem_cons_of_mem _ hq))]
    simp [Ne.symm (h p List.mem_cons_self)]


end DynasmVerif.SessionReg
