import DynasmVerif.Model.Conc

/-! The inductive invariant of the Conc transition system: what holds at every observation point. -/

namespace DynasmVerif.Conc

/-- the committed, complete, executable buffer of version `v` -/
def good (v : Nat) : Option Buf := some ⟨.rx, v, true⟩

/-- per program counter: who holds the lock and where the buffer is, in which protection, with which contents -/
def pcInv (s : State) : Prop :=
  match s.pc with
  | .idle | .ipDone | .gSwapped | .gDone | .aCommitted | .fCommitted => s.writer = false ∧ s.own = none ∧ s.slot = good s.done
  | .finalized => s.writer = false ∧ s.own = none ∧ s.slot = good s.done ∧ s.executors = 0
  | .ipLocked | .aLocked => s.writer = true ∧ s.own = none ∧ s.slot = good s.done
  | .ipTaken | .aTaken => s.writer = true ∧ s.slot = none ∧ s.own = good s.done
  | .ipMut | .aMut => s.writer = true ∧ s.slot = none ∧ s.own = some ⟨.rw, s.done, true⟩
  | .ipWritten | .aRelocs => s.writer = true ∧ s.slot = none ∧ s.own = some ⟨.rw, s.done + 1, true⟩
  | .aUser => s.writer = true ∧ s.slot = none ∧ s.own = some ⟨.rw, s.done, false⟩
  | .ipExec | .aExec => s.writer = true ∧ s.slot = none ∧ s.own = good (s.done + 1)
  | .ipRestored | .aRestored => s.writer = true ∧ s.own = none ∧ s.slot = good (s.done + 1)
  | .gAlloc => s.writer = false ∧ s.slot = good s.done ∧ s.own = some ⟨.rw, 0, false⟩
  | .gCopied | .gAdjusted => s.writer = false ∧ s.slot = good s.done ∧ s.own = some ⟨.rw, s.done + 1, true⟩
  -- after the assembling thread died: nothing is owned or locked; unless the lock is poisoned the slot still holds the last committed state
  | .dead => s.writer = false ∧ s.own = none ∧ (s.poisoned = false → s.slot = good s.done) ∧
      (s.slot = none ∨ s.slot = good s.done ∨ s.slot = good (s.done + 1))

structure Inv (s : State) : Prop where
  excl : 0 < s.readers → s.writer = false
  guardsNeedExecutor : 0 < s.readers → 0 < s.executors
  atPc : pcInv s
  poison : s.poisoned = true → s.pc = .dead

theorem inv_init (e : Nat) : Inv (init e) := by
  refine ⟨by simp [init], by simp [init], ?_, by simp [init]⟩
  simp [pcInv, init, good]

macro "conc_fin" : tactic => `(tactic|
  (refine ⟨?_, ?_, ?_, ?_⟩ <;> (try simp_all [pcInv, good]) <;> (try omega)))

theorem inv_step (s s' : State) (a : Act) (h : Inv s) (hs : step s a = some s') : Inv s' := by
  obtain ⟨hex, hge, hpc, hpo⟩ := h
  obtain ⟨pc, writer, readers, slot, own, done, executors, poisoned⟩ := s
  simp only at hex hge hpo
  cases a <;> cases pc <;> simp [step, canWrite, canRead, setProt] at hs <;> simp only [pcInv, good] at hpc <;>
    first
    | (obtain ⟨hc, rfl⟩ := hs; conc_fin)
    | (subst hs; conc_fin)
    | (split at hs <;> simp only [Option.some.injEq] at hs <;> subst hs <;> conc_fin)

end DynasmVerif.Conc
