import DynasmVerif.Model.Machine

/-! helper lemmas about `splice`, `patchField`, the drain-and-patch loops: lengths are preserved and nothing outside
the relocation fields changes. Used by C01, C06, C10, C11, C12. -/

namespace DynasmVerif.Patch
open DynasmVerif.Asm DynasmVerif.Reloc

theorem leBytes_length (n : Nat) (w : BitVec 64) : (leBytes n w).length = n := by simp [leBytes]

theorem splice_length (buf : List Byte) (start : Nat) (bs : List Byte) (h : start + bs.length ≤ buf.length) :
    (splice buf start bs).length = buf.length := by
  simp [splice]; omega

theorem splice_outside (buf : List Byte) (start : Nat) (bs : List Byte) (h : start + bs.length ≤ buf.length)
    (j : Nat) (hj : j < start ∨ start + bs.length ≤ j) : (splice buf start bs)[j]? = buf[j]? := by
  unfold splice
  rcases hj with hj | hj
  · rw [List.append_assoc, List.getElem?_append_left (by simp; omega)]
    simp [List.getElem?_take, hj]
  · rw [List.getElem?_append_right (by simp; omega)]
    simp only [List.length_append, List.length_take, List.getElem?_drop]
    congr 1
    have : min start buf.length = start := by omega
    omega

theorem splice_inside (buf : List Byte) (start : Nat) (bs : List Byte) (h : start + bs.length ≤ buf.length)
    (i : Nat) (hi : i < bs.length) : (splice buf start bs)[start + i]? = bs[i]? := by
  unfold splice
  have hmin : min start buf.length = start := by omega
  rw [List.append_assoc, List.getElem?_append_right (by simp; omega)]
  simp only [List.length_take, hmin, Nat.add_sub_cancel_left]
  rw [List.getElem?_append_left hi]

/-- the index range of a field -/
def inRange (st size j : Nat) : Prop := st ≤ j ∧ j < st + size

theorem patchField_ok (buf b : List Byte) (st size : Nat) (f : BitVec 64 → Option (BitVec 64))
    (h : patchField buf st size f = .ok b) :
    b.length = buf.length ∧ st + size ≤ buf.length ∧ (∀ j, ¬ inRange st size j → b[j]? = buf[j]?) ∧
    ∃ w, f (ofLeBytes (slice buf st size)) = some w ∧ b = splice buf st (leBytes size w) := by
  unfold patchField at h
  split at h
  · cases h
  · rename_i hle
    split at h
    · cases h
    · rename_i w hw
      cases h
      have hl : (leBytes size w).length = size := leBytes_length _ _
      refine ⟨splice_length _ _ _ (by rw [hl]; omega), by omega, ?_, w, hw, rfl⟩
      intro j hj
      apply splice_outside _ _ _ (by rw [hl]; omega)
      rw [hl]; unfold inRange at hj; omega

/-- start index of the field a `PatchLoc` designates in a buffer that begins at offset `bufOffset` -/
def fieldStart (p : PatchLoc) (bufOffset : Nat) : Nat := p.location - bufOffset - p.fieldOff

theorem patch_ok (p : PatchLoc) (buf b : List Byte) (off addr target : Nat) (h : p.patch buf off addr target = .ok b) :
    b.length = buf.length ∧ fieldStart p off + p.reloc.fmt.size ≤ buf.length ∧
    off + p.fieldOff ≤ p.location ∧
    (∀ j, ¬ inRange (fieldStart p off) p.reloc.fmt.size j → b[j]? = buf[j]?) ∧
    ∃ v w, p.value target addr = some v ∧
      write p.reloc.fmt (ofLeBytes (slice buf (fieldStart p off) p.reloc.fmt.size)) v = some w ∧
      b = splice buf (fieldStart p off) (leBytes p.reloc.fmt.size w) := by
  unfold PatchLoc.patch at h
  split at h
  · rename_i st v hst hv
    unfold PatchLoc.start at hst
    split at hst
    · cases hst
    · rename_i hge
      cases hst
      obtain ⟨h1, h2, h3, w, hw, hb⟩ := patchField_ok _ _ _ _ _ h
      exact ⟨h1, h2, by omega, h3, v, w, hv, hw, hb⟩
  · cases h

/-- fields of the pending static relocations -/
def staticFields (off : Nat) (l : List (PatchLoc × Nat × Nat)) (j : Nat) : Prop :=
  ∃ e ∈ l, inRange (fieldStart e.1 off) e.1.reloc.fmt.size j

def dynamicFields (off : Nat) (l : List (PatchLoc × Nat)) (j : Nat) : Prop :=
  ∃ e ∈ l, inRange (fieldStart e.1 off) e.1.reloc.fmt.size j

/-- the static loop never changes the length of the buffer nor any byte outside the fields of the listed relocations,
whatever its outcome -/
theorem patchStatics_frame (l : Labels) (off addr : Nat) (rs : List (PatchLoc × Nat × Nat)) (buf : List Byte) (m : List PatchLoc) :
    let r := patchStatics l off addr rs buf m
    r.1.length = buf.length ∧ ∀ j, ¬ staticFields off rs j → r.1[j]? = buf[j]? := by
  induction rs generalizing buf m with
  | nil => simp [patchStatics]
  | cons e rest ih =>
    obtain ⟨p, name, ver⟩ := e
    simp only [patchStatics]
    split
    · simp
    · split
      · simp
      · simp
      · rename_i target _ buf' hp
        obtain ⟨h1, _, _, h3, _⟩ := patch_ok p buf buf' off addr _ hp
        obtain ⟨i1, i2⟩ := ih buf' (if p.needsAdjustment then m ++ [p] else m)
        refine ⟨by rw [i1, h1], ?_⟩
        intro j hj
        rw [i2 j (fun ⟨e, he, hr⟩ => hj ⟨e, List.mem_cons_of_mem _ he, hr⟩)]
        exact h3 j (fun hr => hj ⟨(p, name, ver), List.mem_cons_self, hr⟩)

theorem patchDynamics_frame (l : Labels) (off addr : Nat) (rs : List (PatchLoc × Nat)) (buf : List Byte) (m : List PatchLoc) :
    let r := patchDynamics l off addr rs buf m
    r.1.length = buf.length ∧ ∀ j, ¬ dynamicFields off rs j → r.1[j]? = buf[j]? := by
  induction rs generalizing buf m with
  | nil => simp [patchDynamics]
  | cons e rest ih =>
    obtain ⟨p, id⟩ := e
    simp only [patchDynamics]
    split
    · simp
    · split
      · simp
      · simp
      · rename_i target _ buf' hp
        obtain ⟨h1, _, _, h3, _⟩ := patch_ok p buf buf' off addr _ hp
        obtain ⟨i1, i2⟩ := ih buf' (if p.needsAdjustment then m ++ [p] else m)
        refine ⟨by rw [i1, h1], ?_⟩
        intro j hj
        rw [i2 j (fun ⟨e, he, hr⟩ => hj ⟨e, List.mem_cons_of_mem _ he, hr⟩)]
        exact h3 j (fun hr => hj ⟨(p, id), List.mem_cons_self, hr⟩)

/-- `encode_relocs`: the buffer keeps its length, and only bytes inside the fields of pending relocations can change -/
theorem encodeRelocs_frame (c : Core) (buf : List Byte) (off addr : Nat) (drainAll : Bool := false) :
    let r := c.encodeRelocs buf off addr drainAll
    r.2.1.length = buf.length ∧
    ∀ j, ¬ staticFields off c.statics j → ¬ dynamicFields off c.dynamics j → r.2.1[j]? = buf[j]? := by
  unfold Core.encodeRelocs
  split
  · simp
  · have hs := patchStatics_frame c.labels off addr c.statics buf []
    generalize hps : patchStatics c.labels off addr c.statics buf [] = ps at hs
    obtain ⟨b1, m1, o1⟩ := ps
    simp only at hs
    cases o1 with
    | ok =>
      have hd := patchDynamics_frame c.labels off addr c.dynamics b1 m1
      generalize hpd : patchDynamics c.labels off addr c.dynamics b1 m1 = pd at hd
      obtain ⟨b2, m2, o2⟩ := pd
      simp only [hpd] at hd ⊢
      refine ⟨by rw [hd.1, hs.1], ?_⟩
      intro j h1 h2
      rw [hd.2 j h2, hs.2 j h1]
    | err e => simp only; exact ⟨hs.1, fun j h1 _ => hs.2 j h1⟩
    | panic => simp only; exact ⟨hs.1, fun j h1 _ => hs.2 j h1⟩

/-! ## what stays registered when a patch loop stops early (`staticsRest` / `dynamicsRest`) -/

/-- a loop that ran to its end leaves nothing registered -/
theorem staticsRest_of_ok (l : Labels) (off addr : Nat) (rs : List (PatchLoc × Nat × Nat)) (buf b : List Byte) (m m' : List PatchLoc)
    (h : patchStatics l off addr rs buf m = (b, m', .ok)) : staticsRest l off addr rs buf = [] := by
  induction rs generalizing buf m with
  | nil => rfl
  | cons r rest ih =>
    obtain ⟨p, name, ver⟩ := r
    simp only [patchStatics, staticsRest] at h ⊢
    cases hr : l.resolveStatic name ver with
    | error e => simp [hr] at h
    | ok target =>
      simp only [hr] at h ⊢
      cases hp : p.patch buf off addr target with
      | panic => simp [hp] at h
      | impossible => simp [hp] at h
      | ok buf' => simp only [hp] at h ⊢; exact ih buf' _ h

theorem dynamicsRest_of_ok (l : Labels) (off addr : Nat) (rs : List (PatchLoc × Nat)) (buf b : List Byte) (m m' : List PatchLoc)
    (h : patchDynamics l off addr rs buf m = (b, m', .ok)) : dynamicsRest l off addr rs buf = [] := by
  induction rs generalizing buf m with
  | nil => rfl
  | cons r rest ih =>
    obtain ⟨p, id⟩ := r
    simp only [patchDynamics, dynamicsRest] at h ⊢
    cases hr : l.resolveDynamic id with
    | error e => simp [hr] at h
    | ok target =>
      simp only [hr] at h ⊢
      cases hp : p.patch buf off addr target with
      | panic => simp [hp] at h
      | impossible => simp [hp] at h
      | ok buf' => simp only [hp] at h ⊢; exact ih buf' _ h

/-- a loop that stopped early keeps something registered -/
theorem staticsRest_ne_nil_of_err (l : Labels) (off addr : Nat) (rs : List (PatchLoc × Nat × Nat)) (buf b : List Byte) (m m' : List PatchLoc)
    (e : Err) (h : patchStatics l off addr rs buf m = (b, m', .err e)) : staticsRest l off addr rs buf ≠ [] := by
  induction rs generalizing buf m with
  | nil => simp [patchStatics] at h
  | cons r rest ih =>
    obtain ⟨p, name, ver⟩ := r
    simp only [patchStatics, staticsRest] at h ⊢
    cases hr : l.resolveStatic name ver with
    | error e => simp
    | ok target =>
      simp only [hr] at h ⊢
      cases hp : p.patch buf off addr target with
      | panic => simp
      | impossible => simp
      | ok buf' => simp only [hp] at h ⊢; exact ih buf' _ h

/-- the registered references split into the ones a SUCCESSFUL loop has patched (a prefix, leading to the same buffer) and the ones
that stay registered -/
theorem staticsRest_split (l : Labels) (off addr : Nat) (rs : List (PatchLoc × Nat × Nat)) (buf : List Byte) (m : List PatchLoc) :
    ∃ pre, rs = pre ++ staticsRest l off addr rs buf ∧
      patchStatics l off addr pre buf m =
        ((patchStatics l off addr rs buf m).1, (patchStatics l off addr rs buf m).2.1, .ok) := by
  induction rs generalizing buf m with
  | nil => exact ⟨[], rfl, rfl⟩
  | cons r rest ih =>
    obtain ⟨p, name, ver⟩ := r
    cases hr : l.resolveStatic name ver with
    | error e => exact ⟨[], by simp [staticsRest, hr], by simp [patchStatics, hr]⟩
    | ok target =>
      cases hp : p.patch buf off addr target with
      | panic => exact ⟨[], by simp [staticsRest, hr, hp], by simp [patchStatics, hr, hp]⟩
      | impossible => exact ⟨[], by simp [staticsRest, hr, hp], by simp [patchStatics, hr, hp]⟩
      | ok buf' =>
        obtain ⟨pre, h1, h2⟩ := ih buf' (if p.needsAdjustment then m ++ [p] else m)
        refine ⟨(p, name, ver) :: pre, ?_, ?_⟩
        · simp only [staticsRest, hr, hp, List.cons_append]
          exact congrArg _ h1
        · simp only [patchStatics, hr, hp]
          exact h2

end DynasmVerif.Patch
