import Std.Tactic.BVDecide
import DynasmVerif.Model.X64Mem

/-!
# X64Bytes — the byte layout of an x86-64 memory operand read back the way the SDM reads it (C13)

`X64Mem.toBytes` lays out `[67] [REX | C5 xx | C4 xx xx] opcode ModRM [SIB] [disp8 | disp32]`. `parse` is the reader's side: it knows the
mode, whether the instruction is VEX encoded and how many opcode bytes follow the prefixes (instruction knowledge, not operand
knowledge), and recovers every field from the bytes alone — REX.RXBW / VEX.~R~X~B, W, vvvv, L, pp, map; mod, reg, rm; scale, index,
base; the displacement by the SDM's size rule. `toBytes_parses`: for every carrier and every encoded operand whose SIB presence and
displacement size follow the SDM rule (which `C13.*_sib` / `*_dsize` prove of everything `encode` produces), parsing the bytes gives
back exactly the fields that were encoded — nothing is lost between the field level, where `*_operand_decodes` are stated, and bytes.
-/

namespace DynasmVerif.X64Mem

/-- what the reader recovers from the bytes -/
structure Parsed where
  p67 : Bool
  r : Bool
  x : Bool
  b : Bool
  w : Bool
  vvvv : BitVec 4
  l : Bool
  pp : BitVec 8
  map : BitVec 8
  md : BitVec 2
  reg : BitVec 3
  rm : BitVec 3
  hasSib : Bool
  ss : BitVec 2
  idx : BitVec 3
  sbase : BitVec 3
  dispSize : BitVec 3
  disp : BitVec 32          -- disp32, or disp8 zero-extended
deriving DecidableEq, Repr

structure Pre where
  r : Bool
  x : Bool
  b : Bool
  w : Bool
  vvvv : BitVec 4
  l : Bool
  pp : BitVec 8
  map : BitVec 8
deriving DecidableEq, Repr

def bit (v : BitVec 8) (i : Nat) : Bool := v.getLsbD i

/-- the prefix group after an optional 67: VEX (C5 / C4) for a VEX instruction, else an optional REX (long mode: 40..4F) -/
def parsePre (long vex : Bool) (bs : List (BitVec 8)) : Option (Pre × List (BitVec 8)) :=
  if vex then
    match bs with
    | b0 :: b1 :: rest =>
      if b0 == 0xC5 then some (⟨!bit b1 7, false, false, false, (~~~(b1 >>> 3)).truncate 4, bit b1 2, b1 &&& 3, 1⟩, rest)
      else if b0 == 0xC4 then
        match rest with
        | b2 :: rest' => some (⟨!bit b1 7, !bit b1 6, !bit b1 5, bit b2 7, (~~~(b2 >>> 3)).truncate 4, bit b2 2, b2 &&& 3, b1 &&& 0x1F⟩, rest')
        | [] => none
      else none
    | _ => none
  else
    match bs with
    | r :: rest =>
      if long && (r &&& 0xF0) == 0x40 then some (⟨bit r 2, bit r 1, bit r 0, bit r 3, 0, false, 0, 0⟩, rest)
      else some (⟨false, false, false, false, 0, false, 0, 0⟩, bs)
    | [] => none

def le32 (a b c d : BitVec 8) : BitVec 32 :=
  a.zeroExtend 32 ||| (b.zeroExtend 32 <<< 8) ||| (c.zeroExtend 32 <<< 16) ||| (d.zeroExtend 32 <<< 24)

def sdmSize (md : BitVec 2) (rm sbase : BitVec 3) : BitVec 3 :=
  if md == 1 then 1 else if md == 2 then 4 else if rm == 5 then 4 else if rm == 4 && sbase == 5 then 4 else 0

/-- the displacement of the size the SDM prescribes; all bytes must be consumed -/
def parseDisp (dsz : BitVec 3) (rest : List (BitVec 8)) : Option (BitVec 32) :=
  if dsz == 0 then (match rest with | [] => some 0 | _ => none)
  else if dsz == 1 then (match rest with | [d] => some (d.zeroExtend 32) | _ => none)
  else (match rest with | [a, b, c, d] => some (le32 a b c d) | _ => none)

/-- ModRM (mod = 3 is a register, not a memory operand), SIB when rm = 4, displacement -/
def parseTail (p67 : Bool) (p : Pre) : List (BitVec 8) → Option Parsed
  | [] => none
  | modrm :: rest =>
    let md : BitVec 2 := (modrm >>> 6).truncate 2
    let reg : BitVec 3 := (modrm >>> 3).truncate 3
    let rm : BitVec 3 := modrm.truncate 3
    if md == 3 then none else
    if rm == 4 then
      match rest with
      | sib :: rest' =>
        let ss : BitVec 2 := (sib >>> 6).truncate 2
        let idx : BitVec 3 := (sib >>> 3).truncate 3
        let sbase : BitVec 3 := sib.truncate 3
        (parseDisp (sdmSize md rm sbase) rest').map fun disp =>
          ⟨p67, p.r, p.x, p.b, p.w, p.vvvv, p.l, p.pp, p.map, md, reg, rm, true, ss, idx, sbase, sdmSize md rm sbase, disp⟩
      | [] => none
    else
      (parseDisp (sdmSize md rm 0) rest).map fun disp =>
        ⟨p67, p.r, p.x, p.b, p.w, p.vvvv, p.l, p.pp, p.map, md, reg, rm, false, 0, 0, 0, sdmSize md rm 0, disp⟩

def parse (long vex : Bool) (nOpcode : Nat) (bs : List (BitVec 8)) : Option Parsed :=
  match bs with
  | [] => none
  | b0 :: rest =>
    let p67 := b0 == 0x67
    match parsePre long vex (if p67 then rest else bs) with
    | none => none
    | some (p, rest') => parseTail p67 p (rest'.drop nOpcode)

/-! ## the encoder's bytes parse back -/

/-- the fields the reader must find, from what was encoded -/
def expected (long : Bool) (c : Carrier) (e : Enc) : Parsed :=
  let xb := hasXB long c e
  ⟨e.pref67, long && c.reg.getLsbD 3, xb && e.x, xb && e.b,
   if c.vex then c.rexW else long && c.rexW,
   if c.vex then c.vvvv else 0, c.vex && c.vexL, if c.vex then c.pp &&& 3 else 0,
   if c.vex then c.mapSel &&& 0x1F else 0,
   e.md, c.reg.truncate 3, e.rm, e.hasSib, if e.hasSib then e.ss else 0, if e.hasSib then e.idx else 0, if e.hasSib then e.sbase else 0,
   e.dispSize, if e.dispSize == 1 then (e.disp.truncate 8 : BitVec 8).zeroExtend 32 else if e.dispSize == 4 then e.disp else 0⟩

/-! ## lemmas -/

def modrmByte (md : BitVec 2) (reg : BitVec 3) (rm : BitVec 3) : BitVec 8 :=
  (md.zeroExtend 8 <<< 6) ||| ((reg.zeroExtend 8 : BitVec 8) <<< 3) ||| rm.zeroExtend 8

@[simp] theorem modrm_md (md : BitVec 2) (reg rm : BitVec 3) : BitVec.setWidth 2 ((modrmByte md reg rm) >>> 6) = md := by
  unfold modrmByte; bv_decide
@[simp] theorem modrm_reg (md : BitVec 2) (reg rm : BitVec 3) : BitVec.setWidth 3 ((modrmByte md reg rm) >>> 3) = reg := by
  unfold modrmByte; bv_decide
@[simp] theorem modrm_rm (md : BitVec 2) (reg rm : BitVec 3) : BitVec.setWidth 3 (modrmByte md reg rm) = rm := by
  unfold modrmByte; bv_decide
theorem le32_leBytes (v : BitVec 32) : le32 (v.truncate 8) ((v >>> 8).truncate 8) ((v >>> 16).truncate 8) ((v >>> 24).truncate 8) = v := by
  unfold le32; bv_decide

theorem sdmSize_cases (md : BitVec 2) (rm sbase : BitVec 3) : sdmSize md rm sbase = 0 ∨ sdmSize md rm sbase = 1 ∨ sdmSize md rm sbase = 4 := by
  unfold sdmSize; bv_decide

theorem disp_parses (dsz : BitVec 3) (disp : BitVec 32) (h : dsz = 0 ∨ dsz = 1 ∨ dsz = 4) :
    parseDisp dsz (if dsz == 1 then [disp.truncate 8] else if dsz == 4 then leBytes32 disp else []) =
      some (if dsz == 1 then (disp.truncate 8 : BitVec 8).zeroExtend 32 else if dsz == 4 then disp else 0) := by
  rcases h with h | h | h <;> subst h <;> simp [parseDisp, leBytes32, le32_leBytes]

theorem tail_parses (p67 : Bool) (p : Pre) (reg : BitVec 3) (md ss : BitVec 2) (rm idx sbase dispSize : BitVec 3) (disp : BitVec 32) (hasSib : Bool)
    (hsib : hasSib = (rm == 4)) (hds : dispSize = sdmSize md rm (if hasSib then sbase else 0)) (hmd : md ≠ 3#2) :
    parseTail p67 p ([modrmByte md reg rm] ++ (if hasSib then [modrmByte ss idx sbase] else []) ++
        (if dispSize == 1 then [disp.truncate 8] else if dispSize == 4 then leBytes32 disp else [])) =
      some ⟨p67, p.r, p.x, p.b, p.w, p.vvvv, p.l, p.pp, p.map, md, reg, rm, hasSib,
            if hasSib then ss else 0, if hasSib then idx else 0, if hasSib then sbase else 0, dispSize,
            if dispSize == 1 then (disp.truncate 8 : BitVec 8).zeroExtend 32 else if dispSize == 4 then disp else 0⟩ := by
  subst hsib
  have hdp := disp_parses dispSize disp (hds ▸ sdmSize_cases _ _ _)
  by_cases hrm : rm = 4#3
  · subst hrm
    simp at hds
    simp [parseTail, hmd, ← hds]
    simpa using hdp
  · simp [hrm] at hds
    simp [parseTail, hrm, hmd, ← hds]
    simpa using hdp

/-! prefix group -/
def byte1 (long : Bool) (c : Carrier) (x b : Bool) : BitVec 8 :=
  if long then (c.mapSel &&& 0x1F) ||| (b2u (!c.reg.getLsbD 3) <<< 7) ||| (b2u (!x) <<< 6) ||| (b2u (!b) <<< 5)
  else (c.mapSel &&& 0x1F) ||| 0xE0
def byte2 (c : Carrier) : BitVec 8 :=
  (c.pp &&& 3) ||| (b2u c.rexW <<< 7) ||| (((~~~c.vvvv).zeroExtend 8 &&& 0xF) <<< 3) ||| (b2u c.vexL <<< 2)
def twoByte (long : Bool) (c : Carrier) (e : Enc) : Bool :=
  (byte1 long c (e.x && !e.indexDyn) (e.b && !e.baseDyn) &&& 0x7F) == 0x61 && (byte2 c &&& 0x80) == 0 && ((!e.indexDyn && !e.baseDyn) || !long)
def vexBytes (long : Bool) (c : Carrier) (e : Enc) : List (BitVec 8) :=
  if twoByte long c e then [0xC5, (byte1 long c (e.x && !e.indexDyn) (e.b && !e.baseDyn) &&& 0x80) ||| (byte2 c &&& 0x7F)]
  else [0xC4, byte1 long c e.x e.b, byte2 c]
def rexPresent (long : Bool) (c : Carrier) (e : Enc) : Bool := long && (e.needRex || c.rexW || c.reg.getLsbD 3)
def rexBytes (long : Bool) (c : Carrier) (e : Enc) : List (BitVec 8) :=
  if rexPresent long c e then [0x40 ||| (b2u c.rexW <<< 3) ||| (b2u (c.reg.getLsbD 3) <<< 2) ||| (b2u e.x <<< 1) ||| b2u e.b] else []

theorem toBytes_eq (long : Bool) (c : Carrier) (e : Enc) :
    toBytes long c e = (if e.pref67 then [0x67] else []) ++ ((if c.vex then vexBytes long c e else rexBytes long c e) ++ (c.opcode ++
      ([modrmByte e.md (c.reg.truncate 3) e.rm] ++ (if e.hasSib then [modrmByte e.ss e.idx e.sbase] else []) ++
       (if e.dispSize == 1 then [e.disp.truncate 8] else if e.dispSize == 4 then leBytes32 e.disp else [])))) := by
  unfold toBytes vexBytes rexBytes twoByte byte1 byte2 rexPresent modrmByte
  simp only [List.append_assoc]

def vexPre (long : Bool) (c : Carrier) (e : Enc) : Pre :=
  ⟨long && c.reg.getLsbD 3, long && e.x, long && e.b, c.rexW, c.vvvv, c.vexL, c.pp &&& 3, c.mapSel &&& 0x1F⟩

theorem vex_pre (long : Bool) (c : Carrier) (e : Enc) (rest : List (BitVec 8)) :
    parsePre long true (vexBytes long c e ++ rest) = some (vexPre long c e, rest) := by
  obtain ⟨vex, opcode, reg, rexW, mapSel, pp, vexL, vvvv, vsib⟩ := c
  obtain ⟨reject, pref67, needRex, x, b, md, rm, hasSib, ss, idx, sbase, dispSize, disp, baseDyn, indexDyn, reloc⟩ := e
  unfold vexBytes
  by_cases h2 : twoByte long ⟨vex, opcode, reg, rexW, mapSel, pp, vexL, vvvv, vsib⟩ ⟨reject, pref67, needRex, x, b, md, rm, hasSib, ss, idx, sbase, dispSize, disp, baseDyn, indexDyn, reloc⟩ = true
  · simp only [h2, if_true, parsePre, List.cons_append, List.nil_append, beq_self_eq_true, Option.some.injEq, Prod.mk.injEq, and_true, vexPre, Pre.mk.injEq]
    unfold twoByte byte1 byte2 b2u at h2
    unfold byte1 byte2 b2u bit
    simp only at h2 ⊢
    refine ⟨?_, ?_, ?_, ?_, ?_, ?_, ?_, ?_⟩ <;> bv_decide
  · have h2' : twoByte long ⟨vex, opcode, reg, rexW, mapSel, pp, vexL, vvvv, vsib⟩ ⟨reject, pref67, needRex, x, b, md, rm, hasSib, ss, idx, sbase, dispSize, disp, baseDyn, indexDyn, reloc⟩ = false := by simpa using h2
    simp only [h2', Bool.false_eq_true, if_false, parsePre, List.cons_append, List.nil_append, if_true]
    have hc5 : ((196 : BitVec 8) == 197) = false := by decide
    have hc4 : ((196 : BitVec 8) == 196) = true := by decide
    simp only [hc5, hc4, Bool.false_eq_true, if_false, if_true, Option.some.injEq, Prod.mk.injEq, and_true, vexPre, Pre.mk.injEq]
    unfold byte1 byte2 b2u bit
    simp only
    refine ⟨?_, ?_, ?_, ?_, ?_, ?_, ?_, ?_⟩ <;> bv_decide

def rexPre (long : Bool) (c : Carrier) (e : Enc) : Pre :=
  ⟨long && c.reg.getLsbD 3, rexPresent long c e && e.x, rexPresent long c e && e.b, long && c.rexW, 0, false, 0, 0⟩

theorem rex_pre (long : Bool) (c : Carrier) (e : Enc) (o : BitVec 8) (rest : List (BitVec 8))
    (ho : long = true → (o &&& 0xF0) ≠ 0x40) :
    parsePre long false (rexBytes long c e ++ (o :: rest)) = some (rexPre long c e, o :: rest) := by
  obtain ⟨vex, opcode, reg, rexW, mapSel, pp, vexL, vvvv, vsib⟩ := c
  obtain ⟨reject, pref67, needRex, x, b, md, rm, hasSib, ss, idx, sbase, dispSize, disp, baseDyn, indexDyn, reloc⟩ := e
  unfold rexBytes
  by_cases hp : rexPresent long ⟨vex, opcode, reg, rexW, mapSel, pp, vexL, vvvv, vsib⟩ ⟨reject, pref67, needRex, x, b, md, rm, hasSib, ss, idx, sbase, dispSize, disp, baseDyn, indexDyn, reloc⟩ = true
  · simp only [hp, if_true, parsePre, Bool.false_eq_true, if_false, List.cons_append, List.nil_append, rexPre, Bool.true_and]
    unfold rexPresent at hp
    simp only at hp
    have hl : long = true := by cases long <;> simp_all
    subst hl
    have hr : ((0x40 ||| b2u rexW <<< 3 ||| b2u (reg.getLsbD 3) <<< 2 ||| b2u x <<< 1 ||| b2u b) &&& 0xF0 == 0x40) = true := by
      unfold b2u; bv_decide
    simp only [Bool.true_and, hr, if_true, Option.some.injEq, Prod.mk.injEq, and_true, Pre.mk.injEq]
    unfold b2u bit
    and_intros <;> first | rfl | trivial | bv_decide
  · have hp' : rexPresent long ⟨vex, opcode, reg, rexW, mapSel, pp, vexL, vvvv, vsib⟩ ⟨reject, pref67, needRex, x, b, md, rm, hasSib, ss, idx, sbase, dispSize, disp, baseDyn, indexDyn, reloc⟩ = false := by simpa using hp
    simp only [hp', Bool.false_eq_true, if_false, parsePre, List.nil_append, rexPre, Bool.false_and]
    have hc : (long && (o &&& 0xF0) == 0x40) = false := by
      cases long
      · rfl
      · simpa using ho rfl
    simp only [hc, Bool.false_eq_true, if_false, Option.some.injEq, Prod.mk.injEq, and_true, Pre.mk.injEq]
    unfold rexPresent at hp'
    simp only at hp'
    and_intros <;> first | rfl | trivial | (cases long <;> simp_all)

theorem sdmDispSize_eq (e : Enc) (hsib : e.hasSib = (e.rm == 4)) : sdmDispSize e = sdmSize e.md e.rm (if e.hasSib then e.sbase else 0) := by
  unfold sdmDispSize sdmSize
  rw [hsib]
  by_cases h : e.rm = 4#3 <;> simp [h]

theorem head_ne_67_vex (long : Bool) (c : Carrier) (e : Enc) (rest : List (BitVec 8)) :
    ∃ b0 tl, vexBytes long c e ++ rest = b0 :: tl ∧ (b0 == 0x67) = false := by
  unfold vexBytes
  split
  · exact ⟨_, _, rfl, by decide⟩
  · exact ⟨_, _, rfl, by decide⟩

theorem head_ne_67_rex (long : Bool) (c : Carrier) (e : Enc) (o : BitVec 8) (rest : List (BitVec 8)) (ho : o ≠ 0x67) :
    ∃ b0 tl, rexBytes long c e ++ (o :: rest) = b0 :: tl ∧ (b0 == 0x67) = false := by
  unfold rexBytes
  split
  · refine ⟨_, _, rfl, ?_⟩
    unfold b2u; bv_decide
  · exact ⟨o, rest, rfl, by simpa using ho⟩

/-- **the bytes parse back to the fields that were encoded** -/
theorem toBytes_parses (long : Bool) (c : Carrier) (e : Enc)
    (hsib : e.hasSib = (e.rm == 4)) (hds : e.dispSize = sdmDispSize e) (hmd : e.md ≠ 3#2)
    (hop : ∃ o os, c.opcode = o :: os ∧ o ≠ 0x67 ∧ (c.vex = false → long = true → (o &&& 0xF0) ≠ 0x40)) :
    parse long c.vex c.opcode.length (toBytes long c e) = some (expected long c e) := by
  obtain ⟨o, os, hopc, ho67, horex⟩ := hop
  have hds' := hds.trans (sdmDispSize_eq e hsib)
  have htail := fun p67 p => tail_parses p67 p (c.reg.truncate 3) e.md e.ss e.rm e.idx e.sbase e.dispSize e.disp e.hasSib hsib hds' hmd
  rw [toBytes_eq]
  generalize htl : ([modrmByte e.md (c.reg.truncate 3) e.rm] ++ (if e.hasSib then [modrmByte e.ss e.idx e.sbase] else []) ++
       (if e.dispSize == 1 then [e.disp.truncate 8] else if e.dispSize == 4 then leBytes32 e.disp else [])) = tail at htail
  cases hv : c.vex
  · -- legacy / REX
    simp only [Bool.false_eq_true, if_false]
    rw [hopc]
    have hpre := rex_pre long c e o (os ++ tail) (horex hv)
    obtain ⟨b0, tl, hb, hb67⟩ := head_ne_67_rex long c e o (os ++ tail) ho67
    cases h67 : e.pref67
    · simp only [Bool.false_eq_true, if_false, List.nil_append, List.cons_append] at hb ⊢
      rw [hb]
      simp only [parse, hb67, Bool.false_eq_true, if_false]
      rw [← hb, hpre]
      simp only [List.length_cons]
      have : (o :: (os ++ tail)).drop (os.length + 1) = tail := by simp
      rw [this, htail]
      simp [expected, rexPre, hv, h67, hasXB, rexPresent]
    · simp only [if_true, List.cons_append, List.nil_append, parse, beq_self_eq_true]
      rw [hpre]
      simp only [List.length_cons]
      have : (o :: (os ++ tail)).drop (os.length + 1) = tail := by simp
      rw [this, htail]
      simp [expected, rexPre, hv, h67, hasXB, rexPresent]
  · -- VEX
    simp only [if_true]
    have hpre := vex_pre long c e (c.opcode ++ tail)
    obtain ⟨b0, tl, hb, hb67⟩ := head_ne_67_vex long c e (c.opcode ++ tail)
    cases h67 : e.pref67
    · simp only [Bool.false_eq_true, if_false, List.nil_append]
      rw [hb]
      simp only [parse, hb67, Bool.false_eq_true, if_false]
      rw [← hb, hpre]
      simp only [List.drop_left, htail]
      simp [expected, vexPre, hv, h67, hasXB]
    · simp only [if_true, List.cons_append, List.nil_append, parse, beq_self_eq_true]
      rw [hpre]
      simp only [List.drop_left, htail]
      simp [expected, vexPre, hv, h67, hasXB]

end DynasmVerif.X64Mem
