import DynasmVerif.Model.Spec

/-! The label registry (generation counters, first-definition-wins globals, dynamic id vector) tracks the scanning
specification: invariant by induction over the history. -/

namespace DynasmVerif.Registry
open DynasmVerif.Asm DynasmVerif.Spec

theorem endOff_append (o : Nat) (p q : List LOp) : endOff o (p ++ q) = endOff (endOff o p) q := by
  induction p generalizing o with
  | nil => rfl
  | cons y p ih => cases y <;> simp [endOff, ih]

theorem localDefs_append (a o : Nat) (p q : List LOp) :
    localDefs a o (p ++ q) = localDefs a o p ++ localDefs a (endOff o p) q := by
  induction p generalizing o with
  | nil => simp [localDefs, endOff]
  | cons x p ih =>
    cases x <;> simp [localDefs, endOff, ih]
    split <;> simp

theorem globalDefs_append (a o : Nat) (p q : List LOp) :
    globalDefs a o (p ++ q) = globalDefs a o p ++ globalDefs a (endOff o p) q := by
  induction p generalizing o with
  | nil => simp [globalDefs, endOff]
  | cons x p ih =>
    cases x <;> simp [globalDefs, endOff, ih]
    split <;> simp

theorem dynCount_append (p q : List LOp) : dynCount (p ++ q) = dynCount p + dynCount q := by
  induction p with
  | nil => simp [dynCount]
  | cons x p ih => cases x <;> simp [dynCount, ih] <;> omega

theorem dynDefs_append (id cnt o : Nat) (p q : List LOp) :
    dynDefs id cnt o (p ++ q) = dynDefs id cnt o p ++ dynDefs id (cnt + dynCount p) (endOff o p) q := by
  induction p generalizing cnt o with
  | nil => simp [dynDefs, endOff, dynCount]
  | cons x p ih =>
    cases x <;> simp [dynDefs, endOff, dynCount, ih]
    · have : cnt + 1 + dynCount p = cnt + (dynCount p + 1) := by omega
      rw [this]
    · split <;> simp

/-- registry invariant after running a history `p` from the initial state -/
structure Inv (p : List LOp) (s : Core × Nat) : Prop where
  off : s.2 = endOff 0 p
  ver : ∀ a, s.1.labels.localVer a = (localDefs a 0 p).length
  lab : ∀ a k, s.1.labels.statics a k = if k = 0 then (globalDefs a 0 p).head? else (localDefs a 0 p)[k - 1]?
  dynLen : s.1.labels.dynamics.length = dynCount p
  dyn : ∀ i, i < dynCount p → s.1.labels.dynamics[i]? = some ((dynDefs i 0 0 p).head?)

theorem inv_init : Inv [] (({} : Core), 0) := by
  constructor <;> simp [endOff, localDefs, globalDefs, dynCount]

private theorem getElem?_snoc_ne {α} (l : List α) (x : α) (k : Nat) (hk : k ≠ l.length) : (l ++ [x])[k]? = l[k]? := by
  by_cases hlt : k < l.length
  · rw [List.getElem?_append_left hlt]
  · have h1 : l.length ≤ k := Nat.le_of_not_lt hlt
    have h2 : (l ++ [x]).length ≤ k := by simp; omega
    rw [List.getElem?_eq_none h1, List.getElem?_eq_none h2]

theorem inv_step (p : List LOp) (s : Core × Nat) (x : LOp) (h : Inv p s) : Inv (p ++ [x]) (lstep s x) := by
  obtain ⟨ho, hv, hl, hdl, hd⟩ := h
  have hend : ∀ (o : Nat), endOff o (p ++ [x]) = endOff (endOff o p) [x] := fun o => endOff_append o p [x]
  cases x with
  | emit n =>
    refine ⟨?_, ?_, ?_, ?_, ?_⟩
    · simp [lstep, hend, endOff, ho]
    · intro a; simp [lstep, localDefs_append, localDefs, hv]
    · intro a k; simp [lstep, localDefs_append, globalDefs_append, localDefs, globalDefs, hl]
    · simp [lstep, dynCount_append, dynCount, hdl]
    · intro i hi
      simp only [dynCount_append, dynCount, Nat.add_zero] at hi
      simp [lstep, dynDefs_append, dynDefs, hd i hi]
  | loc b =>
    refine ⟨?_, ?_, ?_, ?_, ?_⟩
    · simp [lstep, Core.localLabel, hend, endOff, ho]
    · intro a
      by_cases hab : a = b
      · subst hab; simp [lstep, Core.localLabel, Labels.defineLocal, localDefs_append, localDefs, hv]
      · have : ¬ b = a := fun h => hab h.symm
        simp [lstep, Core.localLabel, Labels.defineLocal, localDefs_append, localDefs, hv, hab, this]
    · intro a k
      by_cases hab : a = b
      · subst hab
        simp only [lstep, Core.localLabel, Labels.defineLocal, localDefs_append, globalDefs_append, localDefs, globalDefs,
          if_true, hv, hl, List.append_nil, true_and]
        by_cases hk : k = (localDefs a 0 p).length + 1
        · subst hk; simp [ho]
        · simp only [hk, if_false]
          by_cases hk0 : k = 0
          · simp [hk0]
          · simp only [hk0, if_false]
            rw [getElem?_snoc_ne]; omega
      · have : ¬ b = a := fun h => hab h.symm
        simp [lstep, Core.localLabel, Labels.defineLocal, localDefs_append, globalDefs_append, localDefs, globalDefs, hl, hab, this]
    · simp [lstep, Core.localLabel, Labels.defineLocal, dynCount_append, dynCount, hdl]
    · intro i hi
      simp only [dynCount_append, dynCount, Nat.add_zero] at hi
      simp [lstep, Core.localLabel, Labels.defineLocal, dynDefs_append, dynDefs, hd i hi]
  | glob b =>
    have hcase : (lstep s (.glob b)).1.labels =
        (match s.1.labels.statics b 0 with
         | some _ => s.1.labels
         | none => { s.1.labels with statics := fun n v => if n = b ∧ v = 0 then some s.2 else s.1.labels.statics n v }) := by
      simp only [lstep, Core.globalLabel, Labels.defineGlobal]
      cases s.1.labels.statics b 0 <;> simp
    refine ⟨?_, ?_, ?_, ?_, ?_⟩
    · simp [lstep, hend, endOff, ho]
    · intro a
      rw [hcase]
      cases s.1.labels.statics b 0 <;> simp [localDefs_append, localDefs, hv]
    · intro a k
      rw [hcase]
      have hb0 := hl b 0
      simp only [if_true] at hb0
      cases hsb : s.1.labels.statics b 0 with
      | some o =>
        simp only [hl, localDefs_append, globalDefs_append, localDefs, globalDefs, List.append_nil]
        by_cases hk0 : k = 0
        · subst hk0
          by_cases hab : b = a
          · subst hab
            rw [hsb] at hb0
            cases hg : globalDefs b 0 p with
            | nil => rw [hg] at hb0; simp at hb0
            | cons g gs => simp
          · simp [hab]
        · simp [hk0]
      | none =>
        simp only [hl, localDefs_append, globalDefs_append, localDefs, globalDefs, List.append_nil]
        by_cases hk0 : k = 0
        · subst hk0
          by_cases hab : a = b
          · subst hab
            rw [hsb] at hb0
            have : globalDefs a 0 p = [] := by
              cases hg : globalDefs a 0 p with
              | nil => rfl
              | cons g gs => rw [hg] at hb0; simp at hb0
            simp [this, ho]
          · have : ¬ b = a := fun h => hab h.symm
            simp [hab, this]
        · simp [hk0]
    · rw [hcase]; cases s.1.labels.statics b 0 <;> simp [dynCount_append, dynCount, hdl]
    · intro i hi
      simp only [dynCount_append, dynCount, Nat.add_zero] at hi
      rw [hcase]
      cases s.1.labels.statics b 0 <;> simp [dynDefs_append, dynDefs, hd i hi]
  | newDyn =>
    refine ⟨?_, ?_, ?_, ?_, ?_⟩
    · simp [lstep, Core.newDynamic, Labels.newDynamic, hend, endOff, ho]
    · intro a; simp [lstep, Core.newDynamic, Labels.newDynamic, localDefs_append, localDefs, hv]
    · intro a k; simp [lstep, Core.newDynamic, Labels.newDynamic, localDefs_append, globalDefs_append, localDefs, globalDefs, hl]
    · simp [lstep, Core.newDynamic, Labels.newDynamic, dynCount_append, dynCount, hdl]
    · intro i hi
      simp only [dynCount_append, dynCount] at hi
      simp only [lstep, Core.newDynamic, Labels.newDynamic, dynDefs_append, dynDefs, List.append_nil]
      by_cases hlt : i < dynCount p
      · rw [List.getElem?_append_left (by rw [hdl]; exact hlt), hd i hlt]
      · have : i = dynCount p := by omega
        subst this
        rw [List.getElem?_append_right (by rw [hdl]; exact Nat.le_refl _)]
        simp only [hdl, Nat.sub_self, List.getElem?_cons_zero, Option.some.injEq]
        -- no definition of an id can precede its allocation
        have hnone : ∀ (q : List LOp) (cnt o : Nat), cnt + dynCount q ≤ dynCount p → dynDefs (dynCount p) cnt o q = [] := by
          intro q
          induction q with
          | nil => intros; rfl
          | cons y q ih =>
            intro cnt o hle
            cases y <;> simp only [dynDefs, dynCount] at hle ⊢ <;> try (exact ih _ _ (by omega))
            · rename_i j
              have : ¬ (j = dynCount p ∧ dynCount p < cnt) := by omega
              simp only [this, if_false]
              exact ih _ _ (by omega)
        rw [hnone p 0 0 (by omega)]; rfl
  | dynDef id =>
    have hcase : (lstep s (.dynDef id)).1.labels =
        (match s.1.labels.dynamics[id]? with
         | some none => { s.1.labels with dynamics := s.1.labels.dynamics.set id (some s.2) }
         | _ => s.1.labels) := by
      simp only [lstep, Core.dynamicLabel, Labels.defineDynamic]
      cases hq : s.1.labels.dynamics[id]? with
      | none => simp
      | some v => cases v <;> simp
    refine ⟨?_, ?_, ?_, ?_, ?_⟩
    · simp [lstep, hend, endOff, ho]
    · intro a
      rw [hcase]
      cases hq : s.1.labels.dynamics[id]? with
      | none => simp [localDefs_append, localDefs, hv]
      | some v => cases v <;> simp [localDefs_append, localDefs, hv]
    · intro a k
      rw [hcase]
      cases hq : s.1.labels.dynamics[id]? with
      | none => simp [localDefs_append, globalDefs_append, localDefs, globalDefs, hl]
      | some v => cases v <;> simp [localDefs_append, globalDefs_append, localDefs, globalDefs, hl]
    · rw [hcase]
      cases hq : s.1.labels.dynamics[id]? with
      | none => simp [dynCount_append, dynCount, hdl]
      | some v => cases v <;> simp [dynCount_append, dynCount, hdl]
    · intro i hi
      simp only [dynCount_append, dynCount, Nat.add_zero] at hi
      rw [hcase]
      simp only [dynDefs_append, dynDefs, Nat.zero_add]
      by_cases hid : id < dynCount p
      · have hdi := hd id hid
        cases hh : (dynDefs id 0 0 p).head? with
        | none =>
          rw [hh] at hdi
          simp only [hdi]
          by_cases hii : i = id
          · subst hii
            have : dynDefs i 0 0 p = [] := by
              cases hq : dynDefs i 0 0 p with
              | nil => rfl
              | cons g gs => rw [hq] at hh; simp at hh
            simp [List.getElem?_set, hdl, hid, this, ho]
          · have hne : ¬ (id = i ∧ i < dynCount p) := fun h => hii h.1.symm
            have hne' : id ≠ i := fun h => hii h.symm
            simp [List.getElem?_set, hne', hne, hd i hi]
        | some g =>
          rw [hh] at hdi
          simp only [hdi]
          by_cases hii : i = id
          · subst hii
            rw [hd i hi]
            cases hq : dynDefs i 0 0 p with
            | nil => rw [hq] at hh; simp at hh
            | cons g' gs => simp
          · have hne : ¬ (id = i ∧ i < dynCount p) := fun h => hii h.1.symm
            simp [hne, hd i hi]
      · have hnone : s.1.labels.dynamics[id]? = none := List.getElem?_eq_none (by rw [hdl]; omega)
        simp only [hnone]
        have hne : ¬ (id = i ∧ i < dynCount p) := by omega
        simp [hne, hd i hi]
  | fwd b r =>
    refine ⟨?_, ?_, ?_, ?_, ?_⟩
    · simp [lstep, Core.forwardReloc, hend, endOff, ho]
    · intro a; simp [lstep, Core.forwardReloc, localDefs_append, localDefs, hv]
    · intro a k; simp [lstep, Core.forwardReloc, localDefs_append, globalDefs_append, localDefs, globalDefs, hl]
    · simp [lstep, Core.forwardReloc, dynCount_append, dynCount, hdl]
    · intro i hi
      simp only [dynCount_append, dynCount, Nat.add_zero] at hi
      simp [lstep, Core.forwardReloc, dynDefs_append, dynDefs, hd i hi]
  | bwd b r =>
    have hcase : (lstep s (.bwd b r)).1.labels = s.1.labels := by
      simp only [lstep, Core.backwardReloc]; split <;> rfl
    refine ⟨?_, ?_, ?_, ?_, ?_⟩
    · simp [lstep, hend, endOff, ho]
    · intro a; rw [hcase]; simp [localDefs_append, localDefs, hv]
    · intro a k; rw [hcase]; simp [localDefs_append, globalDefs_append, localDefs, globalDefs, hl]
    · rw [hcase]; simp [dynCount_append, dynCount, hdl]
    · intro i hi
      simp only [dynCount_append, dynCount, Nat.add_zero] at hi
      rw [hcase]; simp [dynDefs_append, dynDefs, hd i hi]
  | gref b r =>
    refine ⟨?_, ?_, ?_, ?_, ?_⟩
    · simp [lstep, Core.globalReloc, hend, endOff, ho]
    · intro a; simp [lstep, Core.globalReloc, localDefs_append, localDefs, hv]
    · intro a k; simp [lstep, Core.globalReloc, localDefs_append, globalDefs_append, localDefs, globalDefs, hl]
    · simp [lstep, Core.globalReloc, dynCount_append, dynCount, hdl]
    · intro i hi
      simp only [dynCount_append, dynCount, Nat.add_zero] at hi
      simp [lstep, Core.globalReloc, dynDefs_append, dynDefs, hd i hi]
  | dref b r =>
    refine ⟨?_, ?_, ?_, ?_, ?_⟩
    · simp [lstep, Core.dynamicReloc, hend, endOff, ho]
    · intro a; simp [lstep, Core.dynamicReloc, localDefs_append, localDefs, hv]
    · intro a k; simp [lstep, Core.dynamicReloc, localDefs_append, globalDefs_append, localDefs, globalDefs, hl]
    · simp [lstep, Core.dynamicReloc, dynCount_append, dynCount, hdl]
    · intro i hi
      simp only [dynCount_append, dynCount, Nat.add_zero] at hi
      simp [lstep, Core.dynamicReloc, dynDefs_append, dynDefs, hd i hi]

/-- the invariant holds after every history -/
theorem inv_run (p : List LOp) : Inv p (lrun (({} : Core), 0) p) := by
  suffices ∀ (q p : List LOp) (s : Core × Nat), Inv p s → Inv (p ++ q) (lrun s q) by
    simpa using this p [] _ inv_init
  intro q
  induction q with
  | nil => intro p s h; simpa [lrun] using h
  | cons x q ih =>
    intro p s h
    have := ih (p ++ [x]) (lstep s x) (inv_step p s x h)
    simpa [lrun, List.foldl] using this

end DynasmVerif.Registry
