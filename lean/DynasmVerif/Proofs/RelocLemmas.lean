import DynasmVerif.Model.Reloc

/-! helper lemmas for `Props/C05`: alignment masks vs. integer remainders -/

namespace DynasmVerif.RelocLemmas

theorem and3_iff (v : BitVec 64) : (v &&& 3#64 = 0#64) ↔ v.toInt % 4 = 0 := by
  rw [← BitVec.toNat_inj, BitVec.toNat_and]
  have : (3#64).toNat = 2^2 - 1 := by decide
  rw [this, Nat.and_two_pow_sub_one_eq_mod, BitVec.toInt_eq_toNat_cond]
  simp
  have := v.isLt
  split <;> omega

theorem and1_iff (v : BitVec 64) : (v &&& 1#64 = 0#64) ↔ v.toInt % 2 = 0 := by
  rw [← BitVec.toNat_inj, BitVec.toNat_and]
  have : (1#64).toNat = 2^1 - 1 := by decide
  rw [this, Nat.and_two_pow_sub_one_eq_mod, BitVec.toInt_eq_toNat_cond]
  simp
  have := v.isLt
  split <;> omega

theorem and4095_iff (v : BitVec 64) : (v &&& 4095#64 = 0#64) ↔ v.toInt % 4096 = 0 := by
  rw [← BitVec.toNat_inj, BitVec.toNat_and]
  have : (4095#64).toNat = 2^12 - 1 := by decide
  rw [this, Nat.and_two_pow_sub_one_eq_mod, BitVec.toInt_eq_toNat_cond]
  simp
  have := v.isLt
  split <;> omega

theorem intLe_iff (a b : Int) : Reloc.intLe a b = true ↔ a ≤ b := by simp [Reloc.intLe]

end DynasmVerif.RelocLemmas
