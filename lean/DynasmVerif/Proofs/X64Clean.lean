import DynasmVerif.Model.X64Mem

/-! `clean_memoryref` keeps the coefficient of every register: lemmas for C13 (layer A: arbitrary item lists). -/

namespace DynasmVerif.X64Mem

/-- does register `r` denote the register `n` of class `cls` (rip has one member) -/
def Reg.isReg (r : Reg) (cls : BitVec 2) (n : BitVec 4) : Bool := cls == r.fam && (r.fam == RIP || n == r.num)

theorem regEq_isReg {a b : Reg} (h : regEq a b = true) (cls : BitVec 2) (n : BitVec 4) : a.isReg cls n = b.isReg cls n := by
  simp only [regEq, Bool.and_eq_true, beq_iff_eq] at h
  simp only [Reg.isReg, h.1.2, h.2]

/-- total coefficient of a register in a list of scaled registers -/
def coefL : List (Reg × Int) → BitVec 2 → BitVec 4 → Int
  | [], _, _ => 0
  | (r, s) :: rest, cls, n => (if r.isReg cls n then s else 0) + coefL rest cls n

@[simp] theorem coefL_nil (cls n) : coefL [] cls n = 0 := rfl
@[simp] theorem coefL_cons (r s rest cls n) : coefL ((r, s) :: rest) cls n = (if r.isReg cls n then s else 0) + coefL rest cls n := rfl

theorem coefL_append (a b : List (Reg × Int)) (cls n) : coefL (a ++ b) cls n = coefL a cls n + coefL b cls n := by
  induction a with
  | nil => simp
  | cons p a ih => obtain ⟨r, s⟩ := p; simp [ih]; omega

theorem joinAdd_coef (acc : List (Reg × Int)) (r : Reg) (s : Int) (cls n) :
    coefL (joinAdd acc r s) cls n = coefL acc cls n + (if r.isReg cls n then s else 0) := by
  induction acc with
  | nil => simp [joinAdd]
  | cons p acc ih =>
    obtain ⟨o, t⟩ := p
    simp only [joinAdd]
    split
    · rename_i h
      have := regEq_isReg h cls n
      simp only [coefL_cons, this]
      split <;> omega
    · simp only [coefL_cons, ih]; omega

theorem joinAll_coef (l acc : List (Reg × Int)) (cls n) : coefL (joinAll acc l) cls n = coefL acc cls n + coefL l cls n := by
  induction l generalizing acc with
  | nil => simp [joinAll]
  | cons p l ih =>
    obtain ⟨r, s⟩ := p
    have := ih (joinAdd acc r s)
    simp only [joinAll, List.foldl_cons] at this ⊢
    rw [this, joinAdd_coef]; simp; omega

def unit (l : List Reg) : List (Reg × Int) := l.map (fun r => (r, 1))

theorem unit_append (a b : List Reg) : unit (a ++ b) = unit a ++ unit b := by simp [unit]

theorem findBase_coef (scaled : List (Reg × Int)) (rest pre : List Reg) (r : Reg) (others : List Reg)
    (h : findBase scaled pre rest = some (r, others)) (cls n) :
    coefL (unit (pre ++ rest)) cls n = coefL (unit others) cls n + (if r.isReg cls n then 1 else 0) := by
  induction rest generalizing pre with
  | nil => simp [findBase] at h
  | cons x rs ih =>
    simp only [findBase] at h
    split at h
    · have := ih (pre ++ [x]) h
      simpa using this
    · simp only [Option.some.injEq, Prod.mk.injEq] at h
      obtain ⟨rfl, rfl⟩ := h
      simp only [unit, List.map_append, List.map_cons, coefL_append, coefL_cons]
      omega

theorem findScale1_coef (l pre : List (Reg × Int)) (r : Reg) (rest : List (Reg × Int))
    (h : findScale1 pre l = some (r, rest)) (cls n) :
    coefL (pre ++ l) cls n = coefL rest cls n + (if r.isReg cls n then 1 else 0) := by
  induction l generalizing pre with
  | nil => simp [findScale1] at h
  | cons p l ih =>
    obtain ⟨x, s⟩ := p
    simp only [findScale1] at h
    split at h
    · rename_i hs
      simp only [Option.some.injEq, Prod.mk.injEq] at h
      obtain ⟨rfl, rfl⟩ := h
      have : s = 1 := by simpa using hs
      subst this
      simp only [coefL_append, coefL_cons]; omega
    · have := ih (pre ++ [(x, s)]) h
      simpa using this

/-- coefficient of an optional register with a scale -/
def optCoef (o : Option (Reg × Int)) (cls : BitVec 2) (n : BitVec 4) : Int :=
  match o with
  | none => 0
  | some (r, s) => if r.isReg cls n then s else 0

@[simp] theorem optCoef_none (cls n) : optCoef none cls n = 0 := rfl
@[simp] theorem optCoef_some (r s cls n) : optCoef (some (r, s)) cls n = if r.isReg cls n then s else 0 := rfl

theorem last_coef (l : List (Reg × Int)) (h : l.dropLast.isEmpty = true) (cls n) : coefL l cls n = optCoef l.getLast? cls n := by
  match l, h with
  | [], _ => simp [optCoef]
  | [(r, s)], _ => simp [optCoef]
  | _ :: _ :: _, h => simp [List.dropLast] at h

/-- **`clean_memoryref` preserves the coefficient of every register**: whatever items were written (any number, any order,
repeated and scaled registers), when a base/index pair comes out it denotes the same linear combination -/
theorem clean_coef (nosplit : Bool) (it : Items) (b : Option Reg) (i : Option (Reg × Int))
    (h : clean nosplit it = some (b, i)) (cls : BitVec 2) (n : BitVec 4) :
    coefL (it.scaled ++ unit it.regs) cls n = optCoef (b.map (fun r => (r, 1))) cls n + optCoef i cls n := by
  unfold clean at h
  simp only at h
  -- base from the unscaled registers?
  cases hfb : findBase it.scaled [] it.regs with
  | some p =>
    obtain ⟨br, others⟩ := p
    simp only [hfb, Option.map_some] at h
    split at h
    · rename_i hd
      simp only [Option.some.injEq, Prod.mk.injEq] at h
      obtain ⟨rfl, rfl⟩ := h
      have h1 := findBase_coef it.scaled it.regs [] br others hfb cls n
      have h2 := joinAll_coef (it.scaled ++ others.map (fun r => (r, 1))) [] cls n
      have h3 := last_coef _ hd cls n
      simp only [List.nil_append, unit] at h1
      simp only [coefL_append, coefL_nil] at h2
      simp only [coefL_append, unit, Option.map_some, optCoef_some]
      omega
    · simp at h
  | none =>
    simp only [hfb, Option.map_none] at h
    have hj := joinAll_coef (it.scaled ++ it.regs.map (fun r => (r, 1))) [] cls n
    simp only [coefL_nil, Int.zero_add] at hj
    cases hf1 : findScale1 [] (joinAll [] (it.scaled ++ it.regs.map (fun r => (r, 1)))) with
    | some p =>
      obtain ⟨br, rest⟩ := p
      simp only [hf1, Option.map_some] at h
      have h1 := findScale1_coef _ [] br rest hf1 cls n
      simp only [List.nil_append] at h1
      split at h
      · simp at h
      · rename_i hd
        have hd' : rest.dropLast.isEmpty = true := by simpa using hd
        have h3 := last_coef _ hd' cls n
        split at h
        · rename_i hns
          simp only [Option.some.injEq, Prod.mk.injEq] at h
          obtain ⟨rfl, rfl⟩ := h
          have hnone : rest.getLast? = none := by
            simp only [Bool.and_eq_true, Option.isNone_iff_eq_none] at hns
            exact hns.1.2
          simp only [hnone, optCoef_none] at h3
          simp only [unit, Option.map_none, Option.map_some, optCoef_none, optCoef_some]
          omega
        · simp only [Option.some.injEq, Prod.mk.injEq] at h
          obtain ⟨rfl, rfl⟩ := h
          simp only [unit, Option.map_some, optCoef_some]
          omega
    | none =>
      simp only [hf1, Option.map_none] at h
      split at h
      · simp at h
      · rename_i hd
        have hd' : (joinAll [] (it.scaled ++ it.regs.map (fun r => (r, 1)))).dropLast.isEmpty = true := by simpa using hd
        have h3 := last_coef _ hd' cls n
        simp only [Option.isSome_none, Bool.and_false, Bool.false_eq_true, ↓reduceIte, Option.some.injEq, Prod.mk.injEq] at h
        obtain ⟨rfl, rfl⟩ := h
        simp only [unit, Option.map_none, optCoef_none]
        omega

theorem ofInt8_toNat (s : Int) (h0 : 0 ≤ s) (h1 : s < 128) : ((BitVec.ofInt 8 s).toNat : Int) = s := by
  simp only [BitVec.toNat_ofInt]
  omega

/-- the 8-bit coefficient arithmetic of the finite layer is exact for what `toBI` lets through -/
theorem toBI_coef (b : Option Reg) (i : Option (Reg × Int)) (m : BI) (h : toBI (b, i) = some m) (cls : BitVec 2) (n : BitVec 4) :
    ((m.coef cls n).toNat : Int) = optCoef (b.map (fun r => (r, 1))) cls n + optCoef i cls n := by
  have key : ∀ (p : Bool) (r : Reg) (k : BitVec 8), regCoef p r k cls n = if p && r.isReg cls n then k else 0 := by
    intro p r k; simp only [regCoef, Reg.isReg, Bool.and_assoc]; rfl
  cases i with
  | none =>
    simp only [toBI, Option.some.injEq] at h
    subst h
    cases b with
    | none => simp [BI.coef, key]
    | some r => by_cases hr : r.isReg cls n <;> simp [BI.coef, key, hr]
  | some p =>
    obtain ⟨x, s⟩ := p
    simp only [toBI] at h
    split at h
    · rename_i hs
      simp only [Option.some.injEq] at h
      subst h
      have hx := ofInt8_toNat s hs.1 hs.2
      cases b with
      | none =>
        by_cases hr : x.isReg cls n <;> simp [BI.coef, key, hr] <;> omega
      | some r =>
        by_cases hr : x.isReg cls n <;> by_cases hq : r.isReg cls n <;> simp [BI.coef, key, hr, hq, BitVec.toNat_add] <;> omega
    · simp at h

end DynasmVerif.X64Mem
