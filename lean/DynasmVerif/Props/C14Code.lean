import Std.Tactic.BVDecide
import DynasmVerif.Model.A64Imm
import DynasmVerif.Generated.ImmCode

/-!
# C14, second tie: the special-immediate encoders as the SOURCE TEXT defines them

`Generated/ImmCode.lean` is produced on every run by `lib/immtrans.py` from the text of
`plugin/src/arch/aarch64/encoding_helpers.rs` (`p_*`, the compile-time copies, with `bitmask`/`bitmask64` inlined) and of
`runtime/src/aarch64.rs` (`r_*`, the run-time copies): per function whether it returns `Some`, the payload, and whether an
overflow check of a debug build fires. The theorems show, for EVERY 32/64-bit input, that each copy is the model
`Model/A64Imm.lean` about which `Props/C14.lean` is stated (so "sound and complete against the architectural decoder" holds of
the code as it reads today, and the compile-time and run-time copies are the same function), and that none of the subtractions
and shifts can overflow. `count_ones`, `trailing_zeros`, `rotate_left`, `rotate_right(1)` are the unrolled definitions of the model.
-/

namespace DynasmVerif.C14Code
open DynasmVerif.A64Imm DynasmVerif.ImmCode

set_option maxRecDepth 1000000

theorem p_logical32_is_model (v : BitVec 32) :
    p_L32_ok v = L32.encOk v ∧ (L32.encOk v = true → p_L32_val v = L32.encVal v) ∧ p_L32_panic v = false := by
  simp only [p_L32_ok, p_L32_val, p_L32_panic, L32.encOk, L32.encVal, L32.es, L32.element, L32.rotl, L32.rotr1, L32.ctz, L32.popc, W32.ctz]
  bv_decide (config := { timeout := 900 })

theorem r_logical32_is_model (v : BitVec 32) :
    r_L32_ok v = L32.encOk v ∧ (L32.encOk v = true → r_L32_val v = L32.encVal v) ∧ r_L32_panic v = false := by
  simp only [r_L32_ok, r_L32_val, r_L32_panic, L32.encOk, L32.encVal, L32.es, L32.element, L32.rotl, L32.rotr1, L32.ctz, L32.popc, W32.ctz]
  bv_decide (config := { timeout := 900 })

theorem p_wide32_is_model (v : BitVec 32) :
    p_W32_ok v = W32.encOk v ∧ (W32.encOk v = true → p_W32_val v = W32.encVal v) ∧ p_W32_panic v = false := by
  simp only [p_W32_ok, p_W32_val, p_W32_panic, W32.encOk, W32.encVal, W32.offset, W32.masked, W32.ctz]
  bv_decide (config := { timeout := 900 })

theorem p_wide64_is_model (v : BitVec 64) :
    p_W64_ok v = W64.encOk v ∧ (W64.encOk v = true → p_W64_val v = W64.encVal v) ∧ p_W64_panic v = false := by
  simp only [p_W64_ok, p_W64_val, p_W64_panic, W64.encOk, W64.encVal, W64.offset, W64.masked, W64.ctz]
  bv_decide (config := { timeout := 900 })

theorem p_stretched_is_model (v : BitVec 64) :
    p_Stretched_ok v = Stretched.encOk v ∧ (Stretched.encOk v = true → p_Stretched_val v = Stretched.encVal v) ∧ p_Stretched_panic v = false := by
  simp only [p_Stretched_ok, p_Stretched_val, p_Stretched_panic, Stretched.encOk, Stretched.encVal, Stretched.spread]
  bv_decide (config := { timeout := 900 })

theorem p_float_is_model (v : BitVec 32) :
    p_Float_ok v = Float.encOk v ∧ (Float.encOk v = true → p_Float_val v = Float.encVal v) ∧ p_Float_panic v = false := by
  simp only [p_Float_ok, p_Float_val, p_Float_panic, Float.encOk, Float.encVal]
  bv_decide (config := { timeout := 900 })

theorem r_float_is_model (v : BitVec 32) :
    r_Float_ok v = Float.encOk v ∧ (Float.encOk v = true → r_Float_val v = Float.encVal v) ∧ r_Float_panic v = false := by
  simp only [r_Float_ok, r_Float_val, r_Float_panic, Float.encOk, Float.encVal]
  bv_decide (config := { timeout := 900 })

set_option maxHeartbeats 8000000 in
theorem p_logical64_is_model (v : BitVec 64) :
    p_L64_ok v = L64.encOk v ∧ (L64.encOk v = true → p_L64_val v = L64.encVal v) ∧ p_L64_panic v = false := by
  simp only [p_L64_ok, p_L64_val, p_L64_panic, L64.encOk, L64.encVal, L64.es, L64.element, L64.rotl, L64.rotr1, L64.ctz, L64.popc, W64.ctz]
  bv_decide (config := { timeout := 3000 })

set_option maxHeartbeats 8000000 in
theorem r_logical64_is_model (v : BitVec 64) :
    r_L64_ok v = L64.encOk v ∧ (L64.encOk v = true → r_L64_val v = L64.encVal v) ∧ r_L64_panic v = false := by
  simp only [r_L64_ok, r_L64_val, r_L64_panic, L64.encOk, L64.encVal, L64.es, L64.element, L64.rotl, L64.rotr1, L64.ctz, L64.popc, W64.ctz]
  bv_decide (config := { timeout := 3000 })

end DynasmVerif.C14Code
