import Std.Tactic.BVDecide
import DynasmVerif.Model.Reloc
import DynasmVerif.Props.C05
import DynasmVerif.Generated.RelocCode

/-!
# C05, second tie: the relocation code as the SOURCE TEXT defines it

`Generated/RelocCode.lean` is produced on every run by `lib/reloctrans.py` from the text of
`runtime/src/{relocations,aarch64,riscv,x64,x86}.rs`: per format the error condition, the word written and the
value read back, as bit-vector functions with Rust's integer semantics. The theorems below show, for every
format and every input, that these functions ARE the model `Model/Reloc.lean` about which `Props/C05.lean` is
stated, so that every C05 theorem holds of the code as it reads today (`code_*` corollaries). An edit of the Rust
text changes the generated definitions and these proofs are re-checked against it.
-/

namespace DynasmVerif.C05Spec
open DynasmVerif.Reloc DynasmVerif.RelocCode DynasmVerif.C05

set_option maxRecDepth 100000 in
/-- `write_value` of the source text fails exactly when the model's range test fails -/
theorem code_err_eq_model (c : CodeFmt) (old v : BitVec 64) :
    c.err old v = !inRangeCode c.fmt.spec.range v := by
  cases c <;> unfold_reloc_code <;> unfold_specs <;> bv_decide

set_option maxRecDepth 100000 in
/-- … and otherwise leaves the model's word in the buffer -/
theorem code_val_eq_model (c : CodeFmt) (old v : BitVec 64) (h : c.err old v = false) :
    c.val old v = scatterWrite c.fmt.spec old v := by
  revert h
  cases c <;> unfold_reloc_code <;> unfold_specs <;> bv_decide

/-- `write_value` as the source text defines it is the model's `write`, for every format, old word and value -/
theorem code_write_eq_model (c : CodeFmt) (old v : BitVec 64) : c.write old v = Reloc.write c.fmt old v := by
  unfold CodeFmt.write Reloc.write
  cases h : c.err old v with
  | true =>
    have := code_err_eq_model c old v
    rw [h] at this
    simp_all
  | false =>
    have hv := code_val_eq_model c old v h
    have := code_err_eq_model c old v
    rw [h] at this
    simp_all

set_option maxRecDepth 100000 in
/-- `read_value` as the source text defines it is the model's `read`, for every format and every word -/
theorem code_read_eq_model (c : CodeFmt) (w : BitVec 64) : c.rd w = Reloc.read c.fmt w := by
  cases c <;> unfold_reloc_code <;> unfold_specs <;> bv_decide

set_option maxRecDepth 100000 in
/-- no arithmetic-overflow check of a debug build can fire in `write_value` / `read_value`, whatever the input -/
theorem code_never_panics (c : CodeFmt) (old v : BitVec 64) : c.panic old v = false ∧ c.rdpanic old = false := by
  cases c <;> unfold_reloc_code <;> simp <;> bv_decide

/-- `size()` as declared, the bytes `write_value` writes, and the model's size agree -/
theorem code_size_consistent (c : CodeFmt) : c.declaredSize = c.fmt.size ∧ c.writtenSize = c.fmt.size := by
  cases c <;> decide

/-- every model format is implemented by some source format -/
theorem every_format_has_code (f : Fmt) : ∃ c ∈ CodeFmt.all, c.fmt = f := by
  cases f <;> decide

/-! ## the C05 theorems, read off for the code -/

theorem code_write_fails_iff_out_of_range (c : CodeFmt) (old v : BitVec 64) :
    c.write old v = none ↔ inRangeBV c.fmt v = false := by
  rw [code_write_eq_model]; exact write_fails_iff_out_of_range _ _ _

theorem code_write_decodes (c : CodeFmt) (old v w : BitVec 64) (h : c.write old v = some w) :
    archDecode c.fmt w = expectedDecode c.fmt v := by
  rw [code_write_eq_model] at h; exact write_decodes _ _ _ _ h

theorem code_write_preserves_other_bits (c : CodeFmt) (old v w : BitVec 64) (h : c.write old v = some w)
    (hold : old &&& ~~~ wordMask c.fmt = 0#64) :
    w &&& ~~~ fieldMask c.fmt = old &&& ~~~ fieldMask c.fmt ∧ w &&& ~~~ wordMask c.fmt = 0#64 := by
  rw [code_write_eq_model] at h; exact write_preserves_other_bits _ _ _ _ h hold

theorem code_read_after_write (c : CodeFmt) (old v w : BitVec 64) (h : c.write old v = some w)
    (hd : readDefinedBV c.fmt v = true) : c.rd w = v := by
  rw [code_write_eq_model] at h; rw [code_read_eq_model]; exact read_after_write _ _ _ _ h hd

/-! ## non-vacuity -/

example : CodeFmt.rv_J.write 0x6F#64 (BitVec.ofInt 64 (-2)) = some 0xFFFFF06F#64 := by decide
example : CodeFmt.rv_J.write 0x6F#64 3#64 = none := by decide
example : CodeFmt.a64_ADRP.write 0x90000000#64 0x4000#64 = some 0x90000020#64 := by decide
example : CodeFmt.rv_JC.rd 0x2001#64 = 0#64 := by decide

end DynasmVerif.C05Spec
