import DynasmVerif.Proofs.ConcInv

/-!
# C09 — concurrent executors only ever see complete committed states

Over the Conc transition system (every interleaving of one assembling thread with any number of executor threads, any history,
unbounded): the inductive invariant `Inv` (Proofs/ConcInv) holds in every reachable state, and from it:
a granted read guard shows the complete, executable buffer of the latest completed commit/alter; nothing the assembling thread
does changes the shared buffer while a guard is held; versions never go back; at every API boundary the latest operation is
visible; finalize succeeds only without executors; and some thread can always move (no deadlock).
`std::sync::RwLock` is an ideal reader-writer lock with poisoning (a thread that panics while it holds the write guard makes every
later `read()`/`write()` fail; `Executor::lock` unwraps, so it gets no guard) and no fairness assumption. `Act.abort` is such a panic of
the assembling thread at an arbitrary point.
-/

namespace DynasmVerif.C09
open DynasmVerif.Conc

theorem inv_run_from (acts : List Act) : ∀ (s0 s : State), Inv s0 → run s0 acts = some s → Inv s := by
  induction acts with
  | nil => intro s0 s h0 hr; simp only [run, Option.some.injEq] at hr; subst hr; exact h0
  | cons a rest ih =>
    intro s0 s h0 hr
    simp only [run] at hr
    cases hst : step s0 a with
    | none => simp [hst] at hr
    | some s1 => simp only [hst, Option.bind_some] at hr; exact ih s1 s (inv_step s0 s1 a h0 hst) hr

/-- the invariant holds in every reachable state -/
theorem inv_run (e : Nat) (acts : List Act) (s : State) (h : run (init e) acts = some s) : Inv s :=
  inv_run_from acts _ s (inv_init e) h

/-- **a granted read guard shows the committed contents of the latest completed operation**: complete, executable, current -/
theorem snapshot_is_commit_boundary (s s' : State) (h : Inv s) (hl : step s .rlock = some s') :
    view s = some ⟨.rx, s.done, true⟩ := by
  obtain ⟨hex, hge, hpc, hpo⟩ := h
  obtain ⟨pc, writer, readers, slot, own, done, executors, poisoned⟩ := s
  simp [step, canRead] at hl
  obtain ⟨⟨hw, _⟩, _⟩ := hl
  cases pc <;> simp_all [pcInv, good, view]

/-- **while a guard is held nothing changes the shared buffer** (address, length, contents, protection are one `Buf` here) -/
theorem guard_stable (s s' : State) (a : Act) (h : Inv s) (hr : 0 < s.readers) (hs : step s a = some s') : s'.slot = s.slot := by
  obtain ⟨hex, hge, hpc, hpo⟩ := h
  have hw := hex hr
  obtain ⟨pc, writer, readers, slot, own, done, executors, poisoned⟩ := s
  simp only at hw hr
  subst hw
  cases a <;> cases pc <;> simp [step, canWrite, canRead, setProt] at hs <;> simp only [pcInv, good] at hpc <;>
    first
    | (obtain ⟨hc, rfl⟩ := hs; first | rfl | (simp_all; try omega))
    | (subst hs; first | rfl | (simp_all))
    | (split at hs <;> simp only [Option.some.injEq] at hs <;> subst hs <;> rfl)

/-- versions observed never go back -/
theorem done_monotone (s s' : State) (a : Act) (hs : step s a = some s') : s.done ≤ s'.done := by
  obtain ⟨pc, writer, readers, slot, own, done, executors, poisoned⟩ := s
  cases a <;> cases pc <;> simp [step, canWrite, canRead, setProt] at hs <;>
    first
    | (obtain ⟨hc, rfl⟩ := hs; simp)
    | (subst hs; simp)
    | (split at hs <;> simp only [Option.some.injEq] at hs <;> subst hs <;> simp)

/-- at every API boundary (the assembling thread is between operations) the latest completed operation is what readers get -/
theorem visible_after_return (s : State) (h : Inv s) (hp : s.pc = .idle) : s.writer = false ∧ view s = some ⟨.rx, s.done, true⟩ := by
  have := h.atPc
  simp only [pcInv, hp, good] at this
  exact ⟨this.1, this.2.2⟩

/-- every operation that completes publishes exactly one new version, at the moment the write guard is released -/
theorem completion_publishes (s s' : State) (hs : step s .step = some s') (hp : s.pc = .ipRestored ∨ s.pc = .gAdjusted ∨ s.pc = .aRestored) :
    s'.done = s.done + 1 ∧ s'.writer = false := by
  obtain ⟨pc, writer, readers, slot, own, done, executors, poisoned⟩ := s
  rcases hp with hp | hp | hp <;> simp only at hp <;> subst hp <;> simp [step, canWrite, setProt] at hs
  · subst hs; simp
  · obtain ⟨hc, rfl⟩ := hs; simp [hc.1]
  · subst hs; simp

/-- finalize hands out the buffer only when no executor (hence no guard) remains, and it is the committed executable buffer -/
theorem finalize_requires_no_executor (s : State) (h : Inv s) (hp : s.pc = .finalized) :
    s.executors = 0 ∧ s.readers = 0 ∧ s.slot = some ⟨.rx, s.done, true⟩ := by
  have := h.atPc
  simp only [pcInv, hp, good] at this
  refine ⟨this.2.2.2, ?_, this.2.2.1⟩
  have hg := h.guardsNeedExecutor
  rw [this.2.2.2] at hg
  omega

/-- **no deadlock**: in every reachable state that is not the end, some thread can move; and when no guard is held, the
assembling thread itself can -/
theorem no_deadlock (s : State) (h : Inv s) (hp : s.pc ≠ .finalized) (hd : s.pc ≠ .dead) : ∃ a, (step s a).isSome = true := by
  by_cases hr : 0 < s.readers
  · exact ⟨.runlock, by simp [step, hr]⟩
  · obtain ⟨hex, hge, hpc, hpo⟩ := h
    obtain ⟨pc, writer, readers, slot, own, done, executors, poisoned⟩ := s
    have hr0 : readers = 0 := by simp only at hr; omega
    subst hr0
    simp only at hp hd hpo
    have hpf : poisoned = false := by cases poisoned <;> simp_all
    subst hpf
    refine ⟨if pc = .idle then .startGrow else .step, ?_⟩
    cases pc <;> simp only [pcInv, good] at hpc <;> simp_all [step, canWrite, canRead] <;> (try (split <;> simp))

/-! ## non-vacuity: a concrete interleaving with a reader holding across the growing commit -/
example : (run (init 1) [.startGrow, .step, .rlock, .step, .runlock, .step, .step, .step, .startAlter, .step, .step]).map (·.pc) = some .aTaken := by decide
example : step { (init 1) with pc := .gAdjusted, readers := 1, own := some ⟨.rw, 1, true⟩ } .step = none := by decide

end DynasmVerif.C09
