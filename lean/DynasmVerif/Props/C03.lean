import DynasmVerif.Generated.A64Dyn
import DynasmVerif.Generated.RvDyn
import DynasmVerif.Generated.RegDyn

/-!
# C03 — runtime-supplied operands encode exactly like the same literal operands (aarch64 immediates)

`Generated/A64Dyn.lean` is written on every run: for every distinct group of immediate commands that looks at one operand slot of
the aarch64 table, the Rust expression the macro GENERATES for a run-time operand (taken from the plugin compiled from the working
tree and translated mechanically, lib/rustexpr.py) as `ob<N>_panic_*` / `ob<N>_word_*`, and the theorems
`ob<N>_dyn_eq_static_checked / _release`: for EVERY value of the operand's Rust type (u32 / i32 / u64 / f32 bits), in builds with and
without overflow checks, the run-time code panics exactly when the literal path (`A64Enc.slotStatic` on the table's commands) rejects,
and otherwise produces the same instruction word. The theorems below are the general facts that lift this to whole instructions.
-/

namespace DynasmVerif.C03
open DynasmVerif.A64 DynasmVerif.A64Enc

/-- commands contribute independently: the commands of one slot may be split anywhere -/
theorem slotStatic_append (a b : List Command) (prev v : BitVec 64) :
    slotStatic (a ++ b) prev v = ((slotStatic a prev v).1 && (slotStatic b prev v).1, (slotStatic a prev v).2 ||| (slotStatic b prev v).2) := by
  induction a with
  | nil => simp [slotStatic]
  | cons c a ih => simp [slotStatic, ih, Bool.and_assoc, BitVec.or_assoc]

/-- a slot is rejected as soon as one of its commands rejects -/
theorem slot_rejected_of_command (c : Command) (cs : List Command) (prev v : BitVec 64) (hc : c ∈ cs) (h : (cmdStatic c prev v).1 = false) :
    (slotStatic cs prev v).1 = false := by
  induction cs with
  | nil => cases hc
  | cons d cs ih =>
    cases hc with
    | head => simp [slotStatic, h]
    | tail _ hm => simp [slotStatic, ih hm]

end DynasmVerif.C03
