import DynasmVerif.Model.Machine
import DynasmVerif.Proofs.Patch
import DynasmVerif.Props.C05
import DynasmVerif.Props.C01
import DynasmVerif.Proofs.SessionReg

/-!
# C12 — address-dependent references stay correct when the buffer moves or is altered

Only `X86Relocation` has address-dependent kinds, and its formats are the plain 1/2/4/8-byte fields.
-/

namespace DynasmVerif.C12
open DynasmVerif.Asm DynasmVerif.Patch DynasmVerif.Reloc

/-- The value an address-dependent reference must hold moves with the buffer: when the buffer address changes from
`old` to `new`, an absolute-address field (`AbsToRel`) must grow by `new - old`, a relative-to-external field
(`RelToAbs`) must shrink by it, a plain relative one stays. This is exactly what `PatchLoc::adjust` adds/subtracts. -/
theorem value_moves_with_buffer (p : PatchLoc) (target old new : Nat) (v : BitVec 64) (h : p.value target old = some v) :
    p.value target new = some (match p.reloc.kind with
      | .relative => v
      | .absToRel => v + (BitVec.ofNat 64 new - BitVec.ofNat 64 old)
      | .relToAbs => v - (BitVec.ofNat 64 new - BitVec.ofNat 64 old)) := by
  unfold PatchLoc.value at h ⊢
  split at h
  · cases h
  · rename_i hge
    simp only [hge, if_false, Option.some.injEq] at h ⊢
    subst h
    cases p.reloc.kind <;> simp only [BitVec.ofNat_add]
    · generalize BitVec.ofNat 64 target = a
      generalize BitVec.ofNat 64 new = n
      generalize BitVec.ofNat 64 old = o
      generalize BitVec.ofInt 64 p.targetOff = t
      grind
    · generalize BitVec.ofNat 64 target = a
      generalize BitVec.ofNat 64 new = n
      generalize BitVec.ofNat 64 old = o
      generalize BitVec.ofInt 64 p.targetOff = t
      generalize BitVec.ofNat 64 (p.location - p.refOff) = l
      grind

def isPlain (f : Fmt) : Prop := f = .p1 ∨ f = .p2 ∨ f = .p4 ∨ f = .p8

/-- for the plain formats reading back is defined on the whole range -/
theorem plain_read_defined (f : Fmt) (hf : isPlain f) (v : BitVec 64) : C05.readDefinedBV f v = C05.inRangeBV f v := by
  rcases hf with rfl | rfl | rfl | rfl <;> simp [C05.readDefinedBV]

/-- `PatchLoc::adjust` on a field that currently reads `r`: afterwards the field reads `r + δ` (absolute field) or
`r − δ` (relative-to-external field), and no byte outside the field changed. If the adjusted value no longer fits the
adjustment is reported as impossible — the field is never given a wrong value. -/
theorem adjust_tracks_move (p : PatchLoc) (buf b : List Byte) (δ : BitVec 64) (hf : isPlain p.reloc.fmt)
    (hk : p.reloc.kind ≠ .relative) (h : p.adjust buf δ = .ok b) :
    read p.reloc.fmt (ofLeBytes (slice b (fieldStart p 0) p.reloc.fmt.size)) =
      (if p.reloc.kind = .relToAbs then read p.reloc.fmt (ofLeBytes (slice buf (fieldStart p 0) p.reloc.fmt.size)) - δ
       else read p.reloc.fmt (ofLeBytes (slice buf (fieldStart p 0) p.reloc.fmt.size)) + δ) ∧
    b.length = buf.length ∧ (∀ j, ¬ inRange (fieldStart p 0) p.reloc.fmt.size j → b[j]? = buf[j]?) := by
  simp only [fieldStart]
  generalize hstdef : p.location - 0 - p.fieldOff = st
  generalize hrdef : read p.reloc.fmt (ofLeBytes (slice buf st p.reloc.fmt.size)) = r
  unfold PatchLoc.adjust at h
  split at h
  · rename_i hrel; exact absurd hrel hk
  · rename_i k hk'
    split at h
    · cases h
    · rename_i st' hst
      unfold PatchLoc.start at hst
      split at hst
      · cases hst
      · cases hst
        rw [hstdef] at h
        obtain ⟨h1, h2, h3, w, hw, hb⟩ := patchField_ok _ _ _ _ _ h
        rw [hrdef] at hw
        refine ⟨?_, h1, h3⟩
        -- the field now holds the little-endian bytes of w
        have hs : slice b st p.reloc.fmt.size = leBytes p.reloc.fmt.size w := by
          rw [hb]; unfold slice splice
          have hlen : (leBytes p.reloc.fmt.size w).length = p.reloc.fmt.size := leBytes_length _ _
          have hmin : min st buf.length = st := by omega
          have hl1 : (List.take st buf).length = st := by simp [hmin]
          rw [List.append_assoc, List.drop_append_of_le_length (by omega), List.drop_eq_nil_of_le (by omega)]
          simp only [List.nil_append]
          rw [List.take_append_of_le_length (by omega), List.take_of_length_le (by omega)]
        have hslice : (slice buf st p.reloc.fmt.size).length = p.reloc.fmt.size := by simp [slice]; omega
        have hin := C01.ofLeBytes_inside p.reloc.fmt _ hslice
        obtain ⟨_, hp2⟩ := C05.write_preserves_other_bits _ _ _ _ hw hin
        rw [hs, C01.ofLeBytes_leBytes _ _ hp2]
        simp only at hw
        generalize hvdef : (if (p.reloc.kind == RelKind.relToAbs) = true then r - δ else r + δ) = v at hw
        have hrange : C05.inRangeBV p.reloc.fmt v = true := by
          cases hb' : C05.inRangeBV p.reloc.fmt v with
          | true => rfl
          | false => rw [(C05.write_fails_iff_out_of_range _ _ _).2 hb'] at hw; cases hw
        have := C05.read_after_write _ _ _ _ hw (by rw [plain_read_defined _ hf]; exact hrange)
        rw [this, ← hvdef]
        cases hkk : p.reloc.kind <;> simp

/-- The adjustment pass over all tracked relocations changes no byte outside their fields and keeps the length: code
that is not (any more) tracked — in particular replacement code written over a forgotten field — is never touched. -/
theorem adjustManaged_frame (ms : List PatchLoc) (buf : List Byte) (δ : BitVec 64) :
    (adjustManaged ms buf δ).1.length = buf.length ∧
    ∀ j, (∀ p ∈ ms, ¬ inRange (p.location - 0 - p.fieldOff) p.reloc.fmt.size j) → (adjustManaged ms buf δ).1[j]? = buf[j]? := by
  unfold adjustManaged
  suffices ∀ (acc : List Byte × Bool × Bool), 
      (ms.foldl (fun (acc : List Byte × Bool × Bool) p =>
        match p.adjust acc.1 δ with
        | .ok b => (b, acc.2.1, acc.2.2)
        | .impossible => (acc.1, true, acc.2.2)
        | .panic => (acc.1, acc.2.1, true)) acc).1.length = acc.1.length ∧
      ∀ j, (∀ p ∈ ms, ¬ inRange (p.location - 0 - p.fieldOff) p.reloc.fmt.size j) →
        (ms.foldl (fun (acc : List Byte × Bool × Bool) p =>
        match p.adjust acc.1 δ with
        | .ok b => (b, acc.2.1, acc.2.2)
        | .impossible => (acc.1, true, acc.2.2)
        | .panic => (acc.1, acc.2.1, true)) acc).1[j]? = acc.1[j]? from this (buf, false, false)
  induction ms with
  | nil => intro acc; simp
  | cons p rest ih =>
    intro acc
    simp only [List.foldl_cons]
    cases hadj : p.adjust acc.1 δ with
    | impossible =>
      simp only
      obtain ⟨i1, i2⟩ := ih (acc.1, true, acc.2.2)
      exact ⟨i1, fun j hj => i2 j (fun q hq => hj q (List.mem_cons_of_mem _ hq))⟩
    | panic =>
      simp only
      obtain ⟨i1, i2⟩ := ih (acc.1, acc.2.1, true)
      exact ⟨i1, fun j hj => i2 j (fun q hq => hj q (List.mem_cons_of_mem _ hq))⟩
    | ok b =>
      simp only
      obtain ⟨i1, i2⟩ := ih (b, acc.2.1, acc.2.2)
      have hfr : b.length = acc.1.length ∧ ∀ j, ¬ inRange (p.location - 0 - p.fieldOff) p.reloc.fmt.size j → b[j]? = acc.1[j]? := by
        unfold PatchLoc.adjust at hadj
        split at hadj
        · cases hadj; exact ⟨rfl, fun _ _ => rfl⟩
        · split at hadj
          · cases hadj
          · rename_i st hst
            unfold PatchLoc.start at hst
            split at hst
            · cases hst
            · cases hst
              obtain ⟨h1, _, h3, _⟩ := patchField_ok _ _ _ _ _ hadj
              exact ⟨h1, h3⟩
      refine ⟨by rw [i1]; exact hfr.1, ?_⟩
      intro j hj
      rw [i2 j (fun q hq => hj q (List.mem_cons_of_mem _ hq))]
      exact hfr.2 j (hj p List.mem_cons_self)

/-! ## the whole adjustment pass: every tracked field follows the move -/

/-- what a tracked field currently reads -/
def readField (p : PatchLoc) (buf : List Byte) : BitVec 64 :=
  read p.reloc.fmt (ofLeBytes (slice buf (fieldStart p 0) p.reloc.fmt.size))

/-- what it must read after the buffer moved by `δ` -/
def moved (p : PatchLoc) (r δ : BitVec 64) : BitVec 64 :=
  match p.reloc.kind with
  | .relative => r
  | .relToAbs => r - δ
  | .absToRel => r + δ

/-- two tracked fields do not overlap -/
def disjointFields (p q : PatchLoc) : Prop :=
  ∀ j, inRange (fieldStart p 0) p.reloc.fmt.size j → ¬ inRange (fieldStart q 0) q.reloc.fmt.size j

theorem disjointFields_symm {p q : PatchLoc} (h : disjointFields p q) : disjointFields q p :=
  fun j hq hp => h j hp hq

theorem slice_congr (a b : List Byte) (st n : Nat) (h : ∀ j, inRange st n j → a[j]? = b[j]?) : slice a st n = slice b st n := by
  apply List.ext_getElem?
  intro i
  simp only [slice, List.getElem?_take, List.getElem?_drop]
  split
  · rename_i hi; exact h (st + i) ⟨by omega, by omega⟩
  · rfl

theorem readField_congr (p : PatchLoc) (a b : List Byte)
    (h : ∀ j, inRange (fieldStart p 0) p.reloc.fmt.size j → a[j]? = b[j]?) : readField p a = readField p b := by
  unfold readField
  rw [slice_congr a b _ _ h]

/-- one adjustment: the field itself reads the moved value, every disjoint field reads what it read before -/
theorem adjust_one (p : PatchLoc) (buf b : List Byte) (δ : BitVec 64) (hf : isPlain p.reloc.fmt) (h : p.adjust buf δ = .ok b) :
    readField p b = moved p (readField p buf) δ ∧ ∀ q, disjointFields q p → readField q b = readField q buf := by
  by_cases hk : p.reloc.kind = .relative
  · have : b = buf := by
      unfold PatchLoc.adjust at h
      simp only [hk] at h
      cases h; rfl
    subst this
    exact ⟨by simp [moved, hk], fun _ _ => rfl⟩
  · obtain ⟨h1, _, h3⟩ := adjust_tracks_move p buf b δ hf hk h
    refine ⟨?_, ?_⟩
    · unfold readField moved
      rw [h1]
      cases hkk : p.reloc.kind <;> simp_all
    · intro q hq
      apply readField_congr
      intro j hj
      exact h3 j (hq j hj)

/-- the fold of `adjustManaged` from an arbitrary accumulator -/
def adjFold (ms : List PatchLoc) (δ : BitVec 64) (acc : List Byte × Bool × Bool) : List Byte × Bool × Bool :=
  ms.foldl (fun (acc : List Byte × Bool × Bool) p =>
    match p.adjust acc.1 δ with
    | .ok b => (b, acc.2.1, acc.2.2)
    | .impossible => (acc.1, true, acc.2.2)
    | .panic => (acc.1, acc.2.1, true)) acc

theorem adjustManaged_eq_adjFold (ms : List PatchLoc) (buf : List Byte) (δ : BitVec 64) :
    adjustManaged ms buf δ = adjFold ms δ (buf, false, false) := rfl

/-- failure flags only ever get set -/
theorem adjFold_flags_mono (ms : List PatchLoc) (δ : BitVec 64) (acc : List Byte × Bool × Bool) :
    (acc.2.1 = true → (adjFold ms δ acc).2.1 = true) ∧ (acc.2.2 = true → (adjFold ms δ acc).2.2 = true) := by
  induction ms generalizing acc with
  | nil => exact ⟨id, id⟩
  | cons p rest ih =>
    simp only [adjFold, List.foldl_cons]
    cases p.adjust acc.1 δ with
    | ok b => exact ih (b, acc.2.1, acc.2.2)
    | impossible => exact ⟨fun _ => (ih (acc.1, true, acc.2.2)).1 rfl, fun h => (ih (acc.1, true, acc.2.2)).2 h⟩
    | panic => exact ⟨fun h => (ih (acc.1, acc.2.1, true)).1 h, fun _ => (ih (acc.1, acc.2.1, true)).2 rfl⟩

/-- **every tracked field follows the move.** When the adjustment pass over pairwise disjoint plain fields reports no failure,
each tracked field afterwards reads exactly what it read before, moved by `δ` in the direction its kind demands — in whatever
order the map iterates. With `value_moves_with_buffer`: a field that held the right value for the old address holds the right
value for the new one. -/
theorem adjust_pass_tracks_all (ms : List PatchLoc) (δ : BitVec 64) (acc : List Byte × Bool × Bool)
    (hplain : ∀ p ∈ ms, isPlain p.reloc.fmt) (hdis : ms.Pairwise disjointFields)
    (h0 : acc.2.1 = false ∧ acc.2.2 = false)
    (hok : (adjFold ms δ acc).2.1 = false ∧ (adjFold ms δ acc).2.2 = false) :
    (∀ p ∈ ms, readField p (adjFold ms δ acc).1 = moved p (readField p acc.1) δ) ∧
    (∀ q, (∀ p ∈ ms, disjointFields q p) → readField q (adjFold ms δ acc).1 = readField q acc.1) := by
  induction ms generalizing acc with
  | nil => exact ⟨fun p hp => absurd hp (List.not_mem_nil), fun _ _ => rfl⟩
  | cons p rest ih =>
    have hp_plain := hplain p List.mem_cons_self
    obtain ⟨hd1, hd2⟩ := List.pairwise_cons.mp hdis
    simp only [adjFold, List.foldl_cons] at hok ⊢
    cases hadj : p.adjust acc.1 δ with
    | impossible =>
      simp only [hadj] at hok
      have := (adjFold_flags_mono rest δ (acc.1, true, acc.2.2)).1 rfl
      simp only [adjFold] at this
      rw [this] at hok; cases hok.1
    | panic =>
      simp only [hadj] at hok
      have := (adjFold_flags_mono rest δ (acc.1, acc.2.1, true)).2 rfl
      simp only [adjFold] at this
      rw [this] at hok; cases hok.2
    | ok b =>
      simp only [hadj] at hok ⊢
      obtain ⟨hone, hothers⟩ := adjust_one p acc.1 b δ hp_plain hadj
      have ihr := ih (b, acc.2.1, acc.2.2) (fun q hq => hplain q (List.mem_cons_of_mem _ hq)) hd2 h0 hok
      simp only [adjFold] at ihr
      refine ⟨?_, ?_⟩
      · intro q hq
        cases hq with
        | head =>
          -- p itself: adjusted now, untouched by the rest (disjoint from every later field)
          rw [ihr.2 p (fun r hr => hd1 r hr), hone]
        | tail _ hq' =>
          rw [ihr.1 q hq']
          have : disjointFields q p := disjointFields_symm (hd1 q hq')
          rw [hothers q this]
      · intro q hq
        rw [ihr.2 q (fun r hr => hq r (List.mem_cons_of_mem _ hr)), hothers q (hq p List.mem_cons_self)]

/-- the statement for `Assembler::commit`'s pass itself -/
theorem adjustManaged_tracks_all (ms : List PatchLoc) (buf : List Byte) (δ : BitVec 64)
    (hplain : ∀ p ∈ ms, isPlain p.reloc.fmt) (hdis : ms.Pairwise disjointFields)
    (hok : (adjustManaged ms buf δ).2.1 = false ∧ (adjustManaged ms buf δ).2.2 = false) :
    ∀ p ∈ ms, readField p (adjustManaged ms buf δ).1 = moved p (readField p buf) δ := by
  rw [adjustManaged_eq_adjFold] at hok ⊢
  exact (adjust_pass_tracks_all ms δ (buf, false, false) hplain hdis ⟨rfl, rfl⟩ hok).1

/-- forgetting the overwritten range: exactly the entries whose field starts in `[s, e)` go, all others stay -/
theorem removeBetween_spec (m : Managed) (s e : Nat) (x : Nat × PatchLoc) :
    x ∈ m.removeBetween s e ↔ x ∈ m ∧ (s = e ∨ ¬ (s ≤ x.1 ∧ x.1 < e)) := by
  unfold Managed.removeBetween
  split
  · rename_i h; simp [h]
  · rename_i h
    simp only [List.mem_filter, Bool.not_eq_true', Bool.and_eq_false_iff, decide_eq_false_iff_not, h, false_or]
    constructor
    · rintro ⟨h1, h2⟩; refine ⟨h1, ?_⟩; rintro ⟨a, b⟩; rcases h2 with h2 | h2 <;> simp_all
    · rintro ⟨h1, h2⟩; refine ⟨h1, ?_⟩
      by_cases hs : s ≤ x.1
      · right; simp; omega
      · left; simp; omega

/-- tracking a new field: it is in the map afterwards, keyed by its field start, replacing any entry with that key -/
theorem add_spec (m : Managed) (p : PatchLoc) :
    (managedKey p, p) ∈ m.add p ∧ ∀ x ∈ m.add p, x = (managedKey p, p) ∨ (x ∈ m ∧ x.1 ≠ managedKey p) := by
  unfold Managed.add
  refine ⟨by simp, ?_⟩
  intro x hx
  simp only [List.mem_append, List.mem_filter, List.mem_singleton] at hx
  rcases hx with ⟨h1, h2⟩ | h
  · right; exact ⟨h1, by simpa using h2⟩
  · left; exact h

/-! ## alter sessions: forget what is overwritten, track what is written (whole sessions, any outcome)

`SessionReg.session_refines_spec` relates the code's lazy bookkeeping (`old_managed` / `new_managed`, purged when the cursor is moved
and when the session ends — also when it ends in an error) to the specification "a byte written over the start of a tracked field
forgets it at once, a field written is tracked at once". The three sentences of the property are read off the specification. -/

open SessionReg in
/-- the registry an alter session leaves behind is the specification's, for every sequence of goto / emit / bare-reference steps and
every outcome of the session; `madd` are the label references `encode_relocs` patched (all of them on success, a prefix on failure) -/
theorem session_registry_is_spec (m : Managed) (ops : List ROp) (madd : List PatchLoc)
    (hf : FieldsInSpan ⟨m, [], 0, 0⟩ ops) :
    ∀ k, get? (rend (ops.foldl rstep ⟨m, [], 0, 0⟩) madd) k = specEnd (ops.foldl specStep ⟨get? m, 0⟩) madd k :=
  session_refines_spec ops _ _ madd (rel_init m) hf


open SessionReg in
/-- **"Once such a field has been overwritten through an alter session it is no longer touched by later moves"**: a field start `k`
covered by an emission of the session, and not declared again afterwards, is not in the registry the session leaves — however
the session goes on and whether or not it succeeds. (The adjust-on-move pass iterates exactly this registry.) -/
theorem overwritten_field_is_forgotten (m : Managed) (pre post : List ROp) (n k : Nat) (madd : List PatchLoc)
    (hf : FieldsInSpan ⟨m, [], 0, 0⟩ (pre ++ .emit n :: post))
    (hcov : (pre.foldl specStep ⟨get? m, 0⟩).cursor ≤ k ∧ k < (pre.foldl specStep ⟨get? m, 0⟩).cursor + n)
    (hpost : NoDecl k post) (hmadd : ∀ p ∈ madd, managedKey p ≠ k) :
    get? (rend ((pre ++ .emit n :: post).foldl rstep ⟨m, [], 0, 0⟩) madd) k = none := by
  rw [session_registry_is_spec m _ madd hf k, specEnd_other _ _ _ hmadd, List.foldl_append, List.foldl_cons]
  apply noDecl_stays_none _ _ _ hpost
  simp [specStep, hcov]

open SessionReg in
/-- **"fields written by the session itself are tracked from then on"**: a field the session declares, and does not write over or
declare again afterwards, is in the registry the session leaves -/
theorem written_field_is_tracked (m : Managed) (pre post : List ROp) (p : PatchLoc) (madd : List PatchLoc)
    (hf : FieldsInSpan ⟨m, [], 0, 0⟩ (pre ++ .bare p :: post))
    (hpost : NoTouch (managedKey p) (specStep (pre.foldl specStep ⟨get? m, 0⟩) (.bare p)) post)
    (hmadd : ∀ q ∈ madd, managedKey q ≠ managedKey p) :
    get? (rend ((pre ++ .bare p :: post).foldl rstep ⟨m, [], 0, 0⟩) madd) (managedKey p) = some p := by
  rw [session_registry_is_spec m _ madd hf _, specEnd_other _ _ _ hmadd, List.foldl_append, List.foldl_cons,
    noTouch_keeps _ _ _ hpost]
  simp [specStep]

open SessionReg in
/-- fields the session does not write over stay tracked as they were (so they keep following the buffer: `adjustManaged_tracks_all`) -/
theorem untouched_field_stays (m : Managed) (ops : List ROp) (k : Nat) (madd : List PatchLoc)
    (hf : FieldsInSpan ⟨m, [], 0, 0⟩ ops) (h : NoTouch k ⟨get? m, 0⟩ ops) (hmadd : ∀ p ∈ madd, managedKey p ≠ k) :
    get? (rend (ops.foldl rstep ⟨m, [], 0, 0⟩) madd) k = get? m k := by
  rw [session_registry_is_spec m _ madd hf k, specEnd_other _ _ _ hmadd, noTouch_keeps _ _ _ h]

/-- the label references `encode_relocs` patches are tracked too (the last one declared at a field start wins) -/
theorem patched_label_reference_is_tracked (m : Managed) (ops : List SessionReg.ROp) (madd : List PatchLoc) (p : PatchLoc)
    (hf : SessionReg.FieldsInSpan ⟨m, [], 0, 0⟩ ops) :
    SessionReg.get? (SessionReg.rend (ops.foldl SessionReg.rstep ⟨m, [], 0, 0⟩) (madd ++ [p])) (managedKey p) = some p := by
  rw [session_registry_is_spec m _ _ hf _]
  simp [SessionReg.specEnd, List.foldl_append]

/-! ## non-vacuity -/
example : (({ location := 8, fieldOff := 8, refOff := 8, reloc := ⟨.p8, .absToRel⟩, targetOff := 0 } : PatchLoc).value 3 0x1000)
    = some 0x1003#64 := by decide
example : isPlain .p8 := by simp [isPlain]


/-- the history of the repaired defect: a session declares a field at 8, moves away, comes back and overwrites it; the hypotheses
of `overwritten_field_is_forgotten` are met, and the model computes an empty registry -/
def exP : PatchLoc := { location := 16, fieldOff := 8, refOff := 0, reloc := ⟨.p8, .relToAbs⟩, targetOff := 0 }
def exOps : List SessionReg.ROp := [.goto 8, .emit 8, .bare exP, .goto 8, .emit 8]
example : SessionReg.FieldsInSpan ⟨[], [], 0, 0⟩ exOps := by
  simp [exOps, SessionReg.FieldsInSpan, SessionReg.rstep, exP, managedKey]
example : SessionReg.get? (SessionReg.rend (exOps.foldl SessionReg.rstep ⟨[], [], 0, 0⟩) []) 8 = none := by
  decide

end DynasmVerif.C12
