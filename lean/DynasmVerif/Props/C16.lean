import DynasmVerif.Model.Machine
import DynasmVerif.Props.C07
import DynasmVerif.Proofs.Patch

/-!
# C16 — all assembler front-ends agree, and a reused assembler behaves like a fresh one

The three label-capable front-ends share one `Core` in the model (the correspondence stream ties each of the three Rust
implementations of `DynasmLabelApi` to it), so agreement on labels is agreement of the buffers they patch.
-/

namespace DynasmVerif.C16
open DynasmVerif.Asm

/-! ## a reused vector assembler is a fresh one -/

/-- A successful commit leaves no pending relocation and no recorded error behind. -/
theorem commit_ok_drains (a a' : VecAsm) (h : a.commit = (a', .ok)) :
    a'.core.statics = [] ∧ a'.core.dynamics = [] ∧ a'.core.error = none ∧ a'.base = a.base ∧ a'.core.labels = a.core.labels := by
  unfold VecAsm.commit Core.encodeRelocs at h
  cases he : a.core.error with
  | some e => simp [he] at h
  | none =>
    simp only [he] at h
    generalize hps : patchStatics a.core.labels 0 a.base a.core.statics a.ops [] = ps at h
    obtain ⟨b1, m1, o1⟩ := ps
    cases o1 <;> simp at h
    · generalize hpd : patchDynamics a.core.labels 0 a.base a.core.dynamics b1 m1 = pd at h
      obtain ⟨b2, m2, o2⟩ := pd
      obtain ⟨h1, h2⟩ := h
      subst h1
      simp only at h2
      subst h2
      simp [DynasmVerif.Patch.dynamicsRest_of_ok _ _ _ _ _ _ _ _ hpd]

/-- After a successful `take` (or `drain`) the assembler is literally in the state `VecAssembler::new(base)`:
no label, generation counter, dynamic id, pending reference or error survives. -/
theorem take_resets (m : Machine) (a : VecAsm) (bs : List Byte) (m' : Machine)
    (hf : m.front = .vec a) (hmode : m.mode = .top) (hd : m.dead = false)
    (h : step 2 m .take 0 = (m', .okBytes bs)) :
    m'.front = .vec { base := a.base } ∧ m'.mode = .top ∧ m'.dead = false := by
  simp only [step, hd, hmode, stepTop, hf] at h
  generalize hc : a.commit = r at h
  obtain ⟨a', o⟩ := r
  cases o <;> simp [die, Ans.ofOut] at h
  obtain ⟨h1, h2⟩ := h
  obtain ⟨hs, hdy, he, hb, _⟩ := commit_ok_drains a a' hc
  subst h1
  refine ⟨?_, by simp [hmode], by simp [hd]⟩
  cases a' with
  | mk ops base core =>
    cases core with
    | mk labels statics dynamics error =>
      simp_all

theorem drain_resets (m : Machine) (a : VecAsm) (bs : List Byte) (m' : Machine)
    (hf : m.front = .vec a) (hmode : m.mode = .top) (hd : m.dead = false)
    (h : step 2 m .drain 0 = (m', .okBytes bs)) :
    m'.front = .vec { base := a.base } ∧ m'.mode = .top ∧ m'.dead = false := by
  simp only [step, hd, hmode, stepTop, hf] at h
  generalize hc : a.commit = r at h
  obtain ⟨a', o⟩ := r
  cases o <;> simp [die, Ans.ofOut] at h
  obtain ⟨h1, h2⟩ := h
  obtain ⟨hs, hdy, he, hb, _⟩ := commit_ok_drains a a' hc
  subst h1
  refine ⟨?_, by simp [hmode], by simp [hd]⟩
  cases a' with
  | mk ops base core =>
    cases core with
    | mk labels statics dynamics error =>
      simp_all

/-- Hence running any program after a successful take equals running it on a new assembler (same machine state,
so the same answers for every continuation). -/
theorem run_after_take_eq_fresh (m m' : Machine) (a : VecAsm) (bs : List Byte)
    (hf : m.front = .vec a) (hmode : m.mode = .top) (hd : m.dead = false)
    (h : step 2 m .take 0 = (m', .okBytes bs)) (ops : List (Op × Nat)) :
    ops.foldl (fun acc o => (step 2 acc o.1 o.2).1) m' =
    ops.foldl (fun acc o => (step 2 acc o.1 o.2).1) { front := .vec { base := a.base }, mode := .top, dead := false } := by
  obtain ⟨h1, h2, h3⟩ := take_resets m a bs m' hf hmode hd h
  have : m' = { front := .vec { base := a.base }, mode := .top, dead := false } := by
    cases m'; simp_all
  rw [this]

/-! ## label-free code: every front-end produces the concatenation of what was emitted -/

/-- what a label-free program emits, by scanning (`C07.specStep` without the commit bookkeeping) -/
def emitted (h : List C07.HOp) : List Byte := (h.foldl C07.specStep ([], [])).2

/-- SimpleAssembler / VecAssembler on the same operations (commits are no-ops for a label-free vector program) -/
def runVecOps (ops : List Byte) : List C07.HOp → List Byte
  | [] => ops
  | .emit bs :: r => runVecOps (ops ++ bs) r
  | .align a f :: r => runVecOps (ops ++ List.replicate (alignPad ops.length a) (BitVec.ofNat 8 f)) r
  | .commit _ :: r => runVecOps ops r

theorem specStep_snd (acc : List Byte × List Byte) (h : List C07.HOp) :
    (h.foldl C07.specStep acc).2 = runVecOps acc.2 h := by
  induction h generalizing acc with
  | nil => rfl
  | cons o r ih => cases o <;> simp [List.foldl, C07.specStep, runVecOps, ih]

/-- The executable-memory assembler, however the program is cut into commits (and wherever the OS places the
mappings), ends with buffer ++ pending equal to what the plain vector assemblers produce. -/
theorem exec_agrees_with_vec (addr : Nat) (h : List C07.HOp) :
    ∃ a, C07.run (ExecAsm.new addr) h = some a ∧ a.mem.view ++ a.ops = runVecOps [] h := by
  obtain ⟨a, hr, ht, _⟩ := C07.history_tracks (ExecAsm.new addr) ([], []) h (C07.fresh_tracks addr)
  exact ⟨a, hr, by rw [ht.all, specStep_snd]⟩

/-- the uncommitted modifier replaying a program over a buffer of the right length reproduces it: writing `bs` at the
offset where `bs` already ends up leaves exactly `bs` there (one emission; sequences follow by `Unc.emit` composition) -/
theorem unc_emit_spec (u u' : Unc) (bs : List Byte) (h : u.emit bs = some u') :
    u'.offset = u.offset + bs.length ∧ u'.base = u.base ∧ u'.buf.length = u.buf.length ∧
    (∀ i, i < bs.length → u'.buf[u.offset - u.base + i]? = bs[i]?) ∧
    (∀ j, (j < u.offset - u.base ∨ u.offset - u.base + bs.length ≤ j) → u'.buf[j]? = u.buf[j]?) := by
  induction bs generalizing u with
  | nil => simp [Unc.emit] at h; subst h; simp
  | cons b bs ih =>
    simp only [Unc.emit] at h
    split at h
    · cases h
    · rename_i hge
      split at h
      · rename_i hlt
        obtain ⟨h1, h2, h3, h4, h5⟩ := ih _ h
        simp only [List.length_set] at h3
        simp only at h1 h2 h4 h5
        have hsub : u.offset + 1 - u.base = u.offset - u.base + 1 := by omega
        refine ⟨by simp [h1]; omega, h2, h3, ?_, ?_⟩
        · intro i hi
          cases i with
          | zero =>
            have := h5 (u.offset - u.base) (Or.inl (by omega))
            simp [this, hlt]
          | succ i =>
            have := h4 i (by simp at hi; omega)
            simp only [List.getElem?_cons_succ]
            rw [← this]; congr 1; omega
        · intro j hj
          have := h5 j (by simp at hj; omega)
          rw [this, List.getElem?_set]
          have : u.offset - u.base ≠ j := by simp at hj; omega
          simp [this]
      · cases h

/-! ## non-vacuity -/
example : (step 2 { front := .vec { ops := [1, 2], base := 7 } } .take 0).2 matches .okBytes [1, 2] := by decide
example : runVecOps [] [.emit [1], .commit 0, .align 4 9, .emit [2]] = [1, 9, 9, 9, 2] := by decide

end DynasmVerif.C16
