import DynasmVerif.Model.Machine
import DynasmVerif.Proofs.Patch
import DynasmVerif.Props.C17

/-!
# C10 — in-place alteration writes exactly what was emitted, where the cursor says

`Session` models `Modifier` (after the fix of `Modifier::extend`, every emission path indexes the buffer byte by byte),
`sessionEnd` models `Modifier::encode_relocs` + putting the buffer back in `Assembler::alter`.
-/

namespace DynasmVerif.C10
open DynasmVerif.Asm DynasmVerif.Patch

/-- Each emission overwrites exactly the bytes at the cursor and advances the cursor by the number of bytes emitted;
every other byte of the buffer is untouched. -/
theorem emit_writes_at_cursor (s s' : Session) (bs : List Byte) (h : s.emit bs = some s') :
    s'.cursor = s.cursor + bs.length ∧ s'.buf.length = s.buf.length ∧
    (∀ i, i < bs.length → s'.buf[s.cursor + i]? = bs[i]?) ∧
    (∀ j, (j < s.cursor ∨ s.cursor + bs.length ≤ j) → s'.buf[j]? = s.buf[j]?) := by
  obtain ⟨h1, h2, _, h4, h5⟩ := C17.session_emit_spec s s' bs h
  exact ⟨h1, h2, h4, h5⟩

/-- An emission that does not fit in the committed buffer is reported (the model's `none` is the Rust panic):
it is never applied partially with a normal return. -/
theorem emission_fits_or_reported (s : Session) (bs : List Byte) :
    (∃ s', s.emit bs = some s') ↔ (bs = [] ∨ s.cursor + bs.length ≤ s.buf.length) := by
  induction bs generalizing s with
  | nil => simp [Session.emit]
  | cons b bs ih =>
    simp only [Session.emit]
    split
    · rename_i hlt
      rw [ih]
      simp only [List.length_set, List.length_cons, reduceCtorEq, false_or]
      constructor
      · rintro (h | h)
        · subst h; simp; omega
        · omega
      · intro h
        by_cases hb : bs = []
        · left; exact hb
        · right; omega
    · rename_i hge
      simp only [reduceCtorEq, exists_false, List.length_cons, false_or, false_iff]
      omega

/-- the offset checks report precisely whether the cursor is beyond / not at the given offset -/
theorem check_iff (s : Session) (off : Nat) : s.check off = .err .checkFailed ↔ s.cursor > off := by
  unfold Session.check; split <;> simp_all

theorem check_exact_iff (s : Session) (off : Nat) : s.checkExact off = .err .checkFailed ↔ s.cursor ≠ off := by
  unfold Session.checkExact; split <;> simp_all

theorem check_ok_iff (s : Session) (off : Nat) : s.check off = .ok ↔ s.cursor ≤ off := by
  unfold Session.check; split <;> simp_all <;> omega

/-- the same for the uncommitted modifier (`alter_uncommitted`, `VecAssembler::alter`, `SimpleAssembler::alter`): its cursor is an ABSOLUTE
assembly offset — the buffer it indexes starts at `base`, the committed length — and the checks compare that absolute cursor -/
theorem unc_check_iff (m : Machine) (u : Unc) (n : Nat) :
    (stepUnc m u (.chk n)).2 = .err .checkFailed ↔ u.offset > n := by
  simp only [stepUnc]; split <;> simp_all

theorem unc_check_exact_iff (m : Machine) (u : Unc) (n : Nat) :
    (stepUnc m u (.chkx n)).2 = .err .checkFailed ↔ u.offset ≠ n := by
  simp only [stepUnc]; split <;> simp_all

/-- `offset()` of the uncommitted modifier is the absolute cursor, and `goto` sets it -/
theorem unc_offset_goto (m : Machine) (u : Unc) (n : Nat) :
    (stepUnc m u .off).2 = .num u.offset ∧
    (stepUnc m u (.goto n)).1.mode = .unc { u with offset := n } := by
  simp [stepUnc]

/-! ## a whole session of gotos and emissions: the frame -/

inductive SOp
  | goto (n : Nat)
  | emit (bs : List Byte)

def runS (s : Session) : List SOp → Option Session
  | [] => some s
  | .goto n :: r => runS { s with cursor := n, prev := n } r
  | .emit bs :: r => (s.emit bs).bind (fun s' => runS s' r)

/-- the offsets a session writes, by scanning its operations from a starting cursor -/
def written (cursor : Nat) : List SOp → Nat → Prop
  | [], _ => False
  | .goto n :: r, j => written n r j
  | .emit bs :: r, j => (cursor ≤ j ∧ j < cursor + bs.length) ∨ written (cursor + bs.length) r j

/-- When the session's operations all succeed, the buffer keeps its length and differs from its previous contents
only at offsets that were written. -/
theorem session_frame (s s' : Session) (ops : List SOp) (h : runS s ops = some s') :
    s'.buf.length = s.buf.length ∧ ∀ j, ¬ written s.cursor ops j → s'.buf[j]? = s.buf[j]? := by
  induction ops generalizing s with
  | nil => simp [runS] at h; subst h; simp
  | cons o r ih =>
    cases o with
    | goto n =>
      simp only [runS] at h
      obtain ⟨h1, h2⟩ := ih _ h
      exact ⟨h1, fun j hj => h2 j hj⟩
    | emit bs =>
      simp only [runS] at h
      cases he : s.emit bs with
      | none => simp [he] at h
      | some s1 =>
        simp only [he, Option.bind_some] at h
        obtain ⟨e1, e2, _, e4⟩ := emit_writes_at_cursor s s1 bs he
        obtain ⟨h1, h2⟩ := ih _ h
        refine ⟨by rw [h1, e2], ?_⟩
        intro j hj
        simp only [written, not_or, not_and, Nat.not_lt] at hj
        rw [h2 j (by rw [e1]; exact hj.2)]
        apply e4
        by_cases hc : s.cursor ≤ j
        · right; exact hj.1 hc
        · left; omega

/-- Session end (`encode_relocs` + putting the buffer back): the committed buffer the executors see afterwards is the
session's buffer with, at most, the fields of the relocations recorded in the session patched — on success *and* when
the session ends with an error. -/
theorem session_end_frame (a a' : ExecAsm) (s : Session) (o : Out) (hlen : s.buf.length = a.mem.len)
    (h : sessionEnd a s = some (a', o)) :
    a'.mem.view.length = s.buf.length ∧ a'.mem.len = a.mem.len ∧ a'.mem.committed = a.mem.committed ∧
    a'.mem.cap = a.mem.cap ∧ a'.mem.map.length = s.buf.length + (a.mem.map.length - a.mem.len) ∧
    ∀ j, ¬ staticFields 0 a.core.statics j → ¬ dynamicFields 0 a.core.dynamics j → a'.mem.view[j]? = s.buf[j]? := by
  unfold sessionEnd at h
  split at h
  · cases h
  · have key : ∀ (x : ExecAsm) (b : List Byte), b.length = s.buf.length → x.mem = a.mem →
        ({ x with mem := { x.mem with map := b ++ x.mem.map.drop x.mem.len } } : ExecAsm).mem.view = b := by
      intro x b hb hx
      simp only [Mem.view, hx]
      exact List.take_left' (by rw [hb, hlen])
    have hf := encodeRelocs_frame ({ a.core with error := s.error } : Core) s.buf 0 a.mem.addr true
    generalize hr : ({ a.core with error := s.error } : Core).encodeRelocs s.buf 0 a.mem.addr true = r at h hf
    obtain ⟨c, buf, madd, o'⟩ := r
    simp only at hf h
    cases o' with
    | panic => simp at h
    | ok =>
      simp only [Option.some.injEq, Prod.mk.injEq] at h
      obtain ⟨h1, h2⟩ := h
      subst h1
      rw [key _ buf hf.1 rfl]
      exact ⟨hf.1, rfl, rfl, rfl, by simp [hf.1], fun j h1 h2 => hf.2 j h1 h2⟩
    | err e =>
      simp only [Option.some.injEq, Prod.mk.injEq] at h
      obtain ⟨h1, h2⟩ := h
      subst h1
      rw [key _ buf hf.1 rfl]
      exact ⟨hf.1, rfl, rfl, rfl, by simp [hf.1], fun j h1 h2 => hf.2 j h1 h2⟩

/-! ## non-vacuity -/
example : (({ buf := [0, 0, 0, 0], cursor := 1 } : Session).emit [7, 8]).map (·.buf) = some [0, 7, 8, 0] := by decide
example : (({ buf := [0, 0, 0], cursor := 1 } : Session).emit [1, 2, 3]).isNone = true := by decide
example : written 1 [.emit [7, 8], .goto 0, .emit [9]] 2 ∧ ¬ written 1 [.emit [7, 8], .goto 0, .emit [9]] 3 := by
  simp [written]

end DynasmVerif.C10
