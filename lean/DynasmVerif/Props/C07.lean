import DynasmVerif.Model.Machine

/-!
# C07 — committed code is exactly what was emitted, across commits and buffer growth

`Mem.commit` models `MemoryManager::commit` (both branches, with the explicit length/size checks of the slice copies),
`growCap` the doubling loop. The theorems quantify over every history of commits of every size.
-/

namespace DynasmVerif.C07
open DynasmVerif.Asm

/-- bookkeeping invariant of the memory manager -/
structure MemInv (m : Mem) : Prop where
  mapLen : m.map.length = m.cap
  lenEq : m.len = m.committed
  fits : m.committed ≤ m.cap
  pos : 0 < m.cap

theorem new_inv (addr : Nat) : MemInv (Mem.new 4096 addr) := by
  constructor <;> simp only [Mem.new, List.length_replicate] <;> omega

/-- the doubling loop: the result is a power-of-two multiple of the old capacity … -/
theorem growCap_pow (fuel cap need : Nat) : ∃ k, growCap fuel cap need = cap * 2 ^ k := by
  induction fuel generalizing cap with
  | zero => exact ⟨0, by simp [growCap]⟩
  | succ n ih =>
    simp only [growCap]
    split
    · obtain ⟨k, hk⟩ := ih (cap * 2)
      exact ⟨k + 1, by rw [hk, Nat.pow_succ, Nat.mul_assoc, Nat.mul_comm 2]⟩
    · exact ⟨0, by simp⟩

/-- … strictly larger than what is needed (given enough fuel, which `need + 1` is for any positive capacity) … -/
theorem growCap_gt (fuel cap need : Nat) (hc : 0 < cap) (hf : need + 1 ≤ cap + fuel) :
    need < growCap fuel cap need := by
  induction fuel generalizing cap with
  | zero => simp [growCap]; omega
  | succ n ih =>
    simp only [growCap]
    split
    · exact ih (cap * 2) (by omega) (by omega)
    · omega

/-- … and the least such doubling: unless no doubling was needed, half of it would not have been enough -/
theorem growCap_least (fuel cap need : Nat) :
    growCap fuel cap need = cap ∨ growCap fuel cap need / 2 ≤ need := by
  induction fuel generalizing cap with
  | zero => left; rfl
  | succ n ih =>
    simp only [growCap]
    split
    · rename_i hle
      rcases ih (cap * 2) with h | h
      · right; rw [h]; omega
      · right; exact h
    · left; rfl

/-- the closure run on a moved buffer may patch fields but must keep the length (true of `adjustManaged`, see below) -/
def LenPreserving (f : List Byte → Nat → Nat → List Byte × Bool × Bool) : Prop :=
  ∀ b o n, (f b o n).1.length = b.length

/-- `commit` never panics under the invariant (unless the closure does), re-establishes the invariant, and the visible
buffer afterwards is the old visible buffer followed by the new bytes — in place, or through the closure when it moved. -/
theorem commit_appends (m : Mem) (new : List Byte) (addr : Nat) (f : List Byte → Nat → Nat → List Byte × Bool × Bool)
    (hf : LenPreserving f) (hnp : ∀ b o n, (f b o n).2.2 = false) (h : MemInv m) :
    ∃ m' failed, m.commit new addr f = some (m', failed) ∧ MemInv m' ∧
      m'.committed = m.committed + new.length ∧
      (m'.cap = m.cap → m'.view = m.view ++ new ∧ m'.addr = m.addr ∧ failed = false) ∧
      (m'.cap ≠ m.cap → m'.view = (f (m.view ++ new) m.addr addr).1 ∧ failed = (f (m.view ++ new) m.addr addr).2.1 ∧
                         m'.addr = addr ∧ m.cap < m.committed + new.length ∧ m.committed + new.length < m'.cap) := by
  obtain ⟨hml, hle, hfit, hpos⟩ := h
  have hview : m.view.length = m.committed := by simp [Mem.view, hml, hle]; omega
  unfold Mem.commit
  by_cases h0 : new.length = 0
  · have : new = [] := List.length_eq_zero_iff.mp h0
    subst this
    refine ⟨m, false, by simp, ⟨hml, hle, hfit, hpos⟩, by simp, fun _ => by simp, fun h => absurd rfl h⟩
  · have hlt : ¬ m.committed ≥ m.committed + new.length := by omega
    simp only [hlt, if_false]
    by_cases hgrow : m.committed + new.length > m.cap
    · simp only [hgrow, if_true]
      have hc0 : ¬ m.cap = 0 := by omega
      have hl : ¬ m.len ≠ m.committed := by simp [hle]
      simp only [hc0, if_false, hl]
      have hpan := hnp (m.view ++ new) m.addr addr
      have hlen := hf (m.view ++ new) m.addr addr
      generalize hfe : f (m.view ++ new) m.addr addr = res at hpan hlen
      obtain ⟨adj, failed, panicked⟩ := res
      simp only at hpan hlen
      subst hpan
      have hgt := growCap_gt (m.committed + new.length + 1) m.cap (m.committed + new.length) hpos (by omega)
      refine ⟨_, failed, rfl, ⟨?_, rfl, ?_, ?_⟩, rfl, ?_, ?_⟩
      · simp [hlen, hview]; omega
      · simp only; omega
      · simp only; omega
      · intro hcap; simp only at hcap; omega
      · intro _
        refine ⟨?_, ?_, ?_, ?_, ?_⟩
        · simp only [Mem.view]
          exact List.take_left' (by simp [hlen, hview])
        all_goals first | rfl | exact hgrow | exact hgt | trivial
    · simp only [hgrow, if_false]
      have hin : ¬ m.committed + new.length > m.map.length := by omega
      simp only [hin, if_false]
      refine ⟨_, false, rfl, ⟨?_, rfl, ?_, hpos⟩, rfl, ?_, fun h => absurd rfl h⟩
      · simp [splice, hml]; omega
      · simp only; omega
      · intro _
        refine ⟨?_, rfl, rfl⟩
        simp only [Mem.view, splice, hle]
        exact List.take_left' (by simp [hml]; omega)


/-! ## histories of the executable assembler (label-free: what was emitted is what is committed) -/

/-- a label-free history step -/
inductive HOp
  | emit (bs : List Byte)
  | align (a f : Nat)
  | commit (newAddr : Nat)

/-- the specification, by scanning: (bytes emitted before the last commit, all bytes emitted so far) -/
def specStep (acc : List Byte × List Byte) : HOp → List Byte × List Byte
  | .emit bs => (acc.1, acc.2 ++ bs)
  | .align a f => (acc.1, acc.2 ++ List.replicate (alignPad acc.2.length a) (BitVec.ofNat 8 f))
  | .commit _ => (acc.2, acc.2)

/-- the model: the same operations on `ExecAsm` (as `stepTop` performs them) -/
def runStep (a : ExecAsm) : HOp → Option ExecAsm
  | .emit bs => some { a with ops := a.ops ++ bs }
  | .align al f => some { a with ops := a.ops ++ List.replicate (alignPad a.offset al) (BitVec.ofNat 8 f) }
  | .commit addr => (a.commit addr).map (·.1)

def run (a : ExecAsm) : List HOp → Option ExecAsm
  | [] => some a
  | o :: r => (runStep a o).bind (fun a' => run a' r)

/-- the relation maintained between model state and specification -/
structure Tracks (a : ExecAsm) (acc : List Byte × List Byte) : Prop where
  inv : MemInv a.mem
  view : a.mem.view = acc.1
  all : a.mem.view ++ a.ops = acc.2
  noRelocs : a.core.statics = [] ∧ a.core.dynamics = [] ∧ a.core.error = none
  noManaged : a.managed = []

theorem tracks_step (a : ExecAsm) (acc : List Byte × List Byte) (o : HOp) (h : Tracks a acc) :
    ∃ a', runStep a o = some a' ∧ Tracks a' (specStep acc o) ∧ a.offset ≤ a'.offset := by
  obtain ⟨hinv, hview, hall, ⟨hs, hd, he⟩, hm⟩ := h
  have hvl : a.mem.view.length = a.mem.committed := by
    simp [Mem.view, hinv.mapLen, hinv.lenEq, Nat.min_eq_left hinv.fits]
  cases o with
  | emit bs =>
    refine ⟨_, rfl, ⟨hinv, hview, ?_, ⟨hs, hd, he⟩, hm⟩, by simp [ExecAsm.offset]⟩
    simp [specStep, ← hall]
  | align al f =>
    refine ⟨_, rfl, ⟨hinv, hview, ?_, ⟨hs, hd, he⟩, hm⟩, by simp [ExecAsm.offset]⟩
    simp [specStep, ← hall, ExecAsm.offset, hvl]
  | commit addr =>
    have hf : LenPreserving (fun b oldA newA => adjustManaged ([] : List PatchLoc) b (BitVec.ofNat 64 newA - BitVec.ofNat 64 oldA)) := by
      intro b o n; simp [adjustManaged]
    obtain ⟨m', failed, hc, hinv', hcom, hsame, hmoved⟩ :=
      commit_appends a.mem a.ops addr _ hf (by intro b o n; simp [adjustManaged]) hinv
    have hfail : failed = false ∧ m'.view = a.mem.view ++ a.ops := by
      by_cases hcap : m'.cap = a.mem.cap
      · exact ⟨(hsame hcap).2.2, (hsame hcap).1⟩
      · have h1 := (hmoved hcap).1
        have h2 := (hmoved hcap).2.1
        simp [adjustManaged] at h1 h2
        exact ⟨h2, h1⟩
    have hcore : a.core = { labels := a.core.labels } := by
      cases hcc : a.core; simp_all
    refine ⟨{ a with mem := m', ops := [] }, ?_, ⟨hinv', ?_, ?_, ⟨hs, hd, he⟩, hm⟩, ?_⟩
    · simp [runStep, ExecAsm.commit, Core.encodeRelocs, he, hs, hd, patchStatics, patchDynamics, Managed.addAll, hm, hc, hfail.1]
      exact hcore.symm
    · simp [specStep, hfail.2, hall]
    · simp [specStep, hfail.2, hall]
    · simp [ExecAsm.offset, hcom]

/-- For every history: the run never panics, the executable buffer holds exactly the bytes emitted before the last
commit, buffer followed by pending bytes is everything emitted (so the reported offset is committed + pending =
number of bytes emitted), and the bookkeeping invariant holds. -/
theorem history_tracks (a : ExecAsm) (acc : List Byte × List Byte) (h : List HOp) (ht : Tracks a acc) :
    ∃ a', run a h = some a' ∧ Tracks a' (h.foldl specStep acc) ∧ a.offset ≤ a'.offset := by
  induction h generalizing a acc with
  | nil => exact ⟨a, rfl, ht, Nat.le_refl _⟩
  | cons o r ih =>
    obtain ⟨a1, h1, t1, l1⟩ := tracks_step a acc o ht
    obtain ⟨a2, h2, t2, l2⟩ := ih a1 _ t1
    exact ⟨a2, by simp [run, h1, h2], t2, Nat.le_trans l1 l2⟩

theorem fresh_tracks (addr : Nat) : Tracks (ExecAsm.new addr) ([], []) := by
  exact ⟨new_inv addr, rfl, rfl, ⟨rfl, rfl, rfl⟩, rfl⟩

/-- the reported offset is the number of bytes emitted -/
theorem offset_is_emitted (a : ExecAsm) (acc : List Byte × List Byte) (ht : Tracks a acc) : a.offset = acc.2.length := by
  have hvl : a.mem.view.length = a.mem.committed := by
    simp [Mem.view, ht.inv.mapLen, ht.inv.lenEq, Nat.min_eq_left ht.inv.fits]
  rw [← ht.all]; simp [ExecAsm.offset, hvl]

/-- `ExecutableBuffer::ptr(offset)` addresses the byte emitted at that offset: the visible buffer at index `o` is the
`o`-th emitted byte, for every committed offset -/
theorem ptr_addresses_byte (a : ExecAsm) (acc : List Byte × List Byte) (ht : Tracks a acc) (o : Nat) (ho : o < acc.1.length) :
    a.mem.view[o]? = acc.2[o]? := by
  rw [← ht.all, List.getElem?_append_left (by rw [ht.view]; exact ho)]

/-! ## non-vacuity -/
example : (run (ExecAsm.new 0x1000) [.emit [1, 2, 3], .commit 0, .align 4 0x90, .emit [7], .commit 0]).map (·.mem.view)
    = some [1, 2, 3, 0x90, 7] := by decide +kernel
example : growCap 10 4096 4096 = 8192 ∧ growCap 10 4096 4095 = 4096 ∧ growCap 20 4096 20000 = 32768 := by decide

end DynasmVerif.C07
