import Std.Tactic.BVDecide
import DynasmVerif.Model.Reloc
import DynasmVerif.Proofs.RelocLemmas

/-!
# C05 — relocation field encoding is exact, total on its range and bit-preserving

Property theorems only. `write`, `read`, `scatterWrite` are the model of the code
(`Model/Reloc.lean`, tied to `/repo` by the `reloc` correspondence stream and by
`Generated/RelocSpec.lean`); `archDecode` is the architecture-side decoder written from the manuals;
`docRange` is the documented range.
-/

namespace DynasmVerif.C05
open DynasmVerif.Reloc

/-- the documented range in bit-vector form (same bounds as `docRange`) -/
def inRangeBV (f : Fmt) (v : BitVec 64) : Bool :=
  match docRange f with
  | (lo, hi, a) => (BitVec.ofInt 64 lo).sle v && v.sle (BitVec.ofInt 64 hi) && (v &&& BitVec.ofNat 64 (a - 1)) == 0#64

macro "unfold_specs" : tactic => `(tactic|
  simp [Reloc.write, Reloc.read, scatterWrite, applyPieces, applyPiece, gatherPieces, gatherPiece, signExtendFrom, fieldMask,
      inRangeBV, docRange, inRangeCode, Fmt.spec, Fmt.size, specPlain, specA64B, specA64BCOND, specA64ADR, specA64ADRP,
      specA64TBZ, specRvB, specRvJ, specRvBC, specRvJC, specRvHI20, specRvLO12, specRvLO12S, specRvSPLIT32,
      specRvSPLIT32S, fitsSigned, archDecode, expectedDecode, decA64B, decA64BCOND, decA64ADR, decA64ADRP, decA64TBZ,
      decRvB, decRvJ, decRvBC, decRvJC, decRvU, decRvI, decRvS])

set_option maxRecDepth 100000 in
/-- the code's range test accepts exactly the documented range -/
theorem range_test_eq_documented (f : Fmt) (v : BitVec 64) :
    inRangeCode f.spec.range v = inRangeBV f v := by
  cases f <;> unfold_specs <;> bv_decide

/-- Total on its range: the patch fails with an impossible-relocation error exactly when the value is
outside the documented range or misaligned. -/
theorem write_fails_iff_out_of_range (f : Fmt) (old v : BitVec 64) :
    write f old v = none ↔ inRangeBV f v = false := by
  rw [← range_test_eq_documented]; unfold write; split <;> simp_all

set_option maxRecDepth 100000 in
/-- Exact: the architecture's own decoding of the patched word yields the value. -/
theorem write_decodes (f : Fmt) (old v w : BitVec 64) (h : write f old v = some w) :
    archDecode f w = expectedDecode f v := by
  have hr : inRangeBV f v = true := by
    rw [← range_test_eq_documented]; unfold write at h; split at h <;> simp_all
  have hw : w = scatterWrite f.spec old v := by
    unfold write at h; split at h <;> simp_all
  subst hw
  revert hr
  cases f <;> unfold_specs <;> bv_decide


set_option maxRecDepth 100000 in
/-- the `size`-byte word the format touches -/
def wordMask (f : Fmt) : BitVec 64 := BitVec.ofNat 64 (2 ^ (8 * f.size) - 1)

/-- Bit-preserving: every bit outside the format's field keeps its prior contents (for any value and any old
`size`-byte word; nothing outside the word is touched either: the result stays inside the word). -/
theorem write_preserves_other_bits (f : Fmt) (old v w : BitVec 64) (h : write f old v = some w)
    (hold : old &&& ~~~ wordMask f = 0#64) :
    w &&& ~~~ fieldMask f = old &&& ~~~ fieldMask f ∧ w &&& ~~~ wordMask f = 0#64 := by
  have hr : inRangeBV f v = true := by
    rw [← range_test_eq_documented]; unfold write at h; split at h <;> simp_all
  have hw : w = scatterWrite f.spec old v := by
    unfold write at h; split at h <;> simp_all
  subst hw
  revert hr hold
  cases f <;> simp only [wordMask] <;> unfold_specs <;> bv_decide

/-- the read-back domain in bit-vector form (same sets as `readDefined`) -/
def readDefinedBV (f : Fmt) (v : BitVec 64) : Bool :=
  inRangeBV f v &&
  match f with
  | .a64ADRP => (v &&& 0xFFF#64) == 0#64
  | .rvHI20 => false
  | .rvLO12 | .rvLO12S => (BitVec.ofInt 64 (-2048)).sle v && v.sle 2047#64
  | .rvSPLIT32 | .rvSPLIT32S => (BitVec.ofInt 64 (-0x80000000)).sle v
  | _ => true

set_option maxRecDepth 100000 in
/-- Reading a patched field back returns the value that was written, where read-back is defined. -/
theorem read_after_write (f : Fmt) (old v w : BitVec 64) (h : write f old v = some w)
    (hd : readDefinedBV f v = true) : read f w = v := by
  have hw : w = scatterWrite f.spec old v := by
    unfold write at h; split at h <;> simp_all
  subst hw
  revert hd
  cases f <;> simp only [readDefinedBV] <;> unfold_specs <;> bv_decide

/-- `adrp`: with `pc` anywhere in its page and a page-aligned target, adding the decoded immediate to the page of
`pc` gives the target (the hardware computes `(pc & ~0xFFF) + imm`; the value passed to the relocation is `target - pc`). -/
theorem adrp_page_aligned_target (old pc target w : BitVec 64)
    (hal : target &&& 0xFFF#64 = 0#64)
    (h : write .a64ADRP old (target - pc) = some w) :
    (pc &&& ~~~ 0xFFF#64) + archDecode .a64ADRP w = target := by
  rw [write_decodes _ _ _ _ h]
  simp only [expectedDecode]
  bv_decide

/-- the auipc pair as two separate relocations (`HI20` on the `auipc`, `LO12`/`LO12S` on the consumer):
upper share plus sign-extended lower share is the value (RV64 semantics; RV32 is the same modulo 2^32). -/
theorem hi20_lo12_sum (v : BitVec 64) :
    expectedDecode .rvHI20 v + expectedDecode .rvLO12 v = v ∧
    expectedDecode .rvHI20 v + expectedDecode .rvLO12S v = v := by
  simp only [expectedDecode]
  constructor <;> bv_decide

/-- `docRange` (integers, used by the executable checker on the implementation's outputs) and `inRangeBV`
(used by the theorems) are the same set -/
theorem inRangeBV_eq_inRangeDoc (f : Fmt) (v : BitVec 64) : inRangeBV f v = inRangeDoc f v := by
  rw [Bool.eq_iff_iff]
  cases f <;>
  simp [inRangeBV, inRangeDoc, docRange, RelocLemmas.intLe_iff, BitVec.sle_iff_toInt_le, RelocLemmas.and3_iff, RelocLemmas.and1_iff]

/-- likewise for the read-back domain -/
theorem readDefinedBV_eq_readDefined (f : Fmt) (v : BitVec 64) : readDefinedBV f v = readDefined f v := by
  unfold readDefinedBV readDefined
  rw [inRangeBV_eq_inRangeDoc]
  congr 1
  rw [Bool.eq_iff_iff]
  cases f <;> simp [RelocLemmas.intLe_iff, BitVec.sle_iff_toInt_le, RelocLemmas.and4095_iff]

/-- Consequently the executable checker `checkWrite`, run by the driver on whatever the implementation
returned, accepts every result of the model — for every format, old word and value. -/
theorem model_passes_checkWrite (f : Fmt) (old v : BitVec 64) (hold : old &&& ~~~ wordMask f = 0#64) :
    checkWrite f old v (write f old v) = "holds" := by
  unfold checkWrite
  rw [← inRangeBV_eq_inRangeDoc]
  cases h : write f old v with
  | none => simp [(write_fails_iff_out_of_range f old v).1 h]
  | some w =>
    have hr : inRangeBV f v = true := by
      cases hb : inRangeBV f v with
      | true => rfl
      | false => rw [(write_fails_iff_out_of_range f old v).2 hb] at h; cases h
    simp [hr, write_decodes f old v w h, (write_preserves_other_bits f old v w h hold).1]

/-! ## non-vacuity: concrete instances satisfying the hypotheses -/

example : write .rvJ 0x6F#64 (BitVec.ofInt 64 (-2)) = some 0xFFFFF06F#64 := by decide
example : inRangeBV .rvJ (BitVec.ofInt 64 (-2)) = true ∧ readDefinedBV .rvJ (BitVec.ofInt 64 (-2)) = true := by decide
example : write .rvJ 0x6F#64 3#64 = none ∧ inRangeBV .rvJ 3#64 = false := by decide
example : write .a64ADRP 0x90000000#64 0x4000#64 = some 0x90000020#64 := by decide
example : readDefinedBV .rvSPLIT32 (BitVec.ofInt 64 (-0x80000000)) = true ∧
    inRangeBV .rvSPLIT32 (BitVec.ofInt 64 (-0x80000800)) = true := by decide
example : (0x6F#64) &&& ~~~ wordMask .rvJ = 0#64 := by decide

end DynasmVerif.C05
