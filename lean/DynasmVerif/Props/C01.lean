import DynasmVerif.Model.Spec
import DynasmVerif.Proofs.Registry
import DynasmVerif.Proofs.Patch
import DynasmVerif.Props.C05

/-!
# C01 — every label reference resolves to the definition it designates

Part 1 (this section): the generation-counter registry equals the scanning specification — for every history, the label a
reference is filed under resolves, once the whole program has run, to the definition the reference *designates*:
`>name` the first definition after it, `<name` the last before it, `->name` / `=>id` the single (first) definition.
The `Core` functions are shared by `VecAssembler`, `Assembler` and `Modifier` in the model (each Rust implementation is
tied to them by the `asm` stream), so this holds for all three.
-/

namespace DynasmVerif.C01
open DynasmVerif.Asm DynasmVerif.Spec DynasmVerif.Registry

/-- `>a`: the forward reference placed after prefix `p` is filed under the label that, after the whole program
`p ++ [fwd a r] ++ q`, holds the offset of the FIRST definition of `a` in `q` (none if `q` defines no `a`). -/
theorem forward_designates_first_later (p q : List LOp) (a : Nat) (r : RefArgs) :
    let sp := lrun (({} : Core), 0) p
    let s := lrun (({} : Core), 0) (p ++ [.fwd a r] ++ q)
    s.1.labels.statics a (sp.1.labels.localVer a + 1) = (localDefs a (endOff 0 p) q).head? := by
  intro sp s
  have hp := inv_run p
  have hs := inv_run (p ++ [.fwd a r] ++ q)
  rw [hs.lab, hp.ver]
  simp [localDefs_append, localDefs, endOff_append, endOff]
  cases h : localDefs a (endOff 0 p) q <;> simp

/-- `<a`: the backward reference placed after prefix `p` (when `a` was defined before) is filed under the label that holds
the offset of the LAST definition of `a` in `p` — and later definitions never change that. -/
theorem backward_designates_last_earlier (p q : List LOp) (a : Nat) (r : RefArgs)
    (hdef : localDefs a 0 p ≠ []) :
    let sp := lrun (({} : Core), 0) p
    let s := lrun (({} : Core), 0) (p ++ [.bwd a r] ++ q)
    s.1.labels.statics a (sp.1.labels.localVer a) = (localDefs a 0 p).getLast? := by
  intro sp s
  have hp := inv_run p
  have hs := inv_run (p ++ [.bwd a r] ++ q)
  rw [hs.lab, hp.ver]
  have hlen : (localDefs a 0 p).length ≠ 0 := by
    intro h; exact hdef (List.length_eq_zero_iff.mp h)
  simp only [hlen, if_false, localDefs_append, localDefs, List.append_nil]
  rw [List.getElem?_append_left (by omega), List.getLast?_eq_getElem?]

/-- a backward reference with no earlier definition is recorded as an error, not as a reference -/
theorem backward_without_definition_is_error (p : List LOp) (a : Nat) (r : RefArgs) (hdef : localDefs a 0 p = []) :
    (lstep (lrun (({} : Core), 0) p) (.bwd a r)).1.error = some (.unknown (.loc a)) ∧
    (lstep (lrun (({} : Core), 0) p) (.bwd a r)).1.statics = (lrun (({} : Core), 0) p).1.statics := by
  have hp := inv_run p
  have : (lrun (({} : Core), 0) p).1.labels.localVer a = 0 := by rw [hp.ver, hdef]; rfl
  simp [lstep, Core.backwardReloc, this]

/-- `->a`: resolves to the first global definition of `a` wherever it lies in the program -/
theorem global_designates_definition (p : List LOp) (a : Nat) :
    (lrun (({} : Core), 0) p).1.labels.statics a 0 = (globalDefs a 0 p).head? := by
  rw [(inv_run p).lab]; simp

/-- `=>id`: resolves to the first definition of the allocated dynamic label wherever it lies -/
theorem dynamic_designates_definition (p : List LOp) (id : Nat) (h : id < dynCount p) :
    (lrun (({} : Core), 0) p).1.labels.resolveDynamic id =
      match (dynDefs id 0 0 p).head? with
      | some o => .ok o
      | none => .error (.unknown (.dyn id)) := by
  unfold Labels.resolveDynamic
  rw [(inv_run p).dyn id h]
  cases (dynDefs id 0 0 p).head? <;> rfl

/-- the reference is recorded with the offset at which it was made (`location`), in order -/
theorem forward_recorded (p : List LOp) (a : Nat) (r : RefArgs) :
    let sp := lrun (({} : Core), 0) p
    (lstep sp (.fwd a r)).1.statics = sp.1.statics ++ [(r.at (endOff 0 p), a, sp.1.labels.localVer a + 1)] := by
  intro sp
  simp [lstep, Core.forwardReloc, (inv_run p).off, sp]

/-! ## Part 2: what a successful commit leaves in the buffer -/

open DynasmVerif.Patch DynasmVerif.Reloc

/-- fields of a relocation list are pairwise disjoint -/
def FieldsDisjoint (off : Nat) : List (PatchLoc × Nat × Nat) → Prop
  | [] => True
  | e :: rest => (∀ e' ∈ rest, ∀ j, ¬ (inRange (fieldStart e.1 off) e.1.reloc.fmt.size j ∧
                                        inRange (fieldStart e'.1 off) e'.1.reloc.fmt.size j)) ∧ FieldsDisjoint off rest

theorem slice_congr (a b : List Byte) (st size : Nat) (h : ∀ j, inRange st size j → a[j]? = b[j]?) :
    slice a st size = slice b st size := by
  unfold slice
  apply List.ext_getElem?
  intro i
  simp only [List.getElem?_take, List.getElem?_drop]
  split
  · rename_i hi; exact h (st + i) ⟨by omega, by omega⟩
  · rfl

/-- After a successful static loop over pairwise disjoint fields: every listed reference's field holds
`write fmt (the field's previous word) value` with `value` computed from the resolved target, and every byte outside
all the fields is untouched. -/
theorem patchStatics_result (l : Labels) (off addr : Nat) (rs : List (PatchLoc × Nat × Nat)) (buf b : List Byte)
    (m m' : List PatchLoc) (hd : FieldsDisjoint off rs) (h : patchStatics l off addr rs buf m = (b, m', .ok)) :
    (∀ e ∈ rs, ∃ t v w, l.resolveStatic e.2.1 e.2.2 = .ok t ∧ e.1.value t addr = some v ∧
        write e.1.reloc.fmt (ofLeBytes (slice buf (fieldStart e.1 off) e.1.reloc.fmt.size)) v = some w ∧
        slice b (fieldStart e.1 off) e.1.reloc.fmt.size = leBytes e.1.reloc.fmt.size w ∧
        fieldStart e.1 off + e.1.reloc.fmt.size ≤ buf.length) ∧
    (∀ j, ¬ staticFields off rs j → b[j]? = buf[j]?) := by
  induction rs generalizing buf m with
  | nil => simp [patchStatics] at h; obtain ⟨h1, _⟩ := h; subst h1; simp [staticFields]
  | cons e rest ih =>
    obtain ⟨p, name, ver⟩ := e
    simp only [patchStatics] at h
    split at h
    · simp at h
    · rename_i t ht
      split at h
      · simp at h
      · simp at h
      · rename_i buf' hp
        obtain ⟨hl, hfit, _, hframe, v, w, hv, hw, hb⟩ := patch_ok p buf buf' off addr t hp
        obtain ⟨hdis, hdrest⟩ := hd
        obtain ⟨ih1, ih2⟩ := ih buf' _ hdrest h
        have hfr := patchStatics_frame l off addr rest buf' (if p.needsAdjustment then m ++ [p] else m)
        rw [h] at hfr
        simp only at hfr
        refine ⟨?_, ?_⟩
        · intro e he
          rcases List.mem_cons.mp he with rfl | he'
          · refine ⟨t, v, w, ht, hv, hw, ?_, hfit⟩
            -- the later patches are disjoint from this field, so it still holds what this patch wrote
            have hkeep : slice b (fieldStart p off) p.reloc.fmt.size = slice buf' (fieldStart p off) p.reloc.fmt.size := by
              apply slice_congr
              intro j hj
              apply hfr.2 j
              rintro ⟨e', he'', hr⟩
              exact hdis e' he'' j ⟨hj, hr⟩
            rw [hkeep, hb]
            unfold slice splice
            have hlen : (leBytes p.reloc.fmt.size w).length = p.reloc.fmt.size := leBytes_length _ _
            have hmin : min (fieldStart p off) buf.length = fieldStart p off := by omega
            have h1 : (List.take (fieldStart p off) buf).length = fieldStart p off := by simp [hmin]
            rw [List.append_assoc, List.drop_append_of_le_length (by omega), List.drop_eq_nil_of_le (by omega)]
            simp only [List.nil_append]
            rw [List.take_append_of_le_length (by omega), List.take_of_length_le (by omega)]
          · obtain ⟨t', v', w', h1, h2, h3, h4, h5⟩ := ih1 e he'
            refine ⟨t', v', w', h1, h2, ?_, h4, by rw [← hl]; exact h5⟩
            -- the earlier patch did not touch this field, so the word it found is the original one
            have : slice buf' (fieldStart e.1 off) e.1.reloc.fmt.size = slice buf (fieldStart e.1 off) e.1.reloc.fmt.size := by
              apply slice_congr
              intro j hj
              apply hframe j
              intro hr
              exact hdis e he' j ⟨hr, hj⟩
            rw [← this]; exact h3
        · intro j hj
          rw [ih2 j (fun ⟨e, he, hr⟩ => hj ⟨e, List.mem_cons_of_mem _ he, hr⟩)]
          exact hframe j (fun hr => hj ⟨(p, name, ver), List.mem_cons_self, hr⟩)


/-! ## Part 3: what the architecture reads in the patched field (with C05) -/

set_option maxRecDepth 100000 in
/-- little-endian bytes of a word that fits its size, read back, give the word -/
theorem ofLeBytes_leBytes (f : Fmt) (w : BitVec 64) (h : w &&& ~~~ C05.wordMask f = 0#64) :
    ofLeBytes (leBytes f.size w) = w := by
  revert h
  cases f <;>
  simp [C05.wordMask, Fmt.size, Fmt.spec, specPlain, specA64B, specA64BCOND, specA64ADR, specA64ADRP, specA64TBZ, specRvB,
    specRvJ, specRvBC, specRvJC, specRvHI20, specRvLO12, specRvLO12S, specRvSPLIT32, specRvSPLIT32S, leBytes, ofLeBytes,
    List.range, List.range.loop] <;>
  bv_decide

set_option maxRecDepth 100000 in
theorem ofLeBytes_inside (f : Fmt) (bs : List Byte) (h : bs.length = f.size) :
    ofLeBytes bs &&& ~~~ C05.wordMask f = 0#64 := by
  revert h
  cases f <;>
  simp only [C05.wordMask, Fmt.size, Fmt.spec, specPlain, specA64B, specA64BCOND, specA64ADR, specA64ADRP, specA64TBZ, specRvB,
    specRvJ, specRvBC, specRvJC, specRvHI20, specRvLO12, specRvLO12S, specRvSPLIT32, specRvSPLIT32S] <;>
  intro h <;>
  (rcases bs with _ | ⟨b0, _ | ⟨b1, _ | ⟨b2, _ | ⟨b3, _ | ⟨b4, _ | ⟨b5, _ | ⟨b6, _ | ⟨b7, _ | ⟨b8, bs⟩⟩⟩⟩⟩⟩⟩⟩⟩ <;>
    simp at h) <;>
  simp [ofLeBytes] <;>
  bv_decide

/-- **C01, per reference.** After a successful static loop over pairwise disjoint fields, for every listed reference:
the label it was filed under resolved to some target `t`, the architecture's own decoding of the field's final
contents is exactly `value(t) = t − (location − ref_offset) + target_offset` (for the relative kind; see
`PatchLoc.value` for the address-dependent kinds, and `Reloc.expectedDecode` for the page/pair formats), and the bits of
the field's bytes that do not belong to the relocation field keep what was emitted there. -/
theorem reference_decodes_to_target (l : Labels) (off addr : Nat) (rs : List (PatchLoc × Nat × Nat)) (buf b : List Byte)
    (m m' : List PatchLoc) (hd : FieldsDisjoint off rs) (h : patchStatics l off addr rs buf m = (b, m', .ok)) :
    ∀ e ∈ rs, ∃ t v, l.resolveStatic e.2.1 e.2.2 = .ok t ∧ e.1.value t addr = some v ∧
      let fieldNow := ofLeBytes (slice b (fieldStart e.1 off) e.1.reloc.fmt.size)
      let fieldBefore := ofLeBytes (slice buf (fieldStart e.1 off) e.1.reloc.fmt.size)
      archDecode e.1.reloc.fmt fieldNow = expectedDecode e.1.reloc.fmt v ∧
      fieldNow &&& ~~~ fieldMask e.1.reloc.fmt = fieldBefore &&& ~~~ fieldMask e.1.reloc.fmt := by
  intro e he
  obtain ⟨hres, _⟩ := patchStatics_result l off addr rs buf b m m' hd h
  obtain ⟨t, v, w, h1, h2, h3, h4, h5⟩ := hres e he
  refine ⟨t, v, h1, h2, ?_⟩
  have hslice : (slice buf (fieldStart e.1 off) e.1.reloc.fmt.size).length = e.1.reloc.fmt.size := by
    -- the patch succeeded, so the field was inside the buffer
    simp [slice]; omega
  have hin := ofLeBytes_inside e.1.reloc.fmt _ hslice
  obtain ⟨hp1, hp2⟩ := C05.write_preserves_other_bits _ _ _ _ h3 hin
  simp only
  rw [h4, ofLeBytes_leBytes _ _ hp2]
  exact ⟨C05.write_decodes _ _ _ _ h3, hp1⟩

/-! ## histories that continue after a failed commit (defect repaired in /repo: `fix: a failed commit dropped the references it had not resolved`)

`reference_decodes_to_target` speaks about the references that are in the registry when the patch loop runs. Before the repair the
loop iterated `Vec::drain(..)`: an early return lost the failing reference and every static reference behind it, and a later commit
succeeded with their fields unpatched (the theorem `retry_after_failed_commit_publishes_unpatched` proved that of the old model). Now the
registry after a failing loop holds exactly the references that were not patched, so a commit can only succeed (`C16.commit_ok_drains`:
nothing pending afterwards) once every reference ever recorded has gone through a successful patch step. -/

/-- **A failing commit keeps what it has not patched.** The recorded static references split into a prefix that a SUCCESSFUL loop has
patched — producing exactly the buffer the failing commit leaves, so `reference_decodes_to_target` applies to every reference of the
prefix — and the rest, which is non-empty, starts with the reference that failed, and is still registered; dynamic references are
untouched. -/
theorem failed_commit_keeps_unpatched (a : VecAsm) (b : List Byte) (m : List PatchLoc) (e : Err)
    (herr : a.core.error = none)
    (hloop : patchStatics a.core.labels 0 a.base a.core.statics a.ops [] = (b, m, .err e)) :
    a.commit.2 = .err e ∧ a.commit.1.ops = b ∧ a.commit.1.core.dynamics = a.core.dynamics ∧
    a.commit.1.core.labels = a.core.labels ∧ a.commit.1.core.statics ≠ [] ∧
    ∃ pre, a.core.statics = pre ++ a.commit.1.core.statics ∧
      patchStatics a.core.labels 0 a.base pre a.ops [] = (b, m, .ok) := by
  obtain ⟨pre, h1, h2⟩ := Patch.staticsRest_split a.core.labels 0 a.base a.core.statics a.ops []
  rw [hloop] at h2
  have hne := Patch.staticsRest_ne_nil_of_err _ _ _ _ _ _ _ _ _ hloop
  have hc : a.commit = ({ a with core := { a.core with statics := staticsRest a.core.labels 0 a.base a.core.statics a.ops }, ops := b }, .err e) := by
    simp [VecAsm.commit, Core.encodeRelocs, herr, hloop]
  rw [hc]
  exact ⟨rfl, rfl, rfl, rfl, hne, pre, h1, h2⟩

/-- **The retry.** If the rest that stayed registered can be patched once the missing label exists (labels `l'`), the next commit
succeeds, leaves nothing pending, and its buffer is the result of the successful loop over exactly those references — to which
`reference_decodes_to_target` applies. Together with `failed_commit_keeps_unpatched`: every reference recorded before the failing commit
has been patched by a successful loop step when a later commit returns `ok`. -/
theorem retry_patches_the_rest (a : VecAsm) (b b' : List Byte) (m m' : List PatchLoc) (e : Err) (l' : Labels)
    (herr : a.core.error = none) (hdyn : a.core.dynamics = [])
    (hloop : patchStatics a.core.labels 0 a.base a.core.statics a.ops [] = (b, m, .err e))
    (hretry : patchStatics l' 0 a.base a.commit.1.core.statics b [] = (b', m', .ok)) :
    let retry : VecAsm := { a.commit.1 with core := { a.commit.1.core with labels := l' } }
    retry.commit.2 = .ok ∧ retry.commit.1.ops = b' ∧ retry.commit.1.core.statics = [] := by
  have hc : a.commit = ({ a with core := { a.core with statics := staticsRest a.core.labels 0 a.base a.core.statics a.ops }, ops := b }, .err e) := by
    simp [VecAsm.commit, Core.encodeRelocs, herr, hloop]
  rw [hc] at hretry ⊢
  simp only at hretry
  simp [VecAsm.commit, Core.encodeRelocs, herr, hretry, hdyn, patchDynamics, dynamicsRest]

/-- the same for the executable-memory `Assembler`: a commit whose static loop fails publishes nothing (the mapping, its length and the
committed offset are untouched), keeps the pending bytes with the fields patched so far, and keeps the failing reference and everything
behind it registered — split as in `failed_commit_keeps_unpatched`. -/
theorem exec_failed_commit_keeps_unpatched (a : ExecAsm) (newAddr : Nat) (b : List Byte) (m : List PatchLoc) (e : Err)
    (herr : a.core.error = none)
    (hloop : patchStatics a.core.labels a.mem.committed a.mem.addr a.core.statics a.ops [] = (b, m, .err e)) :
    ∃ a', a.commit newAddr = some (a', .err e) ∧ a'.mem = a.mem ∧ a'.ops = b ∧ a'.core.dynamics = a.core.dynamics ∧
      a'.core.statics ≠ [] ∧
      ∃ pre, a.core.statics = pre ++ a'.core.statics ∧
        patchStatics a.core.labels a.mem.committed a.mem.addr pre a.ops [] = (b, m, .ok) := by
  obtain ⟨pre, h1, h2⟩ := Patch.staticsRest_split a.core.labels a.mem.committed a.mem.addr a.core.statics a.ops []
  rw [hloop] at h2
  have hne := Patch.staticsRest_ne_nil_of_err _ _ _ _ _ _ _ _ _ hloop
  refine ⟨{ a with core := { a.core with statics := staticsRest a.core.labels a.mem.committed a.mem.addr a.core.statics a.ops },
                   ops := b, managed := a.managed.addAll m }, ?_, rfl, rfl, rfl, hne, pre, h1, h2⟩
  simp [ExecAsm.commit, Core.encodeRelocs, herr, hloop]

/-- non-vacuity: `jmp >l` (a 4-byte x64 field after the opcode byte) with `l` not defined yet: the commit fails, the reference stays -/
def retryWitness : VecAsm :=
  { ops := [0xE9#8, 0#8, 0#8, 0#8, 0#8],
    core := { statics := [(⟨5, 4, 0, ⟨.p4, .relative⟩, 0⟩, 7, 1)] } }

example : retryWitness.core.error = none ∧ retryWitness.core.dynamics = [] ∧
    patchStatics retryWitness.core.labels 0 retryWitness.base retryWitness.core.statics retryWitness.ops [] =
      (retryWitness.ops, [], .err (.unknown (.loc 7))) := by
  refine ⟨rfl, rfl, ?_⟩
  simp [retryWitness, patchStatics, Labels.resolveStatic]

end DynasmVerif.C01
