import DynasmVerif.Model.Machine
import DynasmVerif.Proofs.Patch
import DynasmVerif.Props.C07
import DynasmVerif.Props.C10

/-!
# C11 — a failed commit or alter never destroys previously committed code

The model transcribes the code after the fixes `df79a3c` (a failing `alter` puts the buffer back) and the
`Modifier::encode_relocs` drain fix (no relocation of a failed session survives in the shared registry).
-/

namespace DynasmVerif.C11
open DynasmVerif.Asm DynasmVerif.Patch DynasmVerif.C07

/-- A commit that fails because of a label defect or an impossible relocation does not touch the executable
memory at all (errors are detected before the memory manager is called): buffer, length, capacity, address unchanged. -/
theorem failed_commit_keeps_memory (a a' : ExecAsm) (e : Err) (addr : Nat)
    (h : a.commit addr = some (a', .err e)) (hne : e ≠ .impossible .managed) : a'.mem = a.mem := by
  unfold ExecAsm.commit at h
  generalize hr : a.core.encodeRelocs a.ops a.mem.committed a.mem.addr = r at h
  obtain ⟨c, buf, madd, o⟩ := r
  simp only at h
  cases o with
  | ok =>
    simp only at h
    split at h
    · cases h
    · rename_i mem' failed _
      split at h
      · simp only [Option.some.injEq, Prod.mk.injEq, Out.err.injEq] at h
        exact absurd h.2.symm hne
      · simp at h
  | panic => simp at h
  | err e' =>
    simp only [Option.some.injEq, Prod.mk.injEq] at h
    rw [← h.1]

/-- A failing commit also keeps the number of pending bytes (they can be committed later) -/
theorem failed_commit_keeps_pending_length (a a' : ExecAsm) (e : Err) (addr : Nat)
    (h : a.commit addr = some (a', .err e)) (hne : e ≠ .impossible .managed) : a'.ops.length = a.ops.length := by
  unfold ExecAsm.commit at h
  have hf := encodeRelocs_frame a.core a.ops a.mem.committed a.mem.addr
  generalize hr : a.core.encodeRelocs a.ops a.mem.committed a.mem.addr = r at h hf
  obtain ⟨c, buf, madd, o⟩ := r
  simp only at h hf
  cases o with
  | ok =>
    simp only at h
    split at h
    · cases h
    · split at h
      · simp only [Option.some.injEq, Prod.mk.injEq, Out.err.injEq] at h
        exact absurd h.2.symm hne
      · simp at h
  | panic => simp at h
  | err e' =>
    simp only [Option.some.injEq, Prod.mk.injEq] at h
    rw [← h.1]; exact hf.1

/-- Whatever way an alter session ends — success or error — the buffer is back in the lock with its full length, the
bookkeeping invariant of the memory manager still holds (so the next commit cannot index out of range), and every
committed byte outside the fields of the session's own relocations is what the session left there. -/
theorem session_end_restores (a a' : ExecAsm) (s : Session) (o : Out) (hinv : MemInv a.mem)
    (hlen : s.buf.length = a.mem.len) (h : sessionEnd a s = some (a', o)) :
    MemInv a'.mem ∧ a'.mem.view.length = a.mem.view.length ∧ a'.mem.addr = a.mem.addr ∧
    ∀ j, ¬ staticFields 0 a.core.statics j → ¬ dynamicFields 0 a.core.dynamics j → a'.mem.view[j]? = s.buf[j]? := by
  obtain ⟨h1, h2, h3, h4, h5, h6⟩ := C10.session_end_frame a a' s o hlen h
  have hv : a.mem.view.length = a.mem.len := by
    simp [Mem.view, hinv.mapLen, hinv.lenEq, Nat.min_eq_left hinv.fits]
  refine ⟨⟨?_, by rw [h2, h3, hinv.lenEq], by rw [h3, h4]; exact hinv.fits, by rw [h4]; exact hinv.pos⟩, by rw [h1, hlen, hv], ?_, h6⟩
  · rw [h5, h4, hlen, hinv.mapLen]; have := hinv.fits; have := hinv.lenEq; omega
  · unfold sessionEnd at h
    split at h
    · cases h
    · generalize ({ a.core with error := s.error } : Core).encodeRelocs s.buf 0 a.mem.addr true = r at h
      obtain ⟨c, buf, madd, o'⟩ := r
      cases o' <;> simp at h <;> (rw [← h.1])

/-- No relocation recorded by a session survives it, whatever its outcome: the shared registry is empty afterwards,
so a later commit only ever patches what was emitted after the session. -/
theorem session_end_drains (a a' : ExecAsm) (s : Session) (o : Out) (h : sessionEnd a s = some (a', o)) :
    a'.core.statics = [] ∧ a'.core.dynamics = [] ∧ a'.core.error = a.core.error ∧ a'.ops = a.ops := by
  unfold sessionEnd at h
  split at h
  · cases h
  · unfold Core.encodeRelocs at h
    cases he : s.error with
    | some e => simp [he] at h; rw [← h.1]; simp
    | none =>
      simp only [he] at h
      generalize patchStatics a.core.labels 0 a.mem.addr a.core.statics s.buf [] = ps at h
      obtain ⟨b1, m1, o1⟩ := ps
      cases o1 with
      | ok =>
        simp only at h
        generalize patchDynamics a.core.labels 0 a.mem.addr a.core.dynamics b1 m1 = pd at h
        obtain ⟨b2, m2, o2⟩ := pd
        cases o2 <;> simp at h <;> (rw [← h.1]; simp)
      | err e => simp at h; rw [← h.1]; simp
      | panic => simp at h

/-! ## the assembler remains usable: no panic on later commits -/

/-- a pending relocation whose field lies inside the pending bytes (what macro-generated code produces: the placeholder
and the relocation call are emitted together) -/
def FieldInBatch (p : PatchLoc) (off len : Nat) : Prop :=
  off + p.fieldOff ≤ p.location ∧ p.location - off - p.fieldOff + p.reloc.fmt.size ≤ len ∧ p.refOff ≤ p.location

theorem patch_no_panic (p : PatchLoc) (buf : List Byte) (off addr target : Nat) (h : FieldInBatch p off buf.length) :
    ∀ r, p.patch buf off addr target = r → (∀ b, r ≠ .ok b) → r = .impossible := by
  intro r hr hno
  obtain ⟨h1, h2, h3⟩ := h
  unfold PatchLoc.patch PatchLoc.start PatchLoc.value at hr
  have : ¬ p.location < off + p.fieldOff := by omega
  have h3' : ¬ p.location < p.refOff := by omega
  simp only [this, h3', if_false] at hr
  unfold patchField at hr
  have : ¬ p.location - off - p.fieldOff + p.reloc.fmt.size > buf.length := by omega
  simp only [this, if_false] at hr
  split at hr
  · exact hr.symm
  · exact absurd hr.symm (hno _)

theorem patchStatics_no_panic (l : Labels) (off addr : Nat) (rs : List (PatchLoc × Nat × Nat)) (buf : List Byte) (m : List PatchLoc)
    (h : ∀ e ∈ rs, FieldInBatch e.1 off buf.length) :
    ∀ b m' , patchStatics l off addr rs buf m ≠ (b, m', .panic) := by
  induction rs generalizing buf m with
  | nil => intro b m'; simp [patchStatics]
  | cons e rest ih =>
    obtain ⟨p, name, ver⟩ := e
    intro b m'
    simp only [patchStatics]
    split
    · simp
    · split
      · rename_i hp
        have := patch_no_panic p buf off addr _ (h _ List.mem_cons_self) _ hp (by intro b hb; cases hb)
        cases this
      · simp
      · rename_i buf' hp
        obtain ⟨hl, _⟩ := patch_ok p buf buf' off addr _ hp
        exact ih buf' _ (fun e he => by rw [hl]; exact h e (List.mem_cons_of_mem _ he)) b m'

theorem patchDynamics_no_panic (l : Labels) (off addr : Nat) (rs : List (PatchLoc × Nat)) (buf : List Byte) (m : List PatchLoc)
    (h : ∀ e ∈ rs, FieldInBatch e.1 off buf.length) :
    ∀ b m' , patchDynamics l off addr rs buf m ≠ (b, m', .panic) := by
  induction rs generalizing buf m with
  | nil => intro b m'; simp [patchDynamics]
  | cons e rest ih =>
    obtain ⟨p, id⟩ := e
    intro b m'
    simp only [patchDynamics]
    split
    · simp
    · split
      · rename_i hp
        have := patch_no_panic p buf off addr _ (h _ List.mem_cons_self) _ hp (by intro b hb; cases hb)
        cases this
      · simp
      · rename_i buf' hp
        obtain ⟨hl, _⟩ := patch_ok p buf buf' off addr _ hp
        exact ih buf' _ (fun e he => by rw [hl]; exact h e (List.mem_cons_of_mem _ he)) b m'

/-- pending relocations are well placed -/
def PendingWF (a : ExecAsm) : Prop :=
  (∀ e ∈ a.core.statics, FieldInBatch e.1 a.mem.committed a.ops.length) ∧
  (∀ e ∈ a.core.dynamics, FieldInBatch e.1 a.mem.committed a.ops.length)

theorem patchStatics_managed (l : Labels) (off addr : Nat) (rs : List (PatchLoc × Nat × Nat)) (buf : List Byte) (m : List PatchLoc)
    (h : ∀ e ∈ rs, e.1.needsAdjustment = false) : (patchStatics l off addr rs buf m).2.1 = m := by
  induction rs generalizing buf m with
  | nil => simp [patchStatics]
  | cons e rest ih =>
    obtain ⟨p, name, ver⟩ := e
    simp only [patchStatics]
    split
    · rfl
    · split
      · rfl
      · rfl
      · have hp : p.needsAdjustment = false := h (p, name, ver) List.mem_cons_self
        rw [ih _ _ (fun e he => h e (List.mem_cons_of_mem _ he))]; simp [hp]

theorem patchDynamics_managed (l : Labels) (off addr : Nat) (rs : List (PatchLoc × Nat)) (buf : List Byte) (m : List PatchLoc)
    (h : ∀ e ∈ rs, e.1.needsAdjustment = false) : (patchDynamics l off addr rs buf m).2.1 = m := by
  induction rs generalizing buf m with
  | nil => simp [patchDynamics]
  | cons e rest ih =>
    obtain ⟨p, id⟩ := e
    simp only [patchDynamics]
    split
    · rfl
    · split
      · rfl
      · rfl
      · have hp : p.needsAdjustment = false := h (p, id) List.mem_cons_self
        rw [ih _ _ (fun e he => h e (List.mem_cons_of_mem _ he))]; simp [hp]

/-- With the bookkeeping invariant and well-placed pending relocations (and no address-dependent ones), a commit
never panics: it returns ok or a `DynasmError`. -/
theorem commit_never_panics (a : ExecAsm) (addr : Nat) (hinv : MemInv a.mem) (hwf : PendingWF a) (hm : a.managed = [])
    (hrel : (∀ e ∈ a.core.statics, e.1.needsAdjustment = false) ∧ (∀ e ∈ a.core.dynamics, e.1.needsAdjustment = false)) :
    ∃ a' o, a.commit addr = some (a', o) ∧ o ≠ .panic := by
  unfold ExecAsm.commit Core.encodeRelocs
  cases he : a.core.error with
  | some e => exact ⟨_, _, rfl, by simp⟩
  | none =>
    simp only
    have hs1 := patchStatics_no_panic a.core.labels a.mem.committed a.mem.addr a.core.statics a.ops [] hwf.1
    have hs2 := patchStatics_managed a.core.labels a.mem.committed a.mem.addr a.core.statics a.ops [] hrel.1
    have hs3 := (patchStatics_frame a.core.labels a.mem.committed a.mem.addr a.core.statics a.ops []).1
    generalize hps : patchStatics a.core.labels a.mem.committed a.mem.addr a.core.statics a.ops [] = ps at hs1 hs2 hs3
    obtain ⟨b1, m1, o1⟩ := ps
    simp only at hs2 hs3
    subst hs2
    cases o1 with
    | panic => exact absurd rfl (hs1 b1 [])
    | err e => exact ⟨_, _, rfl, by simp⟩
    | ok =>
      simp only
      have hd1 := patchDynamics_no_panic a.core.labels a.mem.committed a.mem.addr a.core.dynamics b1 []
        (fun e he => by rw [hs3]; exact hwf.2 e he)
      have hd2 := patchDynamics_managed a.core.labels a.mem.committed a.mem.addr a.core.dynamics b1 [] hrel.2
      generalize hpd : patchDynamics a.core.labels a.mem.committed a.mem.addr a.core.dynamics b1 [] = pd at hd1 hd2
      obtain ⟨b2, m2, o2⟩ := pd
      simp only at hd2
      subst hd2
      cases o2 with
      | panic => exact absurd rfl (hd1 b2 [])
      | err e => exact ⟨_, _, rfl, by simp⟩
      | ok =>
        simp only [Managed.addAll, List.foldl_nil, hm, List.map_nil]
        have hf : LenPreserving (fun b oldA newA => adjustManaged ([] : List PatchLoc) b (BitVec.ofNat 64 newA - BitVec.ofNat 64 oldA)) := by
          intro b o n; simp [adjustManaged]
        obtain ⟨m', failed, hc, _⟩ := commit_appends a.mem b2 addr _ hf (by intro b o n; simp [adjustManaged]) hinv
        rw [hc]
        simp only
        split
        · exact ⟨_, _, rfl, by simp⟩
        · exact ⟨_, _, rfl, by simp⟩

/-! ## non-vacuity: a failing session on a concrete assembler: the buffer is back and the registry is empty -/
example :
    ((({ ExecAsm.new 0x1000 with ops := [1, 2, 3, 4] } : ExecAsm).commit 0).bind fun r =>
      let a1 := r.1
      -- a session that references an undefined global label fails …
      let s : Session := { buf := a1.mem.view, cursor := 4 }
      let a2 : ExecAsm := { a1 with core := a1.core.globalReloc 9 ⟨4, 4, 0, ⟨.p4, .relative⟩, 0⟩ }
      (sessionEnd a2 s).map (fun r => (r.1.mem.view, r.1.core.statics.length, r.2 matches .err _)))
    = some ([1, 2, 3, 4], 0, true) := by
  decide +kernel

end DynasmVerif.C11
