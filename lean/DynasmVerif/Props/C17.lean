import DynasmVerif.Model.Machine

/-!
# C17 — alignment, data directives and literal pools place bytes where they promise

`alignPad`, `leBytesNat`, `Pool.*`, `poolOps` are the model (`Model/Asm.lean`, `Model/Machine.lean`), tied to the five
`align` implementations, the `push_*` helpers and `LitPool` by the `asm` correspondence stream.
-/

namespace DynasmVerif.C17
open DynasmVerif.Asm

/-- After an align request the offset is a multiple of the alignment, reached with the fewest possible padding bytes. -/
theorem align_correct (off a : Nat) (ha : 0 < a) :
    (off + alignPad off a) % a = 0 ∧ alignPad off a < a ∧ ∀ k, k < alignPad off a → (off + k) % a ≠ 0 := by
  unfold alignPad
  have hlt : off % a < a := Nat.mod_lt _ ha
  by_cases h : off % a = 0
  · simp [h, ha]
  · simp only [h, if_false]
    refine ⟨?_, by omega, ?_⟩
    · have : off + (a - off % a) = a * (off / a + 1) := by
        have := Nat.div_add_mod off a
        rw [Nat.mul_add, Nat.mul_one]; omega
      rw [this]; exact Nat.mul_mod_right _ _
    · intro k hk hz
      -- off = a*q + r with 0 < r < a and r + k < a: the remainder of off + k is r + k ≠ 0
      have hd := Nat.div_add_mod off a
      have : (off + k) % a = off % a + k := by
        conv => lhs; rw [← hd, Nat.add_assoc, Nat.mul_add_mod]
        exact Nat.mod_eq_of_lt (by omega)
      omega

/-- the padding emitted by the top-level `align` of each assembler type is exactly `alignPad` filler bytes (simple) -/
theorem simple_align_emits (ops : List Byte) (a f : Nat) (ha : 0 < a) (m : Machine) (hm : m.front = .simple ops) (hd : m.dead = false)
    (hmode : m.mode = .top) :
    (step 2 m (.align a f) 0).1.front = .simple (ops ++ List.replicate (alignPad ops.length a) (BitVec.ofNat 8 f)) := by
  have : a ≠ 0 := by omega
  simp [step, hd, hmode, stepTop, hm, this]

/-- … on the vector assembler -/
theorem vec_align_emits (v : VecAsm) (a f : Nat) (ha : 0 < a) (m : Machine) (hm : m.front = .vec v) (hd : m.dead = false)
    (hmode : m.mode = .top) :
    (step 2 m (.align a f) 0).1.front =
      .vec { v with ops := v.ops ++ List.replicate (alignPad v.ops.length a) (BitVec.ofNat 8 f) } := by
  have : a ≠ 0 := by omega
  simp [step, hd, hmode, stepTop, hm, this, VecAsm.offset]

/-- … on the executable assembler the padding is computed from committed + pending -/
theorem exec_align_emits (e : ExecAsm) (a f : Nat) (ha : 0 < a) (m : Machine) (hm : m.front = .exec e) (hd : m.dead = false)
    (hmode : m.mode = .top) :
    (step 2 m (.align a f) 0).1.front =
      .exec { e with ops := e.ops ++ List.replicate (alignPad (e.mem.committed + e.ops.length) a) (BitVec.ofNat 8 f) } := by
  have : a ≠ 0 := by omega
  simp [step, hd, hmode, stepTop, hm, this, ExecAsm.offset]

/-- emission through a modifier writes exactly the given bytes at the cursor and advances it (used for `align` and data) -/
theorem session_emit_spec (s s' : Session) (bs : List Byte) (h : s.emit bs = some s') :
    s'.cursor = s.cursor + bs.length ∧ s'.buf.length = s.buf.length ∧ (bs ≠ [] → s.cursor + bs.length ≤ s.buf.length) ∧
    (∀ i, i < bs.length → s'.buf[s.cursor + i]? = bs[i]?) ∧
    (∀ j, (j < s.cursor ∨ s.cursor + bs.length ≤ j) → s'.buf[j]? = s.buf[j]?) := by
  induction bs generalizing s with
  | nil => simp [Session.emit] at h; subst h; simp
  | cons b bs ih =>
    simp only [Session.emit] at h
    split at h
    · rename_i hlt
      obtain ⟨h1, h2, h3, h4, h5⟩ := ih _ h
      simp only [List.length_set] at h2 h3
      refine ⟨by simp [h1]; omega, h2, ?_, ?_, ?_⟩
      · intro _; cases bs with
        | nil => simp; omega
        | cons c cs => have := h3 (by simp); simp at this ⊢; omega
      · intro i hi
        cases i with
        | zero =>
          have := h5 s.cursor (Or.inl (by simp))
          simp [this, List.getElem?_set, hlt]
        | succ i =>
          have := h4 i (by simp at hi; omega)
          simp only [List.getElem?_cons_succ]
          rw [← this]; congr 1; simp; omega
      · intro j hj
        have := h5 j (by simp; simp at hj; omega)
        rw [this, List.getElem?_set]
        have : s.cursor ≠ j := by simp at hj; omega
        simp [this]
    · cases h

/-- little-endian: byte `i` of `push_uN(v)` is `v / 256^i mod 256`, and there are exactly `n` bytes -/
theorem push_le (n v i : Nat) (hi : i < n) :
    (leBytesNat n v).length = n ∧ (leBytesNat n v)[i]? = some (BitVec.ofNat 8 (v / 2 ^ (8 * i))) := by
  simp [leBytesNat, hi]

/-! ## literal pools -/

/-- absolute offset reached after emitting pool entries from absolute offset `off` -/
def emitEnd : Nat → List PoolEntry → Nat
  | off, [] => off
  | off, .val size _ :: r => emitEnd (off + size) r
  | off, .dyn size _ :: r => emitEnd (off + size) r
  | off, .glob size _ :: r => emitEnd (off + size) r
  | off, .fwd size _ :: r => emitEnd (off + size) r
  | off, .bwd size _ :: r => emitEnd (off + size) r
  | off, .align _ a :: r => emitEnd (off + alignPad off a) r

theorem emitEnd_append (off : Nat) (p q : List PoolEntry) : emitEnd off (p ++ q) = emitEnd (emitEnd off p) q := by
  induction p generalizing off with
  | nil => rfl
  | cons e p ih => cases e <;> simp [emitEnd, ih]

def entrySize : PoolEntry → Nat
  | .val s _ | .dyn s _ | .glob s _ | .fwd s _ | .bwd s _ => s
  | .align _ _ => 0

/-- the pool's own bookkeeping mirrors the emission when the start offset is a multiple of the alignment -/
theorem alignPad_shift (start o a : Nat) (hs : start % a = 0) : alignPad (start + o) a = alignPad o a := by
  unfold alignPad
  have : (start + o) % a = o % a := by
    rw [Nat.add_mod, hs, Nat.zero_add, Nat.mod_mod]
  rw [this]

/-- `Pool.align`: the pool-relative offset tracks the emission offset -/
theorem pool_align_tracks (start : Nat) (p : Pool) (size filler : Nat) (hs : start % size = 0)
    (h : emitEnd start p.entries = start + p.offset) :
    emitEnd start (p.align size filler).entries = start + (p.align size filler).offset := by
  unfold Pool.align
  split
  · exact h
  · rename_i hne
    simp only [emitEnd_append, emitEnd, h, alignPad_shift start p.offset size hs]
    simp [alignPad, hne]; omega

/-- `Pool.push` (a non-align entry of size `size`): the value lands at pool start + the returned offset, which is
naturally aligned, and the bookkeeping keeps tracking. -/
theorem pool_push_places (start : Nat) (p : Pool) (size : Nat) (e : PoolEntry) (he : entrySize e = size)
    (hne : ∀ f a, e ≠ .align f a) (hsz : 0 < size) (hs : start % size = 0)
    (h : emitEnd start p.entries = start + p.offset) :
    let (p', o) := p.push size e
    -- the entry is emitted at absolute offset start + o
    emitEnd start (p.align size 0).entries = start + o ∧
    -- naturally aligned relative to the pool start (and absolutely, since start is aligned)
    o % size = 0 ∧ (start + o) % size = 0 ∧
    -- and the invariant is re-established
    emitEnd start p'.entries = start + p'.offset := by
  have ht := pool_align_tracks start p size 0 hs h
  have hal : (p.align size 0).offset % size = 0 := by
    unfold Pool.align
    split
    · assumption
    · rename_i hne'
      simp only
      have := (C17.align_correct p.offset size hsz).1
      simpa [alignPad, hne'] using this
  simp only [Pool.push]
  refine ⟨ht, hal, ?_, ?_⟩
  · rw [Nat.add_mod, hs, hal]; simp
  · rw [emitEnd_append, ht]
    cases e <;> simp_all [emitEnd, entrySize] <;> omega

/-- the emission of a pool is the list of primitive operations `poolOps`; every value entry is emitted as its
little-endian bytes and every label entry as `size` zero bytes followed by a reference with
`field_offset = ref_offset = size` (so it resolves per C01 relative to the field start) -/
theorem poolOps_val (size v : Nat) (r : List PoolEntry) :
    poolOps (.val size v :: r) = .emit (leBytesNat size v) :: poolOps r := rfl

theorem poolOps_fwd (size n : Nat) (r : List PoolEntry) :
    ∃ f, poolOps (.fwd size n :: r) = .emit (List.replicate size 0) :: .fwd n ⟨0, size, size, ⟨f, .relative⟩⟩ :: poolOps r :=
  ⟨_, rfl⟩

/-! ## non-vacuity -/
example : alignPad 13 8 = 3 ∧ alignPad 16 8 = 0 ∧ alignPad 7 3 = 2 := by decide
example : (({} : Pool).push 1 (.val 1 0x12)).1.push 4 (.val 4 7) =
    ({ offset := 8, entries := [.val 1 0x12, .align 0 4, .val 4 7] }, 4) := by decide
example : emitEnd 16 [.val 1 0x12, .align 0 4, .val 4 7] = 16 + 8 := by decide

end DynasmVerif.C17
