import DynasmVerif.Generated.RvLi

/-!
# C15 — RISC-V load-immediate and pc-relative sequences compute the requested value

`Generated/RvLi.lean` is written on every run from today's riscv table: for each `li` variant and each auipc-pair pseudo
instruction (`la`, `call`, `tail`, `jump`, pc-relative loads/stores) the emitted words as bit-vector expressions of the
operands (template ||| fields, with the table's bit ranges and the rounding of `RBitRange`), and one theorem per
(entry, XLEN) proved by `bv_decide` over ALL immediates of the variant's range: executing the words with the reference
semantics `Model/RvExec` leaves the destination register equal to the immediate / forms exactly `pc + offset`
(`sext32 (pc + offset)` on RV32). This file restates the headline instances so that their statements are visible here;
all generated theorems are audited by name.
-/

namespace DynasmVerif.C15
open DynasmVerif.RvExec DynasmVerif.RvLi

/-- 64-bit `li` (8 instructions): every 64-bit immediate -/
theorem li64_all_immediates (rd : BitVec 5) (imm other acc0 out0 pc : BitVec 64) (h0 : rd ≠ 0#5) :
    (run true rd other ⟨acc0, out0, pc⟩ (li_1_words rd imm)).acc = imm := li_1_rv64 rd imm other acc0 out0 pc h0

/-- `la rd, offset` on RV64: pc + offset for the whole documented range -/
theorem la_rv64_pc_plus_offset (rd : BitVec 5) (imm other acc0 out0 pc : BitVec 64) (h0 : rd ≠ 0#5)
    (hr : pairLo.sle imm = true ∧ imm.sle pairHi = true) :
    (run true rd other ⟨acc0, out0, pc⟩ (la_0_words rd imm)).acc = pc + imm := la_0_rv64 rd imm other acc0 out0 pc h0 hr

/-- RV32: the low 32 bits of pc + offset, sign-extended as RV32 registers are represented -/
theorem la_rv32_pc_plus_offset (rd : BitVec 5) (imm other acc0 out0 pc : BitVec 64) (h0 : rd ≠ 0#5)
    (hr : pairLo.sle imm = true ∧ imm.sle pairHi = true) :
    (run false rd other ⟨acc0, out0, pc⟩ (la_0_words rd imm)).acc = sext32 (pc + imm) := la_0_rv32 rd imm other acc0 out0 pc h0 hr

/-- the range the theorems quantify over contains the documented one (-0x8000_0800 ..= 0x7FFF_F7FF on RV64) -/
theorem documented_pair_range_covered :
    pairLo.sle (BitVec.ofInt 64 (-0x80000800)) = true ∧ (BitVec.ofInt 64 0x7FFFF7FF).sle pairHi = true := by decide

/-- the sequence length depends only on the variant -/
theorem li64_length (rd : BitVec 5) (imm : BitVec 64) : (li_1_words rd imm).length = 8 := li_1_length rd imm

/-! ## non-vacuity -/
example : (run true 5#5 0#64 ⟨0#64, 0#64, 0x1000#64⟩ (li_1_words 5#5 0x123456789ABCDEF0#64)).acc = 0x123456789ABCDEF0#64 := by decide
example : pairLo.sle 0x800#64 = true ∧ (0x800#64).sle pairHi = true := by decide

end DynasmVerif.C15
