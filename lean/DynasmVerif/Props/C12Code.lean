import Std.Tactic.BVDecide
import DynasmVerif.Model.Asm
import DynasmVerif.Generated.PatchCode

/-!
# C12 / C01, second tie: `PatchLoc::{value, range, adjust, needs_adjustment}` as the SOURCE TEXT defines them

`Generated/PatchCode.lean` is produced on every run by `lib/patchtrans.py` from the text of `impl PatchLoc` in
`runtime/src/components.rs`, specialised per `RelocationKind`, with Rust's integer semantics (`usize`/`isize` = 64 bit; the
`…Panic` functions are the overflow checks of a debug build). The theorems show that these functions are the model's
`PatchLoc.value`, `PatchLoc.start`, the adjusted value inside `PatchLoc.adjust` and `needsAdjustment`, about which
`Props/C01.lean` and `Props/C12.lean` are stated. An edit of the Rust text changes the generated definitions.
-/

namespace DynasmVerif.C12Code
open DynasmVerif.Asm DynasmVerif.PatchCode DynasmVerif.Reloc

theorem ofNat_sub_small (a : BitVec 64) (b : BitVec 8) (h : b.toNat ≤ a.toNat) :
    BitVec.ofNat 64 (a.toNat - b.toNat) = a - b.zeroExtend 64 := by
  apply BitVec.eq_of_toNat_eq
  have hb := b.isLt
  have ha := a.isLt
  simp [BitVec.toNat_sub, BitVec.toNat_ofNat]
  omega

/-- the model's patch location built from machine words -/
def mk (fmt : Fmt) (k : RelKind) (location target_offset : BitVec 64) (field_offset ref_offset : BitVec 8) : PatchLoc :=
  ⟨location.toNat, field_offset.toNat, ref_offset.toNat, ⟨fmt, k⟩, target_offset.toInt⟩

/-- `PatchLoc::value` of the source text (wrapping arithmetic, i.e. a release build) is the model's `value` whenever the
reference point `location - ref_offset` exists -/
theorem code_value_eq_model (fmt : Fmt) (k : RelKind) (location target buf_addr target_offset : BitVec 64)
    (field_offset ref_offset : BitVec 8) (h : ref_offset.toNat ≤ location.toNat) :
    (mk fmt k location target_offset field_offset ref_offset).value target.toNat buf_addr.toNat
      = some (value k location target buf_addr target_offset ref_offset) := by
  have hn : ¬ (location.toNat < ref_offset.toNat) := by omega
  cases k <;> unfold_patch_code <;>
    simp [mk, PatchLoc.value, hn, ofNat_sub_small _ _ h, BitVec.ofNat_add]

/-- in a debug build the overflow checks of `value` include the model's "no reference point" case -/
theorem code_value_checks_cover_underflow (k : RelKind) (location target buf_addr target_offset : BitVec 64) (ref_offset : BitVec 8)
    (hk : k ≠ .absToRel)
    (h : valuePanic k location target buf_addr target_offset ref_offset = false) : ref_offset.toNat ≤ location.toNat := by
  have : (location.ult (ref_offset.zeroExtend 64)) = false := by
    revert h
    cases k <;> unfold_patch_code <;> simp_all
  simp [BitVec.ult] at this
  omega

/-- `PatchLoc::range(buf_offset).start`: the model's `none` is exactly the debug-build underflow check … -/
theorem code_start_none_iff_check (fmt : Fmt) (k : RelKind) (location buf_offset target_offset : BitVec 64) (field_offset ref_offset : BitVec 8) :
    (mk fmt k location target_offset field_offset ref_offset).start buf_offset.toNat = none ↔
      startPanic k location buf_offset field_offset = true := by
  have hf := field_offset.isLt
  have hl := location.isLt
  have hb := buf_offset.isLt
  cases k <;> unfold_patch_code <;> simp only [mk, PatchLoc.start] <;>
  (by_cases h1 : location.toNat < buf_offset.toNat + field_offset.toNat
   · simp only [h1, if_true, true_iff, Bool.or_eq_true, BitVec.ult, decide_eq_true_eq, BitVec.toNat_sub, BitVec.toNat_setWidth]
     omega
   · simp only [h1, if_false, Bool.or_eq_true, BitVec.ult, decide_eq_true_eq, BitVec.toNat_sub, BitVec.toNat_setWidth]
     constructor
     · intro h; cases h
     · omega)

/-- … and otherwise the start of the field is the model's -/
theorem code_start_eq_model (fmt : Fmt) (k : RelKind) (location buf_offset target_offset : BitVec 64) (field_offset ref_offset : BitVec 8)
    (h : startPanic k location buf_offset field_offset = false) :
    (mk fmt k location target_offset field_offset ref_offset).start buf_offset.toNat =
      some (start k location buf_offset field_offset).toNat := by
  have hf := field_offset.isLt
  have hl := location.isLt
  have hb := buf_offset.isLt
  have hn : (mk fmt k location target_offset field_offset ref_offset).start buf_offset.toNat ≠ none := by
    rw [Ne, code_start_none_iff_check, h]; simp
  revert hn
  cases k <;> unfold_patch_code <;> simp only [mk, PatchLoc.start] <;>
  (by_cases h1 : location.toNat < buf_offset.toNat + field_offset.toNat
   · simp [h1]
   · simp only [h1, if_false, BitVec.toNat_sub, BitVec.toNat_setWidth]
     intro _; congr 1; omega)

/-- the value `PatchLoc::adjust` writes back, per kind -/
theorem code_adjusted_eq_model (k : RelKind) (r d : BitVec 64) :
    adjusted k r d = match k with
      | .relative => none
      | k => some (if k == .relToAbs then r - d else r + d) := by
  cases k <;> rfl

theorem code_needs_eq_model (fmt : Fmt) (k : RelKind) (location target_offset : BitVec 64) (field_offset ref_offset : BitVec 8) :
    needs k = (mk fmt k location target_offset field_offset ref_offset).needsAdjustment := by
  cases k <;> rfl

/-- `adjust` touches a field exactly when `needs_adjustment` says so -/
theorem code_adjust_iff_needs (k : RelKind) (r d : BitVec 64) : (adjusted k r d).isSome = needs k := by
  cases k <;> rfl

/-! non-vacuity -/
example : value .relative 9#64 20#64 0#64 (BitVec.ofInt 64 (-2)) 4#8 = 13#64 := by decide
example : valuePanic .relative 9#64 20#64 0#64 (BitVec.ofInt 64 (-2)) 4#8 = false := by decide
example : startPanic .relToAbs 3#64 0#64 4#8 = true := by decide

end DynasmVerif.C12Code
