import DynasmVerif.Generated.FeatData
import DynasmVerif.Generated.RvAll
import DynasmVerif.Generated.X64All

/-!
# C20 — architecture and feature selection gate exactly the instructions they should

`Model/Features.lean` transcribes `parse_features`, the riscv gating loop and the x64 feature / mode tests;
`Generated/FeatData.lean` holds the extension-name table of today's source, `Generated/{Rv,X64}All.lean` today's tables.
-/

namespace DynasmVerif.C20
open DynasmVerif.Feat

/-! ## accept-iff (the selection loops) -/

/-- riscv: the selected form is enabled for the variant and accepts the arguments, and it is the first such form -/
theorem rvSelect_spec (xlen enabled : Nat) (accepts : Rv.Opdata → Bool) (forms : List Rv.Opdata) (e : Rv.Opdata)
    (h : rvSelect xlen enabled accepts forms = some e) :
    ∃ pre post, forms = pre ++ [e] ++ post ∧ rvEnabled xlen enabled e = true ∧ accepts e = true ∧
      ∀ a ∈ pre, (rvEnabled xlen enabled a && accepts a) = false := by
  induction forms with
  | nil => simp [rvSelect] at h
  | cons a r ih =>
    simp only [rvSelect] at h
    split at h
    · rename_i hc
      cases h
      simp only [Bool.and_eq_true] at hc
      exact ⟨[], r, by simp, hc.1, hc.2, by simp⟩
    · rename_i hc
      obtain ⟨pre, post, h1, h2, h3, h4⟩ := ih h
      refine ⟨a :: pre, post, by rw [h1]; simp, h2, h3, ?_⟩
      intro x hx
      rcases List.mem_cons.mp hx with rfl | hx'
      · simpa using hc
      · exact h4 x hx'

/-- riscv: an instruction is accepted iff some form exists for the variant whose required extension set is enabled
and whose matchers accept it -/
theorem rv_accept_iff (xlen enabled : Nat) (accepts : Rv.Opdata → Bool) (forms : List Rv.Opdata) :
    (rvSelect xlen enabled accepts forms).isSome ↔
      ∃ e ∈ forms, (e.isa &&& xlen != 0) = true ∧ (∃ f ∈ e.exts, subset f enabled = true) ∧ accepts e = true := by
  induction forms with
  | nil => simp [rvSelect]
  | cons a r ih =>
    simp only [rvSelect]
    split
    · rename_i hc
      simp only [Bool.and_eq_true, rvEnabled, List.any_eq_true] at hc
      simp only [Option.isSome_some, List.mem_cons, true_iff]
      exact ⟨a, Or.inl rfl, hc.1.1, hc.1.2, hc.2⟩
    · rename_i hc
      rw [ih]
      constructor
      · rintro ⟨e, he, h⟩; exact ⟨e, List.mem_cons_of_mem _ he, h⟩
      · rintro ⟨e, he, h1, h2, h3⟩
        rcases List.mem_cons.mp he with rfl | he'
        · exfalso; apply hc
          simp only [Bool.and_eq_true, rvEnabled, List.any_eq_true]
          exact ⟨⟨h1, h2⟩, h3⟩
        · exact ⟨e, he', h1, h2, h3⟩

theorem subset_trans {a b c : Nat} (h1 : subset a b = true) (h2 : subset b c = true) : subset a c = true := by
  simp only [subset, beq_iff_eq] at *
  apply Nat.eq_of_testBit_eq
  intro i
  have e1 := congrArg (·.testBit i) h1
  have e2 := congrArg (·.testBit i) h2
  simp only [Nat.testBit_and] at e1 e2 ⊢
  cases ha : a.testBit i <;> cases hb : b.testBit i <;> cases hc : c.testBit i <;> simp_all

/-- x64: which format is selected never depends on the feature set … -/
theorem x64_accept_iff (longMode : Bool) (enabled : Nat) (accepts : X64.Opdata → Bool) (forms : List X64.Opdata) (e : X64.Opdata) :
    x64Accept longMode enabled accepts forms = some e ↔
      x64Select longMode accepts forms = some e ∧ subset e.features enabled = true := by
  unfold x64Accept
  cases h : x64Select longMode accepts forms with
  | none => simp
  | some e' =>
    simp only [Option.some.injEq]
    constructor
    · intro h2; split at h2
      · cases h2; exact ⟨rfl, by assumption⟩
      · cases h2
    · rintro ⟨rfl, h2⟩; simp [h2]

/-- … hence enabling more features never changes the form (and so the bytes) of an x64 instruction that was accepted -/
theorem x64_more_features_same_form (longMode : Bool) (f f' : Nat) (accepts : X64.Opdata → Bool) (forms : List X64.Opdata)
    (e : X64.Opdata) (hsub : subset f f' = true) (h : x64Accept longMode f accepts forms = some e) :
    x64Accept longMode f' accepts forms = some e := by
  rw [x64_accept_iff] at h ⊢
  exact ⟨h.1, subset_trans h.2 hsub⟩

/-! ## stability of the riscv selection under more features -/

theorem rvEnabled_mono (xlen f f' : Nat) (e : Rv.Opdata) (hsub : subset f f' = true) (h : rvEnabled xlen f e = true) :
    rvEnabled xlen f' e = true := by
  simp only [rvEnabled, Bool.and_eq_true, List.any_eq_true] at *
  obtain ⟨h1, x, hx, h2⟩ := h
  exact ⟨h1, x, hx, subset_trans h2 hsub⟩

theorem rvSelect_skip (xlen f : Nat) (accepts : Rv.Opdata → Bool) (pre post : List Rv.Opdata) (e : Rv.Opdata)
    (hnone : ∀ a ∈ pre, (rvEnabled xlen f a && accepts a) = false) (hen : rvEnabled xlen f e = true) (hacc : accepts e = true) :
    rvSelect xlen f accepts (pre ++ [e] ++ post) = some e := by
  induction pre with
  | nil => simp [rvSelect, hen, hacc]
  | cons a r ih =>
    have h1 := hnone a List.mem_cons_self
    simp only [List.cons_append, rvSelect, h1]
    exact ih (fun x hx' => hnone x (List.mem_cons_of_mem _ hx'))

/-- If every earlier form that can accept the same arguments is implied by the later one (no unstable pair), then
enabling more features never changes which form is selected. `accepts` is any argument test consistent with the
matcher lists: two forms accepting the same arguments have overlapping matchers. -/
theorem rv_more_features_same_form (xlen f f' : Nat) (accepts : Rv.Opdata → Bool) (forms : List Rv.Opdata) (e : Rv.Opdata)
    (hsub : subset f f' = true)
    (hcons : ∀ a b, accepts a = true → accepts b = true → matchersOverlap a.matchers b.matchers = true)
    (hstable : ∀ pre a mid b post, forms = pre ++ [a] ++ mid ++ [b] ++ post →
        a.isa &&& b.isa != 0 → matchersOverlap a.matchers b.matchers = true → impliedBy a b = true)
    (hx : xlen = 1 ∨ xlen = 2)
    (h : rvSelect xlen f accepts forms = some e) :
    rvSelect xlen f' accepts forms = some e := by
  obtain ⟨pre, post, hf, hen, hacc, hpre⟩ := rvSelect_spec xlen f accepts forms e h
  subst hf
  -- no form before `e` is enabled-and-accepting under the larger set either
  have hnone : ∀ a ∈ pre, (rvEnabled xlen f' a && accepts a) = false := by
    intro a ha
    cases hacca : accepts a with
    | false => simp
    | true =>
      have hov := hcons a e hacca hacc
      obtain ⟨p1, p2, hp⟩ := List.append_of_mem ha
      -- if `a` were enabled under f' … it is implied by e, which is enabled under f: then `a` was enabled under f already
      cases hena' : rvEnabled xlen f' a with
      | false => simp
      | true =>
        exfalso
        have hisa : (a.isa &&& e.isa != 0) = true := by
          simp only [rvEnabled, Bool.and_eq_true] at hena' hen
          have h1 := hena'.1
          have h2 := hen.1
          rcases hx with rfl | rfl
          · simp only [bne_iff_ne, ne_eq] at *
            intro h0
            have := congrArg (·.testBit 0) h0
            simp only [Nat.testBit_and, Nat.zero_testBit] at this
            have ha0 : a.isa.testBit 0 = true := by
              cases hh : a.isa.testBit 0 with
              | true => rfl
              | false =>
                exfalso; apply h1
                apply Nat.eq_of_testBit_eq; intro i
                simp only [Nat.testBit_and, Nat.zero_testBit]
                cases i with
                | zero => simp [hh]
                | succ n => simp [Nat.testBit_succ]
            have he0 : e.isa.testBit 0 = true := by
              cases hh : e.isa.testBit 0 with
              | true => rfl
              | false =>
                exfalso; apply h2
                apply Nat.eq_of_testBit_eq; intro i
                simp only [Nat.testBit_and, Nat.zero_testBit]
                cases i with
                | zero => simp [hh]
                | succ n => simp [Nat.testBit_succ]
            simp [ha0, he0] at this
          · simp only [bne_iff_ne, ne_eq] at *
            intro h0
            have := congrArg (·.testBit 1) h0
            simp only [Nat.testBit_and, Nat.zero_testBit] at this
            have tb2 : ∀ i, (2 : Nat).testBit i = decide (i = 1) := by
              intro i
              cases i with
              | zero => decide
              | succ n => cases n with
                | zero => decide
                | succ m => simp [Nat.testBit_succ]
            have ha1 : a.isa.testBit 1 = true := by
              cases hh : a.isa.testBit 1 with
              | true => rfl
              | false =>
                exfalso; apply h1
                apply Nat.eq_of_testBit_eq; intro i
                simp only [Nat.testBit_and, Nat.zero_testBit, tb2]
                by_cases hi : i = 1
                · subst hi; simp [hh]
                · simp [hi]
            have he1 : e.isa.testBit 1 = true := by
              cases hh : e.isa.testBit 1 with
              | true => rfl
              | false =>
                exfalso; apply h2
                apply Nat.eq_of_testBit_eq; intro i
                simp only [Nat.testBit_and, Nat.zero_testBit, tb2]
                by_cases hi : i = 1
                · subst hi; simp [hh]
                · simp [hi]
            simp [ha1, he1] at this
        have himp := hstable p1 a p2 e post (by rw [hp]; simp) hisa hov
        -- e enabled under f through some fj; impliedBy gives fi ⊆ fj ⊆ f enabling a under f
        simp only [rvEnabled, Bool.and_eq_true, List.any_eq_true] at hen hena'
        obtain ⟨_, fj, hfj, hfjsub⟩ := hen
        simp only [impliedBy, List.all_eq_true, List.any_eq_true] at himp
        obtain ⟨fi, hfi, hfisub⟩ := himp fj hfj
        have : (rvEnabled xlen f a && accepts a) = true := by
          simp only [rvEnabled, Bool.and_eq_true, List.any_eq_true]
          exact ⟨⟨hena'.1, fi, hfi, subset_trans hfisub hfjsub⟩, hacca⟩
        rw [hpre a ha] at this; cases this
  -- so the scan under f' reaches `e` and takes it
  exact rvSelect_skip xlen f' accepts pre post e hnone (rvEnabled_mono xlen f f' e hsub hen) hacc

set_option maxRecDepth 100000 in
/-- On today's riscv table the mnemonics with an unstable pair are exactly the listed (documented, known) ones:
for every other mnemonic `rv_more_features_same_form` applies. -/
theorem rv_unstable_are_known : unstableGroups Rv.Gen.table = Gen.knownUnstable := by decide +kernel

set_option maxRecDepth 100000 in
/-- On today's x64 table the forms that can never be selected because an earlier form with the same operand format but
a different feature set shadows them are exactly the listed (known) ones. -/
theorem x64_shadowed_are_known : x64ShadowedGroups X64.Gen.table = Gen.knownShadowed := by decide +kernel

/-! ## spelling of riscv extension strings -/

/-- lists of identifiers: the resulting flag set is the union over the identifiers, so comma-separated vs. repeated
`.feature` arguments, order and repetition do not matter -/
theorem parse_append (tbl : List (List Nat × Nat)) (exI : Nat) (a b : List (List Nat)) :
    parseFeatures tbl exI (a ++ b) = parseFeatures tbl (parseFeatures tbl exI a) b := by
  simp [parseFeatures, List.foldl_append]

theorem lower_idem (c : Nat) : lower (lower c) = lower c := by
  unfold lower; split <;> (try split) <;> omega

/-- letter case is irrelevant: the identifier is lower-cased before anything else -/
theorem case_insensitive (tbl : List (List Nat × Nat)) (s : List Nat) :
    identFlags tbl (s.map lower) = identFlags tbl s := by
  simp [identFlags, splitIdent, List.map_map, Function.comp_def, lower_idem]

/-- upper-casing any letters does not matter either -/
def upper (c : Nat) : Nat := if 97 ≤ c ∧ c ≤ 122 then c - 32 else c

theorem lower_upper (c : Nat) : lower (upper c) = lower c := by
  unfold lower upper; split <;> split <;> (try split) <;> omega

theorem upper_case_same (tbl : List (List Nat × Nat)) (s : List Nat) :
    identFlags tbl (s.map upper) = identFlags tbl s := by
  simp [identFlags, splitIdent, List.map_map, Function.comp_def, lower_upper]

/-- the combined spelling: single letters followed by long names separated by `_` splits into exactly those names -/
def wfSingle (c : Nat) : Prop := c ≠ 122 ∧ c ≠ 95
def wfLong (n : List Nat) : Prop := ∃ r, n = 122 :: r ∧ ∀ c ∈ r, c ≠ 95

def joinLong : List (List Nat) → List Nat
  | [] => []
  | [n] => n
  | n :: r => n ++ [95] ++ joinLong r

theorem splitAux_long_body (r : List Nat) (acc : List Nat) (rest : List Nat) (h : ∀ c ∈ r, c ≠ 95) :
    splitAux (r ++ rest) (some acc) = splitAux rest (some (r.reverse ++ acc)) := by
  induction r generalizing acc with
  | nil => simp
  | cons c r ih =>
    have hc : c ≠ 95 := h c List.mem_cons_self
    simp only [List.cons_append, splitAux, hc, if_false]
    rw [ih _ (fun x hx => h x (List.mem_cons_of_mem _ hx))]
    simp

theorem splitAux_longs (ns : List (List Nat)) (h : ∀ n ∈ ns, wfLong n) : splitAux (joinLong ns) none = ns := by
  induction ns with
  | nil => simp [joinLong, splitAux]
  | cons n r ih =>
    obtain ⟨body, hn, hb⟩ := h n List.mem_cons_self
    subst hn
    cases r with
    | nil =>
      simp only [joinLong, splitAux, if_true]
      have := splitAux_long_body body [122] [] hb
      simp only [List.append_nil] at this
      rw [this]; simp [splitAux]
    | cons m r' =>
      simp only [joinLong, List.cons_append, splitAux, if_true, List.append_assoc]
      rw [splitAux_long_body body [122] _ hb]
      simp only [List.cons_append, List.nil_append, splitAux, if_true]
      rw [ih (fun x hx => h x (List.mem_cons_of_mem _ hx))]
      simp

theorem splitAux_singles (ss : List Nat) (rest : List Nat) (h : ∀ c ∈ ss, wfSingle c) :
    splitAux (ss ++ rest) none = ss.map (fun c => [c]) ++ splitAux rest none := by
  induction ss with
  | nil => simp
  | cons c r ih =>
    have hc := h c List.mem_cons_self
    simp only [List.cons_append, splitAux, hc.1, if_false, List.map_cons]
    rw [ih (fun x hx => h x (List.mem_cons_of_mem _ hx))]

/-- **combined = separate**: `"imac" ++ "zba_zbb"` splits into `i, m, a, c, zba, zbb` -/
theorem split_combined (ss : List Nat) (ns : List (List Nat)) (hs : ∀ c ∈ ss, wfSingle c) (hn : ∀ n ∈ ns, wfLong n) :
    splitAux (ss ++ joinLong ns) none = ss.map (fun c => [c]) ++ ns := by
  rw [splitAux_singles ss _ hs, splitAux_longs ns hn]

/-- the `g` and `b` shorthands enable exactly what their expansions enable (on today's name table) -/
theorem g_shorthand : identFlags Gen.extTable (str "g") = identFlags Gen.extTable (str "mafd_zicsr_zifencei") := by decide +kernel
theorem b_shorthand : identFlags Gen.extTable (str "b") = identFlags Gen.extTable (str "zba_zbb_zbs") := by decide +kernel

/-! ## non-vacuity -/
example : splitIdent (str "IMAC_Zba") = [[105], [109], [97], [99], [95], str "zba"] := by decide
example : splitIdent (str "imaczba_zbb") = [[105], [109], [97], [99], str "zba", str "zbb"] := by decide
example : parseFeatures Gen.extTable Gen.exI [str "gc"] = parseFeatures Gen.extTable Gen.exI [str "c", str "m", str "a", str "f", str "d", str "zicsr_zifencei"] := by
  decide +kernel

end DynasmVerif.C20
