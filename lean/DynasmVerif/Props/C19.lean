import DynasmVerif.Generated.A64All
import DynasmVerif.Generated.RvAll
import DynasmVerif.Generated.X64All

/-!
# C19 — instruction-table entries are internally consistent

`Generated/*All.lean` hold today's tables (dumped from the compiled working tree on every run) and the kernel-checked
facts `table_wf : ∀ e ∈ table, wellFormed e` (by `decide +kernel`, chunk by chunk). This file restates them and proves
what well-formedness buys: with pairwise disjoint fields that avoid the template's set bits, OR-ing the operand
fields into the template lets every field be read back unchanged and leaves the opcode bits alone.
-/

namespace DynasmVerif.C19

/-! ## the tables of the working tree are well formed -/

theorem a64_table_wf : ∀ e ∈ A64.Gen.table, A64.wellFormed A64.Gen.litLists e.2.2 = true := A64.Gen.table_wf
theorem rv_table_wf : ∀ e ∈ Rv.Gen.table, Rv.wellFormed e.2.2 = true := Rv.Gen.table_wf
theorem x64_table_wf : ∀ e ∈ X64.Gen.table, X64.wellFormed e.2.2 = true := X64.Gen.table_wf

/-! ## what disjointness buys (generic, any word width) -/

def orAll (vs : List Nat) : Nat := vs.foldl (· ||| ·) 0

theorem testBit_foldl_or (vs : List Nat) (a i : Nat) :
    (vs.foldl (· ||| ·) a).testBit i = (a.testBit i || vs.any (·.testBit i)) := by
  induction vs generalizing a with
  | nil => simp
  | cons v r ih => simp [List.foldl, ih, Nat.testBit_or, Bool.or_assoc]

theorem testBit_orAll (vs : List Nat) (i : Nat) : (orAll vs).testBit i = vs.any (·.testBit i) := by
  simp [orAll, testBit_foldl_or]

/-- fields: (mask, value) pairs. `Independent` = values inside their masks, masks pairwise disjoint and disjoint from
the template's set bits. -/
structure Independent (base : Nat) (fs : List (Nat × Nat)) : Prop where
  inside : ∀ f ∈ fs, f.2 &&& f.1 = f.2
  offTemplate : ∀ f ∈ fs, f.1 &&& base = 0
  disjoint : fs.Pairwise (fun f g => f.1 &&& g.1 = 0)

theorem and_eq_zero_testBit {a b : Nat} (h : a &&& b = 0) (i : Nat) : (a.testBit i && b.testBit i) = false := by
  have := congrArg (·.testBit i) h
  simpa [Nat.testBit_and] using this

theorem inside_testBit {v m : Nat} (h : v &&& m = v) (i : Nat) (hv : v.testBit i = true) : m.testBit i = true := by
  have := congrArg (·.testBit i) h
  simp only [Nat.testBit_and, hv, Bool.true_and] at this
  exact this

/-- **No operand corrupts another or the opcode.** With independent fields, the assembled word
`template ||| ⋁ values` gives back every operand's field exactly, and outside all fields it is the template. -/
theorem fields_read_back (base : Nat) (fs : List (Nat × Nat)) (h : Independent base fs) :
    (∀ f ∈ fs, (base ||| orAll (fs.map (·.2))) &&& f.1 = f.2) ∧
    (∀ i, (∀ f ∈ fs, f.1.testBit i = false) → (base ||| orAll (fs.map (·.2))).testBit i = base.testBit i) := by
  constructor
  · intro f hf
    apply Nat.eq_of_testBit_eq
    intro i
    simp only [Nat.testBit_and, Nat.testBit_or, testBit_orAll, List.any_map]
    cases hm : f.1.testBit i with
    | false =>
      -- outside the mask the value has no bit either
      cases hv : f.2.testBit i with
      | false => simp
      | true => have := inside_testBit (h.inside f hf) i hv; rw [hm] at this; cases this
    | true =>
      have hb : base.testBit i = false := by
        have := and_eq_zero_testBit (h.offTemplate f hf) i
        simpa [hm] using this
      simp only [hb, Bool.false_or, Bool.and_true]
      -- among the values only f's can have bit i
      apply Bool.eq_iff_iff.mpr
      constructor
      · intro hany
        obtain ⟨g, hg, hgi⟩ := List.any_eq_true.mp hany
        by_cases hfg : g = f
        · subst hfg; exact hgi
        · have hgm := inside_testBit (h.inside g hg) i hgi
          have hd : g.1 &&& f.1 = 0 := by
            have hp := h.disjoint
            -- pairwise gives both orders through symmetry of &&& = 0
            have := (List.pairwise_iff_getElem.mp hp)
            obtain ⟨ig, hig, rfl⟩ := List.getElem_of_mem hg
            obtain ⟨jf, hjf, rfl⟩ := List.getElem_of_mem hf
            rcases Nat.lt_trichotomy ig jf with hlt | heq | hgt
            · exact this ig jf hig hjf hlt
            · subst heq; exact absurd rfl hfg
            · have := this jf ig hjf hig hgt; rwa [Nat.and_comm] at this
          have := and_eq_zero_testBit hd i
          rw [hgm, hm] at this; cases this
      · intro hv
        exact List.any_eq_true.mpr ⟨f, hf, hv⟩
  · intro i hi
    simp only [Nat.testBit_or, testBit_orAll, List.any_map]
    have : (fs.any fun f => f.2.testBit i) = false := by
      apply Bool.eq_false_iff.mpr
      intro hany
      obtain ⟨g, hg, hgi⟩ := List.any_eq_true.mp hany
      have := inside_testBit (h.inside g hg) i hgi
      rw [hi g hg] at this; cases this
    have h2 : fs.any ((fun x => x.testBit i) ∘ fun x => x.snd) = false := this
    rw [h2, Bool.or_false]

/-! ## non-vacuity -/
example : A64.wellFormed A64.Gen.litLists ⟨0x91000000, [.X, .X, .Imm], [.R 0, .R 5, .Ubits 10 12]⟩ = true := by decide +kernel
example : A64.wellFormed A64.Gen.litLists ⟨0x91000400, [.X, .X, .Imm], [.R 0, .R 5, .Ubits 10 12]⟩ = false := by decide +kernel
example : A64.wellFormed A64.Gen.litLists ⟨0x91000000, [.X, .X, .Imm], [.R 0, .R 8, .Ubits 10 12]⟩ = false := by decide +kernel
example : Independent 0x91000000 [(0x1F, 3), (0x3E0, 0x20), (0x3FFC00, 0x1000)] := by
  refine ⟨by decide, by decide, by simp [List.pairwise_cons]⟩

end DynasmVerif.C19
