import DynasmVerif.Props.C19

/-!
# C02 — assembled instructions agree with an independent assembler

What a proof assistant can carry here without an architecture manual inside it is the REDUCTION that makes the agreement
checkable: a fixed-width instruction form places each operand through its own function into its own bit field
(`encode args = template ||| ⋁ᵢ fieldᵢ (args i)`, fields pairwise disjoint and off the template — for dynasm-rs this is C19's
`table_wf`; for the reference toolchain it is the architectural fact the theorem assumes). Then two such encoders that agree on
one base instantiation and on every instantiation that differs from the base in ONE operand agree on EVERY instantiation:
the product ∏ᵢ |domainᵢ| collapses to the sum Σᵢ |domainᵢ|, which the check sweeps against llvm-mc.
-/

namespace DynasmVerif.C02
open DynasmVerif.C19

variable {A : Type}

/-- an encoder of the fixed-field shape over `n` operand slots -/
structure Shape (A : Type) (n : Nat) where
  template : Nat
  mask : Nat → Nat
  field : Nat → A → Nat

def Shape.fields (s : Shape A n) (args : Nat → A) : List (Nat × Nat) := (List.range n).map fun i => (s.mask i, s.field i (args i))

def Shape.encode (s : Shape A n) (args : Nat → A) : Nat := s.template ||| orAll ((s.fields args).map (·.2))

/-- every field value stays inside its mask, masks avoid the template and each other -/
structure Shape.Wf (s : Shape A n) : Prop where
  inside : ∀ i, i < n → ∀ a, s.field i a &&& s.mask i = s.field i a
  offTemplate : ∀ i, i < n → s.mask i &&& s.template = 0
  disjoint : ∀ i j, i < n → j < n → i ≠ j → s.mask i &&& s.mask j = 0

theorem Shape.independent (s : Shape A n) (h : s.Wf) (args : Nat → A) : Independent s.template (s.fields args) := by
  refine ⟨?_, ?_, ?_⟩
  · intro f hf
    obtain ⟨i, hi, rfl⟩ := List.mem_map.mp hf
    exact h.inside i (List.mem_range.mp hi) _
  · intro f hf
    obtain ⟨i, hi, rfl⟩ := List.mem_map.mp hf
    exact h.offTemplate i (List.mem_range.mp hi)
  · unfold Shape.fields
    rw [List.pairwise_map]
    apply List.Pairwise.imp_of_mem (R := fun i j => i ≠ j)
    · intro i j hi hj hij
      exact h.disjoint i j (List.mem_range.mp hi) (List.mem_range.mp hj) hij
    · exact (List.nodup_range (n := n))

def update (b : Nat → A) (i : Nat) (a : A) : Nat → A := fun j => if j = i then a else b j

/-- reading slot `i`'s mask out of the encoded word gives slot `i`'s field -/
theorem Shape.read_field (s : Shape A n) (h : s.Wf) (args : Nat → A) (i : Nat) (hi : i < n) :
    s.encode args &&& s.mask i = s.field i (args i) := by
  have := (fields_read_back s.template (s.fields args) (s.independent h args)).1 (s.mask i, s.field i (args i))
    (List.mem_map.mpr ⟨i, List.mem_range.mpr hi, rfl⟩)
  exact this

/-- outside every mask the encoded word is the template -/
theorem Shape.read_template (s : Shape A n) (h : s.Wf) (args : Nat → A) (k : Nat) (hk : ∀ i, i < n → (s.mask i).testBit k = false) :
    (s.encode args).testBit k = s.template.testBit k := by
  apply (fields_read_back s.template (s.fields args) (s.independent h args)).2 k
  intro f hf
  obtain ⟨i, hi, rfl⟩ := List.mem_map.mp hf
  exact hk i (List.mem_range.mp hi)

/-- **Slot-wise agreement is agreement.** Two encoders of the fixed-field shape over the same fields that agree on a base
instantiation and on all its one-operand variations agree on every instantiation. -/
theorem agree_slotwise_imp_agree (s r : Shape A n) (hs : s.Wf) (hr : r.Wf) (hm : ∀ i, i < n → s.mask i = r.mask i)
    (b : Nat → A) (hbase : s.encode b = r.encode b)
    (hvar : ∀ i, i < n → ∀ a, s.encode (update b i a) = r.encode (update b i a)) :
    ∀ args, s.encode args = r.encode args := by
  -- the field functions coincide
  have hf : ∀ i, i < n → ∀ a, s.field i a = r.field i a := by
    intro i hi a
    have h1 := s.read_field hs (update b i a) i hi
    have h2 := r.read_field hr (update b i a) i hi
    simp only [update, if_true] at h1 h2
    rw [← h1, ← h2, hvar i hi a, hm i hi]
  -- the templates coincide
  have ht : s.template = r.template := by
    apply Nat.eq_of_testBit_eq
    intro k
    by_cases hk : ∃ i, i < n ∧ (s.mask i).testBit k = true
    · obtain ⟨i, hi, hik⟩ := hk
      have a1 := and_eq_zero_testBit (hs.offTemplate i hi) k
      have a2 := and_eq_zero_testBit (hr.offTemplate i hi) k
      rw [← hm i hi] at a2
      rw [hik] at a1 a2
      simp only [Bool.true_and] at a1 a2
      rw [a1, a2]
    · have hk' : ∀ i, i < n → (s.mask i).testBit k = false := by
        intro i hi
        cases hc : (s.mask i).testBit k with
        | false => rfl
        | true => exact absurd ⟨i, hi, hc⟩ hk
      have e1 := s.read_template hs b k hk'
      have e2 := r.read_template hr b k (fun i hi => by rw [← hm i hi]; exact hk' i hi)
      rw [← e1, ← e2, hbase]
  intro args
  unfold Shape.encode Shape.fields
  rw [ht]
  congr 2
  rw [List.map_map, List.map_map]
  apply List.map_congr_left
  intro i hi
  have hi' := List.mem_range.mp hi
  simp only [Function.comp, hf i hi' (args i)]

/-! ## non-vacuity: the shape of `add x?, x?, #imm12` -/
private def addImm : Shape Nat 3 := ⟨0x91000000, fun i => [0x1F, 0x3E0, 0x3FFC00].getD i 0, fun i a => [a % 32, (a % 32) <<< 5, (a % 4096) <<< 10].getD i 0⟩
example : addImm.encode (fun i => [3, 7, 100].getD i 0) = 0x910190E3 := by decide

end DynasmVerif.C02
