import DynasmVerif.Model.Serialize

/-!
# C18 — splitting or joining dynasm! blocks at line boundaries never changes the result

`fold` models the constant-folding loop of `serialize`. `atoms` is the exact sequence of emitted bytes and
non-constant events (labels, references, aligns, runtime-valued emissions, statements) in order.
-/

namespace DynasmVerif.C18
open DynasmVerif.Ser

theorem atoms_append (a b : List Stmt) : atoms (a ++ b) = atoms a ++ atoms b := by
  induction a with
  | nil => rfl
  | cons x r ih => cases x <;> simp [atoms, ih]

theorem atoms_flush (buf : List Nat) : atoms (flush buf) = buf.map Sum.inl := by
  unfold flush; split
  · rename_i h; simp [List.isEmpty_iff.mp h, atoms]
  · simp [atoms]

theorem drain32_atoms (fuel : Nat) (buf : List Nat) :
    atoms (drain32 fuel buf).1 ++ (drain32 fuel buf).2.map Sum.inl = buf.map Sum.inl := by
  induction fuel generalizing buf with
  | zero => simp [drain32, atoms]
  | succ n ih =>
    simp only [drain32]
    split
    · have := ih (buf.drop 32)
      simp only [atoms, List.append_assoc, this]
      rw [← List.map_append, List.take_append_drop]
    · simp [atoms]

/-- generalised to a pending buffer -/
theorem foldAux_atoms (s : List Stmt) (buf : List Nat) : atoms (foldAux s buf) = buf.map Sum.inl ++ atoms s := by
  induction s generalizing buf with
  | nil => simp [foldAux, atoms_flush, atoms]
  | cons x r ih =>
    cases x with
    | bytes bs =>
      simp only [foldAux, atoms_append, ih, atoms]
      have := drain32_atoms (buf ++ bs).length (buf ++ bs)
      rw [← List.append_assoc, this]; simp
    | ev t => simp [foldAux, atoms_append, atoms_flush, ih, atoms]

/-- **Constant folding never moves a byte across a label definition, a reference, an alignment, a runtime-valued
emission or a statement**: the folded statement list performs exactly the same sequence of byte emissions and
non-constant events, in the same order. -/
theorem fold_preserves_atoms (s : List Stmt) : atoms (fold s) = atoms s := by
  simp [fold, foldAux_atoms]

/-- **Split invariance**: folding two statement lists separately (two macro invocations cut at a line boundary) does to
the assembler exactly what folding their concatenation (one invocation) does. -/
theorem fold_split_invariant (a b : List Stmt) : atoms (fold a ++ fold b) = atoms (fold (a ++ b)) := by
  rw [atoms_append, fold_preserves_atoms, fold_preserves_atoms, fold_preserves_atoms, atoms_append]

theorem drain32_chunks (fuel : Nat) (buf : List Nat) :
    (∀ st ∈ (drain32 fuel buf).1, ∃ bs, st = .bytes bs ∧ bs.length = 32) ∧
    (buf.length ≤ 32 * (fuel + 1) → (drain32 fuel buf).2.length ≤ 32) := by
  induction fuel generalizing buf with
  | zero => simp [drain32]
  | succ n ih =>
    simp only [drain32]
    split
    · rename_i hgt
      obtain ⟨i1, i2⟩ := ih (buf.drop 32)
      refine ⟨?_, ?_⟩
      · intro st hst
        rcases List.mem_cons.mp hst with rfl | h
        · exact ⟨_, rfl, by simp; omega⟩
        · exact i1 st h
      · intro hl; apply i2; simp; omega
    · rename_i hle
      exact ⟨by simp, fun _ => by simpa using Nat.le_of_not_lt hle⟩

/-- every constant run the pass emits is non-empty and at most 32 bytes long -/
theorem fold_chunks_le_32 (s : List Stmt) (buf : List Nat) (hb : buf.length ≤ 32) :
    ∀ st ∈ foldAux s buf, ∀ bs, st = .bytes bs → 0 < bs.length ∧ bs.length ≤ 32 := by
  induction s generalizing buf with
  | nil =>
    intro st hst bs hbs
    simp only [foldAux, flush] at hst
    split at hst
    · cases hst
    · rename_i hne
      simp only [List.mem_singleton] at hst
      subst hst; cases hbs
      refine ⟨?_, hb⟩
      cases buf with
      | nil => simp at hne
      | cons _ _ => simp
  | cons x r ih =>
    cases x with
    | bytes cs =>
      intro st hst bs hbs
      simp only [foldAux, List.mem_append] at hst
      obtain ⟨d1, d2⟩ := drain32_chunks (buf ++ cs).length (buf ++ cs)
      rcases hst with h | h
      · obtain ⟨bs', h1, h2⟩ := d1 st h
        rw [hbs] at h1; cases h1; omega
      · exact ih _ (d2 (by omega)) st h bs hbs
    | ev t =>
      intro st hst bs hbs
      simp only [foldAux, List.mem_append, List.mem_singleton] at hst
      rcases hst with (h | h) | h
      · simp only [flush] at h
        split at h
        · cases h
        · rename_i hne
          simp only [List.mem_singleton] at h
          subst h; cases hbs
          refine ⟨?_, hb⟩
          cases buf with
          | nil => simp at hne
          | cons _ _ => simp
      · subst h; cases hbs
      · exact ih [] (by simp) st h bs hbs

/-! ## non-vacuity -/
example : fold [.bytes [1, 2], .bytes [3], .ev 7, .bytes [4]] = [.bytes [1, 2, 3], .ev 7, .bytes [4]] := by decide
example : (fold [.bytes (List.replicate 40 9), .ev 1]).length = 3 := by decide

end DynasmVerif.C18
