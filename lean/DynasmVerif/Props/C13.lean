import Std.Tactic.BVDecide
import DynasmVerif.Model.X64Mem
import DynasmVerif.Proofs.X64Clean
import DynasmVerif.Proofs.X64Bytes

/-!
# C13 — x86/x64 memory operands denote the effective address that was written

Two layers. (A) `clean_memoryref` over ARBITRARY item lists (any number of registers, repeated, scaled, in any order) keeps the
coefficient of every register (`Proofs/X64Clean.clean_coef`, induction). (B) From base/index/scale/displacement to
prefix/ModRM/SIB/displacement fields and back through the SDM reader: one bit-blasted statement over every register record
(family, size, number, static/dynamic), every scale, nosplit, both modes, every displacement shape and value (`bv_decide`).
`written_*` compose the two: the emitted fields decode to exactly the linear combination that was written.
Rejections need no theorem of their own: anything accepted decodes correctly, so whatever cannot be encoded must be rejected.
-/

namespace DynasmVerif.C13
open DynasmVerif.X64Mem

/-- what the reader must recover: the same coefficient for every register of every class, the same displacement, the same
address width, and the displacement field has the size the reader expects -/
def Denotes (long vsib : Bool) (e : Enc) (xb : Bool) (m : BI) (d : Disp) : Prop :=
  (∀ cls n, (decode long vsib e xb).coef cls n = m.coef cls n) ∧
  (decode long vsib e xb).disp = (if d.present then d.value else 0) ∧
  (decode long vsib e xb).width32 = m.width32 long ∧
  e.dispSize = sdmDispSize e ∧ e.hasSib = (e.rm == 4)


macro "mem_unfold" : tactic => `(tactic|
  simp only [encode, sanitize, decode, Lin.coef, BI.coef, regCoef, wellFormed, dynIndexOk, isStaticLegacy, isExtended, scaleOk, encodeScale,
    Enc.rejected, Enc.zero, rsp, rbp, r12, r13, Reg.zero, LEGACY, RIP, XMM, OTHERFAM, BI.width32, sdmDispSize] at *)


theorem legacy_coef (long nosplit other : Bool) (hb : Bool) (bf : BitVec 2) (bs : BitVec 3) (bn : BitVec 4) (bd : Bool)
    (hi : Bool) (xf : BitVec 2) (xs : BitVec 3) (xn : BitVec 4) (xd : Bool) (sc : BitVec 8)
    (dp : Bool) (dov dl : BitVec 2) (dv : BitVec 32)
    (hw : wellFormed long ⟨hb, ⟨bf, bs, bn, bd⟩, hi, ⟨xf, xs, xn, xd⟩, sc⟩ ⟨dp, dov, dl, dv⟩ = true)
    (hd : dynIndexOk long nosplit ⟨hb, ⟨bf, bs, bn, bd⟩, hi, ⟨xf, xs, xn, xd⟩, sc⟩ = true)
    (hacc : (encode long nosplit false ⟨hb, ⟨bf, bs, bn, bd⟩, hi, ⟨xf, xs, xn, xd⟩, sc⟩ ⟨dp, dov, dl, dv⟩).reject = false)
    (hrel : (encode long nosplit false ⟨hb, ⟨bf, bs, bn, bd⟩, hi, ⟨xf, xs, xn, xd⟩, sc⟩ ⟨dp, dov, dl, dv⟩).reloc = false) :
    let m : BI := ⟨hb, ⟨bf, bs, bn, bd⟩, hi, ⟨xf, xs, xn, xd⟩, sc⟩
    let d : Disp := ⟨dp, dov, dl, dv⟩
    let e := encode long nosplit false m d
    let xb := (long && (e.needRex || other))
    ∀ cls n, (decode long false e xb).coef cls n = m.coef cls n := by
  intro m d e xb cls n
  simp only [m, d, e, xb]
  mem_unfold
  bv_decide (config := { timeout := 600 })

theorem legacy_disp (long nosplit other : Bool) (hb : Bool) (bf : BitVec 2) (bs : BitVec 3) (bn : BitVec 4) (bd : Bool)
    (hi : Bool) (xf : BitVec 2) (xs : BitVec 3) (xn : BitVec 4) (xd : Bool) (sc : BitVec 8)
    (dp : Bool) (dov dl : BitVec 2) (dv : BitVec 32)
    (hw : wellFormed long ⟨hb, ⟨bf, bs, bn, bd⟩, hi, ⟨xf, xs, xn, xd⟩, sc⟩ ⟨dp, dov, dl, dv⟩ = true)
    (hd : dynIndexOk long nosplit ⟨hb, ⟨bf, bs, bn, bd⟩, hi, ⟨xf, xs, xn, xd⟩, sc⟩ = true)
    (hacc : (encode long nosplit false ⟨hb, ⟨bf, bs, bn, bd⟩, hi, ⟨xf, xs, xn, xd⟩, sc⟩ ⟨dp, dov, dl, dv⟩).reject = false)
    (hrel : (encode long nosplit false ⟨hb, ⟨bf, bs, bn, bd⟩, hi, ⟨xf, xs, xn, xd⟩, sc⟩ ⟨dp, dov, dl, dv⟩).reloc = false) :
    let m : BI := ⟨hb, ⟨bf, bs, bn, bd⟩, hi, ⟨xf, xs, xn, xd⟩, sc⟩
    let d : Disp := ⟨dp, dov, dl, dv⟩
    let e := encode long nosplit false m d
    let xb := (long && (e.needRex || other))
    (decode long false e xb).disp = (if d.present then d.value else 0) := by
  intro m d e xb
  simp only [m, d, e, xb]
  mem_unfold
  bv_decide (config := { timeout := 600 })

theorem legacy_width (long nosplit other : Bool) (hb : Bool) (bf : BitVec 2) (bs : BitVec 3) (bn : BitVec 4) (bd : Bool)
    (hi : Bool) (xf : BitVec 2) (xs : BitVec 3) (xn : BitVec 4) (xd : Bool) (sc : BitVec 8)
    (dp : Bool) (dov dl : BitVec 2) (dv : BitVec 32)
    (hw : wellFormed long ⟨hb, ⟨bf, bs, bn, bd⟩, hi, ⟨xf, xs, xn, xd⟩, sc⟩ ⟨dp, dov, dl, dv⟩ = true)
    (hd : dynIndexOk long nosplit ⟨hb, ⟨bf, bs, bn, bd⟩, hi, ⟨xf, xs, xn, xd⟩, sc⟩ = true)
    (hacc : (encode long nosplit false ⟨hb, ⟨bf, bs, bn, bd⟩, hi, ⟨xf, xs, xn, xd⟩, sc⟩ ⟨dp, dov, dl, dv⟩).reject = false)
    (hrel : (encode long nosplit false ⟨hb, ⟨bf, bs, bn, bd⟩, hi, ⟨xf, xs, xn, xd⟩, sc⟩ ⟨dp, dov, dl, dv⟩).reloc = false) :
    let m : BI := ⟨hb, ⟨bf, bs, bn, bd⟩, hi, ⟨xf, xs, xn, xd⟩, sc⟩
    let d : Disp := ⟨dp, dov, dl, dv⟩
    let e := encode long nosplit false m d
    let xb := (long && (e.needRex || other))
    (decode long false e xb).width32 = m.width32 long := by
  intro m d e xb
  simp only [m, d, e, xb]
  mem_unfold
  bv_decide (config := { timeout := 600 })

theorem legacy_dsize (long nosplit other : Bool) (hb : Bool) (bf : BitVec 2) (bs : BitVec 3) (bn : BitVec 4) (bd : Bool)
    (hi : Bool) (xf : BitVec 2) (xs : BitVec 3) (xn : BitVec 4) (xd : Bool) (sc : BitVec 8)
    (dp : Bool) (dov dl : BitVec 2) (dv : BitVec 32)
    (hw : wellFormed long ⟨hb, ⟨bf, bs, bn, bd⟩, hi, ⟨xf, xs, xn, xd⟩, sc⟩ ⟨dp, dov, dl, dv⟩ = true)
    (hd : dynIndexOk long nosplit ⟨hb, ⟨bf, bs, bn, bd⟩, hi, ⟨xf, xs, xn, xd⟩, sc⟩ = true)
    (hacc : (encode long nosplit false ⟨hb, ⟨bf, bs, bn, bd⟩, hi, ⟨xf, xs, xn, xd⟩, sc⟩ ⟨dp, dov, dl, dv⟩).reject = false)
    (hrel : (encode long nosplit false ⟨hb, ⟨bf, bs, bn, bd⟩, hi, ⟨xf, xs, xn, xd⟩, sc⟩ ⟨dp, dov, dl, dv⟩).reloc = false) :
    let m : BI := ⟨hb, ⟨bf, bs, bn, bd⟩, hi, ⟨xf, xs, xn, xd⟩, sc⟩
    let d : Disp := ⟨dp, dov, dl, dv⟩
    let e := encode long nosplit false m d
    let xb := (long && (e.needRex || other))
    e.dispSize = sdmDispSize e := by
  intro m d e xb
  simp only [m, d, e, xb]
  mem_unfold
  bv_decide (config := { timeout := 600 })

theorem legacy_sib (long nosplit other : Bool) (hb : Bool) (bf : BitVec 2) (bs : BitVec 3) (bn : BitVec 4) (bd : Bool)
    (hi : Bool) (xf : BitVec 2) (xs : BitVec 3) (xn : BitVec 4) (xd : Bool) (sc : BitVec 8)
    (dp : Bool) (dov dl : BitVec 2) (dv : BitVec 32)
    (hw : wellFormed long ⟨hb, ⟨bf, bs, bn, bd⟩, hi, ⟨xf, xs, xn, xd⟩, sc⟩ ⟨dp, dov, dl, dv⟩ = true)
    (hd : dynIndexOk long nosplit ⟨hb, ⟨bf, bs, bn, bd⟩, hi, ⟨xf, xs, xn, xd⟩, sc⟩ = true)
    (hacc : (encode long nosplit false ⟨hb, ⟨bf, bs, bn, bd⟩, hi, ⟨xf, xs, xn, xd⟩, sc⟩ ⟨dp, dov, dl, dv⟩).reject = false)
    (hrel : (encode long nosplit false ⟨hb, ⟨bf, bs, bn, bd⟩, hi, ⟨xf, xs, xn, xd⟩, sc⟩ ⟨dp, dov, dl, dv⟩).reloc = false) :
    let m : BI := ⟨hb, ⟨bf, bs, bn, bd⟩, hi, ⟨xf, xs, xn, xd⟩, sc⟩
    let d : Disp := ⟨dp, dov, dl, dv⟩
    let e := encode long nosplit false m d
    let xb := (long && (e.needRex || other))
    e.hasSib = (e.rm == 4) := by
  intro m d e xb
  simp only [m, d, e, xb]
  mem_unfold
  bv_decide (config := { timeout := 600 })

theorem vex_coef (long nosplit other : Bool) (hb : Bool) (bf : BitVec 2) (bs : BitVec 3) (bn : BitVec 4) (bd : Bool)
    (hi : Bool) (xf : BitVec 2) (xs : BitVec 3) (xn : BitVec 4) (xd : Bool) (sc : BitVec 8)
    (dp : Bool) (dov dl : BitVec 2) (dv : BitVec 32)
    (hw : wellFormed long ⟨hb, ⟨bf, bs, bn, bd⟩, hi, ⟨xf, xs, xn, xd⟩, sc⟩ ⟨dp, dov, dl, dv⟩ = true)
    (hd : dynIndexOk long nosplit ⟨hb, ⟨bf, bs, bn, bd⟩, hi, ⟨xf, xs, xn, xd⟩, sc⟩ = true)
    (hacc : (encode long nosplit false ⟨hb, ⟨bf, bs, bn, bd⟩, hi, ⟨xf, xs, xn, xd⟩, sc⟩ ⟨dp, dov, dl, dv⟩).reject = false)
    (hrel : (encode long nosplit false ⟨hb, ⟨bf, bs, bn, bd⟩, hi, ⟨xf, xs, xn, xd⟩, sc⟩ ⟨dp, dov, dl, dv⟩).reloc = false) :
    let m : BI := ⟨hb, ⟨bf, bs, bn, bd⟩, hi, ⟨xf, xs, xn, xd⟩, sc⟩
    let d : Disp := ⟨dp, dov, dl, dv⟩
    let e := encode long nosplit false m d
    let xb := long
    ∀ cls n, (decode long false e xb).coef cls n = m.coef cls n := by
  intro m d e xb cls n
  simp only [m, d, e, xb]
  mem_unfold
  bv_decide (config := { timeout := 600 })

theorem vex_disp (long nosplit other : Bool) (hb : Bool) (bf : BitVec 2) (bs : BitVec 3) (bn : BitVec 4) (bd : Bool)
    (hi : Bool) (xf : BitVec 2) (xs : BitVec 3) (xn : BitVec 4) (xd : Bool) (sc : BitVec 8)
    (dp : Bool) (dov dl : BitVec 2) (dv : BitVec 32)
    (hw : wellFormed long ⟨hb, ⟨bf, bs, bn, bd⟩, hi, ⟨xf, xs, xn, xd⟩, sc⟩ ⟨dp, dov, dl, dv⟩ = true)
    (hd : dynIndexOk long nosplit ⟨hb, ⟨bf, bs, bn, bd⟩, hi, ⟨xf, xs, xn, xd⟩, sc⟩ = true)
    (hacc : (encode long nosplit false ⟨hb, ⟨bf, bs, bn, bd⟩, hi, ⟨xf, xs, xn, xd⟩, sc⟩ ⟨dp, dov, dl, dv⟩).reject = false)
    (hrel : (encode long nosplit false ⟨hb, ⟨bf, bs, bn, bd⟩, hi, ⟨xf, xs, xn, xd⟩, sc⟩ ⟨dp, dov, dl, dv⟩).reloc = false) :
    let m : BI := ⟨hb, ⟨bf, bs, bn, bd⟩, hi, ⟨xf, xs, xn, xd⟩, sc⟩
    let d : Disp := ⟨dp, dov, dl, dv⟩
    let e := encode long nosplit false m d
    let xb := long
    (decode long false e xb).disp = (if d.present then d.value else 0) := by
  intro m d e xb
  simp only [m, d, e, xb]
  mem_unfold
  bv_decide (config := { timeout := 600 })

theorem vex_width (long nosplit other : Bool) (hb : Bool) (bf : BitVec 2) (bs : BitVec 3) (bn : BitVec 4) (bd : Bool)
    (hi : Bool) (xf : BitVec 2) (xs : BitVec 3) (xn : BitVec 4) (xd : Bool) (sc : BitVec 8)
    (dp : Bool) (dov dl : BitVec 2) (dv : BitVec 32)
    (hw : wellFormed long ⟨hb, ⟨bf, bs, bn, bd⟩, hi, ⟨xf, xs, xn, xd⟩, sc⟩ ⟨dp, dov, dl, dv⟩ = true)
    (hd : dynIndexOk long nosplit ⟨hb, ⟨bf, bs, bn, bd⟩, hi, ⟨xf, xs, xn, xd⟩, sc⟩ = true)
    (hacc : (encode long nosplit false ⟨hb, ⟨bf, bs, bn, bd⟩, hi, ⟨xf, xs, xn, xd⟩, sc⟩ ⟨dp, dov, dl, dv⟩).reject = false)
    (hrel : (encode long nosplit false ⟨hb, ⟨bf, bs, bn, bd⟩, hi, ⟨xf, xs, xn, xd⟩, sc⟩ ⟨dp, dov, dl, dv⟩).reloc = false) :
    let m : BI := ⟨hb, ⟨bf, bs, bn, bd⟩, hi, ⟨xf, xs, xn, xd⟩, sc⟩
    let d : Disp := ⟨dp, dov, dl, dv⟩
    let e := encode long nosplit false m d
    let xb := long
    (decode long false e xb).width32 = m.width32 long := by
  intro m d e xb
  simp only [m, d, e, xb]
  mem_unfold
  bv_decide (config := { timeout := 600 })

theorem vex_dsize (long nosplit other : Bool) (hb : Bool) (bf : BitVec 2) (bs : BitVec 3) (bn : BitVec 4) (bd : Bool)
    (hi : Bool) (xf : BitVec 2) (xs : BitVec 3) (xn : BitVec 4) (xd : Bool) (sc : BitVec 8)
    (dp : Bool) (dov dl : BitVec 2) (dv : BitVec 32)
    (hw : wellFormed long ⟨hb, ⟨bf, bs, bn, bd⟩, hi, ⟨xf, xs, xn, xd⟩, sc⟩ ⟨dp, dov, dl, dv⟩ = true)
    (hd : dynIndexOk long nosplit ⟨hb, ⟨bf, bs, bn, bd⟩, hi, ⟨xf, xs, xn, xd⟩, sc⟩ = true)
    (hacc : (encode long nosplit false ⟨hb, ⟨bf, bs, bn, bd⟩, hi, ⟨xf, xs, xn, xd⟩, sc⟩ ⟨dp, dov, dl, dv⟩).reject = false)
    (hrel : (encode long nosplit false ⟨hb, ⟨bf, bs, bn, bd⟩, hi, ⟨xf, xs, xn, xd⟩, sc⟩ ⟨dp, dov, dl, dv⟩).reloc = false) :
    let m : BI := ⟨hb, ⟨bf, bs, bn, bd⟩, hi, ⟨xf, xs, xn, xd⟩, sc⟩
    let d : Disp := ⟨dp, dov, dl, dv⟩
    let e := encode long nosplit false m d
    let xb := long
    e.dispSize = sdmDispSize e := by
  intro m d e xb
  simp only [m, d, e, xb]
  mem_unfold
  bv_decide (config := { timeout := 600 })

theorem vex_sib (long nosplit other : Bool) (hb : Bool) (bf : BitVec 2) (bs : BitVec 3) (bn : BitVec 4) (bd : Bool)
    (hi : Bool) (xf : BitVec 2) (xs : BitVec 3) (xn : BitVec 4) (xd : Bool) (sc : BitVec 8)
    (dp : Bool) (dov dl : BitVec 2) (dv : BitVec 32)
    (hw : wellFormed long ⟨hb, ⟨bf, bs, bn, bd⟩, hi, ⟨xf, xs, xn, xd⟩, sc⟩ ⟨dp, dov, dl, dv⟩ = true)
    (hd : dynIndexOk long nosplit ⟨hb, ⟨bf, bs, bn, bd⟩, hi, ⟨xf, xs, xn, xd⟩, sc⟩ = true)
    (hacc : (encode long nosplit false ⟨hb, ⟨bf, bs, bn, bd⟩, hi, ⟨xf, xs, xn, xd⟩, sc⟩ ⟨dp, dov, dl, dv⟩).reject = false)
    (hrel : (encode long nosplit false ⟨hb, ⟨bf, bs, bn, bd⟩, hi, ⟨xf, xs, xn, xd⟩, sc⟩ ⟨dp, dov, dl, dv⟩).reloc = false) :
    let m : BI := ⟨hb, ⟨bf, bs, bn, bd⟩, hi, ⟨xf, xs, xn, xd⟩, sc⟩
    let d : Disp := ⟨dp, dov, dl, dv⟩
    let e := encode long nosplit false m d
    let xb := long
    e.hasSib = (e.rm == 4) := by
  intro m d e xb
  simp only [m, d, e, xb]
  mem_unfold
  bv_decide (config := { timeout := 600 })

theorem vsib_coef (long nosplit other : Bool) (hb : Bool) (bf : BitVec 2) (bs : BitVec 3) (bn : BitVec 4) (bd : Bool)
    (hi : Bool) (xf : BitVec 2) (xs : BitVec 3) (xn : BitVec 4) (xd : Bool) (sc : BitVec 8)
    (dp : Bool) (dov dl : BitVec 2) (dv : BitVec 32)
    (hw : wellFormed long ⟨hb, ⟨bf, bs, bn, bd⟩, hi, ⟨xf, xs, xn, xd⟩, sc⟩ ⟨dp, dov, dl, dv⟩ = true)
    
    (hacc : (encode long nosplit true ⟨hb, ⟨bf, bs, bn, bd⟩, hi, ⟨xf, xs, xn, xd⟩, sc⟩ ⟨dp, dov, dl, dv⟩).reject = false)
    (hrel : (encode long nosplit true ⟨hb, ⟨bf, bs, bn, bd⟩, hi, ⟨xf, xs, xn, xd⟩, sc⟩ ⟨dp, dov, dl, dv⟩).reloc = false) :
    let m : BI := ⟨hb, ⟨bf, bs, bn, bd⟩, hi, ⟨xf, xs, xn, xd⟩, sc⟩
    let d : Disp := ⟨dp, dov, dl, dv⟩
    let e := encode long nosplit true m d
    let xb := long
    ∀ cls n, (decode long true e xb).coef cls n = m.coef cls n := by
  intro m d e xb cls n
  simp only [m, d, e, xb]
  mem_unfold
  bv_decide (config := { timeout := 600 })

theorem vsib_disp (long nosplit other : Bool) (hb : Bool) (bf : BitVec 2) (bs : BitVec 3) (bn : BitVec 4) (bd : Bool)
    (hi : Bool) (xf : BitVec 2) (xs : BitVec 3) (xn : BitVec 4) (xd : Bool) (sc : BitVec 8)
    (dp : Bool) (dov dl : BitVec 2) (dv : BitVec 32)
    (hw : wellFormed long ⟨hb, ⟨bf, bs, bn, bd⟩, hi, ⟨xf, xs, xn, xd⟩, sc⟩ ⟨dp, dov, dl, dv⟩ = true)
    
    (hacc : (encode long nosplit true ⟨hb, ⟨bf, bs, bn, bd⟩, hi, ⟨xf, xs, xn, xd⟩, sc⟩ ⟨dp, dov, dl, dv⟩).reject = false)
    (hrel : (encode long nosplit true ⟨hb, ⟨bf, bs, bn, bd⟩, hi, ⟨xf, xs, xn, xd⟩, sc⟩ ⟨dp, dov, dl, dv⟩).reloc = false) :
    let m : BI := ⟨hb, ⟨bf, bs, bn, bd⟩, hi, ⟨xf, xs, xn, xd⟩, sc⟩
    let d : Disp := ⟨dp, dov, dl, dv⟩
    let e := encode long nosplit true m d
    let xb := long
    (decode long true e xb).disp = (if d.present then d.value else 0) := by
  intro m d e xb
  simp only [m, d, e, xb]
  mem_unfold
  bv_decide (config := { timeout := 600 })

theorem vsib_width (long nosplit other : Bool) (hb : Bool) (bf : BitVec 2) (bs : BitVec 3) (bn : BitVec 4) (bd : Bool)
    (hi : Bool) (xf : BitVec 2) (xs : BitVec 3) (xn : BitVec 4) (xd : Bool) (sc : BitVec 8)
    (dp : Bool) (dov dl : BitVec 2) (dv : BitVec 32)
    (hw : wellFormed long ⟨hb, ⟨bf, bs, bn, bd⟩, hi, ⟨xf, xs, xn, xd⟩, sc⟩ ⟨dp, dov, dl, dv⟩ = true)
    
    (hacc : (encode long nosplit true ⟨hb, ⟨bf, bs, bn, bd⟩, hi, ⟨xf, xs, xn, xd⟩, sc⟩ ⟨dp, dov, dl, dv⟩).reject = false)
    (hrel : (encode long nosplit true ⟨hb, ⟨bf, bs, bn, bd⟩, hi, ⟨xf, xs, xn, xd⟩, sc⟩ ⟨dp, dov, dl, dv⟩).reloc = false) :
    let m : BI := ⟨hb, ⟨bf, bs, bn, bd⟩, hi, ⟨xf, xs, xn, xd⟩, sc⟩
    let d : Disp := ⟨dp, dov, dl, dv⟩
    let e := encode long nosplit true m d
    let xb := long
    (decode long true e xb).width32 = m.width32 long := by
  intro m d e xb
  simp only [m, d, e, xb]
  mem_unfold
  bv_decide (config := { timeout := 600 })

theorem vsib_dsize (long nosplit other : Bool) (hb : Bool) (bf : BitVec 2) (bs : BitVec 3) (bn : BitVec 4) (bd : Bool)
    (hi : Bool) (xf : BitVec 2) (xs : BitVec 3) (xn : BitVec 4) (xd : Bool) (sc : BitVec 8)
    (dp : Bool) (dov dl : BitVec 2) (dv : BitVec 32)
    (hw : wellFormed long ⟨hb, ⟨bf, bs, bn, bd⟩, hi, ⟨xf, xs, xn, xd⟩, sc⟩ ⟨dp, dov, dl, dv⟩ = true)
    
    (hacc : (encode long nosplit true ⟨hb, ⟨bf, bs, bn, bd⟩, hi, ⟨xf, xs, xn, xd⟩, sc⟩ ⟨dp, dov, dl, dv⟩).reject = false)
    (hrel : (encode long nosplit true ⟨hb, ⟨bf, bs, bn, bd⟩, hi, ⟨xf, xs, xn, xd⟩, sc⟩ ⟨dp, dov, dl, dv⟩).reloc = false) :
    let m : BI := ⟨hb, ⟨bf, bs, bn, bd⟩, hi, ⟨xf, xs, xn, xd⟩, sc⟩
    let d : Disp := ⟨dp, dov, dl, dv⟩
    let e := encode long nosplit true m d
    let xb := long
    e.dispSize = sdmDispSize e := by
  intro m d e xb
  simp only [m, d, e, xb]
  mem_unfold
  bv_decide (config := { timeout := 600 })

theorem vsib_sib (long nosplit other : Bool) (hb : Bool) (bf : BitVec 2) (bs : BitVec 3) (bn : BitVec 4) (bd : Bool)
    (hi : Bool) (xf : BitVec 2) (xs : BitVec 3) (xn : BitVec 4) (xd : Bool) (sc : BitVec 8)
    (dp : Bool) (dov dl : BitVec 2) (dv : BitVec 32)
    (hw : wellFormed long ⟨hb, ⟨bf, bs, bn, bd⟩, hi, ⟨xf, xs, xn, xd⟩, sc⟩ ⟨dp, dov, dl, dv⟩ = true)
    
    (hacc : (encode long nosplit true ⟨hb, ⟨bf, bs, bn, bd⟩, hi, ⟨xf, xs, xn, xd⟩, sc⟩ ⟨dp, dov, dl, dv⟩).reject = false)
    (hrel : (encode long nosplit true ⟨hb, ⟨bf, bs, bn, bd⟩, hi, ⟨xf, xs, xn, xd⟩, sc⟩ ⟨dp, dov, dl, dv⟩).reloc = false) :
    let m : BI := ⟨hb, ⟨bf, bs, bn, bd⟩, hi, ⟨xf, xs, xn, xd⟩, sc⟩
    let d : Disp := ⟨dp, dov, dl, dv⟩
    let e := encode long nosplit true m d
    let xb := long
    e.hasSib = (e.rm == 4) := by
  intro m d e xb
  simp only [m, d, e, xb]
  mem_unfold
  bv_decide (config := { timeout := 600 })

/-- legacy / REX encoded instructions: whatever else asks for a REX prefix (`other`), every accepted operand decodes to what was written -/
theorem legacy_operand_decodes (long nosplit other : Bool) (m : BI) (d : Disp)
    (hw : wellFormed long m d = true) (hd : dynIndexOk long nosplit m = true)
    (hacc : (encode long nosplit false m d).reject = false) (hrel : (encode long nosplit false m d).reloc = false) :
    Denotes long false (encode long nosplit false m d) (long && ((encode long nosplit false m d).needRex || other)) m d := by
  obtain ⟨hb, ⟨bf, bs, bn, bd⟩, hi, ⟨xf, xs, xn, xd⟩, sc⟩ := m
  obtain ⟨dp, dov, dl, dv⟩ := d
  exact ⟨legacy_coef long nosplit other hb bf bs bn bd hi xf xs xn xd sc dp dov dl dv hw hd hacc hrel,
         legacy_disp long nosplit other hb bf bs bn bd hi xf xs xn xd sc dp dov dl dv hw hd hacc hrel,
         legacy_width long nosplit other hb bf bs bn bd hi xf xs xn xd sc dp dov dl dv hw hd hacc hrel,
         legacy_dsize long nosplit other hb bf bs bn bd hi xf xs xn xd sc dp dov dl dv hw hd hacc hrel,
         legacy_sib long nosplit other hb bf bs bn bd hi xf xs xn xd sc dp dov dl dv hw hd hacc hrel⟩

/-- VEX encoded instructions with an ordinary memory operand (X and B always travel in the prefix in long mode) -/
theorem vex_operand_decodes (long nosplit : Bool) (m : BI) (d : Disp)
    (hw : wellFormed long m d = true) (hd : dynIndexOk long nosplit m = true)
    (hacc : (encode long nosplit false m d).reject = false) (hrel : (encode long nosplit false m d).reloc = false) :
    Denotes long false (encode long nosplit false m d) long m d := by
  obtain ⟨hb, ⟨bf, bs, bn, bd⟩, hi, ⟨xf, xs, xn, xd⟩, sc⟩ := m
  obtain ⟨dp, dov, dl, dv⟩ := d
  exact ⟨vex_coef long nosplit false hb bf bs bn bd hi xf xs xn xd sc dp dov dl dv hw hd hacc hrel,
         vex_disp long nosplit false hb bf bs bn bd hi xf xs xn xd sc dp dov dl dv hw hd hacc hrel,
         vex_width long nosplit false hb bf bs bn bd hi xf xs xn xd sc dp dov dl dv hw hd hacc hrel,
         vex_dsize long nosplit false hb bf bs bn bd hi xf xs xn xd sc dp dov dl dv hw hd hacc hrel,
         vex_sib long nosplit false hb bf bs bn bd hi xf xs xn xd sc dp dov dl dv hw hd hacc hrel⟩

/-- VSIB (gather) operands: vector index, optional general purpose base -/
theorem vsib_operand_decodes (long nosplit : Bool) (m : BI) (d : Disp)
    (hw : wellFormed long m d = true)
    (hacc : (encode long nosplit true m d).reject = false) (hrel : (encode long nosplit true m d).reloc = false) :
    Denotes long true (encode long nosplit true m d) long m d := by
  obtain ⟨hb, ⟨bf, bs, bn, bd⟩, hi, ⟨xf, xs, xn, xd⟩, sc⟩ := m
  obtain ⟨dp, dov, dl, dv⟩ := d
  exact ⟨vsib_coef long nosplit false hb bf bs bn bd hi xf xs xn xd sc dp dov dl dv hw hacc hrel,
         vsib_disp long nosplit false hb bf bs bn bd hi xf xs xn xd sc dp dov dl dv hw hacc hrel,
         vsib_width long nosplit false hb bf bs bn bd hi xf xs xn xd sc dp dov dl dv hw hacc hrel,
         vsib_dsize long nosplit false hb bf bs bn bd hi xf xs xn xd sc dp dov dl dv hw hacc hrel,
         vsib_sib long nosplit false hb bf bs bn bd hi xf xs xn xd sc dp dov dl dv hw hacc hrel⟩

/-- from the items as written (layer A) to the decoded operand (layer B), legacy / REX encoded instructions -/
theorem written_operand_decodes_legacy (long nosplit other : Bool) (it : Items) (d : Disp)
    (r : Option Reg × Option (Reg × Int)) (m : BI) (hc : clean nosplit it = some r) (hm : toBI r = some m)
    (hw : wellFormed long m d = true) (hd : dynIndexOk long nosplit m = true)
    (hacc : (encode long nosplit false m d).reject = false) (hrel : (encode long nosplit false m d).reloc = false) (cls : BitVec 2) (n : BitVec 4) :
    (((decode long false (encode long nosplit false m d) (long && ((encode long nosplit false m d).needRex || other))).coef cls n).toNat : Int)
      = coefL (it.scaled ++ unit it.regs) cls n := by
  obtain ⟨b, i⟩ := r
  rw [(legacy_operand_decodes long nosplit other m d hw hd hacc hrel).1 cls n, toBI_coef b i m hm cls n, clean_coef nosplit it b i hc cls n]

theorem written_operand_decodes_vex (long nosplit : Bool) (it : Items) (d : Disp)
    (r : Option Reg × Option (Reg × Int)) (m : BI) (hc : clean nosplit it = some r) (hm : toBI r = some m)
    (hw : wellFormed long m d = true) (hd : dynIndexOk long nosplit m = true)
    (hacc : (encode long nosplit false m d).reject = false) (hrel : (encode long nosplit false m d).reloc = false) (cls : BitVec 2) (n : BitVec 4) :
    (((decode long false (encode long nosplit false m d) long).coef cls n).toNat : Int) = coefL (it.scaled ++ unit it.regs) cls n := by
  obtain ⟨b, i⟩ := r
  rw [(vex_operand_decodes long nosplit m d hw hd hacc hrel).1 cls n, toBI_coef b i m hm cls n, clean_coef nosplit it b i hc cls n]

theorem written_operand_decodes_vsib (long nosplit : Bool) (it : Items) (d : Disp)
    (r : Option Reg × Option (Reg × Int)) (m : BI) (hc : clean nosplit it = some r) (hm : toBI r = some m)
    (hw : wellFormed long m d = true)
    (hacc : (encode long nosplit true m d).reject = false) (hrel : (encode long nosplit true m d).reloc = false) (cls : BitVec 2) (n : BitVec 4) :
    (((decode long true (encode long nosplit true m d) long).coef cls n).toNat : Int) = coefL (it.scaled ++ unit it.regs) cls n := by
  obtain ⟨b, i⟩ := r
  rw [(vsib_operand_decodes long nosplit m d hw hacc hrel).1 cls n, toBI_coef b i m hm cls n, clean_coef nosplit it b i hc cls n]

/-! ## down to bytes: prefixes, ModRM, SIB and displacement are read back from the byte string alone -/

/-- mod = 3 (a register, not a memory operand) is never produced -/
theorem encode_md_ne_3 (long nosplit vs : Bool) (hb : Bool) (bf : BitVec 2) (bs : BitVec 3) (bn : BitVec 4) (bd : Bool)
    (hi : Bool) (xf : BitVec 2) (xs : BitVec 3) (xn : BitVec 4) (xd : Bool) (sc : BitVec 8)
    (dp : Bool) (dov dl : BitVec 2) (dv : BitVec 32) :
    (encode long nosplit vs ⟨hb, ⟨bf, bs, bn, bd⟩, hi, ⟨xf, xs, xn, xd⟩, sc⟩ ⟨dp, dov, dl, dv⟩).md ≠ 3#2 := by
  mem_unfold
  bv_decide (config := { timeout := 600 })

/-- **the emitted bytes, parsed the way the SDM parses an instruction** (optional 67, REX or C5/C4 VEX prefix, the opcode bytes, ModRM,
SIB when rm = 4, displacement of the size mod/rm/base prescribe), give back exactly the fields the operand theorems above are stated
about — X and B only where a prefix carries them, W, vvvv, L, pp and the opcode map of a VEX prefix, the 2-byte VEX form only when it
loses nothing. Holds for every carrier instruction whose first opcode byte cannot be mistaken for a prefix. -/
theorem operand_bytes_parse (long nosplit vs : Bool) (c : Carrier) (m : BI) (d : Disp) (xb : Bool)
    (h : Denotes long vs (encode long nosplit vs m d) xb m d)
    (hop : ∃ o os, c.opcode = o :: os ∧ o ≠ 0x67 ∧ (c.vex = false → long = true → (o &&& 0xF0) ≠ 0x40)) :
    parse long c.vex c.opcode.length (toBytes long c (encode long nosplit vs m d)) = some (expected long c (encode long nosplit vs m d)) := by
  obtain ⟨hb, ⟨bf, bs, bn, bd⟩, hi, ⟨xf, xs, xn, xd⟩, sc⟩ := m
  obtain ⟨dp, dov, dl, dv⟩ := d
  exact toBytes_parses long c _ h.2.2.2.2 h.2.2.2.1 (encode_md_ne_3 long nosplit vs hb bf bs bn bd hi xf xs xn xd sc dp dov dl dv) hop

/-- legacy / REX encoded instructions, from the written operand to the bytes -/
theorem legacy_operand_bytes (long nosplit : Bool) (c : Carrier) (m : BI) (d : Disp) (hv : c.vex = false)
    (hw : wellFormed long m d = true) (hd : dynIndexOk long nosplit m = true)
    (hacc : (encode long nosplit false m d).reject = false) (hrel : (encode long nosplit false m d).reloc = false)
    (hop : ∃ o os, c.opcode = o :: os ∧ o ≠ 0x67 ∧ (long = true → (o &&& 0xF0) ≠ 0x40)) :
    let e := encode long nosplit false m d
    parse long false c.opcode.length (toBytes long c e) = some (expected long c e) ∧
    Denotes long false e (hasXB long c e) m d := by
  intro e
  have hden := legacy_operand_decodes long nosplit (c.rexW || c.reg.getLsbD 3) m d hw hd hacc hrel
  obtain ⟨o, os, h1, h2, h3⟩ := hop
  refine ⟨?_, ?_⟩
  · have := operand_bytes_parse long nosplit false c m d _ hden ⟨o, os, h1, h2, fun _ => h3⟩
    rw [hv] at this; exact this
  · have hx : hasXB long c e = (long && (e.needRex || (c.rexW || c.reg.getLsbD 3))) := by
      simp [hasXB, hv, Bool.or_assoc]
    rw [hx]; exact hden

/-- VEX encoded instructions (ordinary and VSIB operands), from the written operand to the bytes: X and B travel in the prefix in long
mode, so what the reader parses denotes the written address -/
theorem vex_operand_bytes (long nosplit vs : Bool) (c : Carrier) (m : BI) (d : Disp) (hv : c.vex = true)
    (hden : Denotes long vs (encode long nosplit vs m d) long m d)
    (hop : ∃ o os, c.opcode = o :: os ∧ o ≠ 0x67) :
    let e := encode long nosplit vs m d
    parse long true c.opcode.length (toBytes long c e) = some (expected long c e) ∧ Denotes long vs e (hasXB long c e) m d := by
  intro e
  obtain ⟨o, os, h1, h2⟩ := hop
  refine ⟨?_, ?_⟩
  · have := operand_bytes_parse long nosplit vs c m d _ hden ⟨o, os, h1, h2, fun h => by simp [hv] at h⟩
    rw [hv] at this; exact this
  · have hx : hasXB long c e = long := by simp [hasXB, hv]
    rw [hx]; exact hden

/-- a scale that is not 1, 2, 4 or 8 after the single-register split is a compile error -/
theorem impossible_scale_rejected (long nosplit vs : Bool) (m : BI) (d : Disp)
    (hs : (sanitize long nosplit m).reject = false) (hi : (sanitize long nosplit m).bi.hasIndex = true)
    (hbad : scaleOk (sanitize long nosplit m).bi.scale = false) :
    (encode long nosplit vs m d).reject = true := by
  simp only [encode, hs, hi, hbad]
  simp [Enc.rejected, Enc.zero]

/-- the X and B bits a legacy instruction needs are never dropped: without a REX prefix both are zero -/
theorem no_rex_means_low_registers (long nosplit vs : Bool) (m : BI) (d : Disp)
    (hacc : (encode long nosplit vs m d).reject = false) (hn : (encode long nosplit vs m d).needRex = false) (hl : long = true) :
    (encode long nosplit vs m d).x = false ∧ (encode long nosplit vs m d).b = false := by
  obtain ⟨hb, ⟨bf, bs, bn, bd⟩, hi, ⟨xf, xs, xn, xd⟩, sc⟩ := m
  obtain ⟨dp, dov, dl, dv⟩ := d
  mem_unfold
  bv_decide (config := { timeout := 600 })

/-! ## non-vacuity: concrete accepted operands meeting every hypothesis -/
private def rq (n : Nat) : Reg := ⟨LEGACY, 3, BitVec.ofNat 4 n, false⟩
/-- `[r12 + r13*4 + 8]` -/
example : let m : BI := ⟨true, rq 12, true, rq 13, 4⟩; let d : Disp := ⟨true, 0, 1, 8⟩
    wellFormed true m d = true ∧ dynIndexOk true false m = true ∧ (encode true false false m d).reject = false ∧ (encode true false false m d).reloc = false := by decide
/-- `lea rax, [r12 + r13*4 + 8]` = 4B 8D 44 AC 08, and a VEX carrier `vaddps xmm1, xmm2, [rax]` = C5 E8 58 08 (2-byte prefix) -/
example : toBytes true ⟨false, [0x8D], 0, true, 1, 0, false, 0, false⟩ (encode true false false ⟨true, rq 12, true, rq 13, 4⟩ ⟨true, 0, 1, 8⟩)
    = [0x4B, 0x8D, 0x44, 0xAC, 0x08] := by decide
example : toBytes true ⟨true, [0x58], 1, false, 1, 0, false, 2, false⟩ (encode true false false ⟨true, rq 0, false, Reg.zero, 0⟩ ⟨false, 0, 0, 0⟩)
    = [0xC5, 0xE8, 0x58, 0x08] := by decide
example : (parse true true 1 [0xC5, 0xE8, 0x58, 0x08]).map (fun p => (p.vvvv, p.reg, p.rm, p.md, p.map)) = some (2, 1, 0, 0, 1) := by decide
/-- `[rax*3]` written as `rax + rax*2` comes out of `clean` as index rax*3 and is split into rax + rax*2 -/
example : clean false ⟨[rq 0], [(rq 0, 2)]⟩ = some (none, some (rq 0, 3)) := by decide
/-- a dynamic base `[Rq(n)]`, n = 13 at run time -/
example : let m : BI := ⟨true, ⟨LEGACY, 3, 13, true⟩, false, Reg.zero, 0⟩; let d : Disp := ⟨false, 0, 0, 0⟩
    wellFormed true m d = true ∧ dynIndexOk true false m = true ∧ (encode true false false m d).reject = false := by decide
/-- `[xmm9*8 + rbp]` as a VSIB operand -/
example : let m : BI := ⟨true, rq 5, true, ⟨XMM, 4, 9, false⟩, 8⟩; let d : Disp := ⟨false, 0, 0, 0⟩
    wellFormed true m d = true ∧ (encode true false true m d).reject = false := by decide

end DynasmVerif.C13
