import Std.Tactic.BVDecide
import DynasmVerif.Model.A64Imm

/-!
# C14 — aarch64 special-immediate encoders exactly invert the architectural decoders

For each encoder: *sound* (an accepted value's encoding is a valid one and expands to exactly the input) and
*complete* (every valid encoding's value is accepted — "returns an encoding exactly when the value is
representable"). All statements quantify over the full 32/64-bit input domain; `bv_decide` bit-blasts them.
-/

namespace DynasmVerif.C14
open DynasmVerif.A64Imm

set_option maxRecDepth 1000000

/-! ## logical immediates -/

theorem logical32_sound (v : BitVec 32) (h : L32.encOk v = true) :
    L32.decOk (L32.encVal v) = true ∧ L32.decVal (L32.encVal v) = v := by
  simp only [L32.encOk, L32.encVal, L32.decOk, L32.decVal, L32.decEs, L32.es, L32.element, L32.replicate, L32.rotl, L32.rotr1,
    L32.ctz, L32.popc] at *
  bv_decide (config := { timeout := 900 })

/-- every value some valid encoding expands to is accepted (several encodings can denote one value — `immr` bits
above the element size are ignored by the decoder — so the returned encoding is only required to denote it too) -/
theorem logical32_complete (e : BitVec 16) (h : L32.decOk e = true) :
    L32.encOk (L32.decVal e) = true ∧ L32.decVal (L32.encVal (L32.decVal e)) = L32.decVal e := by
  simp only [L32.encOk, L32.encVal, L32.decOk, L32.decVal, L32.decEs, L32.es, L32.element, L32.replicate, L32.rotl, L32.rotr1,
    L32.ctz, L32.popc] at *
  bv_decide (config := { timeout := 900 })

theorem logical64_sound (v : BitVec 64) (h : L64.encOk v = true) :
    L64.decOk (L64.encVal v) = true ∧ L64.decVal (L64.encVal v) = v := by
  simp only [L64.encOk, L64.encVal, L64.decOk, L64.decVal, L64.decEs, L64.es, L64.element, L64.replicate, L64.rotl, L64.rotr1,
    L64.ctz, L64.popc] at *
  bv_decide (config := { timeout := 3000 })

theorem logical64_complete (e : BitVec 16) (h : L64.decOk e = true) :
    L64.encOk (L64.decVal e) = true ∧ L64.decVal (L64.encVal (L64.decVal e)) = L64.decVal e := by
  simp only [L64.encOk, L64.encVal, L64.decOk, L64.decVal, L64.decEs, L64.es, L64.element, L64.replicate, L64.rotl, L64.rotr1,
    L64.ctz, L64.popc] at *
  bv_decide (config := { timeout := 3000 })

/-! ## wide immediates (inverted-wide is the same encoder applied to the complement) -/

theorem wide32_sound (v : BitVec 32) (h : W32.encOk v = true) :
    W32.decOk (W32.encVal v) = true ∧ W32.decVal (W32.encVal v) = v := by
  simp only [W32.encOk, W32.encVal, W32.decOk, W32.decVal, W32.masked, W32.offset, W32.ctz] at *
  bv_decide (config := { timeout := 900 })

/-- every `imm16 << (hw·16)` is accepted (the encoding need not be the same one: 0 has several) -/
theorem wide32_complete (e : BitVec 32) (h : W32.decOk e = true) :
    W32.encOk (W32.decVal e) = true ∧ W32.decVal (W32.encVal (W32.decVal e)) = W32.decVal e := by
  simp only [W32.encOk, W32.encVal, W32.decOk, W32.decVal, W32.masked, W32.offset, W32.ctz] at *
  bv_decide (config := { timeout := 900 })

theorem wide64_sound (v : BitVec 64) (h : W64.encOk v = true) :
    W64.decOk (W64.encVal v) = true ∧ W64.decVal (W64.encVal v) = v := by
  simp only [W64.encOk, W64.encVal, W64.decOk, W64.decVal, W64.masked, W64.offset, W64.ctz] at *
  bv_decide (config := { timeout := 900 })

theorem wide64_complete (e : BitVec 32) (h : W64.decOk e = true) :
    W64.encOk (W64.decVal e) = true ∧ W64.decVal (W64.encVal (W64.decVal e)) = W64.decVal e := by
  simp only [W64.encOk, W64.encVal, W64.decOk, W64.decVal, W64.masked, W64.offset, W64.ctz] at *
  bv_decide (config := { timeout := 900 })

/-! ## stretched (byte mask) immediates -/

theorem stretched_sound (v : BitVec 64) (h : Stretched.encOk v = true) :
    Stretched.decOk (Stretched.encVal v) = true ∧ Stretched.decVal (Stretched.encVal v) = v := by
  simp only [Stretched.encOk, Stretched.encVal, Stretched.decOk, Stretched.decVal, Stretched.spread] at *
  bv_decide (config := { timeout := 900 })

theorem stretched_complete (e : BitVec 32) (h : Stretched.decOk e = true) :
    Stretched.encOk (Stretched.decVal e) = true ∧ Stretched.encVal (Stretched.decVal e) = e := by
  simp only [Stretched.encOk, Stretched.encVal, Stretched.decOk, Stretched.decVal, Stretched.spread] at *
  bv_decide (config := { timeout := 900 })

/-! ## floating-point immediates -/

theorem float_sound (bits : BitVec 32) (h : Float.encOk bits = true) : Float.decVal (Float.encVal bits) = bits := by
  simp only [Float.encOk, Float.encVal, Float.decVal] at *
  bv_decide

theorem float_complete (imm8 : BitVec 8) : Float.encOk (Float.decVal imm8) = true ∧ Float.encVal (Float.decVal imm8) = imm8 := by
  simp only [Float.encOk, Float.encVal, Float.decVal]
  bv_decide

/-! ## non-vacuity -/
example : L32.encOk 0xC3C3C3C3#32 = true ∧ L32.encOk 0x12345678#32 = false := by decide
example : L64.decOk 0x1000#16 = true := by decide
example : W32.encOk 0x12340000#32 = true ∧ W32.encOk 0x00012340#32 = false := by decide
example : Float.encOk 0x3F800000#32 = true := by decide

end DynasmVerif.C14
