import DynasmVerif.Proofs.ConcInv

/-!
# C08 — assembler memory is never writable and executable at the same time

In the Conc model a mapping has exactly one protection value (`memmap2`'s `Mmap` / `MmapMut` type states: a mapping is converted by
ownership transfer, there is no third state), so W∧X cannot be expressed; the content of the property is WHERE the writable state
can be and WHO can reach it. From the inductive invariant (every reachable state, every interleaving, unbounded):
the shared slot never holds a writable mapping; a writable mapping is owned by the assembling thread only, and while the mapping
that holds committed code is writable the write guard is held (no reader can be inside) — or, in the growing commit, it is a fresh
mapping that has never been shared; whenever a reader can obtain the buffer, or finalize has returned, it is `rx`.
That `mprotect` does what `memmap2` says and that nothing else maps memory is observed (/proc/self/maps at every observation
point), not proved.
-/

namespace DynasmVerif.C08
open DynasmVerif.Conc

/-- the shared slot never holds a writable mapping -/
theorem shared_never_writable (s : State) (h : Inv s) (b : Buf) (hb : s.slot = some b) : b.prot = .rx := by
  obtain ⟨_, _, hpc, _⟩ := h
  obtain ⟨pc, writer, readers, slot, own, done, executors, poisoned⟩ := s
  cases pc <;> simp_all [pcInv, good] <;> (try (obtain ⟨_, _, rfl⟩ := hpc; rfl)) <;> (try (cases hb; rfl))
  · obtain ⟨_, _, _, h4⟩ := hpc
    rcases h4 with h4 | h4 <;> (subst h4; rfl)

/-- a writable mapping exists only in the assembling thread's hands, and then either the write guard is held or the mapping is
the fresh one of a growing commit (never shared so far) -/
theorem writable_is_private (s : State) (h : Inv s) (b : Buf) (hb : s.own = some b) (hw : b.prot = .rw) :
    s.writer = true ∨ (s.pc = .gAlloc ∨ s.pc = .gCopied ∨ s.pc = .gAdjusted) := by
  obtain ⟨_, _, hpc, _⟩ := h
  obtain ⟨pc, writer, readers, slot, own, done, executors, poisoned⟩ := s
  cases pc <;> simp_all [pcInv, good]

/-- whenever a reader is inside, or could enter, the buffer it reaches is executable and not writable -/
theorem reader_sees_rx (s : State) (h : Inv s) (hw : s.writer = false) (hp : s.poisoned = false) : ∃ b, s.slot = some b ∧ b.prot = .rx := by
  obtain ⟨_, _, hpc, _⟩ := h
  obtain ⟨pc, writer, readers, slot, own, done, executors, poisoned⟩ := s
  cases pc <;> simp_all [pcInv, good]

/-- the unmapped placeholder (`ExecutableBuffer::default()`) is in the slot only under the write guard — or behind a poisoned lock,
after the assembling thread died with the buffer taken out: then no `read()` succeeds any more (`poisoned_lock_grants_nothing`) -/
theorem slot_empty_only_under_write_lock (s : State) (h : Inv s) (he : s.slot = none) : s.writer = true ∨ s.poisoned = true := by
  obtain ⟨_, _, hpc, _⟩ := h
  obtain ⟨pc, writer, readers, slot, own, done, executors, poisoned⟩ := s
  cases pc <;> simp_all [pcInv, good]

/-- a poisoned lock grants no guard, for ever: what an abandoned commit or alteration left in the slot is never observed -/
theorem poisoned_lock_grants_nothing (s : State) (hp : s.poisoned = true) : step s .rlock = none := by
  simp [step, canRead, hp]

theorem poison_is_permanent (s s' : State) (a : Act) (hp : s.poisoned = true) (hs : step s a = some s') : s'.poisoned = true := by
  obtain ⟨pc, writer, readers, slot, own, done, executors, poisoned⟩ := s
  simp only at hp; subst hp
  cases a <;> cases pc <;> simp [step, canWrite, canRead, setProt] at hs <;>
    first
    | (obtain ⟨hc, rfl⟩ := hs; rfl)
    | (subst hs; rfl)
    | (split at hs <;> simp only [Option.some.injEq] at hs <;> subst hs <;> rfl)

/-- what finalize returns is the committed executable buffer -/
theorem finalize_returns_rx (s : State) (h : Inv s) (hp : s.pc = .finalized) : s.slot = some ⟨.rx, s.done, true⟩ := by
  have := h.atPc
  simp only [pcInv, hp, good] at this
  exact this.2.2.1

/-! ## non-vacuity -/
example : (run (init 1) [.startAlter, .step, .step, .step]).map (fun s => (s.writer, s.slot, s.own)) = some (true, none, some ⟨.rw, 0, true⟩) := by decide
/-- the assembling thread dies inside an alteration: the placeholder stays in the slot, the lock is poisoned, no reader gets in -/
example : (run (init 1) [.startAlter, .step, .step, .step, .abort]).map (fun s => (s.slot, s.poisoned, step s .rlock)) = some (none, true, none) := by decide

end DynasmVerif.C08
