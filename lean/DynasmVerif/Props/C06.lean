import DynasmVerif.Model.Spec
import DynasmVerif.Proofs.Registry
import DynasmVerif.Proofs.Patch
import DynasmVerif.Props.C05
import DynasmVerif.Props.C11

/-!
# C06 — label misuse and unreachable targets surface as the right error at commit

Reading fixed in DESIGN.md: the "exactly when" claim is about the first failing commit of a history.
Two halves: (1) the deferred error slot holds exactly the definition-time defects of the history, found by scanning;
(2) the drain-and-patch loops fail exactly when some pending reference has no definition or does not fit, and the error
names that reference's label.
-/

namespace DynasmVerif.C06
open DynasmVerif.Asm DynasmVerif.Spec DynasmVerif.Registry DynasmVerif.Patch DynasmVerif.Reloc

/-! ## (1) the error slot, by scanning -/

/-- the definition-time defect operation `x` constitutes after history `p` (none = healthy) -/
def slotDefect (p : List LOp) : LOp → Option Err
  | .glob a => if globalDefs a 0 p ≠ [] then some (.duplicate (.glob a)) else none
  | .dynDef id =>
      if dynCount p ≤ id then some (.unknown (.dyn id))
      else if dynDefs id 0 0 p ≠ [] then some (.duplicate (.dyn id)) else none
  | .bwd a _ => if localDefs a 0 p = [] then some (.unknown (.loc a)) else none
  | _ => none

/-- Each operation sets the deferred error slot exactly when it is a second definition of a global or dynamic label, a
definition of a dynamic label that was never allocated, or a backward reference with no earlier definition — and then
to the error naming that label; a healthy operation leaves the slot alone. -/
theorem slot_after_step (p : List LOp) (x : LOp) :
    let s := lrun (({} : Core), 0) p
    (lstep s x).1.error = match slotDefect p x with
      | some e => some e
      | none => s.1.error := by
  intro s
  have hi := inv_run p
  cases x with
  | emit n => simp [lstep, slotDefect]
  | loc a => simp [lstep, slotDefect, Core.localLabel]
  | newDyn => simp [lstep, slotDefect, Core.newDynamic, Labels.newDynamic]
  | fwd a r => simp [lstep, slotDefect, Core.forwardReloc]
  | gref a r => simp [lstep, slotDefect, Core.globalReloc]
  | dref a r => simp [lstep, slotDefect, Core.dynamicReloc]
  | glob a =>
    have h0 := hi.lab a 0
    simp only [if_true] at h0
    simp only [lstep, slotDefect, Core.globalLabel, Labels.defineGlobal]
    cases hg : globalDefs a 0 p with
    | nil => rw [hg] at h0; simp at h0; simp [s, h0]
    | cons g gs => rw [hg] at h0; simp at h0; simp [s, h0]
  | bwd a r =>
    have hv := hi.ver a
    simp only [lstep, slotDefect, Core.backwardReloc]
    cases hg : localDefs a 0 p with
    | nil => rw [hg] at hv; simp at hv; simp [s, hv]
    | cons g gs => rw [hg] at hv; simp at hv; simp [s, hv]
  | dynDef id =>
    simp only [lstep, slotDefect, Core.dynamicLabel, Labels.defineDynamic]
    by_cases hid : dynCount p ≤ id
    · have : (lrun (({} : Core), 0) p).1.labels.dynamics[id]? = none :=
        List.getElem?_eq_none (by rw [hi.dynLen]; exact hid)
      simp [s, this, hid]
    · have hd := hi.dyn id (by omega)
      simp only [hid, if_false]
      cases hg : dynDefs id 0 0 p with
      | nil => rw [hg] at hd; simp at hd; simp [s, hd]
      | cons g gs => rw [hg] at hd; simp at hd; simp [s, hd]

/-- a history without definition-time defects leaves the slot empty -/
theorem slot_empty_of_healthy (p : List LOp) (h : ∀ q x r, p = q ++ [x] ++ r → slotDefect q x = none) :
    (lrun (({} : Core), 0) p).1.error = none := by
  suffices ∀ (r q : List LOp), (lrun (({} : Core), 0) q).1.error = none →
      (∀ q' x r', q ++ r = q' ++ [x] ++ r' → q.length ≤ q'.length → slotDefect q' x = none) →
      (lrun (({} : Core), 0) (q ++ r)).1.error = none by
    simpa using this p [] rfl (fun q' x r' hq _ => h q' x r' (by simpa using hq))
  intro r
  induction r with
  | nil => intro q hq _; simpa using hq
  | cons x r ih =>
    intro q hq hh
    have h1 : (lrun (({} : Core), 0) (q ++ [x])) = lstep (lrun (({} : Core), 0) q) x := by simp [lrun]
    have hx : slotDefect q x = none := hh q x r (by simp) (Nat.le_refl _)
    have := ih (q ++ [x]) (by rw [h1, slot_after_step q x, hx]; exact hq)
      (fun q' x' r' hq' hl => hh q' x' r' (by simpa using hq') (by simp at hl; omega))
    simpa using this

/-! ## (2) the loops -/

/-- a pending static reference is healthy: its label has a definition and the distance fits the field -/
def StaticOK (l : Labels) (addr : Nat) (e : PatchLoc × Nat × Nat) : Prop :=
  ∃ t v, l.resolveStatic e.2.1 e.2.2 = .ok t ∧ e.1.value t addr = some v ∧ C05.inRangeBV e.1.reloc.fmt v = true

/-- a pending static reference is defective, with the error it must produce -/
def StaticDefect (l : Labels) (addr : Nat) (e : PatchLoc × Nat × Nat) (err : Err) : Prop :=
  l.resolveStatic e.2.1 e.2.2 = .error err ∨
  (∃ t v, l.resolveStatic e.2.1 e.2.2 = .ok t ∧ e.1.value t addr = some v ∧ C05.inRangeBV e.1.reloc.fmt v = false ∧
     err = .impossible (staticTarget e.2.1 e.2.2))

/-- one patch: with a well-placed field, the outcome is decided by the range test alone -/
theorem patch_outcome (p : PatchLoc) (buf : List Byte) (off addr t : Nat) (hwf : C11.FieldInBatch p off buf.length) :
    ∃ v, p.value t addr = some v ∧
      ((C05.inRangeBV p.reloc.fmt v = true ∧ ∃ b, p.patch buf off addr t = .ok b) ∨
       (C05.inRangeBV p.reloc.fmt v = false ∧ p.patch buf off addr t = .impossible)) := by
  obtain ⟨h1, h2, h3⟩ := hwf
  unfold PatchLoc.patch PatchLoc.start PatchLoc.value
  have : ¬ p.location < off + p.fieldOff := by omega
  have h3' : ¬ p.location < p.refOff := by omega
  simp only [this, h3', if_false]
  refine ⟨_, rfl, ?_⟩
  unfold patchField
  have : ¬ p.location - off - p.fieldOff + p.reloc.fmt.size > buf.length := by omega
  simp only [this, if_false]
  generalize hv : (match p.reloc.kind with
    | .relative => BitVec.ofNat 64 t - BitVec.ofNat 64 (p.location - p.refOff)
    | .relToAbs => BitVec.ofNat 64 t - BitVec.ofNat 64 (p.location - p.refOff + addr)
    | .absToRel => BitVec.ofNat 64 (t + addr)) + BitVec.ofInt 64 p.targetOff = v
  cases hr : C05.inRangeBV p.reloc.fmt v with
  | true =>
    left
    refine ⟨rfl, ?_⟩
    have := (C05.write_fails_iff_out_of_range p.reloc.fmt (ofLeBytes (slice buf (p.location - off - p.fieldOff) p.reloc.fmt.size)) v)
    cases hw : write p.reloc.fmt (ofLeBytes (slice buf (p.location - off - p.fieldOff) p.reloc.fmt.size)) v with
    | none => rw [this.1 hw] at hr; cases hr
    | some w => exact ⟨_, rfl⟩
  | false =>
    right
    refine ⟨rfl, ?_⟩
    rw [(C05.write_fails_iff_out_of_range p.reloc.fmt _ v).2 hr]

/-- The static loop succeeds exactly when every pending reference is healthy; otherwise it returns the error of the
FIRST defective reference in recording order: `UnknownLabel` naming the label when it has no (eligible) definition,
`ImpossibleRelocation` naming the target when the distance does not fit the field. -/
theorem patchStatics_outcome (l : Labels) (off addr : Nat) (rs : List (PatchLoc × Nat × Nat)) (buf : List Byte) (m : List PatchLoc)
    (hwf : ∀ e ∈ rs, C11.FieldInBatch e.1 off buf.length) :
    ((patchStatics l off addr rs buf m).2.2 = .ok ∧ ∀ e ∈ rs, StaticOK l addr e) ∨
    (∃ pre e post err, rs = pre ++ [e] ++ post ∧ (∀ e' ∈ pre, StaticOK l addr e') ∧ StaticDefect l addr e err ∧
       (patchStatics l off addr rs buf m).2.2 = .err err) := by
  induction rs generalizing buf m with
  | nil => left; simp [patchStatics]
  | cons e rest ih =>
    obtain ⟨p, name, ver⟩ := e
    simp only [patchStatics]
    cases hres : l.resolveStatic name ver with
    | error err =>
      right
      exact ⟨[], (p, name, ver), rest, err, by simp, by simp, Or.inl hres, rfl⟩
    | ok t =>
      obtain ⟨v, hv, hcase⟩ := patch_outcome p buf off addr t (hwf _ List.mem_cons_self)
      rcases hcase with ⟨hin, b, hb⟩ | ⟨hout, hb⟩
      · simp only [hb]
        obtain ⟨hl, _⟩ := patch_ok p buf b off addr t hb
        have hok : StaticOK l addr (p, name, ver) := ⟨t, v, hres, hv, hin⟩
        rcases ih b (if p.needsAdjustment then m ++ [p] else m)
            (fun e he => by rw [hl]; exact hwf e (List.mem_cons_of_mem _ he)) with ⟨h1, h2⟩ | ⟨pre, e, post, err, h1, h2, h3, h4⟩
        · left
          refine ⟨h1, ?_⟩
          intro e he
          rcases List.mem_cons.mp he with rfl | he'
          · exact hok
          · exact h2 e he'
        · right
          refine ⟨(p, name, ver) :: pre, e, post, err, by rw [h1]; simp, ?_, h3, h4⟩
          intro e' he'
          rcases List.mem_cons.mp he' with rfl | he''
          · exact hok
          · exact h2 e' he''
      · right
        simp only [hb]
        exact ⟨[], (p, name, ver), rest, _, by simp, by simp, Or.inr ⟨t, v, hres, hv, hout, rfl⟩, rfl⟩

/-- A failing commit publishes nothing: the vector assembler's commit that returns an error keeps the buffer length, and
the executable assembler's memory is untouched (C11.failed_commit_keeps_memory). -/
theorem failed_commit_publishes_nothing (a a' : ExecAsm) (e : Err) (addr : Nat)
    (h : a.commit addr = some (a', .err e)) (hne : e ≠ .impossible .managed) :
    a'.mem.view = a.mem.view ∧ a'.mem.committed = a.mem.committed := by
  rw [C11.failed_commit_keeps_memory a a' e addr h hne]; exact ⟨rfl, rfl⟩

/-- **Known finding `deferred-defect-forgotten-*`: the property is FALSE of a second commit.** A definition-time defect sits in the error slot and is
reported by one commit, which empties the slot; the batch is unchanged, yet the next commit of the same batch succeeds (stated for a batch without
pending references; model of `VecAssembler`, the `asm` stream shows the implementation does the same and `Assembler::encode_relocs` has the same
`self.error.take()`). `lib/c06.py` replays such histories on the implementation and reports them per front end and defect. -/
theorem deferred_defect_reported_once (a : VecAsm) (e : Err) (herr : a.core.error = some e)
    (hs : a.core.statics = []) (hd : a.core.dynamics = []) :
    a.commit.2 = .err e ∧ a.commit.1.ops = a.ops ∧ a.commit.1.commit = (a.commit.1, .ok) := by
  simp [VecAsm.commit, Core.encodeRelocs, herr, hs, hd, patchStatics, patchDynamics, dynamicsRest]

/-! ## non-vacuity -/
example : slotDefect [.glob 3, .emit 2] (.glob 3) = some (.duplicate (.glob 3)) := by decide
example : slotDefect [.newDyn] (.dynDef 1) = some (.unknown (.dyn 1)) ∧ slotDefect [.newDyn] (.dynDef 0) = none := by decide
example : slotDefect [.emit 1] (.bwd 2 ⟨0, 1, 0, ⟨.p1, .relative⟩⟩) = some (.unknown (.loc 2)) := by decide

end DynasmVerif.C06
