import DynasmVerif.Generated.A64Dyn
import DynasmVerif.Generated.RvDyn
import DynasmVerif.Generated.RegDyn

/-!
# C04 — unencodable operands are rejected, never silently truncated or wrapped (aarch64 immediates)

Per distinct command group of the table (`Generated/A64Dyn.lean`, regenerated on every run):
`ob<N>_accepts_doc` — every value of the slot's documented operand set (`extract_opmap` constraint) is accepted by the literal path;
`ob<N>_injective` — two accepted operands that produce the same field bits are the same operand (nothing is masked or wrapped into
the field: whatever is accepted can be read back). With C03's `ob<N>_dyn_eq_static_*` the run-time path panics exactly where the
literal path rejects. The general facts below say what acceptance means for the range-checked commands.
-/

namespace DynasmVerif.C04
open DynasmVerif.A64 DynasmVerif.A64Enc

/-- `static_range_check` accepts only multiples of the scale … -/
theorem staticCheck_aligned (v : BitVec 64) (bias : Int) (range : BitVec 32) (scale : Nat) (h : (staticCheck v bias range scale).1 = true) :
    (v.sshiftRight scale) <<< scale = v := by
  simp only [staticCheck, Bool.and_eq_true, beq_iff_eq] at h
  exact h.1.1

/-- … whose scaled, biased value lies in `0 ..= range` -/
theorem staticCheck_in_range (v : BitVec 64) (bias : Int) (range : BitVec 32) (scale : Nat) (h : (staticCheck v bias range scale).1 = true) :
    (v.sshiftRight scale - BitVec.ofInt 64 bias).slt 0 = false ∧ (range.zeroExtend 64).slt (v.sshiftRight scale - BitVec.ofInt 64 bias) = false := by
  simp only [staticCheck, Bool.and_eq_true, beq_iff_eq, Bool.not_eq_true'] at h
  exact ⟨h.1.2, h.2⟩

end DynasmVerif.C04
