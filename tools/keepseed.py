#!/usr/bin/env python3
"""usage: keepseed.py <ID> <variant> <caught: yes|no|partial> <by: comma list of checks> [note]
copies a confirmed seeded change from /tmp/wt/<ID>.out/<v>/ into /verif/seeded/<ID><v>/ (patch.diff, demo.rs, meta.json)."""
import json, os, shutil, sys
ID, v, caught, by = sys.argv[1:5]
note = sys.argv[5] if len(sys.argv) > 5 else ""
src = f"/tmp/wt/{ID}.out/{v}"
dst = f"/verif/seeded/{ID}{v}"
os.makedirs(dst, exist_ok=True)
patch = "patch.rebased.diff" if os.path.exists(f"{src}/patch.rebased.diff") else "patch.diff"
shutil.copy(f"{src}/{patch}", f"{dst}/patch.diff")
shutil.copy(f"{src}/demo.rs", f"{dst}/demo.rs")
meta = json.load(open(f"{src}/meta.json"))
ver = json.load(open(f"{src}/verify.json")) if os.path.exists(f"{src}/verify.json") else {}
out = {"property": ID, "variant": v, "summary": meta.get("summary"), "needs": meta.get("needs"), "files": meta.get("files"),
       "demo": f"copy demo.rs to testing/tests/seeded_demo_{ID}_{v}.rs; cargo test -p testing --test seeded_demo_{ID}_{v} --offline",
       "confirmed_in_scratch_worktree": {
           "ran": f"tools/verifyseed.sh {ID} {v} (git apply; cargo test --workspace --no-fail-fast --offline; demo with and without the change)",
           "suite_passed_incl_demo_tests": ver.get("suite_total_passed_incl_demo"), "suite_failed_incl_demo_tests": ver.get("suite_total_failed_incl_demo"),
           "demo_with_change": ver.get("demo_with_change"), "demo_without_change": ver.get("demo_without_change")},
       "rebased_onto_fix_commits": patch != "patch.diff",
       "detected": caught, "detected_by": [x for x in by.split(",") if x], "detection_note": note,
       "how_checked": f"tools/seedtest.sh seeded/{ID}{v}/patch.diff <checks>  (git -C /repo apply; ./check <id> --tier quick; git -C /repo checkout -- .)"}
json.dump(out, open(f"{dst}/meta.json", "w"), indent=1)
print(dst, caught, by)
