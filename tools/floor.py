#!/usr/bin/env python3
"""usage: tools/floor.py <tier>   — record the coverage counters of the evidence files (written by a run of every check of that tier on the
pinned, unmodified tree) as the floor that later runs are compared with (lib/common.Run.finish). Never run by a check."""
import glob, json, os, sys
tier = sys.argv[1]
path = "/verif/coverage_floor.json"
floor = json.load(open(path)) if os.path.exists(path) else {}
for f in sorted(glob.glob("/verif/evidence/C*.json")):
    e = json.load(open(f))
    if e["tier"] != tier or e["violations"]:
        continue
    floor[f"{e['property_id']}.{tier}"] = {"evaluations": e["coverage"].get("evaluations"), "obligations": e["coverage"].get("obligations")}
json.dump(floor, open(path, "w"), indent=1, sort_keys=True)
print(json.dumps(floor, indent=1, sort_keys=True))
