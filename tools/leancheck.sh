#!/bin/bash
# usage: tools/leancheck.sh   — re-check the compiled property modules with leanchecker (the toolchain's independent re-checker of .olean files).
# Silent rc 0 per module = every declaration was accepted again by a fresh kernel instance. Generated modules are included.
cd /verif/lean || exit 2
fail=0
for m in $(ls DynasmVerif/Props/*.lean DynasmVerif/Proofs/*.lean | sed 's#/#.#g; s#\.lean$##') DynasmVerif.Generated.A64Dyn DynasmVerif.Generated.RvDyn DynasmVerif.Generated.RvLi DynasmVerif.Generated.RegDyn DynasmVerif.Generated.C14Inline DynasmVerif.Generated.RelocCode DynasmVerif.Generated.PatchCode DynasmVerif.Generated.ImmCode DynasmVerif.Generated.A64Static DynasmVerif.Generated.RvStatic; do
  [ -f ".lake/build/lib/lean/$(echo $m | tr . /).olean" ] || { echo "$m: not built (run ./check first)"; continue; }
  if timeout 1800 lake env leanchecker "$m" > /tmp/leancheck.$$ 2>&1; then echo "$m: ok"; else echo "$m: FAILED"; tail -5 /tmp/leancheck.$$; fail=1; fi
done
rm -f /tmp/leancheck.$$
exit $fail
