#!/bin/bash
# usage: tools/allseeds.sh [out]   — apply every kept seeded change in turn, run the checks its meta.json names, record whether a VIOLATION was reported
out=${1:-/tmp/allseeds.txt}
: > "$out"
cd /verif
for d in seeded/*/; do
  id=$(basename "$d")
  checks=$(python3 -c "import json;print(' '.join(json.load(open('$d/meta.json')).get('detected_by') or []))")
  [ -z "$checks" ] && { echo "$id no-checks-listed" >> "$out"; continue; }
  git -C /repo apply "/verif/$d/patch.diff" 2>/dev/null || { echo "$id PATCH-DOES-NOT-APPLY" >> "$out"; git -C /repo checkout -- .; continue; }
  res=""
  for c in $checks; do
    ./check "$c" --tier quick > /tmp/allseeds.one 2>&1; rc=$?
    n=$(grep -c "^VIOLATION" /tmp/allseeds.one)
    res="$res $c:rc=$rc:violations=$n"
  done
  git -C /repo checkout -- .
  echo "$id$res" >> "$out"
done
echo DONE >> "$out"
