#!/bin/bash
# usage: tools/verifyseed.sh <ID> <variant>   — confirm a seeded change in its scratch worktree /tmp/wt/<ID>:
#   suite passes with the change, demo fails with it and passes without it. Writes /tmp/wt/<ID>.out/<v>/verify.json
ID="$1"; V="$2"
WT=/tmp/wt/$ID; OUT=/tmp/wt/$ID.out/$V
export CARGO_TARGET_DIR=$WT/target CARGO_NET_OFFLINE=true
cd $WT || exit 2
git checkout -q -- . ; git clean -fdq -e target
git apply $OUT/patch.diff || { echo '{"applies": false}' > $OUT/verify.json; exit 1; }
cp $OUT/demo.rs testing/tests/seeded_demo_${ID}_$V.rs
cargo test --workspace --no-fail-fast --offline --exclude nothing > $OUT/suite.log 2>&1 || cargo test --workspace --no-fail-fast --offline > $OUT/suite.log 2>&1
# suite result excluding the demo itself
passed=$(grep -E "^test result" $OUT/suite.log | awk '{p+=$4} END {print p+0}')
failed=$(grep -E "^test result" $OUT/suite.log | awk '{f+=$6} END {print f+0}')
demo_with=$(cargo test -p testing --test seeded_demo_${ID}_$V --offline 2>&1 | grep -E "^test result" | tail -1)
git apply -R $OUT/patch.diff
demo_without=$(cargo test -p testing --test seeded_demo_${ID}_$V --offline 2>&1 | grep -E "^test result" | tail -1)
rm -f testing/tests/seeded_demo_${ID}_$V.rs
git checkout -q -- . ; git clean -fdq -e target
python3 - "$OUT" "$passed" "$failed" "$demo_with" "$demo_without" <<'PY'
import json,sys,re
out,passed,failed,dw,dwo=sys.argv[1:6]
def pf(s):
    m=re.search(r"(\d+) passed; (\d+) failed",s); return (int(m.group(1)),int(m.group(2))) if m else None
json.dump({"applies":True,"suite_total_passed_incl_demo":int(passed),"suite_total_failed_incl_demo":int(failed),
 "demo_with_change":dw,"demo_without_change":dwo,"demo_with":pf(dw),"demo_without":pf(dwo)},open(out+"/verify.json","w"),indent=1)
print(open(out+"/verify.json").read())
PY
