#!/usr/bin/env python3
"""Writes lean/DynasmVerif/Model/A64Imm.lean: bit-vector transcriptions of the aarch64 special-immediate encoders
(plugin/src/arch/aarch64/encoding_helpers.rs, runtime/src/aarch64.rs) and the architectural decoders (ARM ARM
DecodeBitMasks, MOVZ/MOVN chunks, AdvSIMDExpandImm op=1 cmode=1110, VFPExpandImm). popcount / trailing-zeros are
unrolled so that `bv_decide` can bit-blast them (it cannot see through recursive helpers)."""

def popc(w):
    return " + ".join(f"((x >>> {i}).truncate 1).zeroExtend 8" for i in range(w))

def ctz(w):
    s = f"{w}#8"
    for i in reversed(range(w)):
        s = f"(if (x >>> {i}).truncate 1 == 1#1 then {i}#8 else {s})"
    return s

def logical(w):
    W = f"BitVec {w}"
    top = 2 * w
    immsmask = "0x3F" if w == 32 else "0x7F"
    sizes = [2, 4, 8, 16, 32] if w == 64 else [2, 4, 8, 16]
    rep = {2: "5" * (w // 4), 4: "1" * (w // 4), 8: "01" * (w // 8), 16: "0001" * (w // 16), 32: "00000001" * (w // 32)}
    msk = {2: "3", 4: "0xF", 8: "0xFF", 16: "0xFFFF", 32: "0xFFFFFFFF"}
    repl = "\n  else ".join(f"if es == {s}#8 then (x &&& {msk[s]}#{w}) * 0x{rep[s]}#{w}" for s in sizes)
    decsizes = [64, 32, 16, 8, 4, 2] if w == 64 else [32, 16, 8, 4, 2]
    deces = "\n  else ".join(f"if nimms &&& 0x{s:02X}#8 != 0#8 then {s}#8" for s in decsizes)
    nimms = "((~~~imms) &&& 0x3F#8) ||| (n <<< 6)" if w == 64 else "(~~~imms) &&& 0x3F#8"
    hi = 13 if w == 64 else 12
    enc_tail = ("""  let n : BitVec 16 := if (imms0 &&& 0x40#8) == 0#8 then 1#16 else 0#16
  let imms := imms0 &&& 0x3F#8
  (n <<< 12) ||| ((immr.zeroExtend 16) <<< 6) ||| (imms.zeroExtend 16)""" if w == 64 else
                """  ((immr.zeroExtend 16) <<< 6) ||| (imms0.zeroExtend 16)""")
    return f"""
/-! ### logical (bitmask) immediates, {w}-bit -/
namespace L{w}

def popc (x : {W}) : BitVec 8 := {popc(w)}
def ctz (x : {W}) : BitVec 8 := {ctz(w)}

def rotl (x : {W}) (n : BitVec 8) : {W} :=
  let k : {W} := (n &&& {w - 1}#8).zeroExtend {w}
  (x <<< k) ||| (x >>> (({w}#{w} - k) &&& {w - 1}#{w}))

def rotr1 (x : {W}) : {W} := (x >>> 1) ||| (x <<< {w - 1})

/-- `({top}u32).checked_div(transitions.count_ones())` (division by zero handled by `encOk`) -/
def es (value : {W}) : BitVec 8 := {top}#8 / popc (value ^^^ rotr1 value)

/-- `value & (1.checked_shl(element_size).unwrap_or(0).wrapping_sub(1))` -/
def element (value : {W}) : {W} :=
  value &&& ((if (es value).ult {w}#8 then (1#{w} <<< ((es value).zeroExtend {w})) else 0#{w}) - 1#{w})

/-- the encoder returns `Some` -/
def encOk (value : {W}) : Bool :=
  (popc (value ^^^ rotr1 value) != 0#8) && (value == rotl value (es value))

/-- the returned encoding `N:immr:imms` (N only for 64 bits) -/
def encVal (value : {W}) : BitVec 16 :=
  let e := es value
  let el := element value
  let ones := popc el
  let imms0 : BitVec 8 := ((~~~((e <<< 1) - 1#8)) &&& {immsmask}#8) ||| (ones - 1#8)
  let immr : BitVec 8 :=
    if (el &&& 1#{w}) != 0#{w} then ones - ctz (~~~el) else e - ctz el
{enc_tail}

/-! architectural decoder: `DecodeBitMasks(N, imms, immr, immediate = TRUE)` for datasize {w} -/

def replicate (x : {W}) (es : BitVec 8) : {W} :=
  {repl}
  else x

def decEs (enc : BitVec 16) : BitVec 8 :=
  let imms : BitVec 8 := (enc &&& 0x3F#16).truncate 8
  let n : BitVec 8 := ((enc >>> 12) &&& 1#16).truncate 8
  let nimms := {nimms}
  {deces}
  else 0#8

/-- the encoding is a valid (allocated) one: an element size exists, the run of ones is not the whole element, and
no bit above the field is set -/
def decOk (enc : BitVec 16) : Bool :=
  let imms : BitVec 8 := (enc &&& 0x3F#16).truncate 8
  let e := decEs enc
  (e != 0#8) && ((imms &&& (e - 1#8)) != (e - 1#8)) && (enc >>> {hi} == 0#16)

def decVal (enc : BitVec 16) : {W} :=
  let imms : BitVec 8 := (enc &&& 0x3F#16).truncate 8
  let immr : BitVec 8 := ((enc >>> 6) &&& 0x3F#16).truncate 8
  let e := decEs enc
  let levels := e - 1#8
  let s := imms &&& levels
  let r := immr &&& levels
  let welem : {W} := (1#{w} <<< ((s + 1#8).zeroExtend {w})) - 1#{w}
  let esw : {W} := e.zeroExtend {w}
  let rw : {W} := r.zeroExtend {w}
  let em : {W} := (if e == {w}#8 then 0#{w} else (1#{w} <<< esw)) - 1#{w}
  let rot : {W} := ((welem >>> rw) ||| (welem <<< ((esw - rw)))) &&& em
  replicate rot e

end L{w}
"""

def wide(w):
    W = f"BitVec {w}"
    hwmask = "0x10" if w == 32 else "0x30"
    hwbits = 1 if w == 32 else 2
    return f"""
/-! ### wide (MOVZ/MOVN/MOVK chunk) immediates, {w}-bit: a 16-bit chunk at a multiple-of-16 shift -/
namespace W{w}

def ctz (x : {W}) : BitVec 8 := {ctz(w)}

/-- `value.trailing_zeros() & {hwmask}` -/
def offset (value : {W}) : BitVec 8 := ctz value &&& {hwmask}#8
def masked (value : {W}) : {W} := 0xFFFF#{w} &&& (value >>> (offset value).zeroExtend {w})
def encOk (value : {W}) : Bool := ((masked value) <<< (offset value).zeroExtend {w}) == value
/-- `masked | (offset << 12)`: imm16 in bits 15:0, hw in bits {16 + hwbits - 1}:16 -/
def encVal (value : {W}) : BitVec 32 := (masked value).zeroExtend 32 ||| (((offset value).zeroExtend 32) <<< 12)

/-- architecture: `imm16 << (hw * 16)` -/
def decOk (enc : BitVec 32) : Bool := enc >>> {16 + hwbits} == 0#32
def decVal (enc : BitVec 32) : {W} :=
  ((enc &&& 0xFFFF#32).zeroExtend {w}) <<< ((((enc >>> 16) &&& {2 ** hwbits - 1}#32) <<< 4).zeroExtend {w})

end W{w}
"""

HEADER = '''/-!
# aarch64 special-immediate encoders and the architectural decoders (C14)

GENERATED by tools/gen_a64imm.py (committed; regenerate only when the transcription changes).
Encoders transcribe `plugin/src/arch/aarch64/encoding_helpers.rs` (and the textually identical copies in
`runtime/src/aarch64.rs`); each is split into `encOk : Bool` (returns `Some`) and `encVal` (the payload) because
`bv_decide` does not see through `Option`. Decoders are written from the ARM ARM pseudocode. Import-free.
-/

namespace DynasmVerif.A64Imm
'''

FOOTER = '''
/-! ### 64-bit byte-mask ("stretched") immediates: `AdvSIMDExpandImm(op = 1, cmode = 1110)` -/
namespace Stretched

def spread (value : BitVec 64) : BitVec 64 :=
  let t0 := value &&& 0x0101010101010101#64
  let t1 := t0 ||| (t0 <<< 1)
  let t2 := t1 ||| (t1 <<< 2)
  t2 ||| (t2 <<< 4)

def encOk (value : BitVec 64) : Bool := spread value == value

def encVal (value : BitVec 64) : BitVec 32 :=
  let m0 := value &&& 0x8040201008040201#64
  let m1 := m0 ||| (m0 >>> 32)
  let m2 := m1 ||| (m1 >>> 16)
  let m3 := m2 ||| (m2 >>> 8)
  (m3.truncate 32) &&& 0xFF#32

def decOk (enc : BitVec 32) : Bool := enc >>> 8 == 0#32

/-- bit i of imm8 becomes byte i -/
def decVal (enc : BitVec 32) : BitVec 64 :=
  let b (i : Nat) : BitVec 64 := if (enc >>> i) &&& 1#32 == 1#32 then 0xFF#64 <<< (8 * i) else 0#64
  b 0 ||| b 1 ||| b 2 ||| b 3 ||| b 4 ||| b 5 ||| b 6 ||| b 7

end Stretched

/-! ### 8-bit floating-point immediates (single precision bit patterns): `VFPExpandImm` -/
namespace Float

def encOk (bits : BitVec 32) : Bool :=
  let check := (bits >>> 25) &&& 0x3F#32
  (check == 0x20#32 || check == 0x1F#32) && (bits &&& 0x7FFFF#32 == 0#32)

def encVal (bits : BitVec 32) : BitVec 8 := (((bits >>> 24) &&& 0x80#32) ||| ((bits >>> 19) &&& 0x7F#32)).truncate 8

/-- `imm8<7> : NOT(imm8<6>) : Replicate(imm8<6>, 5) : imm8<5:0> : Zeros(19)` -/
def decVal (imm8 : BitVec 8) : BitVec 32 :=
  let a : BitVec 32 := ((imm8 >>> 7) &&& 1#8).zeroExtend 32
  let b : BitVec 32 := ((imm8 >>> 6) &&& 1#8).zeroExtend 32
  let low : BitVec 32 := (imm8 &&& 0x3F#8).zeroExtend 32
  (a <<< 31) ||| ((b ^^^ 1#32) <<< 30) ||| ((if b == 1#32 then 0x1F#32 else 0#32) <<< 25) ||| (low <<< 19)

end Float

end DynasmVerif.A64Imm
'''

if __name__ == "__main__":
    import os
    out = os.path.join(os.path.dirname(os.path.dirname(os.path.abspath(__file__))), "lean/DynasmVerif/Model/A64Imm.lean")
    with open(out, "w") as f:
        f.write(HEADER + logical(32) + logical(64) + wide(32) + wide(64) + FOOTER)
    print("wrote", out)
