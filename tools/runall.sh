#!/bin/bash
# usage: tools/runall.sh <quick|thorough> [out] [seed]   — every check of the tier in turn on the current tree; one line per check
tier=${1:-quick}; out=${2:-/tmp/runall_$tier.txt}; seed=${3:-}
cd /verif; : > "$out"
for p in C01 C02 C03 C04 C05 C06 C07 C08 C09 C10 C11 C12 C13 C14 C15 C16 C17 C18 C19 C20; do
  t0=$(date +%s)
  VERIF_SEED=${seed:-1} ./check $p --tier $tier > /tmp/runall.one 2>&1
  rc=$?
  echo "$p rc=$rc violations=$(grep -c '^VIOLATION' /tmp/runall.one) known=$(grep -c '^KNOWN-FINDING' /tmp/runall.one) $(( $(date +%s) - t0 ))s :: $(tail -1 /tmp/runall.one | cut -c1-160)" >> "$out"
  [ $rc -ne 0 ] && { cp /tmp/runall.one /tmp/runall_fail_${tier}_$p.txt; }
done
echo DONE >> "$out"
