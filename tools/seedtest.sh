#!/bin/bash
# usage: tools/seedtest.sh <patch.diff> <prop> [<prop>...]   — apply a seeded change to /repo, run the quick checks, undo it
set -u
patch="$(realpath "$1")"; shift
cd /repo || exit 2
git apply "$patch" || { echo "patch does not apply"; exit 2; }
cd /verif
for p in "$@"; do
  out=$(./check "$p" --tier quick 2>&1)
  rc=$?
  echo "== $p rc=$rc"; echo "$out" | grep -E "VIOLATION|↳|KNOWN" | head -6
done
git -C /repo checkout -- .
git -C /repo status --short | head -3
