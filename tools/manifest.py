#!/usr/bin/env python3
"""Regenerates /verif/MANIFEST.json from the table below (single source of truth for what is claimed)."""
import json, os
V = "/verif"
CLAIMS = {
 "C05": dict(text="Lean 4 theorems over a generic scatter/gather model of every relocation format (write fails iff out of documented range; architecture-side decode of the patched word = value; other bits preserved; read-back = value on its domain; ADRP page lemma; auipc pair sum), for all 2^64 values and all old words; the model is tied to the Rust code on every run by an exhaustive (fields <= 22 bits) / boundary+strided (wider) correspondence stream against Relocation::write_value/read_value.",
   note="Trusted: Lean kernel + bv_decide axioms (listed per theorem in evidence), harness/rt, archDecode/docRange written from the manuals, 64-bit host (isize=i64).",
   tech="Lean 4 proof (bv_decide per format over a generic scatter model) + differential correspondence with the Rust implementation"),
 "C07": dict(text="Lean 4 theorems over the model of MemoryManager::commit (both branches with their slice-length checks, the doubling loop): commit never panics under the bookkeeping invariant, appends exactly the new bytes, keeps every committed byte (commit_appends), the capacity is the least doubling above the need (growCap_*), and for every history of emits/aligns/commits the buffer is what was emitted before the last commit and offset = bytes emitted (history_tracks, by induction over the history). Tied to the real Assembler by the asm correspondence stream with commit totals on/around 1x,2x,4x capacity and by direct evaluation of the property on the implementation's buffers (reader lock held since construction, fresh reader, ptr(), finalize).",
   note="Trusted: Lean kernel (no bv_decide), harness/rt, copy primitives modelled as list operations; mapping addresses are environment inputs; position-dependent fields are C12.",
   tech="Lean 4 proof (invariant by induction over histories) + differential correspondence + direct property evaluation on implementation outputs"),
 "C10": dict(text="Lean 4 theorems over the Modifier model: each emission overwrites exactly the bytes at the cursor and advances it (emit_writes_at_cursor), an emission succeeds iff it fits - otherwise it is reported, never partially applied with a normal return (emission_fits_or_reported), check/check_exact report exactly cursor > o / cursor != o, a whole session of gotos and emissions changes only written offsets (session_frame, induction over the session), and the session end changes at most the fields of the session's relocations, on success and on error (session_end_frame). Label resolution inside sessions is the shared Core (C01). Tied to the real Modifier by the asm stream (closure driven line by line) and a python overlay evaluation of the implementation's buffers, including overruns by 1..5 bytes on every emission path.",
   note="Trusted: Lean kernel, harness/rt. A Rust panic counts as 'reported'. Holds after fix 809321e (Modifier::extend).",
   tech="Lean 4 proof (frame lemmas by induction over session operations) + differential correspondence + direct property evaluation"),
 "C11": dict(text="Lean 4 theorems: a commit that fails on a label defect or impossible relocation leaves the executable memory untouched and keeps the pending bytes (failed_commit_keeps_memory/_pending_length); however an alter session ends, the buffer is back in the lock with its full length, the memory-manager invariant holds and committed bytes outside the session's own relocation fields are as the session left them (session_end_restores); no relocation of a session survives it (session_end_drains); with the invariant and well-placed pending relocations a commit never panics (commit_never_panics, via C07.commit_appends). Tied by the asm stream with fault injection (every C06 defect class in commits and sessions after >= 1 successful commit, then further operations) under catch_unwind, plus direct evaluation (no panic/poison/empty buffer after an error, committed bytes intact).",
   note="Trusted: Lean kernel, harness/rt. Holds after fixes df79a3c and 5429107. commit_never_panics is stated for position-independent relocations (x64/aarch64/riscv); managed (x86) adjustment is C12. A panic inside the user's closure poisons the lock by design.",
   tech="Lean 4 proof (error steps preserve the memory invariant; frame lemmas) + fault-injection correspondence + direct property evaluation"),
 "C16": dict(text="Lean 4 theorems: after a successful take/drain the VecAssembler model state is literally new(base) (take_resets, drain_resets, run_after_take_eq_fresh); a label-free program gives the same bytes on the vector assemblers and on the executable assembler under every commit partition and every mapping address (exec_agrees_with_vec via C07.history_tracks); UncommittedModifier emission lemma. The three label front-ends share one Core in the model; each Rust implementation is tied to it by the asm correspondence stream, and bytes are compared implementation-to-implementation across front-ends, 4 commit partitions and reuse chains.",
   note="Trusted: Lean kernel, harness/rt. Label programs across front-ends: proof covers the shared Core + per-front-end correspondence, byte agreement itself is checked by execution (partial for labelled programs).",
   tech="Lean 4 proof (state equality / refinement to a scanning spec) + differential correspondence + cross-front-end comparison"),
 "C17": dict(text="Lean 4 theorems: align reaches the least multiple with the fewest filler bytes (align_correct) and each assembler type emits exactly that padding (simple/vec/exec_align_emits, session_emit_spec for the modifiers); push_uN/iN are little-endian (push_le); literal pool bookkeeping mirrors emission when the start offset is a multiple of the alignments used, every entry lands at start + returned offset, naturally aligned (pool_align_tracks, pool_push_places). Tied to all five align implementations, the push helpers and LitPool by the asm correspondence stream and by direct evaluation on the implementation's offsets and bytes.",
   note="Trusted: Lean kernel, harness/rt. f32/f64::to_bits not modelled. Directive lowering in the macro (plugin/src/directive.rs) is not yet covered (runtime half only).",
   tech="Lean 4 proof (arithmetic + induction over pool pushes) + differential correspondence + direct property evaluation"),
}
ORDER = sorted(CLAIMS)
props = [json.loads(l) for l in open(f"{V}/properties.jsonl")]
checks = []
for pid in ORDER:
    c = CLAIMS[pid]
    checks.append({"property_id": pid, "quick_cmd": f"./check {pid} --tier quick", "thorough_cmd": f"./check {pid} --tier thorough",
                   "evidence_file": f"/verif/evidence/{pid}.json", "replay_cmd_template": f"./check {pid} --replay {{path}}",
                   "engine": "lean4-proof+correspondence",
                   "level_claimed": {"category": "proof", "text": c["text"], "design_ref": f"DESIGN.md §4 {pid}"},
                   "level_note": c["note"], "technique": c["tech"]})
na = [{"property_id": p["id"], "reason": "check not built yet in this session (planned, see DESIGN.md §9 build order)"} for p in props if p["id"] not in CLAIMS]
hooks_commits = []
m = {"version": 1, "setup_cmd": "./check --setup",
     "hooks": {"guard": "dynasm_verif", "enable": "RUSTFLAGS=\"--cfg dynasm_verif\" (set in harness/rt/.cargo/config.toml; no hook is compiled without it)",
               "baseline_off_cmd": "cd /repo && cargo test --workspace --no-fail-fast --offline", "source_commits": hooks_commits, "add_only": True},
     "engines": [{"name": "lean4-proof+correspondence", "path": "/verif/check", "serves_properties": ORDER,
                  "kind_free_text": "Lean 4 models + theorems (lean/), tied to /repo by Rust correspondence harnesses (harness/) driven through a line protocol; orchestration in lib/"}],
     "checks": checks,
     "notes": "See DESIGN.md. Fix commits in /repo are listed in known_findings.json (fixed:).",
     "not_applicable": na}
json.dump(m, open(f"{V}/MANIFEST.json", "w"), indent=1)
print("claimed:", ORDER)
