"""C08 — assembler memory is never writable and executable at the same time.
Proof: Props/C08.lean over Model/Conc: shared_never_writable, writable_is_private, reader_sees_rx, slot_empty_only_under_write_lock,
finalize_returns_rx (inductive invariant, every interleaving).
Tie: at every cfg(dynasm_verif) observation point inside commit / alter / finalize and between API calls the harness samples
/proc/self/maps: no mapping writable+executable anywhere in the process; the protection of the mapping that holds the committed code
must be the one the model gives for that point; what a reader is granted is r-x; strace of the mmap/mprotect calls: none asks for
PROT_WRITE|PROT_EXEC. Partial: that mprotect does what memmap2 says, and that nothing else maps memory, is observed, not proved."""
import c09

MODULES = ["DynasmVerif.Props.C08"]


def check(run):
    c09.check(run, focus="C08", modules=MODULES)


replay = c09.replay
