"""C03 — runtime-supplied operands encode exactly like the same literal operands.
Proof: Generated/A64Dyn.lean (regenerated every run): the run-time expression the macro generates, translated from the Rust text, equals
the literal path model for every value of the operand type, with and without overflow checks (bv_decide); Props/C03.lean.
x86/x64 dynamic registers and run-time displacements in memory operands: C13's theorems (dynamic = static function of the run-time number).
Tie: literal spelling through the plugin vs the literal-path model; run-time spelling through the real macro + rustc vs the translation;
and literal vs run-time pairwise on the implementation."""
import json

import common
import dyn
import enc
import encgen

MODULES = ["DynasmVerif.Props.C03"]
FOCUS = "C03"
SUFFIX = ("_dyn_eq_static_checked", "_dyn_eq_static_release")


def check(run, focus=FOCUS, modules=MODULES, suffix=SUFFIX):
    thorough = run.tier == "thorough"
    common.base_trusted(run, bv=True)
    run.coverage["trusted_base"] += ["lib/rustexpr.py: translator from the generated Rust expression to bit-vector terms (validated on every run against rustc's evaluation of the same expression)",
                                     "Model/A64Enc.lean: transcription of the literal (compile-time) arms, validated against the plugin on every run",
                                     "Model/A64Imm.lean for the special immediates (C14)", "harnesses plug and dyn; rustc's evaluation of the generated code is what is observed"]
    run.assumptions += ["theorems: aarch64 immediate and offset slots, x64 memory operands (C13); x86/x64 dynamic registers in every register slot of every encoding class are compared "
                        "literal-vs-run-time by execution and disassembly (lib/x64dyn.py), aarch64/riscv dynamic register slots and riscv immediates not yet",
                        "float literals enter as the f32 they round to"]
    ok, log = common.build_harness("plug")
    if not ok:
        run.violation("broken-correspondence", {"kind": "harness-build"}, "harness/plug does not build against the working tree", {"log": log[-3000:]}, found_input=False)
        return
    try:
        gen = encgen.gen_a64dyn()
    except Exception as e:       # noqa
        run.violation("broken-correspondence", {"kind": "translator"}, f"the obligations could not be generated: {e}", found_input=False)
        return
    try:
        gen_rv = encgen.gen_rvdyn()
    except Exception as e:       # noqa
        run.violation("broken-correspondence", {"kind": "translator", "arch": "riscv"}, f"the riscv obligations could not be generated: {e}", found_input=False)
        return
    try:
        gen_reg = encgen.gen_regdyn()
    except Exception as e:       # noqa
        run.violation("broken-correspondence", {"kind": "translator", "arch": "registers"}, f"the register obligations could not be generated: {e}", found_input=False)
        return
    # the literal-operand arms of compile_instruction themselves, translated from their text for every command group of today's table and
    # proved equal to the hand model the obligations are stated about (Generated/A64Static.lean)
    import os
    import statictrans
    static_msg = None
    modules = list(modules)
    try:
        st = statictrans.translate_all()
        statictrans.emit_lean(st, os.path.join(common.GEN, "A64Static.lean"))
        modules.append("DynasmVerif.Generated.A64Static")
        run.coverage["trusted_base"] += [f"lib/statictrans.py (text of 17 literal-operand arms + static_range_check -> Lean, {len(st)} command groups proved equal to Model/A64Enc)"]
    except statictrans.Untranslatable as ex:
        static_msg = f"the literal-operand arms of the aarch64 compiler can no longer be translated (lib/statictrans.py): {ex}"
    import rvstatictrans
    try:
        rst = rvstatictrans.translate_all()
        rvstatictrans.emit_lean(rst, os.path.join(common.GEN, "RvStatic.lean"))
        modules.append("DynasmVerif.Generated.RvStatic")
        run.coverage["trusted_base"] += [f"lib/rvstatictrans.py (text of the riscv literal branches, static_range_check and gather_fields -> Lean, {len(rst)} (check, fields) groups proved equal to Model/RvEnc)"]
    except rvstatictrans.Untranslatable as ex:
        static_msg = (static_msg + "; " if static_msg else "") + f"the literal-operand branches of the riscv compiler can no longer be translated (lib/rvstatictrans.py): {ex}"
    # an obligation may be left out only for the structural reason known on the pinned tree (an operand spread over two run-time words: tbz/tbnz);
    # one that can no longer be translated or instantiated is a theorem that is no longer stated
    unstated = []
    for (arch_, g) in (("aarch64", gen), ("riscv", gen_rv), ("registers", gen_reg)):
        for ob in g.get("obligations", []):
            why = ob.get("skip")
            if why and not why.startswith("not a single run-time word"):
                unstated.append((arch_, ob.get("mnemonic") or ob.get("line") or ob.get("lean_cmds") or str(ob.get("n")), why))
    reg_suffix = ("_dyn_eq_static_checked", "_dyn_eq_static_release") if focus == "C03" else ("_injective",)
    extra_reg = ["DynasmVerif.RegDyn." + t for t in gen_reg["theorems"] if t.endswith(reg_suffix)]
    extra = extra_reg + ["DynasmVerif.A64Dyn." + t for t in gen["theorems"] if t.endswith(suffix)] + ["DynasmVerif.RvDyn." + t for t in gen_rv["theorems"] if t.endswith(suffix)]
    proofs_ok = common.standard_proof_step(run, modules, allow_bv_decide=True, extra_targets=["driver"], extra_theorems=extra)
    found_before = len(run.violations) + len(run.known_hit)
    if not proofs_ok and hasattr(run, "broken_build"):
        ok2, _ = common.lake_build(["driver"])
        if not ok2:
            run.violation("broken-obligation", {"kind": "lean-build"}, run.broken_build["first_error"], run.broken_build, found_input=False)
            return
    stats = enc.sweep(run, gen, focus, thorough)
    stats["riscv_immediates"] = enc.sweep_rv(run, gen_rv, focus, thorough)
    if focus == "C03":
        import x64dyn
        stats["x64_dynamic_registers"] = x64dyn.sweep(run, thorough)
    import regdyn
    stats["a64_rv_dynamic_registers"] = regdyn.sweep(run, focus, thorough)
    stats["register_obligations"] = enc.sweep_reg_translation(run, gen_reg, focus)
    # operands no generated theorem reaches (Zcmp lists and stack adjustments, Zfa, CSR numbers): independent reference; under C03 for the run-time spellings too
    import rvspecial
    stats["riscv_special_operands"] = rvspecial.sweep(run, thorough)
    if unstated:
        found = (len(run.violations) + len(run.known_hit)) > found_before
        run.violation("broken-obligation", {"kind": "obligation-not-stated", "first": str(unstated[0][1])[:80]},
                      "; ".join(f"{a} `{m}`: {w[:120]}" for (a, m, w) in unstated[:4]) + ": the run-time expression of this operand can no longer be translated, so its theorems are not stated",
                      {"unstated": [list(u) for u in unstated]}, found_input=found)
    run.coverage["evaluations"] = stats["literal"] + stats["runtime"]
    run.coverage["distinct_nontrivial"] = stats["literal_accepted"] + stats["runtime_accepted"]
    run.coverage["rule"] = ("every distinct immediate command group of the aarch64 table (one representative form each) x boundary values of the documented set, values just outside, "
                            "all small values, powers of two +-1, type extremes, random values; literal spelling (plugin) and run-time spelling (real macro via rustc); "
                            "non-trivial = accepted operand")
    run.coverage["traces_validated_against_impl"] = stats["literal"] + stats["runtime"]
    run.coverage["distribution"] = stats
    run.coverage["samples"] = [o["line"] for o in gen["obligations"][:3] if "line" in o]
    if static_msg:
        run.violation("broken-correspondence", {"kind": "static-arm-translation"}, static_msg, found_input=(len(run.violations) + len(run.known_hit)) > found_before)
    if not proofs_ok and hasattr(run, "broken_build"):
        found = (len(run.violations) + len(run.known_hit)) > found_before
        run.violation("broken-obligation", {"kind": "lean-build", "first": run.broken_build["first_error"][:200]}, run.broken_build["first_error"], run.broken_build, found_input=found)


def replay(path):
    rec = json.load(open(path))
    print(json.dumps({k: rec.get(k) for k in ("property", "kind", "what")}, indent=1))
    p = rec.get("payload", {})
    if p.get("stream") == "plug" and p.get("input"):
        common.build_harness("plug")
        for r, a in zip(p["input"], enc.plug(p["input"])):
            print(r, "\n  impl:", a)
    elif p.get("stream") == "dyn":
        ok, log = dyn.build("C03R", [p["case"]])
        print(p["case"]["body"], p["values"], "->", dyn.run("C03R", [(0, p["values"])]) if ok else log[-2000:])
        if p.get("literal_line"):
            print("literal:", enc.plug(["cl ; .arch aarch64 ; " + p["literal_line"]]))
    if p.get("model_input"):
        common.lake_build(["driver"])
        print(common.run_model("\n".join(p["model_input"]) + "\n")[1])
    return 0 if p else 1
