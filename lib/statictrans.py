"""T-bits translator for the COMPILE-TIME (literal operand) path of the aarch64 immediate commands (C03 / C04): the text of the arms
`Command::Ubits | Uscaled | Uslice | Ulist | Urange | Usubone | Usubzero | Usubmod | Usum | Ufields | Sbits | Sscaled | Sslice | CUbits | CUsum | CSscaled | CUrange` of
`compile_instruction` and of `static_range_check` (plugin/src/arch/aarch64/compiler.rs), with `bitmask` of plugin/src/common.rs inlined, is
executed symbolically for every distinct command group of today's table (parameters are the table's constants) and printed into
lean/DynasmVerif/Generated/A64Static.lean: `sg<k>_ok v` (the literal is accepted) and `sg<k>_val v` (its contribution `value << offset` to
the instruction word), `v` being the i64/u64 the plugin parses. Each is proved equal to the hand model `A64Enc.slotStatic` the C03/C04
obligations are stated about (generated theorem `sg<k>_is_model`, every 64-bit literal). Arms outside the list (lists, coupled operands, bit
scatter, specials, jump targets) stay hand-modelled and tied by correspondence."""
import os
import re

import rustexpr as rx
from rustexpr import N, Untranslatable, const, band, bor, bnot, btrue, bfalse, fold, TYPES
import reloctrans as rt
import immtrans

SRC = "/repo/plugin/src/arch/aarch64/compiler.rs"
SUPPORTED = {"Ubits": ("offset", "bitlen"), "Uscaled": ("offset", "bitlen", "shift"), "Uslice": ("offset", "bitlen", "shift"),
             "Urange": ("offset", "min", "max"), "Usubone": ("offset", "bitlen"), "Usubzero": ("offset", "bitlen"), "Usubmod": ("offset", "bitlen"),
             "Sbits": ("offset", "bitlen"), "Sscaled": ("offset", "bitlen", "shift"), "Sslice": ("offset", "bitlen", "shift"),
             "CUbits": ("bitlen",), "CSscaled": ("bitlen", "shift"), "CUrange": ("min", "max"),
             "Ufields": ("bitfields",), "Ulist": ("offset", "options"), "Usum": ("offset", "bitlen"), "CUsum": ("bitlen",)}
COUPLED = {"Usum", "CUsum"}
# the special immediates whose literal is an integer (float literals enter through as_float and an f32 cast: not translated;
# the literal path of INVERTED_WIDE_IMMEDIATE_X is switched off in the source)
SPECIAL_INT = {"WIDE_IMMEDIATE_W": ("encode_wide_immediate_32bit", "u32"), "WIDE_IMMEDIATE_X": ("encode_wide_immediate_64bit", "u64"),
               "INVERTED_WIDE_IMMEDIATE_W": ("encode_wide_immediate_32bit", "u32"), "STRETCHED_IMMEDIATE": ("encode_stretched_immediate", "u64"),
               "LOGICAL_IMMEDIATE_W": ("encode_logical_immediate_32bit", "u32"), "LOGICAL_IMMEDIATE_X": ("encode_logical_immediate_64bit", "u64")}
HELPERS_SRC = "/repo/plugin/src/arch/aarch64/encoding_helpers.rs"


def translate_special(text, helpers, offset, kind):
    """the literal branch of one arm of handle_special_immediates; falling out of the match is the error"""
    fn, pty = SPECIAL_INT[kind]
    body = rt.fn_body(text, "handle_special_immediates")
    m = re.search(r"SpecialComm::" + kind + r"\s*=>\s*if\s+let\s+Some\(number\)\s*=\s*as_unsigned_number\(imm\)\s*\{", body)
    if not m:
        raise Untranslatable(f"Special {kind}: the literal is no longer taken with as_unsigned_number")
    i = m.end() - 1
    blk = body[i + 1:rt.matching(body, i) - 1].strip()
    if not re.search(r"emit_error!\(imm,[^;]*\);\s*Err\(None\)\s*$", body.strip()):
        raise Untranslatable("handle_special_immediates no longer ends in the error")
    s = SSym(helpers, True)
    s.env["offset"] = rx.Val(const(offset, 8), TYPES["u8"])
    s.env["number"] = rx.Val(rx.var("v", 64), TYPES["u64"])
    guard = btrue()
    mg = re.fullmatch(r"if\s+(number\s*<=\s*u64::from\(u32::MAX\))\s*\{(.*)\}", blk, flags=re.S)
    if mg:
        g = mg.group(1).replace("u32::MAX", "0xFFFF_FFFFu32")
        guard = s.run(rx.parse(g)).n
        blk = mg.group(2).strip()
    mi = re.fullmatch(r"if\s+let\s+Some\(encoded\)\s*=\s*encoding_helpers::" + fn + r"\((.*?)\)\s*\{(.*?)return\s+Ok\(\(\)\);\s*\}", blk, flags=re.S)
    if not mi:
        raise Untranslatable(f"Special {kind}: literal branch shape: {' '.join(blk.split())[:120]}")
    arg = s.coerce(s.run(rx.parse(mi.group(1))), TYPES[pty])
    htext = rt.strip_comments(open(HELPERS_SRC).read())
    d = immtrans.translate_fn(htext, fn, pty, helpers, True, arg=arg)
    s.env["encoded"] = rx.Val(d["val"], (d["w"], False))
    word = const(0, 32)
    pushes = re.findall(r"statics\.push\(\((.*?),\s*(.*?)\)\);", mi.group(2), flags=re.S)
    if not pushes:
        raise Untranslatable(f"Special {kind}: nothing pushed")
    for off, expr in pushes:
        o = fold(s.coerce(s.run(rx.parse(off)), TYPES["u8"]).n)
        v = s.coerce(s.run(rx.parse(expr)), TYPES["u32"])
        if o.op != "const" or o.k >= 32 or v.ty[0] != 32:
            raise Untranslatable(f"Special {kind}: push ({off}, {expr})")
        word = N("or", (word, N("shl", (v.n, const(o.k, 32)), 32)), 32)
    return fold(band(guard, d["ok"])), fold(word), fold(bor(s.panic, band(guard, d["panic"])))


class SSym(immtrans.ISym):
    def run(self, e):
        if e[0] == "call" and e[1][-1] == "__pair":
            a, b = self.run(e[2][0]), self.run(e[2][1])
            return rx.Val((a, b), "tuple")
        if e[0] == "call" and e[1][-1] == "bitmask":
            e = ("call", ["__bitmask32"], e[2])
        return super().run(e)


def check_body(text):
    body = rt.fn_body(text, "static_range_check")
    body = re.sub(r"#!\[[^\]]*\]", "", body)
    body, n = re.subn(r"let\s+value\s*=\s*match\s+as_signed_number\(expr\)\s*\{[^}]*\}\s*;", "", body)
    if n != 1:
        raise Untranslatable("static_range_check no longer starts by parsing the literal with as_signed_number")
    body = re.sub(r"#\[cfg\([^\]]*\)\]\s*return\s+Ok\(None\)\s*;", "", body)
    body = re.sub(r"emit_error!\([^;]*\);", "", body)
    body = re.sub(r"return\s+Err\(None\)\s*;", "__fail();", body)
    body = re.sub(r"\bErr\(None\)", "None", body)
    body, n = re.subn(r"Ok\(Some\(\(([^,]+),([^)]+)\)\)\)", r"__pair(\1, \2)", body)
    if n != 1:
        raise Untranslatable("static_range_check: result tuple not found")
    return body


OFFSET_KINDS = ("B", "BCOND", "ADR", "ADRP", "TBZ")


def offset_arm_text(text, kind):
    m = re.search(r"Command::Offset\(relocation\)\s*=>\s*match\s+relocation\s*\{", text)
    if not m:
        raise Untranslatable("arm Command::Offset not found")
    i = m.end() - 1
    blk = text[i + 1:rt.matching(text, i) - 1]
    mk = re.search(r"Relocation::" + kind + r"\s*=>\s*\{", blk)
    if not mk:
        raise Untranslatable(f"Offset: arm Relocation::{kind} not found")
    j = mk.end() - 1
    return blk[j + 1:rt.matching(blk, j) - 1]


def arm_text(text, name):
    m = re.search(r"Command::" + name + r"\(([^)]*)\)\s*=>\s*\{", text)
    if not m:
        raise Untranslatable(f"arm Command::{name} not found")
    params = tuple(p.strip() for p in m.group(1).split(","))
    if params != SUPPORTED[name]:
        raise Untranslatable(f"arm Command::{name} binds {params}, expected {SUPPORTED[name]}")
    i = m.end() - 1
    return text[i + 1:rt.matching(text, i) - 1]


def translate_arm(text, helpers, chk, name, args):
    """returns (ok IR, contribution IR (32 bit) or None) over the variable v (64 bit)"""
    if name == "Special":
        return translate_special(text, helpers, args[0], args[1])
    if name == "Offset":
        arm = offset_arm_text(text, args[0])
        args = []
    else:
        arm = arm_text(text, name)
    m_if = re.search(r"\bif\b", arm)
    if not m_if:
        raise Untranslatable(f"{name}: no static branch")
    prelude, rest = arm[:m_if.start()], arm[m_if.start():]
    s = SSym(helpers, True)
    lists = {}
    for p, a in zip(SUPPORTED.get(name, ()), args):
        if isinstance(a, list):
            lists[p] = a
            arm = arm.replace(f"{p}.len()", f"{len(a)}usize")
        else:
            s.env[p] = rx.Val(const(a, 8), TYPES["u8"])
    m_if = re.search(r"\bif\b", arm)
    prelude, rest = arm[:m_if.start()], arm[m_if.start():]
    if prelude.strip() and name not in COUPLED:
        for st in rx.P(rx.tokenize("{" + prelude + " ; }")).block()[1]:
            s.exec_stmt(st)

    def run_check(a_, b_, c_):
        sub = SSym(helpers, True)
        sub.env = {"value": rx.Val(rx.var("v", 64), TYPES["i64"]),
                   "bias": s.coerce(s.run(rx.parse(a_)), TYPES["i32"]), "range": s.coerce(s.run(rx.parse(b_)), TYPES["u32"]),
                   "scale": s.coerce(s.run(rx.parse(c_)), TYPES["u8"])}
        for k in ("bias", "scale") + (() if name in COUPLED else ("range",)):
            if fold(sub.env[k].n).op != "const":
                raise Untranslatable(f"{name}: argument {k} of static_range_check is not a constant of the table")
        res = sub.exec_body(rx.P(rx.tokenize("{" + chk + "}")).block())
        if res is None or res.ty != "tuple":
            raise Untranslatable("static_range_check: no result pair")
        # an arithmetic overflow inside the range check panics a debug build of the plugin (= the literal is refused, loudly) and wraps in a
        # release build: both are kept, the theorem says that a wrapped value is refused as well
        s.panic = bor(s.panic, sub.panic)
        return fold(bnot(sub.err)), res.n[0], res.n[1]

    # Usum / CUsum: the operand is coupled to the previous one (lsb + width of the bitfield aliases); both literal here
    if name in COUPLED:
        if not re.search(r"let\s+prev_value\s*=\s*if\s+let\s+Some\(FlatArg::Immediate\s*\{\s*value:\s*prev_value\s*\}\s*\)\s*=\s*data\.args\.get\(cursor\s*-\s*1\)", arm):
            raise Untranslatable(f"{name}: the previous operand is no longer taken from data.args[cursor - 1]")
        mcs = re.search(r"if\s+let\s+Some\(prev_number\)\s*=\s*as_unsigned_number\(prev_value\)\s*\{\s*if\s+prev_number\s*>\s*mask\s+as\s+u64\s*\{\s*emit_error!\([^;]*\);\s*return\s+Err\(None\);\s*\}\s*;?\s*(.*?)\}\s*else\s*\{\s*None\s*\}\s*;", arm, flags=re.S)
        if not mcs:
            raise Untranslatable(f"{name}: the literal branch of the coupled check has changed")
        s2 = SSym(helpers, True)
        s2.env = dict(s.env)
        m_mask = re.search(r"let\s+mask\s*=\s*([^;]+);", arm)
        if not m_mask:
            raise Untranslatable(f"{name}: no mask")
        s2.env["mask"] = s2.coerce(s2.run(rx.parse(m_mask.group(1))), TYPES["u32"])
        s2.env["prev_number"] = rx.Val(rx.var("prev", 64), TYPES["u64"])
        s.env, s.panic = s2.env, s.panic
        too_big = s2.run(rx.parse("prev_number > mask as u64"))
        inner = mcs.group(1).strip()
        if name == "Usum":
            mi = re.fullmatch(r"if\s+let\s+Some\(\((\w+),\s*_\)\)\s*=\s*static_range_check\(value,\s*([^,]+),\s*([^,]+(?:\([^)]*\))?[^,]*),\s*([^)]+)\)\?\s*\{\s*Some\((.*?)\)\s*\}\s*else\s*\{\s*None\s*\}", inner, flags=re.S)
            mp = re.search(r"if\s+let\s+Some\(number\)\s*=\s*number\s*\{\s*statics\.push\(\((\w+),\s*(.*?)\)\);", arm, flags=re.S)
            if not mi or not mp:
                raise Untranslatable("Usum: literal branch shape")
            ok, biased, scaled = run_check(mi.group(2), mi.group(3), mi.group(4))
            s.env[mi.group(1)] = biased
            s.env["number"] = s.coerce(s.run(rx.parse(mi.group(5))), TYPES["u32"])
            o = fold(s.coerce(s.run(rx.parse(mp.group(1))), TYPES["u8"]).n)
            val = s.coerce(s.run(rx.parse(mp.group(2))), TYPES["u32"])
            return fold(band(bnot(too_big.n), ok)), fold(N("shl", (val.n, const(o.k, 32)), 32)), fold(band(bnot(too_big.n), s.panic))
        mi = re.fullmatch(r"static_range_check\(value,\s*([^,]+),\s*([^,]+(?:\([^)]*\))?[^,]*),\s*([^)]+)\)\?", inner, flags=re.S)
        if not mi:
            raise Untranslatable("CUsum: literal branch shape")
        ok, _, _ = run_check(mi.group(1), mi.group(2), mi.group(3))
        return fold(band(bnot(too_big.n), ok)), None, fold(band(bnot(too_big.n), s.panic))
    # Ufields: one field per bit of the operand, the last listed field takes bit 0
    mf = re.match(r"if\s+let\s+Some\(\((\w+),\s*(\w+)\)\)\s*=\s*static_range_check\(value,\s*([^,]+),\s*([^,]+),\s*([^)]+)\)\?\s*\{\s*for\s*\(i,\s*&field\)\s*in\s+bitfields\.iter\(\)\.rev\(\)\.enumerate\(\)\s*\{\s*statics\.push\(\(field,\s*(.*?)\)\);\s*\}\s*\}\s*else", rest, flags=re.S)
    if name == "Ufields":
        if not mf:
            raise Untranslatable("Ufields: the static branch is not the known loop over the reversed field list")
        ok, biased, scaled = run_check(mf.group(3), mf.group(4), mf.group(5))
        for nm, val in ((mf.group(1), biased), (mf.group(2), scaled)):
            if nm != "_":
                s.env[nm] = val
        word = const(0, 32)
        for i, field in enumerate(reversed(lists["bitfields"])):
            s.env["i"] = rx.Val(const(i, 64), TYPES["usize"])
            v = s.coerce(s.run(rx.parse(mf.group(6))), TYPES["u32"])
            if field >= 32:
                raise Untranslatable(f"Ufields: field offset {field}")
            word = N("or", (word, N("shl", (v.n, const(field, 32)), 32)), 32)
        return ok, fold(word), fold(s.panic)
    # Ulist: the index of the LAST option equal to the number
    ml = re.match(r"if\s+let\s+Some\(number\)\s*=\s*as_unsigned_number\(value\)\s*\{\s*if\s+let\s+Some\(i\)\s*=\s*options\.iter\(\)\.rposition\(\|&n\|\s*u64::from\(n\)\s*==\s*number\)\s*\{\s*statics\.push\(\((\w+),\s*i\s+as\s+u32\)\);\s*\}\s*else\s*\{\s*emit_error!\([^;]*\);\s*return\s+Err\(None\);\s*\}\s*\}\s*else", rest, flags=re.S)
    if name == "Ulist":
        if not ml:
            raise Untranslatable("Ulist: the static branch is not the known rposition lookup")
        number = rx.var("v", 64)
        found, idx = bfalse(), const(0, 32)
        for i, opt in enumerate(lists["options"]):
            hit = N("eq", (const(opt, 64), number), 0)          # u64::from(n) == number
            found = bor(found, hit)
            idx = N("ite", (hit, const(i, 32), idx), 32)       # later matches win: rposition
        o = fold(s.coerce(s.run(rx.parse(ml.group(1))), TYPES["u8"]).n)
        return fold(found), fold(N("shl", (idx, const(o.k, 32)), 32)), bfalse()
    ma = re.match(r"if\s+let\s+Some\(\((\w+),\s*(\w+)\)\)\s*=\s*static_range_check\(value,\s*([^,]+),\s*([^,]+),\s*([^)]+)\)\?\s*\{((?:\s*statics\.push\(\(\w+,\s*[^;]*\)\);)+)\s*\}\s*else", rest, flags=re.S)
    mb = re.match(r"if\s+let\s+Some\(value\)\s*=\s*(as_unsigned_number|as_signed_number)\(value\)\s*\{\s*statics\.push\(\((\w+),\s*(.*?)\)\);\s*\}\s*else", rest, flags=re.S)
    mc = re.match(r"if\s+static_range_check\(value,\s*([^,]+),\s*([^,]+),\s*([^)]+)\)\?\.is_none\(\)\s*\{", rest, flags=re.S)
    if ma:
        ok, biased, scaled = run_check(ma.group(3), ma.group(4), ma.group(5))
        for nm, val in ((ma.group(1), biased), (ma.group(2), scaled)):
            if nm != "_":
                s.env[nm] = val
        pushes = re.findall(r"statics\.push\(\((\w+),\s*([^;]*)\)\);", ma.group(6))
        word = const(0, 32)
        for off, expr in pushes:
            o = fold(s.coerce(s.run(rx.parse(off)), TYPES["u8"]).n)
            val = s.coerce(s.run(rx.parse(expr)), TYPES["u32"])
            if o.op != "const" or o.k >= 32 or val.ty[0] != 32:
                raise Untranslatable(f"{name}: push ({off}, {expr})")
            word = N("or", (word, N("shl", (val.n, const(o.k, 32)), 32)), 32)
        return ok, fold(word), fold(s.panic)
    elif mb:
        ok = btrue()
        s.env["value"] = rx.Val(rx.var("v", 64), TYPES["u64" if mb.group(1) == "as_unsigned_number" else "i64"])
        off, expr = mb.group(2), mb.group(3)
    elif mc:
        ok, _, _ = run_check(mc.group(1), mc.group(2), mc.group(3))
        return ok, None, fold(s.panic)
    else:
        raise Untranslatable(f"{name}: the static branch has none of the three known shapes: {' '.join(rest.split())[:140]}")
    o = fold(s.coerce(s.run(rx.parse(off)), TYPES["u8"]).n)
    if o.op != "const":
        raise Untranslatable(f"{name}: offset is not a constant")
    val = s.coerce(s.run(rx.parse(expr)), TYPES["u32"])
    if val.ty[0] != 32:
        raise Untranslatable(f"{name}: pushed value of width {val.ty[0]}")
    # `bits |= value << offset` (u32; an offset >= 32 would panic in a debug build: the table predicate of C19 excludes it)
    if o.k >= 32:
        raise Untranslatable(f"{name}: offset {o.k}")
    return ok, fold(N("shl", (val.n, const(o.k, 32)), 32)), fold(s.panic)


def groups_of_table():
    """distinct immediate command groups of today's table whose commands are all translated arms: list of (lean_cmds, [(name, args)])"""
    import encgen
    import rustdebug
    import tables
    out, seen = [], set()
    for r in tables.dump("aarch64"):
        if "m" not in r:
            continue
        for idx, g in sorted(encgen.group_commands(rustdebug.parse(r["commands"])).items()):
            names = [encgen.name_of(c) for c in g]
            if not names or not all(n in SUPPORTED or (n == "Special" and c[2] in SPECIAL_INT) or (n == "Offset" and c[1] in OFFSET_KINDS) for n, c in zip(names, g)):
                continue
            key = encgen.lean_cmds(g)
            if key in seen:
                continue
            seen.add(key)
            out.append((key, [(c[0], [x if isinstance(x, (list, str)) and not str(x).lstrip("-").isdigit() else int(x) for x in c[1:]]) for c in g]))
    return out


def translate_all():
    text = rt.strip_comments(open(SRC).read())
    common = rt.strip_comments(open("/repo/plugin/src/common.rs").read())
    helpers = {"__bitmask32": immtrans.prepare(rt.fn_body(common, "bitmask")), "__bitmask64": immtrans.prepare(rt.fn_body(common, "bitmask64"))}
    chk = check_body(text)
    # the statics are applied by `bits |= value << offset`
    if not re.search(r"for\s*\(offset,\s*value\)\s*in\s+statics\s*\{\s*bits\s*\|=\s*value\s*<<\s*offset;\s*\}", text):
        raise Untranslatable("the loop applying the static fields (`bits |= value << offset`) has changed")
    out = []
    for key, g in groups_of_table():
        ok, val, pan = btrue(), const(0, 32), bfalse()
        for (name, args) in g:
            try:
                o, v, pn = translate_arm(text, helpers, chk, name, args)
                pan = bor(pan, pn)
            except Untranslatable as ex:
                raise Untranslatable(f"{key}: {ex}")
            except (KeyError, IndexError, ValueError, AttributeError, TypeError) as ex:
                raise Untranslatable(f"{key}: translator failed with {type(ex).__name__}: {ex}")
            ok = band(ok, o)
            if v is not None:
                val = N("or", (val, v), 32)
        out.append((key, fold(ok), fold(val), fold(pan), any(n in COUPLED for (n, _) in g), any(n == "Special" for (n, _) in g)))
    return out


def emit_lean(tr, path):
    L = ["import Std.Tactic.BVDecide", "import DynasmVerif.Model.A64Enc", "import DynasmVerif.Model.EncUtil", "",
         "/-! GENERATED by lib/statictrans.py from the text of the literal-operand arms of compile_instruction and of static_range_check",
         "(plugin/src/arch/aarch64/compiler.rs), one definition per distinct command group of today's table — do not edit. -/",
         "set_option maxRecDepth 100000", "set_option maxHeartbeats 1000000",
         "namespace DynasmVerif.A64Static", "open DynasmVerif.A64 DynasmVerif.A64Enc DynasmVerif.Enc", ""]
    names = []
    for k, (key, ok, val, pan, coupled, special) in enumerate(tr):
        L.append(f"/-- `{key}` -/")
        if coupled:
            # `prev` = the previous (literal) operand the command is coupled to
            L.append(f"def sg{k}_ok (prev v : BitVec 64) : Bool := {rx.lean(ok)}")
            L.append(f"def sg{k}_val (prev v : BitVec 64) : BitVec 32 := {rx.lean(val)}")
            L.append(f"def sg{k}_overflow (prev v : BitVec 64) : Bool := {rx.lean(pan)}")
            L.append(f"theorem sg{k}_is_model (prev v : BitVec 64) :")
            L.append(f"    sg{k}_ok prev v = (slotStatic {key} prev v).1 ∧ (sg{k}_ok prev v = true → sg{k}_val prev v = (slotStatic {key} prev v).2) ∧")
            L.append(f"    (sg{k}_overflow prev v = true → sg{k}_ok prev v = false) := by")
            L.append(f"  simp only [sg{k}_ok, sg{k}_val, sg{k}_overflow]")
            L.append("  enc_unfold")
            L.append("  bv_decide (config := { timeout := 120 })")
            L.append("")
            names.append(f"sg{k}_is_model")
            continue
        L.append(f"def sg{k}_ok (v : BitVec 64) : Bool := {rx.lean(ok)}")
        L.append(f"def sg{k}_val (v : BitVec 64) : BitVec 32 := {rx.lean(val)}")
        L.append(f"def sg{k}_overflow (v : BitVec 64) : Bool := {rx.lean(pan)}")
        if special:
            L.append("set_option maxHeartbeats 8000000 in")
        L.append(f"theorem sg{k}_is_model (v : BitVec 64) :")
        L.append(f"    sg{k}_ok v = (slotStatic {key} 0#64 v).1 ∧ (sg{k}_ok v = true → sg{k}_val v = (slotStatic {key} 0#64 v).2) ∧")
        L.append(f"    (sg{k}_overflow v = true → sg{k}_ok v = false) := by")
        L.append(f"  simp only [sg{k}_ok, sg{k}_val, sg{k}_overflow]")
        L.append("  enc_unfold")
        if special:
            L.append("  try simp only [" + ", ".join(f"DynasmVerif.A64Imm.{ns}.{fn}" for ns in ("L32", "L64") for fn in ("encOk", "encVal", "es", "element", "rotl", "rotr1", "ctz", "popc")) + "]")
            L.append("  bv_decide (config := { timeout := 3000 })")
        else:
            L.append("  bv_decide (config := { timeout := 120 })")
        L.append("")
        names.append(f"sg{k}_is_model")
    L.append("end DynasmVerif.A64Static")
    text = "\n".join(L) + "\n"
    if not os.path.exists(path) or open(path).read() != text:
        open(path, "w").write(text)
    return names


if __name__ == "__main__":
    tr = translate_all()
    print(len(tr), "groups")
    for key, ok, val, pan, _, _ in tr[:6]:
        print(key, "| ok:", rx.lean(ok)[:150], "| val:", rx.lean(val)[:150])
    names = emit_lean(tr, "/tmp/A64Static.lean")
    print(len(names), "theorems")
