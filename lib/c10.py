"""C10 — in-place alteration writes exactly what was emitted, where the cursor says.
Proof: lean/DynasmVerif/Props/C10.lean (emit_writes_at_cursor, emission_fits_or_reported, check_iff, check_exact_iff,
session_frame, session_end_frame).  Tie: `asm` stream with alter sessions on the real Assembler/Modifier."""
import asmcheck
import asmgen
import asmprops
import common
from common import SplitMix, hexb

MODULES = ["DynasmVerif.Props.C10"]


def session_program(rng, fam, labelled, overflow):
    unit = asmgen.UNIT[fam]
    g = asmgen.Gen(rng, "asm", fam, max_ops=10, commits=False)
    lines = [f"new asm {fam}", "nd", "nd"]
    g.ndyn = 2
    n0 = rng.choice([0, 1, 8, 40, 100, 300, 4095, 4096, 4097, 3 * 4096]) if not labelled else rng.choice([64, 200, 600, 4100])
    n0 = (n0 // unit) * unit
    pre = rng.bytes(n0)
    if n0:
        lines.append(f"ex {hexb(pre)}")
    if labelled:
        lines.append("gl 9")       # a global at the end of the initial code
        lines.append("ll 1")
        lines.append(f"ex {hexb(rng.bytes(8 * unit))}")
        n0 += 8 * unit
    lines.append("c")
    size = n0
    n_sessions = rng.range(1, 3)
    meta = {"kind": "session", "overflow": False, "labelled": labelled}
    for si in range(n_sessions):
        lines.append("alter{")
        g.lines = lines
        g.in_session = True
        free = [(0, size)]           # unwritten intervals of this session
        cursor = 0
        steps = rng.range(1, 9)
        for st in range(steps):
            c = rng.below(100)
            if c < 30 and free:
                a, b = rng.choice(free)
                if b - a >= unit:
                    cursor = a + unit * rng.below((b - a) // unit)
                    lines.append(f"goto {cursor}")
                    continue
            room = next((b - cursor for (a, b) in free if a <= cursor < b), 0)
            if c < 65:
                k = unit * rng.range(1, 6)
                if k <= room:
                    bs = rng.bytes(k)
                    kind = rng.choice(["e", "ex", "ev"])
                    lines.append(f"{kind} {hexb(bs)}")
                    free = cut(free, cursor, cursor + k)
                    cursor += k
            elif c < 72 and unit <= 4:
                op, n = rng.choice([("p32", 4), ("p64", 8), ("pi32", 4)] if unit > 2 else [("p16", 2), ("p32", 4), ("p64", 8), ("pi16", 2)])
                if n <= room:
                    v = rng.below(1 << (8 * n - 1))
                    lines.append(f"{op} {v}")
                    free = cut(free, cursor, cursor + n)
                    cursor += n
            elif c < 80:
                lines.append(f"{rng.choice(['chk', 'chkx'])} {rng.choice([cursor, cursor + unit, max(0, cursor - unit), rng.below(size + 2)])}")
            elif c < 84:
                lines.append("off")
            elif c < 90 and labelled:
                shape = g.pick_shape()
                need = shape[2]
                if need <= room:
                    k = rng.below(4)
                    if k == 0:
                        g.ref_line("rg", 9, shape)
                    elif k == 1:
                        g.ref_line("rb", 1, shape)
                    elif k == 2:
                        g.ref_line("rf", 2, shape)
                        g.pending_fwd[2] = 1
                    else:
                        g.ref_line("rd", 0, shape)
                        g.need_dyn = {0}
                    free = cut(free, cursor, cursor + need)
                    cursor += need
            elif c < 94 and labelled:
                lines.append(f"ll {rng.choice([1, 2])}")
                g.pending_fwd.pop(2, None)
            elif c < 97:
                al = rng.choice([2, 4, 8, 16]) if unit > 1 else rng.choice([2, 3, 4, 8])
                pad = asmgen.align_pad(cursor, al)
                if pad <= room:
                    lines.append(f"al {al} {rng.below(256)}")
                    free = cut(free, cursor, cursor + pad)
                    cursor += pad
        if labelled:
            if g.pending_fwd:
                lines.append("ll 2")
                g.pending_fwd.clear()
            if getattr(g, "need_dyn", None) and 0 not in g.defined_dyn:
                lines.append("dl 0")
                g.defined_dyn.add(0)
        if overflow and si == n_sessions - 1:
            # the last emission of the last session does not fit: by 1 byte, by several, or starts at the very end
            over = rng.choice([1, 1, 2, 5])
            k = rng.choice([1, 2, 4, 8])
            cursor = max(0, size - k + over) if size - k + over >= 0 else size
            lines.append(f"goto {cursor}")
            kind = rng.choice(["e", "ex", "ev", "p16", "p32", "p64"])
            if kind in ("e", "ex", "ev"):
                lines.append(f"{kind} {hexb(rng.bytes(size - cursor + over))}")
            else:
                n = {"p16": 2, "p32": 4, "p64": 8}[kind]
                cursor = max(0, size - n + min(over, n - 1)) if size >= 1 else 0
                lines[-1] = f"goto {cursor}"
                lines.append(f"{kind} {rng.below(1 << (8 * n - 1))}")
            meta["overflow"] = True
        lines.append("}alter")
        g.in_session = False
        lines.append("buf")
        if not meta["overflow"] and rng.chance(1, 3):
            more = rng.bytes(unit * rng.range(1, 40))
            lines.append(f"ex {hexb(more)}")
            lines.append("c")
            lines.append("buf")
            size += len(more)
    return lines, meta


def unc_program(rng, fam):
    """an `alter_uncommitted` / `VecAssembler::alter` / `SimpleAssembler::alter` session: the cursor is an ABSOLUTE assembly offset, the buffer
    it indexes starts at the committed length (non-zero on an Assembler that has committed something)"""
    unit = asmgen.UNIT[fam]
    host = rng.choice(["simple", "vec", "asm", "asm", "asm"])
    lines = [{"simple": "new simple", "vec": f"new vec {fam} base=0", "asm": f"new asm {fam}"}[host]]
    base = 0
    if host == "asm" and rng.chance(4, 5):
        base = unit * rng.choice([1, 2, 3, 8, 16, 100, 1024, 1025])
        lines += [f"ex {hexb(rng.bytes(base))}", "c"]
    size = unit * rng.range(1, 40)
    lines.append(f"ex {hexb(rng.bytes(size))}")
    lines.append("unc{")
    cursor = base
    free = [(base, base + size)]
    for _ in range(rng.range(1, 9)):
        c = rng.below(100)
        room = next((b - cursor for (a, b) in free if a <= cursor < b), 0)
        if c < 30 and free:
            a, b = rng.choice(free)
            if b - a >= unit:
                cursor = a + unit * rng.below((b - a) // unit)
                lines.append(f"goto {cursor}")
        elif c < 60:
            k = unit * rng.range(1, 5)
            if k <= room:
                lines.append(f"{rng.choice(['e', 'ex', 'ev'])} {hexb(rng.bytes(k))}")
                free = cut(free, cursor, cursor + k)
                cursor += k
        elif c < 80:
            lines.append(f"{rng.choice(['chk', 'chkx'])} {rng.choice([cursor, cursor + unit, max(0, cursor - unit), cursor - base, base, rng.below(base + size + 2)])}")
        elif c < 88:
            lines.append("off")
        else:
            al = rng.choice([2, 4, 8, 16]) if unit > 1 else rng.choice([2, 3, 4, 8])
            pad = asmgen.align_pad(cursor, al)
            if pad <= room:
                lines.append(f"al {al} {rng.below(256)}")
                free = cut(free, cursor, cursor + pad)
                cursor += pad
    lines += ["}unc", "fin"]
    return lines, {"kind": "unc", "base": base, "overflow": False, "labelled": False}


def unc_evaluator(p, res, meta):
    """python overlay for the uncommitted modifier: absolute cursor, writes land at cursor - base in the pending bytes"""
    image, pending = bytearray(), bytearray()
    cursor, inside = 0, False
    for (req, a, _) in res:
        ws = req.split()
        k = ws[0]
        if a == "dead":
            continue
        if a == "bad-op":
            return None         # not a program (the shrinker removes lines; a session operation outside its block means nothing)
        if a == "panic":
            return ({"kind": "panic", "op": k}, f"`{req[:50]}` panicked although it fits (cursor {cursor}, base {len(image)}, pending {len(pending)})")
        bs = asmgen.parse_emit(ws)
        if bs is None and k == "al" and inside:
            bs = bytes([int(ws[2]) & 0xFF]) * asmgen.align_pad(cursor, int(ws[1]))
        if bs is not None:
            if inside:
                pending[cursor - len(image):cursor - len(image) + len(bs)] = bs
                cursor += len(bs)
            else:
                pending += bs
        elif k == "c" and a.startswith("ok"):
            image += pending
            pending = bytearray()
        elif k == "unc{":
            inside, cursor = True, len(image)
        elif k == "}unc":
            inside = False
        elif k == "goto":
            cursor = int(ws[1])
        elif k == "off" and inside:
            if int(a) != cursor:
                return ({"kind": "cursor"}, f"offset() of the uncommitted modifier is {a}, the cursor should be at {cursor}")
        elif k == "chk" and inside:
            want = "err CheckFailed" if cursor > int(ws[1]) else "ok"
            if a != want:
                return ({"kind": "check"}, f"check({ws[1]}) with the cursor at {cursor} (buffer starts at {len(image)}) returned `{a}`")
        elif k == "chkx" and inside:
            want = "err CheckFailed" if cursor != int(ws[1]) else "ok"
            if a != want:
                return ({"kind": "check-exact"}, f"check_exact({ws[1]}) with the cursor at {cursor} (buffer starts at {len(image)}) returned `{a}`")
        elif k == "fin" and a.startswith("ok"):
            got = bytes.fromhex(a.split()[-1][1:])
            want = bytes(image + pending)
            if got != want:
                j = next((i for i in range(min(len(got), len(want))) if got[i] != want[i]), min(len(got), len(want)))
                return ({"kind": "frame"}, f"finalized code differs from the overlay at offset {j} (lengths {len(got)} / {len(want)})")
    return None


def cut(free, a, b):
    out = []
    for (x, y) in free:
        if b <= x or y <= a:
            out.append((x, y))
        else:
            if x < a:
                out.append((x, a))
            if b < y:
                out.append((b, y))
    return out


def evaluator(p, res, meta):
    """replay the operations in python: overlay of the emitted bytes at the cursor on the committed buffer"""
    image = bytearray()
    pending = bytearray()
    cursor, in_session = 0, False
    fields = []       # (start, size) of reference fields: compared by decoding (oracle), not bytewise
    overflowed = False
    for (req, a, _) in res:
        ws = req.split()
        k = ws[0]
        if a == "dead":
            continue
        if a == "panic":
            if overflowed_here(ws, in_session, cursor, len(image)):
                overflowed = True
                continue
            return ({"kind": "panic", "op": k}, f"`{req[:50]}` panicked although it fits (cursor {cursor}, buffer {len(image)})")
        bs = asmgen.parse_emit(ws)
        if bs is None and k == "al":
            bs = bytes([int(ws[2]) & 0xFF]) * asmgen.align_pad(cursor if in_session else len(image) + len(pending), int(ws[1]))
        if bs is not None:
            if in_session:
                if cursor + len(bs) > len(image) and len(bs) > 0:
                    return ({"kind": "overflow-unreported"}, f"`{req[:50]}` at cursor {cursor} does not fit in the {len(image)}-byte buffer but returned normally")
                image[cursor:cursor + len(bs)] = bs
                cursor += len(bs)
            else:
                pending += bs
        elif k in ("c", "alter{"):
            if a.startswith("ok"):
                image += pending
                pending = bytearray()
                if k == "alter{":
                    in_session, cursor = True, 0
        elif k == "}alter":
            in_session = False
        elif k == "goto":
            cursor = int(ws[1])
        elif k == "off" and in_session:
            if int(a) != cursor:
                return ({"kind": "cursor"}, f"offset() inside the session is {a}, the cursor should be at {cursor}")
        elif k == "chk":
            want = "err CheckFailed" if cursor > int(ws[1]) else "ok"
            if a != want:
                return ({"kind": "check"}, f"check({ws[1]}) with the cursor at {cursor} returned `{a}`")
        elif k == "chkx":
            want = "err CheckFailed" if cursor != int(ws[1]) else "ok"
            if a != want:
                return ({"kind": "check-exact"}, f"check_exact({ws[1]}) with the cursor at {cursor} returned `{a}`")
        elif k in ("rf", "rb", "rg", "rd", "rx"):
            fmt = ws[-1]
            foff = int(ws[-3])
            loc = cursor if in_session else len(image) + len(pending)
            fields.append((loc - foff, asmgen.fmt_size(fmt)))
        elif k == "buf" and a.startswith("x"):
            got = bytes.fromhex(a[1:])
            if len(got) != len(image):
                return ({"kind": "length"}, f"buffer has {len(got)} bytes after the session, {len(image)} expected")
            for j in range(len(got)):
                if got[j] != image[j] and not any(s <= j < s + n for (s, n) in fields):
                    return ({"kind": "frame"}, f"byte at offset {j} is {got[j]:02x}; the session (and earlier emission) put {image[j]:02x} there")
    if meta and meta.get("overflow") and not overflowed:
        # the generator asked for an emission that does not fit; if it was generated and executed it must have been reported
        pass
    # references: decode against the scanning oracle
    try:
        o = asmgen.Oracle(p).run()
    except asmgen.Unsupported:
        return None
    if o.first_failing_commit() is None and not overflowed:
        fb = asmcheck.final_bytes(res)
        if fb is not None and len(fb) == len(o.image):
            msg = asmcheck.check_image(fb, o)
            if msg:
                return ({"kind": "session-reference"}, msg)
    return None


def overflowed_here(ws, in_session, cursor, size):
    if not in_session:
        return False
    bs = asmgen.parse_emit(ws)
    if bs is None and ws[0] == "al":
        bs = bytes(asmgen.align_pad(cursor, int(ws[1])))
    return bs is not None and len(bs) > 0 and cursor + len(bs) > size


def check(run):
    rng = SplitMix(run.seed)
    thorough = run.tier == "thorough"
    common.base_trusted(run)
    run.coverage["trusted_base"] += ["harness/rt (asm stream executor, alter closure driven line by line)", "lib/c10.py evaluator (python overlay of the session's writes)"]
    run.assumptions += ["each byte is written at most once per session (as the property states)", "a Rust panic counts as 'reported'"]
    run.coverage["rule"] = ("alter sessions on committed buffers of 0..3 pages: goto/emit (push, extend by value and by reference, push_u16..64)/align/label/reference/"
                            "check/check_exact steps, 1-3 sessions, sessions followed by commits, and a last emission that overruns the end by 1..5 bytes on every path. "
                            "non-trivial = session with >= 2 gotos, a label reference, or an overrun")
    ok, proofs_ok = asmprops.proof_and_build(run, MODULES)
    if not ok:
        return
    found_before = len(run.violations) + len(run.known_hit)
    progs, metas = [], []
    nontrivial = 0
    for i in range(60000 if thorough else 2000):
        fam = rng.choice(["x64", "x86", "a64", "rv"])
        labelled = rng.chance(2, 5)
        overflow = rng.chance(1, 4)
        lines, meta = session_program(rng, fam, labelled, overflow)
        progs.append(lines)
        metas.append(meta)
        if meta["overflow"] or sum(1 for l in lines if l.startswith("goto")) >= 2 or any(l.split()[0] in ("rf", "rb", "rg", "rd") for l in lines):
            nontrivial += 1
    for i in range(20000 if thorough else 800):
        lines, meta = unc_program(rng, rng.choice(["x64", "x86", "a64", "rv"]))
        progs.append(lines)
        metas.append(meta)
    stats = asmprops.process(run, progs, lambda p, res, meta: (unc_evaluator if meta and meta.get("kind") == "unc" else evaluator)(p, res, meta), metas, chunk=100)
    run.coverage["evaluations"] = len(progs)
    run.coverage["distinct_nontrivial"] = nontrivial
    run.coverage["traces_validated_against_impl"] = stats["requests"]
    run.coverage["distribution"] = dict(stats, overflow_sessions=sum(1 for m in metas if m["overflow"]), labelled_sessions=sum(1 for m in metas if m["labelled"]))
    run.coverage["samples"] = [[l[:60] for l in progs[1][:40]]]
    asmprops.finish_proofs(run, proofs_ok, found_before)


def replay(path):
    return asmcheck.replay(path)
