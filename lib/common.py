"""Shared machinery of the /verif checks: building, running the two sides of a correspondence stream,
diffing, axiom audit, known findings, replay files, evidence.  See DESIGN.md section 2."""
import fcntl
import hashlib
import json
import os
import re
import subprocess
import sys
import time

VERIF = os.path.dirname(os.path.dirname(os.path.abspath(__file__)))
REPO = os.environ.get("DYNASM_REPO", "/repo")
LEAN = os.path.join(VERIF, "lean")
HARNESS = os.path.join(VERIF, "harness")
TARGET = os.path.join(HARNESS, "target")
GEN = os.path.join(LEAN, "DynasmVerif", "Generated")
DRIVER = os.path.join(LEAN, ".lake", "build", "bin", "driver")
RT = os.path.join(TARGET, "rt", "release", "rt")
PLUG = os.path.join(TARGET, "plug", "release", "plug")
NCPU = os.cpu_count() or 4

ENV = dict(os.environ)
ENV.update({"CARGO_NET_OFFLINE": "true", "CARGO_TERM_COLOR": "never", "DYNASM_REPO": REPO})

ALLOWED_AXIOMS = {"propext", "Classical.choice", "Quot.sound"}
FORBIDDEN_SRC = re.compile(r"\bsorry\b|\badmit\b|^axiom |native_decide|implemented_by|\bunsafe |maxHeartbeats 0")


class SplitMix:
    """SplitMix64 — the one PRNG every generator draws from (same function in the harness and the driver)."""

    def __init__(self, seed):
        self.s = seed & 0xFFFFFFFFFFFFFFFF

    def next(self):
        self.s = (self.s + 0x9E3779B97F4A7C15) & 0xFFFFFFFFFFFFFFFF
        z = self.s
        z = ((z ^ (z >> 30)) * 0xBF58476D1CE4E5B9) & 0xFFFFFFFFFFFFFFFF
        z = ((z ^ (z >> 27)) * 0x94D049BB133111EB) & 0xFFFFFFFFFFFFFFFF
        return z ^ (z >> 31)

    def below(self, n):
        return self.next() % n if n > 0 else 0

    def range(self, lo, hi):
        """inclusive"""
        return lo + self.below(hi - lo + 1)

    def choice(self, xs):
        return xs[self.below(len(xs))]

    def chance(self, num, den):
        return self.below(den) < num

    def bytes(self, n):
        out = bytearray()
        while len(out) < n:
            out += self.next().to_bytes(8, "little")
        return bytes(out[:n])


def sh(cmd, cwd=None, timeout=None, inp=None, env=None):
    p = subprocess.run(cmd, cwd=cwd, input=inp, stdout=subprocess.PIPE, stderr=subprocess.STDOUT,
                       timeout=timeout, env=env or ENV, text=True, shell=isinstance(cmd, str))
    return p.returncode, p.stdout


class Lock:
    def __init__(self, name):
        os.makedirs(os.path.join(VERIF, ".locks"), exist_ok=True)
        self.path = os.path.join(VERIF, ".locks", name)

    def __enter__(self):
        self.f = open(self.path, "w")
        fcntl.flock(self.f, fcntl.LOCK_EX)
        return self

    def __exit__(self, *a):
        fcntl.flock(self.f, fcntl.LOCK_UN)
        self.f.close()


def sha256_file(path):
    h = hashlib.sha256()
    with open(path, "rb") as f:
        h.update(f.read())
    return h.hexdigest()


def hexb(bs):
    return "x" + bytes(bs).hex()


# ---------------------------------------------------------------------------------------------
# building


def build_harness(name, features=None):
    """cargo build of one harness crate against the current /repo working tree. Returns (ok, log)."""
    cmd = ["cargo", "build", "--release", "--offline"]
    if features:
        cmd += ["--features", ",".join(features)]
    with Lock("cargo-" + name):
        lockfile = os.path.join(HARNESS, name, "Cargo.lock")
        if not os.path.exists(lockfile):
            import shutil
            shutil.copy(os.path.join(REPO, "Cargo.lock"), lockfile)
        rc, out = sh(cmd, cwd=os.path.join(HARNESS, name))
    return rc == 0, out


def lake_build(targets):
    """lake build of the given targets (serialised). Returns (ok, log)."""
    with Lock("lake"):
        rc, out = sh(["lake", "build"] + list(targets), cwd=LEAN)
    return rc == 0, out


def theorem_names(props_file):
    """names of the theorems stated in a Props file (namespace taken from its `namespace` line)."""
    src = open(props_file).read()
    m = re.search(r"^namespace\s+(\S+)", src, re.M)
    ns = m.group(1) if m else ""
    names = re.findall(r"^(?:private\s+)?theorem\s+([^\s:({\[]+)", src, re.M)
    return [(ns + "." + n) if ns else n for n in names]


def scan_sources(files):
    """reject sorry/admit/axiom/native_decide/... outside comments. Returns list of offending lines."""
    bad = []
    for path in files:
        text = open(path).read()
        # strip block comments (non-nested is enough for our sources) and line comments
        text = re.sub(r"/-.*?-/", lambda m: "\n" * m.group(0).count("\n"), text, flags=re.S)
        for i, line in enumerate(text.split("\n"), 1):
            line = line.split("--")[0]
            if FORBIDDEN_SRC.search(line):
                bad.append(f"{os.path.relpath(path, VERIF)}:{i}: {line.strip()}")
    return bad


def audit(pid, modules, allow_bv_decide, extra_names=()):
    """`#print axioms` for every theorem of the given Props modules. Returns (theorems, problems):
    theorems = [{name, axioms}], problems = list of strings (missing theorem, disallowed axiom)."""
    os.makedirs(GEN, exist_ok=True)
    names = []
    for mod in modules:
        path = os.path.join(LEAN, mod.replace(".", "/") + ".lean")
        names += theorem_names(path)
    names += list(extra_names)
    audit_path = os.path.join(GEN, f"Audit{pid}.lean")
    with open(audit_path, "w") as f:
        for mod in modules:
            f.write(f"import {mod}\n")
        for n in names:
            f.write(f"#print axioms {n}\n")
    with Lock("lake"):
        rc, out = sh(["lake", "env", "lean", audit_path], cwd=LEAN)
    theorems, problems = [], []
    # output: "'name' depends on axioms: [a, b]" (possibly wrapped) or "'name' does not depend on any axioms"
    flat = re.sub(r"\s+", " ", out)
    for n in names:
        m = re.search(r"'" + re.escape(n) + r"' (does not depend on any axioms|depends on axioms: \[([^\]]*)\])", flat)
        if not m:
            problems.append(f"audit: no axiom report for {n}")
            continue
        axs = [a.strip() for a in (m.group(2) or "").split(",") if a.strip()]
        theorems.append({"name": n, "axioms": axs})
        for a in axs:
            if a in ALLOWED_AXIOMS:
                continue
            if allow_bv_decide and "._native.bv_decide.ax_" in a:
                continue
            problems.append(f"audit: theorem {n} depends on disallowed axiom {a}")
    if rc != 0:
        problems.append("audit: lean exited with status %d: %s" % (rc, out[-2000:]))
    return theorems, problems


# ---------------------------------------------------------------------------------------------
# running a correspondence stream


def run_impl(binary, requests, timeout=3600, args=("exec",)):
    """run the harness on request lines; returns its full output (requests interleaved with `= answer` lines)."""
    rc, out = sh([binary] + list(args), inp=requests, timeout=timeout)
    return rc, out


def run_model(text, timeout=3600):
    """run the Lean driver on a stream (request lines, harness answers are skipped or used as environment input)."""
    rc, out = sh([DRIVER], inp=text, timeout=timeout)
    return rc, out


def answers_of_impl(out):
    """parse harness output into [(request, answer)]"""
    pairs, req = [], None
    for line in out.split("\n"):
        line = line.strip()
        if not line or line.startswith("#"):
            continue
        if line.startswith("= ") or line == "=":
            if req is not None:
                pairs.append((req, line[2:].strip()))
                req = None
        else:
            req = line
    return pairs


def answers_of_model(out):
    return [l[2:].strip() for l in out.split("\n") if l.startswith("= ") or l == "="]


def diff_streams(impl_out, model_out):
    """align on request order; returns (pairs, diffs) where diffs = [(index, request, impl, model)]"""
    pairs = answers_of_impl(impl_out)
    model = answers_of_model(model_out)
    diffs = []
    for i, (req, ans) in enumerate(pairs):
        m = model[i] if i < len(model) else "<missing>"
        if m != ans:
            diffs.append((i, req, ans, m))
    if len(model) > len(pairs):
        diffs.append((len(pairs), "<eof>", "<missing>", model[len(pairs)]))
    return pairs, diffs


def parallel_map(fn, items, workers=None):
    from concurrent.futures import ThreadPoolExecutor
    with ThreadPoolExecutor(max_workers=workers or NCPU) as ex:
        return list(ex.map(fn, items))


# ---------------------------------------------------------------------------------------------
# known findings, violations, evidence


def load_known():
    path = os.path.join(VERIF, "known_findings.json")
    if not os.path.exists(path):
        return {"open": [], "fixed": []}
    return json.load(open(path))


class Run:
    def __init__(self, pid, tier, seed):
        self.pid, self.tier, self.seed = pid, tier, seed
        self.t0 = time.time()
        self.violations = []      # unlisted
        self.known_hit = []
        self.coverage = {"obligations": 0, "discharged": 0, "checker_cmd": "", "trusted_base": [],
                         "evaluations": 0, "distinct_nontrivial": 0, "rule": "", "samples": [],
                         "traces_validated_against_impl": 0, "exhaustive": False, "distribution": {}}
        self.assumptions = []
        self.known = load_known()
        self._replay_n = 0
        os.makedirs(os.path.join(VERIF, "replays"), exist_ok=True)
        import glob
        for old in glob.glob(os.path.join(VERIF, "replays", f"{pid}-{tier}-*.json")):
            os.remove(old)
        os.makedirs(os.path.join(VERIF, "evidence"), exist_ok=True)

    def log(self, msg):
        print(f"[{self.pid} {time.time() - self.t0:6.1f}s] {msg}", flush=True)

    def violation(self, kind, match, what, payload=None, found_input=True):
        """report a violation. kind ∈ failing-input | broken-obligation | broken-correspondence.
        match: dict identifying the failing input/call site (compared with known_findings.json)."""
        for k in self.known.get("open", []):
            if k.get("property") == self.pid and k.get("match") == match:
                if k["id"] not in [x["id"] for x in self.known_hit]:
                    self.known_hit.append(k)
                    print(f"KNOWN-FINDING: property={self.pid} {k['id']}: {k['what']}", flush=True)
                return False
        # de-duplicate identical matches inside one run
        for v in self.violations:
            if v["match"] == match:
                return True
        self._replay_n += 1
        path = os.path.join(VERIF, "replays", f"{self.pid}-{self.tier}-{self._replay_n}.json")
        rec = {"property": self.pid, "tier": self.tier, "seed": self.seed, "kind": kind, "match": match,
               "what": what, "found_failing_input": found_input, "payload": payload or {}}
        with open(path, "w") as f:
            json.dump(rec, f, indent=1)
        rec["path"] = path
        self.violations.append(rec)
        tail = "" if found_input else " no-failing-input-found"
        print(f"VIOLATION property={self.pid} replay={path}{tail}", flush=True)
        self.log(f"  ↳ {kind}: {what}")
        return True

    def add_theorems(self, theorems, extra_obligations=0, extra_discharged=0):
        self.coverage["theorems"] = theorems
        self.coverage["obligations"] = len(theorems) + extra_obligations
        self.coverage["discharged"] = len(theorems) + extra_discharged

    def finish(self):
        cov = self.coverage
        cov["samples"] = cov["samples"][:12]
        # a check that is silent because it lost its inputs is not a check: compare what was covered with the floor recorded on the pinned
        # tree (coverage_floor.json, written by tools/floor.py). Far below it (less than half) with nothing else reported = the extraction,
        # generator or translator silently dropped most of the work.
        try:
            floor = json.load(open(os.path.join(VERIF, "coverage_floor.json"))).get(f"{self.pid}.{self.tier}", {})
        except Exception:       # noqa
            floor = {}
        if not self.violations:
            for name in ("evaluations", "obligations"):
                want, got = floor.get(name), cov.get(name) or 0
                if want and got < want * 0.5:
                    self.violation("broken-correspondence", {"kind": "coverage-collapsed", "counter": name},
                                   f"this run covered {got} {name}, the same check on the pinned tree covers {want}: most of the inputs were lost silently "
                                   f"(extraction, generator or translator no longer fits the source)", {"floor": floor, "coverage": {k: cov.get(k) for k in ("evaluations", "obligations", "discharged")}},
                                   found_input=False)
                    break
        ev = {"property_id": self.pid, "tier": self.tier, "seed": self.seed, "level": "proof",
              "coverage": cov, "assumptions": self.assumptions,
              "wall_s": round(time.time() - self.t0, 2), "violations": len(self.violations),
              "known_findings_hit": [k["id"] for k in self.known_hit]}
        with open(os.path.join(VERIF, "evidence", f"{self.pid}.json"), "w") as f:
            json.dump(ev, f, indent=1)
        self.log(f"done: {len(self.violations)} violation(s), {len(self.known_hit)} known finding(s), "
                 f"obligations {cov['discharged']}/{cov['obligations']}, evaluations {cov['evaluations']}")
        return 1 if self.violations else 0


def standard_proof_step(run, modules, allow_bv_decide, extra_targets=(), extra_theorems=()):
    """lake build + source scan + axiom audit for a property. Returns True when all obligations are discharged."""
    targets = list(modules) + ["driver"] + list(extra_targets)
    ok, log = lake_build(targets)
    run.coverage["checker_cmd"] = "cd lean && lake build " + " ".join(targets) + " && lake env lean DynasmVerif/Generated/Audit%s.lean" % run.pid
    files = []
    for mod in modules:
        files.append(os.path.join(LEAN, mod.replace(".", "/") + ".lean"))
    for sub in ("Model", "Proofs", "Props", "Drv"):
        d = os.path.join(LEAN, "DynasmVerif", sub)
        if os.path.isdir(d):
            files += [os.path.join(d, f) for f in sorted(os.listdir(d)) if f.endswith(".lean")]
    bad = scan_sources(sorted(set(files)))
    if not ok:
        errs = [l for l in log.split("\n") if "error" in l][:8]
        first = next((l for l in log.split("\n") if l.startswith("error:")), "build failed")
        run.lake_log = log
        run.broken_build = {"targets": targets, "first_error": first, "errors": errs, "log_tail": log[-3000:]}
        # the obligations exist, none of them counts as discharged while the build is broken
        try:
            n = sum(len(theorem_names(os.path.join(LEAN, mod.replace(".", "/") + ".lean"))) for mod in modules) + len(list(extra_theorems))
        except Exception:       # noqa
            n = 1
        run.coverage["obligations"] = max(1, n)
        run.coverage["discharged"] = 0
        return False
    if bad:
        run.violation("broken-obligation", {"kind": "forbidden-construct"}, "forbidden construct in Lean sources: " + "; ".join(bad[:5]),
                      {"lines": bad}, found_input=False)
        return False
    theorems, problems = audit(run.pid, modules, allow_bv_decide, extra_theorems)
    run.add_theorems(theorems)
    if problems:
        run.coverage["discharged"] = max(0, len(theorems) - len(problems))
        run.violation("broken-obligation", {"kind": "axiom-audit"}, "; ".join(problems[:5]), {"problems": problems}, found_input=False)
        return False
    return True


def base_trusted(run, bv=False):
    tb = ["Lean 4.33.0 kernel", "axioms propext, Classical.choice, Quot.sound"]
    if bv:
        tb.append("bv_decide: one <theorem>._native.bv_decide.ax_* axiom per call (Lean compiler evaluating the verified LRAT checker on CaDiCaL's certificate); listed per theorem under coverage.theorems")
    run.coverage["trusted_base"] = tb
    return tb
