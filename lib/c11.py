"""C11 — a failed commit or alter never destroys previously committed code.
Proof: lean/DynasmVerif/Props/C11.lean.  Tie: `asm` stream with fault injection (every defect class of C06 into commits and into
alter sessions after >= 1 successful commit) followed by arbitrary further operations, all under catch_unwind."""
import asmcheck
import asmgen
import asmprops
import common
from common import SplitMix, hexb

MODULES = ["DynasmVerif.Props.C11"]


def fault_program(rng, fam):
    unit = asmgen.UNIT[fam]
    g = asmgen.Gen(rng, "asm", fam, max_ops=8)
    lines = [f"new asm {fam}", "nd", "nd", "nd"]
    g.lines = lines
    g.ndyn = 3
    # healthy prefix with at least one successful commit; two of the three dynamic labels get defined early
    g.emit(g.code())
    lines.append("dl 0")
    g.defined_dyn.add(0)
    if rng.chance(1, 2):
        lines.append("dl 1")
        g.defined_dyn.add(1)
    for _ in range(rng.range(1, 3)):
        for _ in range(rng.range(1, 6)):
            g.op_label_stuff() if rng.chance(1, 2) else g.emit(g.code())
        g.close_open_refs()
        if rng.chance(1, 4):
            g.fill(rng.choice([3000, 4096, 5000]) // unit * unit)
        lines.append("c")
    lines.append("buf")
    n_faults = rng.range(1, 3)
    for _ in range(n_faults):
        in_alter = rng.chance(1, 2)
        if in_alter:
            if rng.chance(1, 3):
                g.emit(g.code())         # pending bytes: alter commits them first
            lines.append("alter{")
            g.in_session = True
            lines.append(f"goto {unit * rng.below(3)}")
            # some healthy session content around the defect
            for _ in range(rng.below(3)):
                if rng.chance(1, 2):
                    g.emit(g.code(1))
                else:
                    g.ref_line("rg", 8 + rng.below(g.names), g.pick_shape()) if g.defined_global else g.emit(g.code(1))
            cls = inject_small(g, rng)
            for _ in range(rng.below(3)):
                k = rng.below(3)
                if k == 0:
                    g.emit(g.code(1))
                elif k == 1 and g.ndyn:
                    d = rng.below(g.ndyn)
                    g.ref_line("rd", d, g.pick_shape())
                else:
                    g.ref_line("rf", rng.below(3), g.pick_shape())
            lines.append("}alter")
            g.in_session = False
        else:
            for _ in range(rng.below(3)):
                g.emit(g.code())
            cls = inject_small(g, rng)
            for _ in range(rng.below(3)):
                if rng.chance(1, 2):
                    g.emit(g.code())
                elif g.ndyn:
                    g.ref_line("rd", rng.below(g.ndyn), g.pick_shape())
            lines.append("c")
        lines.append("buf")
        # arbitrary further operations
        for _ in range(rng.range(1, 6)):
            c = rng.below(10)
            if c < 3:
                g.emit(g.code())
            elif c < 5:
                lines.append("c")
                lines.append("buf")
            elif c < 7:
                lines += ["alter{", f"goto 0", f"e {hexb(g.code(1))}", "}alter", "buf"]
            elif c < 8:
                lines.append(f"ll {rng.below(3)}")
            elif c < 9:
                lines.append("off")
            else:
                if rng.chance(1, 2):
                    g.fill(4096 // unit * unit)
                lines.append("c")
    lines += ["c", "buf"]
    return lines, {"kind": "fault"}


def inject_small(g, rng):
    """a defect whose filler stays small (no multi-KiB range defects inside sessions)"""
    for _ in range(20):
        n = len(g.lines)
        k = g.inject_defect()
        if sum(len(l) for l in g.lines[n:]) < 2000:
            return k
        del g.lines[n:]
    return None


def managed_growth_failure(rng):
    """x86: a committed byte-sized reference to a fixed external address cannot follow the buffer to another mapping. The growing commit that
    moves the buffer reports it (Impossible(managed)); everything after that must still work"""
    PAGE = 4096
    lines = ["new asm x86"]
    n0 = rng.range(1, 60)
    lines.append(f"ex {hexb(rng.bytes(n0))}")
    lines.append("ex xeb00")
    lines.append(f"rx @{rng.range(-100, 100)} 1 0 x86.1.2")
    lines.append(f"ex {hexb(rng.bytes(rng.range(0, 20)))}")
    lines += ["c", "buf"]
    for _ in range(rng.range(1, 3)):
        lines.append(f"ex {hexb(rng.bytes(rng.choice([PAGE, PAGE + 1, 2 * PAGE + 5, 5000])))}")
        lines += ["c", "buf"]
        for _ in range(rng.range(1, 4)):
            c = rng.below(4)
            if c == 0:
                lines.append(f"ex {hexb(rng.bytes(rng.range(1, 40)))}")
                lines += ["c", "buf"]
            elif c == 1:
                lines += ["c", "buf", "alter{", f"goto {n0 + 10 + rng.below(20)}", f"ex {hexb(rng.bytes(rng.range(1, 8)))}", "}alter", "buf"]
            elif c == 2:
                lines.append(f"ex {hexb(rng.bytes(rng.range(1, 40)))}")
            else:
                lines += ["c", "buf"]
    lines += ["c", "buf"]
    return lines, {"kind": "managed-growth"}


def evaluator(p, res, meta):
    """after the first Err result: nothing panics, the buffer is never found empty/poisoned, and the committed code is intact
    outside what the failing session itself wrote"""
    seen_err = False
    last_buf = None
    committed_len = 0
    pending_len = 0
    buf_len = 0          # length of the committed buffer as far as the evaluator can tell
    session_writes = []      # (start, end) written by the session in progress / just finished
    cursor, in_session = 0, False
    for (req, a, _) in res:
        ws = req.split()
        k = ws[0]
        if a in ("panic", "dead"):
            # user errors that are reported by a panic by design: a session emission that does not fit, a cursor placed past the end
            if in_session and a == "panic":
                bs0 = asmgen.parse_emit(ws)
                if bs0 is None and k == "al":
                    bs0 = bytes(asmgen.align_pad(cursor, int(ws[1])))
                if (bs0 is not None and cursor + len(bs0) > buf_len) or (k in ("goto", "}alter") and cursor > buf_len) or \
                        (k in ("rf", "rb", "rg", "rd", "rx") and cursor < int(ws[-3])):
                    return None
            if seen_err:
                return ({"kind": "panic-after-error", "op": k}, f"after an error result, `{req[:50]}` {'panicked' if a == 'panic' else 'found the assembler dead'}")
            return None        # a panic before any error is not this property's subject
        if a.startswith("err") and k in ("c", "}alter", "alter{"):
            seen_err = True
        if a == "skipped":
            continue            # the body of a session that could not be opened is not executed
        if not in_session:
            bs1 = asmgen.parse_emit(ws)
            if bs1 is not None:
                pending_len += len(bs1)
            elif k == "al":
                pending_len += asmgen.align_pad(buf_len + pending_len, int(ws[1]))
        if k in ("c", "alter{") and a.startswith("ok"):
            buf_len += pending_len
            pending_len = 0
        if k == "alter{" and a.startswith("ok"):
            in_session, cursor, session_writes = True, 0, []
        elif k == "}alter":
            in_session = False
        elif k == "goto":
            cursor = int(ws[1])
        elif in_session:
            bs = asmgen.parse_emit(ws)
            if bs is not None:
                session_writes.append((cursor, cursor + len(bs)))
                cursor += len(bs)
            elif k in ("rf", "rb", "rg", "rd", "rx"):
                foff = int(ws[-3])
                session_writes.append((cursor - foff, cursor))
        if k == "buf" and a.startswith("x"):
            got = bytes.fromhex(a.split()[0][1:])
            if last_buf is not None:
                if len(got) < len(last_buf):
                    return ({"kind": "buffer-shrunk"}, f"the executable buffer went from {len(last_buf)} to {len(got)} bytes")
                for j in range(len(last_buf)):
                    if got[j] != last_buf[j] and not any(s <= j < e for (s, e) in session_writes):
                        # bytes may legitimately change only where a session wrote (incl. its reference fields)
                        return ({"kind": "committed-byte-changed"}, f"committed byte at offset {j} changed from {last_buf[j]:02x} to {got[j]:02x} without being written by a session")
            last_buf = got
            session_writes = []
    return None


def check(run):
    rng = SplitMix(run.seed)
    thorough = run.tier == "thorough"
    common.base_trusted(run)
    run.coverage["trusted_base"] += ["harness/rt (asm stream executor with catch_unwind around every call)", "lib/c11.py evaluator"]
    run.assumptions += ["a panic inside the user's closure (not generated here) poisons the lock by design and is outside the property",
                        "finalize after an unreported error panics by design (`expect`); the generator ends histories with commit"]
    run.coverage["rule"] = ("histories: healthy prefix with >= 1 successful commit, then 1-3 faults (each defect class of C06, in a commit or inside an alter session, "
                            "surrounded by healthy references) each followed by 1-5 further operations (emit, commit, alter, label, growth-triggering commit). "
                            "non-trivial = history in which at least one call returned an error")
    ok, proofs_ok = asmprops.proof_and_build(run, MODULES)
    if not ok:
        return
    found_before = len(run.violations) + len(run.known_hit)
    progs, metas = [], []
    for _ in range(40000 if thorough else 2500):
        lines, meta = fault_program(rng, rng.choice(["x64", "x86", "a64", "rv"]))
        progs.append(lines)
        metas.append(meta)
    for _ in range(3000 if thorough else 300):
        lines, meta = managed_growth_failure(rng)
        progs.append(lines)
        metas.append(meta)
    stats = asmprops.process(run, progs, evaluator, metas, chunk=100)
    run.coverage["evaluations"] = len(progs)
    run.coverage["traces_validated_against_impl"] = stats["requests"]
    # count histories that really contained an error result: measured from a re-run of the evaluation data kept in stats
    run.coverage["distinct_nontrivial"] = stats.get("with_error", 0)
    run.coverage["distribution"] = stats
    run.coverage["samples"] = [[l[:60] for l in progs[0][:50]]]
    asmprops.finish_proofs(run, proofs_ok, found_before)


def replay(path):
    return asmcheck.replay(path)
