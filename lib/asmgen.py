"""Generator of label programs for the `asm` stream and the scanning oracle (an independent, executable statement of what a
program means: no registry, no generation counters — definitions are found by scanning the operation list).

Shared by C01 C06 C07 C10 C11 C12 C16 C17.  Every random choice comes from the SplitMix state handed in."""
from common import SplitMix, hexb

# family -> (unit of code size, instruction-style formats: (fmt, size, template words as bytes chooser))
UNIT = {"x64": 1, "x86": 1, "a64": 4, "rv": 2}

# instruction-style reference shapes: fmt, field size, field_offset, ref_offset, placeholder template (little endian int) and
# the mask of bits the relocation owns (other bits are randomised to observe bit preservation)
SHAPES = {
    "x64": [("x64.1", 1, 1, 0, 0, 0xFF), ("x64.2", 2, 2, 0, 0, 0xFFFF), ("x64.4", 4, 4, 0, 0, 0xFFFFFFFF), ("x64.8", 8, 8, 0, 0, (1 << 64) - 1),
            ("x64.4", 4, 5, 0, 0, 0xFFFFFFFF), ("x64.4", 4, 8, 0, 0, 0xFFFFFFFF)],
    "x86": [("x86.1.0", 1, 1, 0, 0, 0xFF), ("x86.2.0", 2, 2, 0, 0, 0xFFFF), ("x86.4.0", 4, 4, 0, 0, 0xFFFFFFFF), ("x86.4.0", 4, 6, 0, 0, 0xFFFFFFFF),
            ("x86.8.0", 8, 8, 0, 0, (1 << 64) - 1)],
    "a64": [("a64.B", 4, 4, 4, 0x14000000, 0x03FFFFFF), ("a64.BCOND", 4, 4, 4, 0x54000000, 0x00FFFFE0), ("a64.ADR", 4, 4, 4, 0x10000000, 0x60FFFFE0),
            ("a64.ADRP", 4, 4, 4, 0x90000000, 0x60FFFFE0), ("a64.TBZ", 4, 4, 4, 0x36000000, 0x0007FFE0)],
    "rv": [("rv.B", 4, 4, 4, 0x00000063, 0xFE000F80), ("rv.J", 4, 4, 4, 0x0000006F, 0xFFFFF000), ("rv.BC", 2, 2, 2, 0xC001, 0x1C7C),
           ("rv.JC", 2, 2, 2, 0xA001, 0x1FFC), ("rv.HI20", 4, 4, 4, 0x00000017, 0xFFFFF000), ("rv.LO12", 4, 4, 4, 0x00000013, 0xFFF00000),
           ("rv.LO12S", 4, 4, 4, 0x00000023, 0xFE000F80), ("rv.SPLIT32", 8, 8, 8, 0x0000001300000017, 0xFFF00000FFFFF000),
           ("rv.SPLIT32S", 8, 8, 8, 0x0000002300000017, 0xFE000F80FFFFF000)],
}
PLAIN = {"x64": "x64.%d", "x86": "x86.%d.0", "a64": "a64.P%d", "rv": "rv.P%d"}

# (lo, hi, align) of each format (documented ranges, as in c05.FORMATS)
PAIR = (-0x80000800, 0x7FFFF7FF, 1)
RANGE = {"a64.B": (-2**27, 2**27 - 4, 4), "a64.BCOND": (-2**20, 2**20 - 4, 4), "a64.ADR": (-2**20, 2**20 - 1, 1),
         "a64.ADRP": (-2**32 - 0xFFF, 2**32 - 0x1000, 1), "a64.TBZ": (-2**15, 2**15 - 4, 4),
         "rv.B": (-2048, 2046, 2), "rv.J": (-2**19, 2**19 - 2, 2), "rv.BC": (-256, 254, 2), "rv.JC": (-2048, 2046, 2),
         "rv.HI20": PAIR, "rv.LO12": PAIR, "rv.LO12S": PAIR, "rv.SPLIT32": PAIR, "rv.SPLIT32S": PAIR}


def fmt_range(fmt):
    if fmt in RANGE:
        return RANGE[fmt]
    parts = fmt.split(".")
    n = int(parts[1].lstrip("P"))
    return (-2**(8 * n - 1), 2**(8 * n - 1) - 1, 1)


def fmt_size(fmt):
    if fmt in ("rv.BC", "rv.JC"):
        return 2
    if fmt in ("rv.SPLIT32", "rv.SPLIT32S"):
        return 8
    if fmt in RANGE:
        return 4
    return int(fmt.split(".")[1].lstrip("P"))


def fmt_kind(fmt):
    p = fmt.split(".")
    return int(p[2]) if p[0] == "x86" and len(p) == 3 else 0


def in_range(fmt, v):
    lo, hi, al = fmt_range(fmt)
    return lo <= v <= hi and v % al == 0


class Gen:
    """builds one program (list of request lines) for a front-end / family"""

    def __init__(self, rng, front, fam, max_ops=30, names=3, defect_rate=(0, 1), commits=True, sessions=False,
                 pools=False, managed=False, big=False, label_free=False, base=None):
        self.r, self.front, self.fam = rng, front, fam
        self.unit = UNIT[fam]
        self.lines = []
        self.names = names
        self.max_ops = max_ops
        self.defect_num, self.defect_den = defect_rate
        self.commits, self.sessions, self.pools, self.managed, self.big = commits, sessions, pools, managed, big
        self.label_free = label_free
        self.ndyn = 0
        self.pending_fwd = {}     # name -> count of forward refs waiting for a definition
        self.defined_local = set()
        self.defined_global = set()
        self.defined_dyn = set()
        self.base = base if base is not None else rng.choice([0, 0, 0x1000, 0x7F0000001000])
        # global and local labels live in one table keyed by (name, generation): a third of the programs use the SAME identifiers for both
        # (decided from the PRNG state without drawing from it, so the rest of the program is what it was)
        self.gbase = 0 if (rng.s >> 7) % 3 == 0 else 8

    # ---- helpers
    def code(self, n_units=None):
        n = (n_units if n_units is not None else self.r.range(1, 4)) * self.unit
        return self.r.bytes(n)

    def emit(self, bs):
        kind = self.r.choice(["e", "ex", "ev"])
        self.lines.append(f"{kind} {hexb(bs)}")

    def emit_words(self):
        c = self.r.below(7)
        if self.unit > 2 and c < 3:
            c = 3
        if c == 0 and self.unit <= 2:
            self.lines.append(f"p16 {self.r.below(1 << 16)}")
        elif c == 1 and self.unit <= 2:
            self.lines.append(f"pi16 {self.r.range(-(1 << 15), (1 << 15) - 1)}")
        elif c == 2 and self.unit == 1:
            self.lines.append(f"pi8 {self.r.range(-128, 127)}")
        elif c == 3:
            self.lines.append(f"p32 {self.r.below(1 << 32)}")
        elif c == 4:
            self.lines.append(f"pi32 {self.r.range(-(1 << 31), (1 << 31) - 1)}")
        elif c == 5:
            self.lines.append(f"p64 {self.r.below(1 << 64)}")
        else:
            self.lines.append(f"pi64 {self.r.range(-(1 << 63), (1 << 63) - 1)}")

    def placeholder(self, shape):
        fmt, size, foff, roff, templ, mask = shape
        full = (1 << (8 * size)) - 1
        word = (templ | (self.r.next() & full & ~mask & ~templ)) if templ else (self.r.next() & full)
        if templ:
            word = (word & ~mask) | (self.r.next() & mask)   # garbage inside the field: must be overwritten
        bs = word.to_bytes(size, "little")
        extra = foff - size
        # trailing bytes between field and end of instruction (x86 immediates)
        return bs + self.r.bytes(extra)

    def ref_line(self, op, name, shape, toff=None):
        fmt, size, foff, roff, templ, mask = shape
        if toff is None:
            if fmt.startswith("x"):
                toff = self.r.choice([0, 0, 1, -1, 5, -7])
            elif fmt in ("a64.ADR", "rv.HI20", "rv.LO12", "rv.LO12S", "rv.SPLIT32", "rv.SPLIT32S") or fmt.startswith(("a64.P", "rv.P", "p.")):
                # byte-granular references (adr, the auipc pairs, data words): the user-supplied offset need not be a multiple of the instruction size
                toff = self.r.choice([0, 0, self.unit, -self.unit, 1, -1, 3, -3, 5, -7, 4 * self.unit + 1, -8 * self.unit - 1])
            else:
                toff = self.r.choice([0, 0, 0, self.unit, -self.unit, 4 * self.unit, -8 * self.unit])
        # 8-byte data fields can hold any offset: a quarter of them get one beyond 32 bits (decided from the PRNG state without drawing from it)
        if size == 8 and templ == 0 and (self.r.s >> 11) % 4 == 0 and not fmt.startswith("x86.8."):
            toff = [1 << 32, -(1 << 32), 1 << 31, -(1 << 31) - 1, (1 << 40) + 5, -(1 << 45) + 3][(self.r.s >> 13) % 6]
        self.emit(self.placeholder(shape))
        self.lines.append(f"{op} {name} {toff} {foff} {roff} {fmt}")

    def pick_shape(self, data_ok=True):
        shapes = list(SHAPES[self.fam])
        if data_ok and self.r.chance(1, 4):
            n = self.r.choice([1, 2, 4, 8]) if self.unit == 1 else self.r.choice([4, 8]) if self.unit == 4 else self.r.choice([2, 4, 8])
            return (PLAIN[self.fam] % n, n, n, n, 0, (1 << (8 * n)) - 1)
        return self.r.choice(shapes)

    # ---- program
    def header(self):
        if self.front == "simple":
            self.lines.append("new simple")
        elif self.front == "vec":
            self.lines.append(f"new vec {self.fam} base={self.base}")
        else:
            self.lines.append(f"new asm {self.fam}")

    def op_label_stuff(self):
        r = self.r
        c = r.below(10)
        name = r.below(self.names)
        if c < 2:
            self.lines.append(f"ll {name}")
            self.defined_local.add(name)
            self.pending_fwd.pop(name, None)
        elif c < 4:
            self.ref_line("rf", name, self.pick_shape())
            self.pending_fwd[name] = self.pending_fwd.get(name, 0) + 1
        elif c < 6:
            if name in self.defined_local:
                self.ref_line("rb", name, self.pick_shape())
            else:
                self.lines.append(f"ll {name}")
                self.defined_local.add(name)
                self.pending_fwd.pop(name, None)
        elif c < 7:
            g = self.gbase + r.below(self.names)
            if g not in self.defined_global:
                self.lines.append(f"gl {g}")
                self.defined_global.add(g)
            else:
                self.ref_line("rg", g, self.pick_shape())
        elif c < 8:
            g = self.gbase + r.below(self.names)
            self.ref_line("rg", g, self.pick_shape())
            self.need_global = getattr(self, "need_global", set()) | {g}
        elif c < 9:
            if self.ndyn and r.chance(2, 3):
                d = r.below(self.ndyn)
                if d not in self.defined_dyn and r.chance(1, 2):
                    self.lines.append(f"dl {d}")
                    self.defined_dyn.add(d)
                else:
                    self.ref_line("rd", d, self.pick_shape())
                    self.need_dyn = getattr(self, "need_dyn", set()) | {d}
            elif self.in_session:
                self.emit(self.code())
            else:
                self.lines.append("nd")
                self.ndyn += 1
        else:
            self.emit(self.code())

    in_session = False

    def close_open_refs(self):
        """define whatever is still referenced so that the batch is defect free"""
        for name in list(self.pending_fwd):
            self.lines.append(f"ll {name}")
            self.defined_local.add(name)
        self.pending_fwd.clear()
        for g in sorted(getattr(self, "need_global", set()) - self.defined_global):
            self.lines.append(f"gl {g}")
            self.defined_global.add(g)
        for d in sorted(getattr(self, "need_dyn", set()) - self.defined_dyn):
            self.lines.append(f"dl {d}")
            self.defined_dyn.add(d)

    def inject_defect(self):
        """append one defective construct; returns its class"""
        r = self.r
        kinds = ["unknown-fwd", "unknown-global", "unknown-dyn", "bwd-undefined", "dup-global", "dup-dyn", "dyn-unallocated", "range", "misaligned"]
        if self.unit == 1:
            kinds.remove("misaligned")
        if self.in_session:
            kinds = [k for k in kinds if k not in ("unknown-dyn", "dup-dyn")] if self.ndyn == 0 else kinds
        k = r.choice(kinds)
        if k == "unknown-fwd":
            name = 5 + r.below(2)
            self.ref_line("rf", name, self.pick_shape())
        elif k == "unknown-global":
            self.ref_line("rg", 20 + r.below(3), self.pick_shape())
        elif k == "unknown-dyn":
            if self.in_session and self.ndyn == 0:
                return self.inject_defect()
            if not self.in_session:
                self.lines.append("nd")
                self.ndyn += 1
            self.ref_line("rd", self.ndyn - 1 if (self.ndyn - 1) not in self.defined_dyn else 40, self.pick_shape())
        elif k == "bwd-undefined":
            self.ref_line("rb", 6 + r.below(2), self.pick_shape())
        elif k == "dup-global":
            g = self.gbase + r.below(self.names)
            if g not in self.defined_global:
                self.lines.append(f"gl {g}")
                self.defined_global.add(g)
            if r.chance(1, 2):
                self.emit(self.code())
            self.lines.append(f"gl {g}")
        elif k == "dup-dyn":
            if self.in_session and self.ndyn == 0:
                return self.inject_defect()
            if not self.in_session:
                self.lines.append("nd")
                self.ndyn += 1
            d = self.ndyn - 1
            if d not in self.defined_dyn:
                self.lines.append(f"dl {d}")
                self.defined_dyn.add(d)
            self.lines.append(f"dl {d}")
        elif k == "dyn-unallocated":
            self.lines.append(f"dl {self.ndyn + r.below(3)}")
        elif k == "range":
            # a reference whose distance is just outside the field's range (smallest fields only unless `big`)
            cands = [s for s in SHAPES[self.fam] if fmt_range(s[0])[1] <= (2**27 if self.big else 40000)]
            if self.unit == 1:
                cands = [s for s in SHAPES[self.fam] if s[1] == 1] + [(PLAIN[self.fam] % 1, 1, 1, 1, 0, 0xFF)]
            shape = r.choice(cands)
            lo, hi, al = fmt_range(shape[0])
            name = 4
            over = r.choice([0, 0, al, 3 * al])
            if r.chance(1, 2):
                # backward: label, then filler so that the distance is lo - al - over
                self.lines.append(f"ll {name}")
                self.defined_local.add(name)
                dist = -lo + al + over           # bytes between label and reference point
                fill = dist - (shape[2] - shape[3])      # reference point = location - roff; location = label + fill + foff... solved below
                fill = max(0, dist - (shape[2] - shape[3]) + 0)
                self.fill(dist - (shape[2] - shape[3]))
                self.ref_line("rb", name, shape, toff=0)
            else:
                self.ref_line("rf", name, shape, toff=0)
                dist = hi + al + over
                # target - (loc - roff) = fill + roff  → fill = dist - roff
                self.fill(dist - shape[3])
                self.lines.append(f"ll {name}")
                self.defined_local.add(name)
        elif k == "misaligned":
            shape = r.choice([s for s in SHAPES[self.fam] if fmt_range(s[0])[2] > 1])
            al = fmt_range(shape[0])[2]
            self.ref_line("rf", 4, shape, toff=r.choice([1, al - 1, -1]) if al > 2 else 1)
            self.emit(self.code())
            self.lines.append("ll 4")
            self.defined_local.add(4)
        return k

    def fill(self, n):
        n = max(0, n)
        while n > 0:
            k = min(n, 3000)
            self.lines.append(f"ex {hexb(bytes([0x90]) * k)}")
            n -= k

    def build(self):
        r = self.r
        self.header()
        n_ops = r.range(3, self.max_ops)
        defect = None
        defect_at = r.below(n_ops) if r.chance(self.defect_num, self.defect_den) else -1
        for i in range(n_ops):
            if i == defect_at and self.front != "simple" and not self.label_free:
                defect = self.inject_defect()
                continue
            c = r.below(100)
            if self.front == "simple" or self.label_free:
                if c < 50:
                    self.emit(self.code())
                elif c < 70:
                    self.emit_words()
                elif c < 85:
                    self.lines.append(f"al {r.choice([1, 2, 3, 4, 5, 7, 8, 16, 32, 33, 64])} {r.below(256)}")
                elif c < 92 and self.front == "asm" and self.commits:
                    self.lines.append("c")
                else:
                    self.lines.append("off")
                continue
            if c < 55:
                self.op_label_stuff()
            elif c < 65:
                self.emit(self.code())
            elif c < 70:
                self.emit_words() if self.unit == 1 else self.emit(self.code())
            elif c < 76:
                al = r.choice([2, 4, 8, 16, 32]) if self.unit > 1 else r.choice([1, 2, 3, 4, 5, 7, 8, 16, 33])
                self.lines.append(f"al {al} {r.below(256)}")
            elif c < 84 and self.front == "asm" and self.commits:
                if r.chance(3, 4):
                    self.close_open_refs()
                self.lines.append("c")
                if r.chance(1, 3):
                    self.lines.append("buf")
            elif c < 88:
                self.lines.append("off")
            else:
                self.emit(self.code())
        if defect is None:
            self.close_open_refs()
        end = "fin" if self.front != "vec" else r.choice(["fin", "take", "drain"])
        if self.front == "asm" and defect is not None:
            end = "c"     # finalize panics on an error (`expect`), commit reports it
        self.lines.append(end)
        if end == "c":
            self.lines.append("buf")
        return self.lines, defect


# ---------------------------------------------------------------------------------------------
# the scanning oracle


class Unsupported(Exception):
    pass


def le_int(bs):
    return int.from_bytes(bs, "little")


def parse_emit(ws):
    k = ws[0]
    if k in ("e", "ex", "ev"):
        return bytes.fromhex(ws[1][1:])
    sizes = {"p16": 2, "p32": 4, "p64": 8, "pi8": 1, "pi16": 2, "pi32": 4, "pi64": 8}
    if k in sizes:
        n = sizes[k]
        return (int(ws[1]) % (1 << (8 * n))).to_bytes(n, "little")
    return None


def align_pad(off, al):
    return 0 if off % al == 0 else al - off % al


class Oracle:
    """What a (top-level, session-free) label program means, by scanning. Produces per batch: the defects, and for defect-free
    programs the list of (field start, fmt, value, kind) patches and the emitted image."""

    def __init__(self, lines):
        self.lines = [l.split() for l in lines]
        self.image = bytearray()
        self.events = []      # (index, kind, ...)
        self.front = None
        self.fam = None
        self.base = 0

    def run(self):
        off = 0
        ndyn = 0
        in_session = False
        cursor = 0
        self.overwrites = []   # (index, start, end) of session emissions
        defs_local = {}     # name -> [(index, off)]
        defs_global = {}    # name -> [(index, off)]
        defs_dyn = {}       # id -> [(index, off)]
        refs = []           # dicts
        commits = []        # indices of commit-like ops
        slot_defects = []   # (index, description) for defects detected at definition/reference time
        for i, ws in enumerate(self.lines):
            k = ws[0]
            if k == "new":
                self.front = ws[1]
                if self.front != "simple":
                    self.fam = ws[2]
                if self.front == "vec":
                    self.base = int(ws[3].split("=")[1])
                continue
            bs = parse_emit(ws)
            if bs is None and k == "al":
                al, f = int(ws[1]), int(ws[2])
                bs = bytes([f & 0xFF]) * align_pad(cursor if in_session else off, al)
            if bs is not None and in_session:
                if cursor + len(bs) > len(self.image):
                    raise Unsupported("session emission past the end")
                self.image[cursor:cursor + len(bs)] = bs
                self.overwrites.append((i, cursor, cursor + len(bs)))
                cursor += len(bs)
            elif bs is not None:
                self.image += bs
                off += len(bs)
            elif k == "alter{":
                commits.append(i)
                in_session, cursor = True, 0
            elif k == "}alter":
                commits.append(i)
                in_session = False
            elif k == "goto":
                cursor = int(ws[1])
            elif k in ("chk", "chkx") and in_session:
                pass
            elif k == "ll":
                defs_local.setdefault(int(ws[1]), []).append((i, cursor if in_session else off))
            elif k == "gl":
                n = int(ws[1])
                if n in defs_global:
                    slot_defects.append((i, f"Duplicate(global {n})"))
                else:
                    defs_global[n] = [(i, cursor if in_session else off)]
            elif k == "nd":
                ndyn += 1
            elif k == "dl":
                d = int(ws[1])
                if d >= ndyn:
                    slot_defects.append((i, f"Unknown(dyn {d})"))
                elif d in defs_dyn:
                    slot_defects.append((i, f"Duplicate(dyn {d})"))
                else:
                    defs_dyn[d] = [(i, cursor if in_session else off)]
            elif k in ("rf", "rb", "rg", "rd"):
                name, toff, foff, roff, fmt = int(ws[1]), int(ws[2]), int(ws[3]), int(ws[4]), ws[5]
                if k == "rb" and not defs_local.get(name):
                    slot_defects.append((i, f"Unknown(local {name})"))
                else:
                    refs.append(dict(i=i, k=k, name=name, toff=toff, foff=foff, roff=roff, fmt=fmt, loc=cursor if in_session else off, ses=in_session))
            elif k == "rx":
                tgt, foff, roff, fmt = int(ws[1]), int(ws[2]), int(ws[3]), ws[4]
                refs.append(dict(i=i, k=k, name=tgt, toff=0, foff=foff, roff=roff, fmt=fmt, loc=cursor if in_session else off, ses=in_session))
            elif k in ("c", "fin", "take", "drain"):
                commits.append(i)
            elif k in ("off", "buf", "reset", "ptr"):
                pass
            else:
                raise Unsupported(k)
        self.off = off
        self.refs, self.commits, self.slot_defects = refs, commits, slot_defects
        self.defs_local, self.defs_global, self.defs_dyn = defs_local, defs_global, defs_dyn
        return self

    def designated(self, r, before):
        """offset of the definition the reference designates, considering only definitions made before op index `before`"""
        k, name, i = r["k"], r["name"], r["i"]
        if k == "rf":
            c = [o for (j, o) in self.defs_local.get(name, []) if i < j < before]
            return c[0] if c else None
        if k == "rb":
            c = [o for (j, o) in self.defs_local.get(name, []) if j < i]
            return c[-1] if c else None
        if k == "rg":
            c = [o for (j, o) in self.defs_global.get(name, []) if j < before]
            return c[0] if c else None
        if k == "rd":
            c = [o for (j, o) in self.defs_dyn.get(name, []) if j < before]
            return c[0] if c else None
        return None

    def batch_of(self, idx):
        """index of the commit-like op that processes an op at idx"""
        for c in self.commits:
            if c > idx:
                return c
        return None

    def first_failing_commit(self):
        """(commit index, allowed error strings) of the first commit that must fail, or None"""
        for ci, c in enumerate(self.commits):
            prev = self.commits[ci - 1] if ci else -1
            allowed = []
            for (i, d) in self.slot_defects:
                if prev < i < c:
                    allowed.append(d)
            for r in self.refs:
                if not (prev < r["i"] < c):
                    continue
                if r["k"] == "rx":
                    continue
                tgt = self.designated(r, c)
                lab = {"rf": "local", "rb": "local", "rg": "global", "rd": "dyn"}[r["k"]]
                if tgt is None:
                    allowed.append(f"Unknown({lab} {r['name']})")
                    continue
                v = self.value(r, tgt, None)
                if v is not None and not in_range(r["fmt"].rsplit(".", 1)[0] if r["fmt"].startswith("x86") and r["fmt"].count(".") == 2 else r["fmt"], v):
                    allowed.append(f"Impossible({lab} {r['name']})")
            if allowed:
                return c, allowed
        return None

    def value(self, r, tgt, bufaddr):
        kind = fmt_kind(r["fmt"])
        if kind == 0:
            return tgt - (r["loc"] - r["roff"]) + r["toff"]
        if bufaddr is None:
            return None
        if kind == 1:
            return tgt + bufaddr + r["toff"]
        return tgt - (r["loc"] - r["roff"] + bufaddr) + r["toff"]

    def patches(self, bufaddr=None):
        """for a defect-free program: [(field start, fmt, value)] in the order commits apply them"""
        out = []
        for r in self.refs:
            c = self.batch_of(r["i"])
            if c is None:
                continue
            if r["k"] == "rx":
                v = self.value(dict(r, toff=0), r["name"], bufaddr)
            else:
                tgt = self.designated(r, c)
                if tgt is None:
                    # no definition by the time its batch is committed: that commit fails and the reference stays registered (f2a32e6); the
                    # first later commit by which a definition exists patches it
                    for c2 in self.commits:
                        if c2 > c and self.designated(r, c2) is not None:
                            tgt = self.designated(r, c2)
                            break
                    if tgt is None:
                        continue
                v = self.value(r, tgt, bufaddr)
            start = r["loc"] - r["foff"]
            size = fmt_size(r["fmt"])
            # a field overwritten by a session emission after it was patched no longer holds the reference
            # (a bare/extern reference is patched the moment it is made, a label reference when its batch is committed)
            since = r["i"] if r["k"] == "rx" else c
            later = [(a, b) for (j, a, b) in getattr(self, "overwrites", []) if j > since and a < start + size and start < b]
            if any(a <= start and start + size <= b for (a, b) in later):
                r = dict(r, dead=True)          # fully covered by one later session emission
            elif later:
                r = dict(r, partial=True)       # partly overwritten: outside the property (fields are covered fully or not at all)
            out.append((start, r["fmt"], v, r))
        # two live references on overlapping bytes are not a program (macro-generated code emits one placeholder per reference); the shrinker
        # can produce this by removing the emission between two reference calls
        live = sorted((st, st + fmt_size(f)) for (st, f, _, r) in out if not r.get("dead"))
        for (a, b), (c, d) in zip(live, live[1:]):
            if c < b:
                raise Unsupported("overlapping reference fields")
        return out
