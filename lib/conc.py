"""Shared machinery of C08 (never writable and executable) and C09 (executors only see complete committed states):
hook-steered schedules of the real code (harness/rt `conc <park index> <probe|hold>`, built with --cfg dynasm_verif) replayed on the
Lean Conc model (driver stream `conc`), plus direct evaluation of the properties on the recorded events."""
import json
import re
import subprocess

import common

PROG = "inplace,grow,alter,alter,inplace,grow,finalize"      # the second alter session fails (reference without definition); the second growth follows the alterations


def run_schedule(k, mode, wait_ms=60):
    try:
        import os
        p = subprocess.run([common.RT, "conc", str(k), mode], stdout=subprocess.PIPE, stderr=subprocess.STDOUT, timeout=60, env=dict(os.environ, DYNASM_VERIF_WAIT_MS=str(wait_ms)))
        return p.stdout.decode(errors="replace").strip().split("\n")
    except subprocess.TimeoutExpired:
        return ["deadlock (harness timeout)"]


def replay_on_model(lines):
    text = "hdr conc 1\nprog " + PROG + "\n" + "\n".join(l for l in lines if l and not l.startswith("deadlock")) + "\n"
    _, out = common.run_model(text)
    return common.answers_of_model(out)[2:]


def kv(line):
    return dict(t.split("=", 1) for t in line.split() if "=" in t)


def hook_count():
    return sum(1 for l in run_schedule(10 ** 9, "none") if l.startswith("hook "))


def explore(run, focus, thorough):
    """all single-reader schedules: every observation point x {probe, hold}. focus: 'C08' | 'C09'"""
    n = hook_count()
    stats = {"observation_points": n, "schedules": 0, "events": 0, "reader_granted": 0, "reader_blocked": 0, "held_across": 0, "wx_samples": 0, "repeats": 10 if thorough else 1}
    # probe / hold: a reader arrives while the assembling thread is parked at the point; abort: the assembling thread PANICS at the point
    # (a failing `expect` on mprotect, a panic in the user's alter closure) and a reader that outlives it tries the lock afterwards
    jobs = [(k, m) for k in range(n) for m in ("probe", "hold", "abort")] * stats["repeats"]
    results = common.parallel_map(lambda j: (j, run_schedule(*j)), jobs, workers=8)
    reported = set()

    def report(kind, key, what, payload, found=True):
        if (kind, key) in reported:
            return
        reported.add((kind, key))
        run.violation("failing-input" if found else "broken-correspondence", {"kind": kind, "at": key}, what, payload, found_input=found)

    def suspicious(lines, answers):
        return any(a.startswith(("mismatch", "stuck", "bad-op")) for a in answers) or len(answers) < len(lines) or any(l.startswith("deadlock") for l in lines) \
            or not any(l == "end" for l in lines)

    for (k, mode), lines in results:
        stats["schedules"] += 1
        stats["events"] += len(lines)
        answers = replay_on_model(lines)
        # blocking is observed by timeout: a loaded machine can make a granted lock look blocked. A schedule that does not fit the model is
        # run again with much longer waits; it is reported only if the disagreement persists (a real defect does, a scheduling hiccup does not)
        for wait_ms in (400, 1500):
            if not suspicious(lines, answers):
                break
            stats["reruns"] = stats.get("reruns", 0) + 1
            lines = run_schedule(k, mode, wait_ms)
            answers = replay_on_model(lines)
        payload = {"stream": "conc", "schedule": [k, mode], "trace": lines}
        last_hook = "start"
        last_cur = None
        last_returned = 0
        seen_returned = False
        versions = []
        for i, l in enumerate(lines):
            a = answers[i] if i < len(answers) else "absent"
            d = kv(l)
            if l.startswith("hook "):
                last_hook = l.split()[1]
                last_cur = d.get("cur")
                stats["wx_samples"] += 1
            if l.startswith("returned"):
                seen_returned = True
                versions.append(d.get("ver"))
                # the boundary observation is itself an executor lock taken between two API calls
                if d.get("ver") == "?" and focus == "C09":
                    report("reader-sees-incomplete", last_hook, f"schedule park={k} {mode}: between two API calls an executor saw a buffer ({l}) that is not the committed contents of any completed commit/alter", payload)
                if (d.get("ver") or "").isdigit():
                    last_returned = max(last_returned, int(d["ver"]))
            # ---- the properties, directly on the recorded events
            if d.get("wx") == "1" and focus == "C08":
                report("writable-and-executable", last_hook, f"schedule park={k} {mode}: at `{l}` /proc/self/maps shows a mapping that is writable and executable", payload)
            if l.startswith("rlock granted") and not l.startswith("rlock granted-later"):
                stats["reader_granted"] += 1
                if last_cur == "rw" and focus == "C08":
                    report("lock-granted-while-writable", last_hook, f"schedule park={k} {mode}: a reader was granted the lock after `{last_hook}` while the pages holding the committed code are mapped rw-", payload)
                if (d.get("ver") or "").isdigit() and int(d["ver"]) < last_returned and focus == "C09":
                    report("reader-sees-stale", last_hook, f"schedule park={k} {mode}: a reader granted the lock after `{last_hook}` saw version {d['ver']} ({l}) although the operation publishing version {last_returned} had already returned", payload)
                if d.get("prot") not in ("rx", "none") and focus == "C08":
                    report("reader-sees-writable", last_hook, f"schedule park={k} {mode}: a reader was granted the lock after `{last_hook}` and the buffer it holds is mapped {d.get('prot')}", payload)
                if (d.get("ver") == "?" or (d.get("prot") == "none" and d.get("len") != "0")) and focus == "C09":
                    report("reader-sees-incomplete", last_hook, f"schedule park={k} {mode}: a reader was granted the lock after `{last_hook}` and saw a buffer ({l}) that is not the committed contents of any completed commit/alter", payload)
            if l == "rlock blocked":
                stats["reader_blocked"] += 1
            if l == "abort":
                stats["aborts"] = stats.get("aborts", 0) + 1
            if l == "rlock poisoned":
                stats["reader_refused_poisoned"] = stats.get("reader_refused_poisoned", 0) + 1
            if l.startswith("held "):
                stats["held_across"] += 1
                if d.get("stable") != "1" and focus == "C09":
                    report("guard-unstable", last_hook, f"schedule park={k} {mode}: address, length, contents or protection of the buffer changed while a reader held the guard ({l})", payload)
                if d.get("prot") not in ("rx", "none") and focus == "C08":
                    report("reader-sees-writable", last_hook, f"schedule park={k} {mode}: the buffer a reader holds became {d.get('prot')}", payload)
            if l.startswith("finalized early") and focus == "C09":
                report("finalize-with-executor", "finalize", f"schedule park={k} {mode}: finalize handed out the buffer while an executor still existed", payload)
            if l.startswith("finalized ") and d.get("prot") != "rx" and focus == "C08":
                report("finalized-not-rx", "finalize", f"schedule park={k} {mode}: the finalized buffer is mapped {d.get('prot')}", payload)
            if l.startswith("deadlock") and focus == "C09":
                report("deadlock", last_hook, f"schedule park={k} {mode}: the run did not finish (parked after `{last_hook}`)", payload)
            # ---- correspondence with the model
            if a.startswith("mismatch") or a.startswith("stuck") or a == "absent" or a.startswith("bad-op"):
                if l.startswith("hook ") and not seen_returned:
                    pass
                mine = (focus == "C09") or l.startswith("hook ") or "prot" in l
                if l.startswith("deadlock"):
                    continue
                if mine:
                    found = False
                    what = f"schedule park={k} {mode}: event `{l}` (after `{last_hook}`) is not a run of the Conc model: {a}"
                    # a reader that gets in where the model holds the write guard is a violation in itself when what it sees is not a committed state
                    report("not-a-model-run", (last_hook, l.split()[0] + " " + (l.split()[1] if len(l.split()) > 1 else "")), what, dict(payload, model_answer=a), found=found)
            elif l.startswith("hook ") and seen_returned and focus == "C08":
                ma = kv(a)
                if ma.get("cur") and d.get("cur") and ma["cur"] != d["cur"]:
                    report("protection-differs", last_hook, f"schedule park={k} {mode}: at `{last_hook}` the mapping that holds the committed code is {d['cur']}, the model says {ma['cur']}",
                           dict(payload, model_answer=a), found=False)
        if mode == "abort":
            continue
        n_ops = len(PROG.split(",")) - 1
        want_versions = [str(i + 1) for i in range(n_ops)]
        if focus == "C09" and [v for v in versions] != want_versions[:len(versions)]:
            report("commit-not-visible", tuple(versions), f"schedule park={k} {mode}: after the operations returned, readers saw versions {versions} instead of {', '.join(want_versions)}", payload)
        if focus == "C09" and not any(l == "end" for l in lines) and not any(l.startswith("deadlock") for l in lines):
            report("deadlock", last_hook, f"schedule park={k} {mode}: the run produced no `end`", payload)
    return stats


def strace_check(run, stats):
    """C08: the protection-changing system calls of one unsteered run — no mmap/mprotect ever asks for PROT_WRITE|PROT_EXEC"""
    try:
        p = subprocess.run(["strace", "-f", "-e", "trace=mmap,mprotect", common.RT, "conc", "999999", "none"], stdout=subprocess.PIPE, stderr=subprocess.PIPE, timeout=60)
    except Exception as e:      # noqa
        run.assumptions.append(f"strace not usable here ({e}): system-call arguments not checked, /proc/self/maps only")
        return
    calls = [l for l in p.stderr.decode(errors="replace").split("\n") if "PROT_" in l]
    stats["strace_calls"] = len(calls)
    bad = [l for l in calls if "PROT_WRITE" in l and "PROT_EXEC" in l]
    stats["strace_wx_calls"] = len(bad)
    for l in bad[:3]:
        run.violation("failing-input", {"kind": "wx-syscall", "call": re.sub(r"0x[0-9a-f]+", "ADDR", l)[:80]}, f"a system call asks for writable and executable memory: {l.strip()}", {"stream": "conc", "strace": l})
