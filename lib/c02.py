"""C02 — assembled instructions agree with an independent assembler / disassembler.
Proof: Props/C02.lean `agree_slotwise_imp_agree` — two encoders of the fixed-field shape (template ||| disjoint operand fields; for
dynasm-rs that shape is C19's table_wf + fields_read_back) that agree on a base instantiation and on all its one-operand variations
agree on EVERY instantiation: the sweep below is therefore over the SUM of the operand domains, not a sample of their product.
Oracle (not a theorem): llvm-mc 14. aarch64 / riscv32 / riscv64: every form x {base, last, spread} instantiations and every slot of
every form over its whole domain, rendered in dynasm syntax (plugin in-process) and in GNU/LLVM syntax (lib/gas.py), bytes compared;
where they differ the two byte strings are disassembled and must be the same instruction (alternative encodings are evaluated:
mov aliases load the same constant, li sequences are executed). x86/x64: lib/x64sweep.py (disassembly of the emitted bytes) and, for
memory operands, C13."""
import json
import os

import common
import gas

MODULES = ["DynasmVerif.Props.C02"]
LEGIT = {"a64-mov-inverted": "mov.inverted forces MOVN where llvm picks MOVZ/ORR; both disassemblies load the requested constant",
         "a64-mov-logical": "mov.logical forces ORR with the zero register where llvm picks MOVZ; both load the requested constant",
         "rv-li-sequence": "dynasm emits a fixed-length lui/addi(w)/slli chain (C15), llvm the shortest; both executed, same register value",
         "rv-pseudo-vs-extension": "sext.b/sext.h/zext.h/zext.w: pseudo sequence vs the Zbb/Zba instruction (documented; C20 known finding)"}


def check(run):
    thorough = run.tier == "thorough"
    common.base_trusted(run, bv=False)
    run.coverage["trusted_base"] += ["llvm-mc 14 as the independent assembler and disassembler (oracle, not a theorem)",
                                     "lib/gas.py: rendering of an instantiation in GNU/LLVM syntax (a rendering mistake shows up as a difference, never hides one silently: "
                                     "both renderings come from the same operand values)",
                                     "the architectural fact that the reference encoding has the fixed-field shape (assumed by agree_slotwise_imp_agree)",
                                     "harness/plug"]
    run.assumptions += ["forms whose mnemonic llvm-mc 14 does not know (newer RISC-V extensions) are not covered by this oracle: counted in the evidence",
                        "instantiations llvm-mc refuses although dynasm accepts (unpredictable register coincidences, msr PSTATE immediates > 1, tlbi with/without register, "
                        "add x, x, w without extend, zfinx spellings) are checked by disassembly only: the bytes must decode to a valid instruction"]
    ok, log = common.build_harness("plug")
    if not ok:
        run.violation("broken-correspondence", {"kind": "harness-build"}, "harness/plug does not build against the working tree", {"log": log[-3000:]}, found_input=False)
        return
    # Props/C02 builds on C19's facts about TODAY's tables: regenerate them from the working tree like C19 does
    import tables
    try:
        tables.gen_a64()
        tables.gen_rv()
        tables.gen_x64()
    except Exception as e:      # noqa
        run.violation("broken-correspondence", {"kind": "translator"}, f"the instruction tables could not be translated: {e}", found_input=False)
        return
    proofs_ok = common.standard_proof_step(run, MODULES, allow_bv_decide=False)
    found_before = len(run.violations) + len(run.known_hit)
    stats = {}
    total = equal = 0
    for (key, arch, xlen, fs) in gas.targets():
        picks = gas.standard_picks(fs) + gas.slot_sweep_picks(fs, full_limit=256 if thorough else 64)
        if thorough:
            picks += gas.pair_sweep_picks(fs)
        cases = gas.run_cases(arch, xlen, fs, picks)
        st = {"forms": len(fs), "instantiations": len(cases), "compiled_by_dynasm": 0, "assembled_by_llvm": 0, "equal": 0, "legitimate_alternative": {}, "differ": 0,
              "llvm_unknown_mnemonic": 0, "llvm_refuses_dynasm_accepts": 0, "undecodable": 0, "forms_with_equal_comparison": 0}
        forms_eq = set()
        refused = []
        for c in cases:
            if c["dynasm_bytes"] is None:
                continue
            st["compiled_by_dynasm"] += 1
            if c["llvm_bytes"] is None:
                why = c.get("llvm_reason") or ""
                if any(r in why for r in gas.UNKNOWN_REASONS):
                    st["llvm_unknown_mnemonic"] += 1
                else:
                    st["llvm_refuses_dynasm_accepts"] += 1
                    refused.append(c)
                continue
            st["assembled_by_llvm"] += 1
            if c["dynasm_bytes"] == c["llvm_bytes"]:
                st["equal"] += 1
                forms_eq.add(c["form"])
        st["forms_with_equal_comparison"] = len(forms_eq)
        # differing bytes: same instruction?
        for rec in gas.diff_records(key, arch, xlen, cases):
            g = rec["group"]
            if g in LEGIT:
                st["legitimate_alternative"][g] = st["legitimate_alternative"].get(g, 0) + 1
                continue
            st["differ"] += 1
            run.violation("failing-input", {"kind": "bytes-differ", "target": key, "mnemonic": rec["dynasm"].split()[0], "group": g},
                          f"{key}: `{rec['dynasm']}` assembles to {rec['dynasm_bytes']} = `{rec['llvm_disassembly_of_dynasm_bytes']}`; llvm-mc assembles `{rec['gas']}` to {rec['llvm_bytes']}",
                          {"stream": "plug", "input": ["cl " + gas.plug_header(fs[0], xlen).split(".feature")[0] + " " + rec["dynasm"]], "record": rec})
        # what llvm refuses to assemble must still decode as a valid instruction
        dis = gas.llvm_disassemble_ex(arch, [c["dynasm_bytes"] for c in refused], xlen, [c["attr"] for c in refused]) if refused else []
        for c, d in zip(refused, dis):
            text = d if isinstance(d, str) else (d[0] if d else None)
            known_ext = arch != "riscv" or all(e in gas.LLVM_RV_EXTENSIONS for e in fs[c["form"]].extra[1])
            if not known_ext:
                st["llvm_unknown_mnemonic"] += 1
                continue
            if text is None or "invalid" in str(text) or "unknown" in str(text):
                st["undecodable"] += 1
                run.violation("failing-input", {"kind": "undecodable", "target": key, "mnemonic": c["mnemonic"]},
                              f"{key}: `{c['dynasm']}` is accepted and assembles to {gas.hexs(c['dynasm_bytes'])}, which llvm-mc neither assembles ({c.get('llvm_reason')}) nor decodes ({text})",
                              {"stream": "plug", "input": ["cl " + gas.plug_header(fs[c["form"]], xlen) + " " + c["dynasm"]]})
        stats[key] = st
        total += st["instantiations"]
        equal += st["equal"]
    # aarch64 register lists: the three notations `{v1.T * n}`, `{v1.T, v2.T, …}` and `{v1.T - vn.T}` (incl. wrap-around past v31) name
    # the same registers and must assemble to the same bytes (the `* n` notation is the one compared with llvm-mc above)
    import re as _re
    import forms as _forms
    rl = _re.compile(r"\{v(\d+)(\.[A-Za-z0-9]+) *\* *([1-4])\}")
    lreqs, lmeta = [], []
    for f in _forms.load("aarch64"):
        if "* " not in f.template and "*" not in f.template:
            continue
        for which in ("base", "last"):
            vals = gas.instantiate(f, which)
            if vals is None:
                continue
            line = f.render(vals)
            m = rl.search(line)
            if not m:
                continue
            first, el, n = int(m.group(1)), m.group(2), int(m.group(3))
            regs = [(first + k) % 32 for k in range(n)]
            comma = "{" + ", ".join(f"v{r}{el}" for r in regs) + "}"
            dash = "{" + f"v{regs[0]}{el} - v{regs[-1]}{el}" + "}"
            for alt in (comma, dash):
                lreqs += ["cl ; .arch aarch64 ; " + line, "cl ; .arch aarch64 ; " + line[:m.start()] + alt + line[m.end():]]
                lmeta.append((line, line[:m.start()] + alt + line[m.end():]))
    lans = gas.plug_compile(lreqs) if lreqs else []
    st_l = {"pairs": len(lmeta), "equal": 0}
    for k, (a, b) in enumerate(lmeta):
        ba, _ = gas.plug_bytes(lans[2 * k])
        bb, _ = gas.plug_bytes(lans[2 * k + 1])
        if ba is not None and ba == bb:
            st_l["equal"] += 1
        elif ba is not None:
            run.violation("failing-input", {"kind": "register-list-notation", "mnemonic": a.split()[0], "notation": "dash" if " - v" in b else "comma"},
                          f"aarch64: `{a}` assembles to {gas.hexs(ba)} but the same registers written `{b}` " + (f"assemble to {gas.hexs(bb)}" if bb is not None else "are rejected"),
                          {"stream": "plug", "input": ["cl ; .arch aarch64 ; " + a, "cl ; .arch aarch64 ; " + b]})
    stats["aarch64_register_list_notations"] = st_l
    # x86/x64: every table entry instantiated (every register of the class in every slot, fixed memory shapes, boundary immediates),
    # compiled by the plugin, the bytes DISASSEMBLED by llvm-mc and compared operand by operand (lib/x64sweep.py)
    import x64sweep
    rep = x64sweep.run(limit=None, pairwise=thorough)
    c = rep["counts"]
    stats["x64"] = {k: c[k] for k in ("entries", "instantiations", "accepted", "decoded", "fully_equal", "mnemonic_alias_equal", "undecodable", "entries_never_taken") if k in c}
    stats["x64"]["undecodable_per_feature"] = rep.get("undecodable_per_feature")
    total += c.get("instantiations", 0)
    equal += c.get("fully_equal", 0) + c.get("mnemonic_alias_equal", 0)
    for s in rep.get("suspects", []):
        if not s.get("instantiations"):
            continue
        ev = (s.get("evidence") or [{}])[0]
        run.violation("failing-input", {"kind": "x64-encoding", "group": s["id"]},
                      f"x64 table: {s['title']} ({s['instantiations']} instantiations over {len(s['entries'])} entries, e.g. `.arch {ev.get('mode')}; {ev.get('line')}` assembles to {ev.get('bytes')}, "
                      f"which llvm-mc reads as `{ev.get('llvm')}`): {s['why']}",
                      {"stream": "plug", "input": [f"cl ; .arch {ev.get('mode')} ; {ev.get('line')}"], "record": {k: s.get(k) for k in ("id", "title", "severity", "entries", "why", "right", "evidence")}})
    for u in rep.get("unexplained", [])[:5]:
        ex = u.get("example", {})
        run.violation("failing-input", {"kind": "x64-decodes-differently", "entry": ex.get("entry"), "kinds": u.get("kinds")},
                      f"x64: `.arch {ex.get('mode')}; {ex.get('line')}` assembles to {ex.get('bytes')}, which llvm-mc reads as `{ex.get('llvm')}` ({ex.get('diff')})",
                      {"stream": "plug", "input": [f"cl ; .arch {ex.get('mode')} ; {ex.get('line')}"], "record": u})
    if rep.get("matcher_model_disagreements"):
        run.violation("broken-correspondence", {"kind": "x64-matcher-model"}, f"lib/x64sweep.py's transcription of match_format_string disagrees with the plugin on {len(rep['matcher_model_disagreements'])} lines",
                      {"record": rep["matcher_model_disagreements"][:5]}, found_input=False)
    # `push <literal>` without a size keyword: Intel-syntax disassembly prints `push 300` for the 16-bit and the 32/64-bit form alike, so this
    # one is compared with llvm-mc as ASSEMBLER (the operand-size prefix changes what the instruction does to the stack pointer)
    try:
        import x64sweep
        probes = [(m, f"push {v}") for m in ("x64", "x86") for v in (300, -300, 32767, -32768, 128, -129)]
        pa = x64sweep.plug([f"cl ; .arch {m} ; {l}" for (m, l) in probes])
        for (m, l), a in zip(probes, pa):
            st, b = x64sweep.answer_bytes(a)
            ref = x64sweep.assemble(m, l)
            total += 1
            if st == "ok" and ref is not None and b != ref:
                run.violation("failing-input", {"kind": "x64-encoding", "group": "push-imm16-word-form"},
                              f"`.arch {m}; {l}` assembles to {b.hex()}, llvm-mc assembles {ref.hex()}: the 16-bit push (66 68 iw) was selected for a literal without a size keyword",
                              {"stream": "plug", "input": [f"cl ; .arch {m} ; {l}"], "impl": [a], "llvm": ref.hex()})
                break
    except Exception as e:      # noqa
        run.violation("broken-correspondence", {"kind": "push-probe"}, f"the push probe could not run: {e}", found_input=False)
    # riscv operands llvm-mc 14 cannot judge (Zcmp register lists x stack adjustments, Zfa constants, CSR numbers): the independent
    # reference written from the ISA manuals and validated against the GNU-as vectors the repo pins (shared with C04)
    try:
        import rvspecial
        st = rvspecial.sweep(run, thorough)
        run.coverage.setdefault("distribution", {})
        total += sum(v for k, v in st.items() if isinstance(v, int) and k in ("zcmp_literal", "zcmp_runtime", "fli", "csr_literal", "csr_runtime", "zcmp_count_literal", "zcmp_count_runtime"))
        rv_special_stats = st
    except Exception as e:      # noqa
        run.violation("broken-correspondence", {"kind": "riscv-special-reference"}, f"the riscv special-operand reference could not run: {e}", found_input=False)
        rv_special_stats = {}
    if not proofs_ok and hasattr(run, "broken_build"):
        found = (len(run.violations) + len(run.known_hit)) > found_before
        run.violation("broken-obligation", {"kind": "lean-build", "first": run.broken_build["first_error"][:200]}, run.broken_build["first_error"], run.broken_build, found_input=found)
    run.coverage["evaluations"] = total
    run.coverage["distinct_nontrivial"] = equal
    run.coverage["rule"] = ("every form of the aarch64 / riscv32 / riscv64 tables x {base, last, spread} and every slot over its whole domain (boundary-directed above "
                            f"{256 if thorough else 64} values), dynasm bytes vs llvm-mc bytes; differences disassembled and evaluated; non-trivial = byte-identical comparison")
    run.coverage["traces_validated_against_impl"] = total
    stats["riscv_special_operands"] = rv_special_stats
    run.coverage["distribution"] = stats
    run.coverage["samples"] = ["add x1, x2, 4095 / add x1, x2, #4095", "lb x5, [x6, -2048] / lb x5, -2048(x6)"]


def replay(path):
    rec = json.load(open(path))
    print(json.dumps({k: rec.get(k) for k in ("property", "kind", "what")}, indent=1))
    p = rec.get("payload", {})
    if p.get("input"):
        common.build_harness("plug")
        _, out = common.sh([common.PLUG, "exec"], inp="\n".join(p["input"]) + "\n")
        print(out)
    if p.get("record"):
        print(json.dumps(p["record"], indent=1))
    return 0 if p else 1
