"""C05 — relocation field encoding is exact, total on its range and bit-preserving.
Proof: lean/DynasmVerif/Props/C05.lean.  Tie: `reloc` correspondence stream (exhaustive for small fields,
boundary windows + strided sweeps for wide ones) + Generated/RelocCode.lean (the Rust text of the relocation code translated to Lean on
every run, proved equal to the model in Props/C05Spec.lean)."""
import json
import os

import common
from common import SplitMix, hexb

# name -> (size, lo, hi, align)   (documented ranges; the Lean side has its own copy in Model/Reloc.lean docRange)
PAIR = (-0x80000800, 0x7FFFF7FF, 1)
FORMATS = {
    "a64.B": (4, -2**27, 2**27 - 4, 4), "a64.BCOND": (4, -2**20, 2**20 - 4, 4), "a64.ADR": (4, -2**20, 2**20 - 1, 1),
    "a64.ADRP": (4, -2**32 - 0xFFF, 2**32 - 0x1000, 1), "a64.TBZ": (4, -2**15, 2**15 - 4, 4),
    "rv.B": (4, -2048, 2046, 2), "rv.J": (4, -2**19, 2**19 - 2, 2), "rv.BC": (2, -256, 254, 2), "rv.JC": (2, -2048, 2046, 2),
    "rv.HI20": (4,) + PAIR, "rv.LO12": (4,) + PAIR, "rv.LO12S": (4,) + PAIR, "rv.SPLIT32": (8,) + PAIR, "rv.SPLIT32S": (8,) + PAIR,
}
for fam in ("p", "x64", "x86"):
    for n in (1, 2, 4, 8):
        FORMATS[f"{fam}.{n}"] = (n, -2**(8 * n - 1), 2**(8 * n - 1) - 1, 1)
for fam in ("a64", "rv"):
    for n in (1, 2, 4, 8):
        FORMATS[f"{fam}.P{n}"] = (n, -2**(8 * n - 1), 2**(8 * n - 1) - 1, 1)

I64_MIN, I64_MAX = -2**63, 2**63 - 1


def clamp(v):
    return max(I64_MIN, min(I64_MAX, v))


def olds_for(size, rng, n):
    pats = [bytes(size), b"\xff" * size, b"\x55" * size, b"\xaa" * size]
    while len(pats) < n:
        pats.append(rng.bytes(size))
    return pats[:n]


def gen_requests(tier, seed):
    """returns (list of per-chunk request lists, stats)"""
    rng = SplitMix(seed)
    chunks = []
    stats = {"formats": len(FORMATS), "sweep_values": 0, "explicit_writes": 0, "explicit_reads": 0,
             "boundary_values": 0, "exhaustive_formats": [], "by_format": {}}
    thorough = tier == "thorough"
    for name, (size, lo, hi, al) in sorted(FORMATS.items()):
        reqs = []
        span = hi - lo
        olds = olds_for(size, rng, 6 if thorough else 3)
        fst = {"sweep": 0, "w": 0, "r": 0}

        def sweep(old, start, count, step=1):
            start = clamp(start)
            if start + (count - 1) * step > I64_MAX:
                count = (I64_MAX - start) // step + 1
            if count <= 0:
                return
            reqs.append(f"sw {name} {hexb(old)} {start} {count} {step}")
            fst["sweep"] += count

        # --- sweeps
        if span <= 2**17:
            for old in olds:
                sweep(old, lo - 64, span + 129)
            stats["exhaustive_formats"].append(name)
        elif span <= 2**22:
            for old in (olds if thorough else olds[:1]):
                sweep(old, lo - 64, span + 129)
            stats["exhaustive_formats"].append(name)
        else:
            windows = [lo, hi, 0, lo // 2, hi // 2, -0x800, 0x800, 0x7FFFF800 if hi > 0x7FFFF800 else hi // 3]
            for old in olds[:2]:
                for w in windows:
                    sweep(old, w - 600, 1201)
            # strided sweep across the whole range and beyond
            nstr = (1 << 22) if thorough else (1 << 16)
            if span < 2**62:
                step = max(1, (span + 4096) // nstr) | 1
                sweep(olds[2], lo - 2048, (span + 4096) // step + 1, step)
            if thorough and name == "a64.B":
                # every aligned value of the 26-bit field, in 16 pieces (each its own chunk so they run in parallel)
                piece = (span // 4 + 64) // 16 + 1
                for i in range(16):
                    chunks.append([f"sw {name} {hexb(olds[0])} {lo - 128 + 4 * piece * i} {piece} 4"])
                    fst["sweep"] += piece
                stats["exhaustive_formats"].append(name + " (aligned values)")
        # --- explicit writes around every boundary, the type extremes, and random values
        vals = set()
        for b in (lo, hi, 0):
            for d in range(-9, 10):
                vals.add(clamp(b + d))
        for b in (I64_MIN, I64_MAX, -2**31, 2**31 - 1, -2**32, 2**32, -2**31 - 0x800, 2**31 - 0x801):
            for d in range(-2, 3):
                vals.add(clamp(b + d))
        for _ in range(60 if thorough else 20):
            vals.add(rng.range(lo, hi))
            vals.add(clamp(rng.range(lo - span - 8, hi + span + 8)))
            vals.add(rng.range(I64_MIN, I64_MAX))
        for v in sorted(vals):
            for old in olds[:3]:
                reqs.append(f"w {name} {hexb(old)} {v}")
                fst["w"] += 1
            if min(abs(v - lo), abs(v - hi)) <= 2 or (al > 1 and lo <= v <= hi and v % al != 0 and abs(v) < 16):
                stats["boundary_values"] += 1
        # --- reads of arbitrary words
        for _ in range(400 if thorough else 100):
            reqs.append(f"r {name} {hexb(rng.bytes(size))}")
            fst["r"] += 1
        stats["sweep_values"] += fst["sweep"]
        stats["explicit_writes"] += fst["w"]
        stats["explicit_reads"] += fst["r"]
        stats["by_format"][name] = fst
        chunks.append(reqs)
    return chunks, stats


def run_chunk(reqs):
    text = "hdr reloc 1\n" + "\n".join(reqs) + "\n"
    rc1, impl = common.run_impl(common.RT, text)
    rc2, model = common.run_model(text)
    pairs, diffs = common.diff_streams(impl, model)
    return pairs, diffs, (rc1, rc2)


def ask(side, req):
    text = "hdr reloc 1\n" + req + "\n"
    if side == "impl":
        _, out = common.run_impl(common.RT, text)
        return common.answers_of_impl(out)[-1][1]
    _, out = common.run_model(text)
    return common.answers_of_model(out)[-1]


def bisect_sweep(req):
    """narrow a differing `sw` request to the first single value whose result differs"""
    _, name, old, start, count, step = req.split()
    start, count, step = int(start), int(count), int(step)
    while count > 1:
        half = count // 2
        r = f"sw {name} {old} {start} {half} {step}"
        if ask("impl", r) != ask("model", r):
            count = half
        else:
            start, count = start + half * step, count - half
    return name, old, start


def examine_write(run, name, old, v, origin):
    """a single (fmt, old, v) on which implementation and model differ: evaluate the property on the implementation"""
    req = f"w {name} {old} {v}"
    impl, model = ask("impl", req), ask("model", req)
    payload = {"stream": "reloc", "origin": origin, "input": ["hdr reloc 1", req], "impl": impl, "model": model}
    if impl == model:
        # write results agree, so the sweep digest differs in the read-back
        if impl.startswith("ok"):
            word = impl.split()[1]
            r_impl = ask("impl", f"r {name} {word}")
            verdict = ask("model", f"chkr {name} {v} {r_impl}")
            payload.update({"input": ["hdr reloc 1", req, f"r {name} {word}"], "impl_read": r_impl, "verdict": verdict})
            if verdict.startswith("fails"):
                return run.violation("failing-input", {"kind": "read-back", "fmt": name},
                                     f"{name}: read_value after write_value({v}) returns {r_impl}", payload)
            return run.violation("broken-correspondence", {"kind": "model-read-differs", "fmt": name},
                                 f"{name}: model read differs from implementation at v={v} but the read-back clause holds there (outside the read-back domain)",
                                 payload, found_input=False)
        return False
    if impl == "panic":
        return run.violation("failing-input", {"kind": "write-panics", "fmt": name},
                             f"{name}: write_value({v}) panics instead of returning a result", payload)
    verdict = ask("model", f"chk {name} {old} {v} {impl}")
    payload["verdict"] = verdict
    if verdict.startswith("fails"):
        return run.violation("failing-input", {"kind": "write", "fmt": name, "clause": verdict.split()[1]},
                             f"{name}: write_value(old={old}, v={v}) = {impl}: {verdict}", payload)
    return run.violation("broken-correspondence", {"kind": "model-write-differs", "fmt": name},
                         f"{name}: model ({model}) and implementation ({impl}) differ at v={v} although the property holds for the implementation's result",
                         payload, found_input=False)


def examine_read(run, req, impl, model):
    _, name, word = req.split()
    payload = {"stream": "reloc", "input": ["hdr reloc 1", req], "impl": impl, "model": model}
    verdict = ask("model", f"chkrw {name} {word} {impl}")
    payload["verdict"] = verdict
    if verdict.startswith("fails"):
        return run.violation("failing-input", {"kind": "read-back", "fmt": name},
                             f"{name}: read_value({word}) = {impl}, but that word is what write_value produces for {verdict.split('v=')[-1]}", payload)
    return run.violation("broken-correspondence", {"kind": "model-read-differs", "fmt": name},
                         f"{name}: model read ({model}) differs from implementation ({impl}) on {word}; not a read-back of a patched value",
                         payload, found_input=False)


def check(run):
    run.coverage["rule"] = ("per format: every value of fields up to 22 bits (plus 64 beyond each end) as digest sweeps, ±600 windows at every "
                            "boundary and a strided sweep for wider fields, explicit writes at boundaries ±9 / type extremes / random, reads of random words; "
                            "3-6 old-word patterns (zeros, ones, checkerboards, random). non-trivial = explicit write within 2 of a range end or misaligned inside the range")
    common.base_trusted(run, bv=True)
    run.coverage["trusted_base"] += ["harness/rt (calls Relocation::write_value/read_value in-process)", "lib/reloctrans.py + lib/rustexpr.py (Rust text -> bit-vector IR -> Lean; the IR is evaluated against the compiled implementation on every explicit request)",
                                     "archDecode/docRange in Model/Reloc.lean (written from the ISA manuals / langref)"]
    run.assumptions += ["64-bit host: isize = i64", "riscv B/J ranges are the documented +-2KiB/+-512KiB (langref_riscv.md table 7)",
                        "ADRP is stated for page-aligned targets (adrp_page_aligned_target)"]
    ok, log = common.build_harness("rt")
    if not ok:
        run.violation("broken-correspondence", {"kind": "harness-build"}, "harness/rt does not build against the working tree", {"log": log[-3000:]}, found_input=False)
        return
    import relocspec
    spec_ok, spec_msg = relocspec.generate(run)
    modules = ["DynasmVerif.Props.C05"] + (["DynasmVerif.Props.C05Spec"] if spec_ok else [])
    proofs_ok = common.standard_proof_step(run, modules, allow_bv_decide=True)
    if not proofs_ok and hasattr(run, "broken_build"):
        # a proof obligation no longer checks: still run the correspondence to look for a failing input
        ok2, _ = common.lake_build(["driver"])
        if not ok2:
            run.violation("broken-obligation", {"kind": "lean-build"}, run.broken_build["first_error"], run.broken_build, found_input=False)
            return
    chunks, stats = gen_requests(run.tier, run.seed)
    if not proofs_ok and hasattr(run, "broken_build"):
        # the prover's counterexample (if it printed one) is tried on every format of the implementation first
        extra = relocspec.counterexample_requests(getattr(run, "lake_log", ""), FORMATS)
        if extra:
            chunks.insert(0, extra)
            stats["counterexample_requests"] = len(extra)
    run.coverage["distribution"] = stats
    results = common.parallel_map(run_chunk, chunks)
    stats["translation_validated_requests"] = relocspec.validate(run, results)
    n_req, found_before = 0, len(run.violations) + len(run.known_hit)
    for (pairs, diffs, rcs), reqs in zip(results, chunks):
        n_req += len(pairs)
        if len(pairs) != len(reqs) + 1:
            run.violation("broken-correspondence", {"kind": "harness-crash"}, f"harness answered {len(pairs)} of {len(reqs) + 1} requests (exit {rcs})",
                          {"first_request": reqs[0]}, found_input=False)
        for (i, req, impl, model) in diffs[:6]:
            kind = req.split()[0]
            if kind == "sw":
                name, old, v = bisect_sweep(req)
                examine_write(run, name, old, v, origin=req)
            elif kind == "w":
                _, name, old, v = req.split()
                examine_write(run, name, old, int(v), origin=req)
            elif kind == "r":
                examine_read(run, req, impl, model)
            else:
                run.violation("broken-correspondence", {"kind": "stream", "req": req}, f"{req}: impl {impl} / model {model}", found_input=False)
    run.coverage["evaluations"] = stats["sweep_values"] + stats["explicit_writes"] + stats["explicit_reads"]
    run.coverage["distinct_nontrivial"] = stats["boundary_values"]
    run.coverage["traces_validated_against_impl"] = n_req
    run.coverage["exhaustive"] = False
    sample = [r for r in chunks[-1][:3]] + [r for r in chunks[0][-2:]]
    run.coverage["samples"] = sample
    if not spec_ok:
        run.violation("broken-correspondence", {"kind": "relocspec-extract"}, spec_msg, found_input=(len(run.violations) + len(run.known_hit) > found_before))
    if not proofs_ok and hasattr(run, "broken_build"):
        found = (len(run.violations) + len(run.known_hit)) > found_before
        run.violation("broken-obligation", {"kind": "lean-build", "first": run.broken_build["first_error"][:200]}, run.broken_build["first_error"],
                      run.broken_build, found_input=found)


def replay(path):
    rec = json.load(open(path))
    print(json.dumps({k: rec[k] for k in ("property", "kind", "what")}, indent=1))
    inp = rec.get("payload", {}).get("input")
    if not inp:
        print("no concrete input recorded (broken obligation / correspondence): see payload")
        print(json.dumps(rec.get("payload", {}), indent=1)[:4000])
        return 1
    ok, _ = common.build_harness("rt")
    common.lake_build(["driver"])
    text = "\n".join(inp) + "\n"
    _, impl = common.run_impl(common.RT, text)
    _, model = common.run_model(text)
    pairs, diffs = common.diff_streams(impl, model)
    for req, ans in pairs:
        print(f"{req}\n  impl : {ans}")
    for d in diffs:
        print(f"DIFF at {d[1]}: impl={d[2]} model={d[3]}")
    return 1 if diffs else 0
