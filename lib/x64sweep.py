"""x64sweep — the bytes dynasm-rs emits for every entry of the x86/x64 instruction table, read back by llvm-mc's disassembler.

    instantiate(entry, mode) -> [str]     dynasm-syntax lines for one table entry (`plug dump x64` object), mode = "x64" | "x86"
    run(limit=None)          -> dict      compile everything with the real plugin (harness/plug), disassemble the accepted bytes with
                                          llvm-mc 14 (Intel syntax), compare mnemonic / operands, return the report
    python3 lib/x64sweep.py [limit]       run and write lib/x64sweep_report.json

Per accepted instruction: (1) llvm-mc must read the bytes as exactly one instruction that consumes all of them, (2) the operands it
prints must be the operands that were written (registers by class/number/width, memory by base/index/scale/displacement, immediates
modulo the slot size; compared as multisets first, order second), (3) the mnemonic must be the written one or an alias of it (ALIASES,
every pair with a reason).  Everything else is classified: (a) harness normalisation (RULES, implied(), GPR_WIDTH_FREE), (b) alias (ALIASES,
canon_mnemonic, canon_cc), (c) suspect (SUSPECTS: every group was examined by hand against the table, compiler.rs and the SDM / APM encoding);
differences that none of these explain are listed under `unexplained`.

Which entry a line exercises: the x64 matcher takes the first table entry of the mnemonic whose format string matches, so a line written
for entry E may be taken by an earlier entry.  `select()` is a transcription of `match_format_string`; every instantiation is attributed
to the entry it predicts (and the prediction is checked: the entry's opcode bytes must occur in the emitted bytes)."""
import collections
import json
import os
import re
import subprocess
import sys
import time

sys.path.insert(0, os.path.dirname(os.path.abspath(__file__)))
import common                                   # noqa: E402
from c13 import parse_intel_mem                 # noqa: E402

LLVM_MC = "/usr/lib/llvm-14/bin/llvm-mc"
REPORT = os.path.join(os.path.dirname(os.path.abspath(__file__)), "x64sweep_report.json")
# every ISA feature llvm-mc 14 knows (`llvm-mc -triple=x86_64 -mattr=help`), tuning flags left out
MATTR = "+" + ",+".join("""3dnow 3dnowa 64bit adx aes amx-bf16 amx-int8 amx-tile avx avx2 avx512bf16 avx512bitalg avx512bw avx512cd avx512dq
avx512er avx512f avx512fp16 avx512ifma avx512pf avx512vbmi avx512vbmi2 avx512vl avx512vnni avx512vp2intersect avx512vpopcntdq avxvnni bmi
bmi2 cldemote clflushopt clwb clzero cmov crc32 cx16 cx8 enqcmd f16c fma fma4 fsgsbase fxsr gfni hreset invpcid kl lwp lzcnt mmx movbe
movdir64b movdiri mwaitx nopl pclmul pconfig pku popcnt prefetchwt1 prfchw ptwrite rdpid rdrnd rdseed rtm sahf serialize sgx sha shstk sse
sse2 sse3 sse4.1 sse4.2 sse4a ssse3 tbm tsxldtrk uintr vaes vpclmulqdq waitpkg wbnoinvd widekl x87 xop xsave xsavec xsaveopt xsaves""".split())

FLAGS = dict(VEX_OP=0x1, XOP_OP=0x2, IMM_OP=0x4, AUTO_SIZE=0x8, AUTO_NO32=0x10, AUTO_REXW=0x20, AUTO_VEXL=0x40, WORD_SIZE=0x80,
             WITH_REXW=0x100, WITH_VEXL=0x200, EXACT_SIZE=0x400, PREF_67=0x800, PREF_F0=0x1000, PREF_F2=0x2000, PREF_F3=0x4000,
             LOCK=0x8000, REP=0x10000, REPE=0x20000, SHORT_ARG=0x40000, ENC_MR=0x80000, ENC_VM=0x100000, ENC_MIB=0x200000,
             X86_ONLY=0x400000)
FEATURES = ["fpu", "mmx", "tdnow", "sse", "sse2", "sse3", "vmx", "ssse3", "sse4a", "sse41", "sse42", "sse5", "avx", "avx2", "fma", "bmi1",
            "bmi2", "tbm", "rtm", "invpcid", "mpx", "sha", "prefetchwt1", "cyrix", "amd", "directstores"]
SIZE = {"b": 1, "w": 2, "d": 4, "q": 8, "f": 6, "p": 10, "o": 16, "h": 32, "t": 64}
KEYWORD = {1: "BYTE", 2: "WORD", 4: "DWORD", 6: "FWORD", 8: "QWORD", 10: "TWORD", 16: "OWORD", 32: "YWORD", 64: "ZWORD"}


def flag(e, name):
    return bool(e["flags"] & FLAGS[name])


def flag_names(e):
    return [("PREF_66" if n == "WORD_SIZE" and e["flags"] & 3 else n) for n, b in FLAGS.items() if e["flags"] & b]


def feature_names(e):
    return [n for i, n in enumerate(FEATURES) if e["features"] >> i & 1] or ["base"]


def slots(e):
    a = e["args"]
    return [(a[i], a[i + 1]) for i in range(0, len(a), 2)]


_TABLE = None


def table():
    """the compiled table: [{m, i, args, ops, reg, flags, features}] in `plug dump x64` order (per mnemonic: matching order)"""
    global _TABLE
    if _TABLE is None:
        if not os.path.exists(common.PLUG):
            common.build_harness("plug")
        rc, out = common.sh([common.PLUG, "dump", "x64"])
        _TABLE = [json.loads(l) for l in out.split("\n") if l.startswith("{")]
    return _TABLE


_BY_MNEMONIC = None


def by_mnemonic():
    global _BY_MNEMONIC
    if _BY_MNEMONIC is None:
        _BY_MNEMONIC = collections.OrderedDict()
        for e in table():
            _BY_MNEMONIC.setdefault(e["m"], []).append(e)
    return _BY_MNEMONIC


# ------------------------------------------------------------------------------------------------ registers
G64 = ["rax", "rcx", "rdx", "rbx", "rsp", "rbp", "rsi", "rdi", "r8", "r9", "r10", "r11", "r12", "r13", "r14", "r15"]
G32 = ["eax", "ecx", "edx", "ebx", "esp", "ebp", "esi", "edi"] + [f"r{i}d" for i in range(8, 16)]
G16 = ["ax", "cx", "dx", "bx", "sp", "bp", "si", "di"] + [f"r{i}w" for i in range(8, 16)]
G8 = ["al", "cl", "dl", "bl", "spl", "bpl", "sil", "dil"] + [f"r{i}b" for i in range(8, 16)]
HIGH = ["ah", "ch", "dh", "bh"]
SEG = ["es", "cs", "ss", "ds", "fs", "gs"]


class Opnd:
    """one written operand. kind reg|mem|imm ; text (dynasm syntax) ; norm (what llvm must print, see op_equal) ;
    fam/num/size: what the matcher sees (size in bytes, None = unsized) ; fixed: taken by an upper-case (not encoded) slot"""
    __slots__ = ("kind", "text", "norm", "fam", "num", "size", "vsib", "fixed")

    def __init__(self, kind, text, norm, fam=None, num=None, size=None, vsib=None, fixed=False):
        self.kind, self.text, self.norm, self.fam, self.num, self.size, self.vsib, self.fixed = kind, text, norm, fam, num, size, vsib, fixed

    def as_fixed(self):
        return Opnd(self.kind, self.text, self.norm, self.fam, self.num, self.size, self.vsib, True)


def reg(fam, num, size, mode):
    """register operand of a dynasm family; None when the mode has no such register"""
    n8 = 16 if mode == "x64" else 8
    if fam == "legacy":
        if num >= n8:
            return None
        if size == 1:
            if mode == "x86" and num > 3:
                return None
            return Opnd("reg", G8[num], ("reg", "g", num, 8), fam, num, 1)
        if size == 8 and mode == "x86":
            return None
        names = {2: G16, 4: G32, 8: G64}.get(size)
        return Opnd("reg", names[num], ("reg", "g", num, size * 8), fam, num, size) if names else None
    if fam == "highbyte":
        return Opnd("reg", HIGH[num - 4], ("reg", "gh", num, 8), fam, num, 1)
    if fam == "fp":
        return Opnd("reg", f"st{num}", ("reg", "st", num, 80), fam, num, 10)
    if fam == "mmx":
        return Opnd("reg", f"mm{num}", ("reg", "mm", num, 64), fam, num, 8)
    if fam == "xmm":
        if num >= n8:
            return None
        return Opnd("reg", ("xmm" if size == 16 else "ymm") + str(num), ("reg", "x", num, size * 8), fam, num, size)
    if fam == "segment":
        return Opnd("reg", SEG[num], ("reg", "seg", num, 16), fam, num, 2)
    if fam in ("control", "debug"):
        if num >= n8:
            return None
        return Opnd("reg", ("cr" if fam == "control" else "dr") + str(num), ("reg", "cr" if fam == "control" else "dr", num, 0), fam, num,
                    8 if mode == "x64" else 4)
    if fam == "bound":
        return Opnd("reg", f"bnd{num}", ("reg", "bnd", num, 128), fam, num, 16)
    raise ValueError(fam)


def regs_of(code, size, mode):
    """every register a lower-case register slot of this size can take"""
    out = []
    if code in "rv":
        out = [reg("legacy", n, size, mode) for n in range(16)]
        if size == 1:
            out += [reg("highbyte", n, 1, mode) for n in range(4, 8)]
    elif code == "f":
        out = [reg("fp", n, 10, mode) for n in range(8)]
    elif code in "xu":
        out = [reg("mmx", n, 8, mode) for n in range(8)]
    elif code in "yw":
        out = [reg("xmm", n, size, mode) for n in range(16)] if size in (16, 32) else []
    elif code == "s":
        out = [reg("segment", n, 2, mode) for n in range(6)]
    elif code in "cd":        # control / debug registers have the mode's natural size: `cd` only matches in protected, `cq` only in long mode
        if size != (8 if mode == "x64" else 4):
            return []
        out = [reg("control" if code == "c" else "debug", n, 0, mode) for n in range(16)]
    elif code == "b":
        out = [reg("bound", n, 16, mode) for n in range(4)]
    return [r for r in out if r is not None]


# ------------------------------------------------------------------------------------------------ memory, immediates
# (base, index, scale, displacement); register numbers; base "rip" only in long mode
MEM_SHAPES = {"x64": [(0, None, None, None), (3, 1, 4, 16), (13, 9, 2, -300), ("rip", None, None, 64), (0, 10, 8, 8), (12, 1, 1, None)],
              "x86": [(0, None, None, None), (3, 1, 4, 16), (5, 6, 2, -300)]}
DEFAULT_MEM = 1


def mem(shape, size, mode, vec=None):
    """memory operand; vec = 16|32: the index is an xmm/ymm register (VSIB)"""
    base, index, scale, disp = shape
    g = G64 if mode == "x64" else G32
    parts, coef = [], {}
    if base == "rip":
        parts.append("rip")
        coef[("rip", 0)] = 1
    elif base is not None:
        parts.append(g[base])
        coef[("g", base)] = 1
    if index is not None:
        name = (("xmm" if vec == 16 else "ymm") + str(index)) if vec else g[index]
        parts.append(name if scale is None else f"{name}*{scale}")
        k = ("x", index) if vec else ("g", index)
        coef[k] = coef.get(k, 0) + (scale or 1)
    txt = " + ".join(parts)
    if disp is not None:
        txt = (f"{txt} - {-disp}" if disp < 0 else f"{txt} + {disp}") if txt else str(disp)
    width = (64 if mode == "x64" else 32) if (base is not None or (index is not None and not vec)) else None
    kw = (KEYWORD[size] + " ") if size else ""
    norm = ("mem", tuple(sorted(coef.items())), disp or 0, width, vec * 8 if vec else None, size)
    return Opnd("mem", f"{kw}[{txt}]", norm, size=size, vsib=vec)


def vsib_shapes(mode):
    n = 16 if mode == "x64" else 8
    out = [(3, i, 2, None) for i in range(n)]
    out += [(0, 1, None, None), (None, 2, 4, 64)]
    out += [(13, 9, 8, -300)] if mode == "x64" else [(5, 6, 8, -300)]
    return out


IMM_B = [0, 1, -1, 127, -128]
IMM_W = [128, 255, 32767, -32768]
IMM_D = [65536, 0x7FFFFFFF, -0x80000000]
IMM_Q = [0x100000000, 0x123456789ABCDEF0, -0x8000000000000000]
DEFAULT_IMM = [5, 6, 7, 9]


def derive_size(v):
    """compiler.rs derive_size on the literal `v` / `-v` as rendered by imm()"""
    if v >= 0:
        if v > 0x7FFFFFFF:
            return 8
        return 4 if v > 0x7FFF else 2 if v > 0x7F else 1
    x = -v
    if x > 0x7FFFFFFFFFFFFFFF:
        return 8
    return 4 if x > 0x8000 else 2 if x > 0x80 else 1


def imm(v, slot_size, hint=None):
    """immediate operand. slot_size: bytes the slot emits (comparison is modulo that); hint: size keyword written in front"""
    txt = (f"-0x{-v:x}" if v < -0xFFFF else str(v)) if v < 0 else (hex(v) if v > 0xFFFF else str(v))
    if hint:
        txt = f"{KEYWORD[hint]} {txt}"
    return Opnd("imm", txt, ("imm", v, slot_size), size=hint or derive_size(v))


def imms(fsize, opsize, code):
    """boundary values for an immediate / offset slot; opsize = bytes of the `*` operands of this instantiation"""
    n = SIZE[fsize] if fsize != "*" else min(opsize or 4, 4)
    vals = list(IMM_B)
    if n >= 2:
        vals += IMM_W
    if n >= 4:
        vals += IMM_D
    if n >= 8:
        vals += IMM_Q
    out = [imm(v, n) for v in vals]
    if code == "o":        # an offset slot only takes an immediate whose derived size is exactly the slot size
        out = [o for o in out if o.size == n]
    if n > 1:      # the same small values with the slot's own size written in front (otherwise a shorter form of the mnemonic takes them)
        out += [imm(v, n, hint=n) for v in (1, -1)]
    return out


# ------------------------------------------------------------------------------------------------ the matcher (match_format_string)
def fmt_matches(e, ops, mode):
    if mode != "x86" and flag(e, "X86_ONLY"):
        return False
    sl = slots(e)
    if len(sl) != len(ops):
        return False
    exact = flag(e, "EXACT_SIZE")
    for (code, fs), o in zip(sl, ops):
        if code in "io":
            if o.kind != "imm":
                return False
            size = o.size
        elif "A" <= code <= "P":
            if not (o.kind == "reg" and o.fam == "legacy" and o.num == ord(code) - 65):
                return False
            size = o.size
        elif "Q" <= code <= "V":
            if not (o.kind == "reg" and o.fam == "segment" and o.num == ord(code) - ord("Q")):
                return False
            size = o.size
        elif code == "W":
            if not (o.kind == "reg" and o.fam == "control" and o.num == 8):
                return False
            size = o.size
        elif code == "X":
            if not (o.kind == "reg" and o.fam == "fp" and o.num == 0):
                return False
            size = o.size
        elif o.kind == "reg":
            want = {"r": ("legacy", "highbyte"), "v": ("legacy", "highbyte"), "x": ("mmx",), "u": ("mmx",), "y": ("xmm",), "w": ("xmm",),
                    "f": ("fp",), "s": ("segment",), "c": ("control",), "d": ("debug",), "b": ("bound",)}.get(code, ())
            if o.fam not in want:
                return False
            size = o.size
        elif o.kind == "mem":
            if code in "muvw":
                if o.vsib:
                    return False
                size = o.size
            elif code == "k":
                if not o.vsib or o.size not in (None, 4):
                    return False
                size = o.vsib
            elif code == "l":
                if not o.vsib or o.size not in (None, 8):
                    return False
                size = o.vsib
            else:
                return False
        else:
            return False
        if size is not None:
            if code == "i" and fs in "wdq*":
                ok = size <= {"w": 2, "d": 4, "q": 8, "*": 4}[fs]
            elif fs in SIZE:
                ok = size == SIZE[fs]
            elif fs == "*":
                if code in "klyw":
                    ok = size in (16, 32)
                elif code in "rv" or "A" <= code <= "P":
                    ok = size in (2, 4, 8)
                elif code == "m":
                    ok = True
                else:
                    ok = False          # the implementation panics ("Invalid size wildcard"); never generated
            elif fs == "?":
                ok = True
            else:
                ok = False
            if not ok:
                return False
        elif fs != "*" and exact:
            return False
    return True


def select(mnemonic, ops, mode):
    """index of the table entry the implementation takes for these operands (None: no form matches)"""
    for e in by_mnemonic().get(mnemonic, []):
        if fmt_matches(e, ops, mode):
            return e["i"]
    return None


# ------------------------------------------------------------------------------------------------ instantiation
DEFAULT_REG = [1, 2, 3, 0]


class Inst:
    """one instantiation: entry = the table entry it was generated for, sel / sel_entry = the entry the matcher takes for the line"""
    __slots__ = ("entry", "mode", "ops", "line", "sel", "sel_entry", "ans", "bytes", "status", "dis", "res", "wait", "gen")

    def __init__(self, entry, mode, ops):
        self.entry, self.mode, self.ops = entry, mode, ops
        self.line = entry["m"] + (" " + ", ".join(o.text for o in ops) if ops else "")
        self.sel = self.sel_entry = self.ans = self.bytes = self.status = self.dis = self.res = None
        self.wait = False
        self.gen = [key_of(entry)]

    def request(self):
        return f"cl ; .arch {self.mode} ; {self.line}"


def op_sizes(e, mode):
    """the operand sizes (bytes) to give the `*` slots of an entry: an int, or {"g": n, "v": m} when general and vector `*` slots are mixed
    (their size domains are disjoint, size_operands then reports "Conflicting operand sizes": such an entry cannot be used at all)"""
    sl = slots(e)
    stars = [c for (c, s) in sl if s == "*" and c not in "io"]
    if not stars:
        return [None]
    vec = [c for c in stars if c in "ywkl"]
    gen = [c for c in stars if c in "rv" or "A" <= c <= "P"]
    if vec and gen:
        return [{"g": g, "v": v} for g in ((4, 8) if mode == "x64" else (4,)) for v in (16, 32)]
    if vec:
        return [16, 32]
    if flag(e, "AUTO_VEXL"):           # only `m*`: every size keyword matches; 8 is kept as a probe of what happens with a size AUTO_VEXL cannot use
        return [8, 16, 32]
    if flag(e, "AUTO_REXW"):
        opts = [4, 8]
    elif flag(e, "AUTO_NO32"):
        opts = [2, 8] if mode == "x64" else [2, 4]
    else:
        opts = [2, 4, 8]
    return [s for s in opts if not (s == 8 and mode == "x86")]


def slot_alternatives(e, j, code, fs, opsize, mode):
    """(default operand, all operands to sweep) for slot j; (None, []) if the mode cannot express the slot"""
    if isinstance(opsize, dict):
        opsize = opsize["v" if code in "ywkl" else "g"]
    size = SIZE[fs] if fs in SIZE else (opsize if fs == "*" else None)
    if "A" <= code <= "P":
        r = reg("legacy", ord(code) - 65, size, mode)
        return (r.as_fixed(), [r.as_fixed()]) if r else (None, [])
    if "Q" <= code <= "V":
        r = reg("segment", ord(code) - ord("Q"), 2, mode).as_fixed()
        return r, [r]
    if code == "W":
        r = reg("control", 8, 0, mode) if size == (8 if mode == "x64" else 4) else None
        return (r.as_fixed(), [r.as_fixed()]) if r else (None, [])
    if code == "X":
        r = reg("fp", 0, 10, mode).as_fixed()
        return r, [r]
    if code in "io":
        alts = imms(fs, opsize, code)
        n = alts[0].norm[2]
        return (imm(DEFAULT_IMM[j], n) if code == "i" else alts[1]), alts
    msize = None if fs == "!" else size
    if code in "kl":
        vec = size
        alts = [mem(s, None, mode, vec=vec) for s in vsib_shapes(mode)]
        return alts[1], alts
    if code == "m":
        alts = [mem(s, msize, mode) for s in MEM_SHAPES[mode]]
        return alts[DEFAULT_MEM], alts
    regs = regs_of(code, size, mode)
    mems = [mem(s, msize, mode) for s in MEM_SHAPES[mode]] if code in "uvw" else []
    if not regs and not mems:
        return None, []
    # (a register/memory slot whose registers do not exist in this mode — r/m64 in protected mode — can still be written as memory)
    return (regs[DEFAULT_REG[j] % len(regs)] if regs else mems[DEFAULT_MEM]), list(regs) + mems


PAIRWISE = False          # thorough tier: additionally vary TWO slots at a time (REX/VEX R, X, B, vvvv and is4 come from different operands)
PAIR_REGS = {0, 4, 5, 7, 8, 12, 13, 15}


def pair_subset(alts):
    """the alternatives of a slot that take part in pairwise variation: registers on both sides of 8 and the special numbers 4/5/12/13,
    every memory shape, the first two immediates"""
    out, imm_n, hb = [], 0, 0
    for a in alts:
        if a.kind == "reg":
            if a.fam == "highbyte":
                hb += 1
                if hb > 1:
                    continue
            elif a.num not in PAIR_REGS:
                continue
            out.append(a)
        elif a.kind == "imm":
            imm_n += 1
            if imm_n <= 2:
                out.append(a)
        else:
            out.append(a)
    return out


def instances(e, mode):
    """[Inst] for one entry: every alternative of every slot with the other slots at their default, for every operand size"""
    if mode == "x64" and flag(e, "X86_ONLY"):
        return []
    sl = slots(e)
    out, seen = [], set()
    for opsize in op_sizes(e, mode):
        defaults, alts = [], []
        for j, (code, fs) in enumerate(sl):
            d, a = slot_alternatives(e, j, code, fs, opsize, mode)
            defaults.append(d)
            alts.append(a)
        if any(d is None for d in defaults):
            continue
        combos = [list(defaults)]
        for j in range(len(sl)):
            for a in alts[j]:
                c = list(defaults)
                c[j] = a
                combos.append(c)
        if PAIRWISE:
            subs = [pair_subset(a) for a in alts]
            for j in range(len(sl)):
                for k in range(j + 1, len(sl)):
                    if len(subs[j]) < 2 and len(subs[k]) < 2:
                        continue
                    for a in subs[j]:
                        for b in subs[k]:
                            c = list(defaults)
                            c[j], c[k] = a, b
                            combos.append(c)
        for c in combos:
            it = Inst(e, mode, c)
            if it.line not in seen:
                seen.add(it.line)
                out.append(it)
    return out


def instantiate(entry, mode):
    """dynasm-syntax instruction lines for one table entry in mode "x64" | "x86" """
    return [it.line for it in instances(entry, mode)]


# ------------------------------------------------------------------------------------------------ the implementation
def eval_expr(txt):
    t = re.sub(r"(?<=[0-9a-fA-F])_?(?:u8|i8|u16|i16|u32|i32|u64|i64|usize|isize)\b", "", txt)
    if not re.fullmatch(r"[0-9a-fA-Fx()+\-*&|<> ]+", t):
        return None
    try:
        return int(eval(t, {"__builtins__": {}}, {}))
    except Exception:      # noqa
        return None


def answer_bytes(ans):
    """('ok', bytes) | ('reject'|'panic'|'unencodable'|'dynamic', detail)"""
    if ans.startswith("reject") or ans.startswith("parse-error"):
        return "reject", ans
    if not ans.startswith("ok "):
        return "panic", ans
    b = b""
    for s in json.loads(ans[3:]):
        k, _, v = s.partition("|")
        if k == "x":
            b += bytes.fromhex(v)
        elif re.fullmatch(r"c[1248]", k):
            b += int(v, 16).to_bytes(int(k[1]), "little")
        elif re.fullmatch(r"e[su][1248]", k):
            n, val = int(k[2]), eval_expr(v)
            if val is None:
                return "dynamic", s
            lo, hi = (-(1 << (8 * n - 1)), (1 << (8 * n - 1))) if k[1] == "s" else (0, 1 << (8 * n))
            if not lo <= val < hi:
                return "unencodable", s        # rustc rejects the literal (`push_i8(255)`)
            b += (val & ((1 << (8 * n)) - 1)).to_bytes(n, "little")
        else:
            return "dynamic", s
    return "ok", b


def plug(reqs):
    _, out = common.sh([common.PLUG, "exec"], inp="\n".join(reqs) + "\n", timeout=3600)
    return [a for (_, a) in common.answers_of_impl(out)]


# ------------------------------------------------------------------------------------------------ llvm-mc
TAG = 0x5A000000
PAD = 15


def _mc(mode, text):
    """→ (stdout, stderr) of llvm-mc --disassemble (Intel syntax)"""
    p = subprocess.run([LLVM_MC, "--disassemble", "-triple=" + ("x86_64" if mode == "x64" else "i386"), "-output-asm-variant=1", "-mattr=" + MATTR],
                       input=text, stdout=subprocess.PIPE, stderr=subprocess.PIPE, text=True)
    return p.stdout, p.stderr


def _asm_lines(txt):
    """instruction lines of llvm-mc's output (directives dropped, `# xmm1 = ...` comments cut, blanks squeezed)"""
    return [re.sub(r"\s+", " ", l.split("#")[0].strip()) for l in txt.split("\n") if l.startswith("\t") and not l.strip().startswith(".")]


def disassemble(byte_strings, mode):
    """[(status, lines)] with status one | short | trailing | undecodable.
    llvm-mc reads its whole input as one byte stream, so each instruction is framed: `mov eax, TAG+i` in front, 15 one-byte nops behind
    (an x86 instruction has at most 15 bytes: whatever happens inside the frame, decoding is aligned again at the next tag).  A frame
    that is not exactly [one line, 15 nops] is `short` (the instruction swallowed padding: dynasm emitted fewer bytes than the instruction
    has) or is run again alone, without padding, to tell `undecodable` (llvm-mc warns) from `trailing` (several instructions)."""
    hexs = lambda bs: " ".join(f"0x{b:02x}" for b in bs)        # noqa: E731
    inp = []
    for i, bs in enumerate(byte_strings):
        inp.append(hexs(b"\xb8" + (TAG + i).to_bytes(4, "little")))
        inp.append(hexs(bs))
        inp.append(hexs(b"\x90" * PAD))
    so, se = _mc(mode, "\n".join(inp) + "\n")
    lines = _asm_lines(so)
    warned = {(int(n) - 1) // 3 for n in re.findall(r"<stdin>:(\d+):\d+: warning", se)}       # input line → frame
    frames, cur = {}, None
    for l in lines:
        m = re.fullmatch(r"mov eax, (\d+)", l)
        if m and TAG <= int(m.group(1)) < TAG + len(byte_strings) and int(m.group(1)) - TAG not in frames:
            cur = frames.setdefault(int(m.group(1)) - TAG, [])
        elif cur is not None:
            cur.append(l)
    out = []
    for i, bs in enumerate(byte_strings):
        f = frames.get(i, [])
        k = 0
        while k < PAD and k < len(f) and f[len(f) - 1 - k] == "nop":
            k += 1
        if len(f) - k == 1 and k == PAD and i not in warned:
            out.append(("one", f[:1]))
            continue
        so, se = _mc(mode, hexs(bs) + "\n")
        ls = _asm_lines(so)
        if not se.strip() and len(ls) == 1:
            out.append(("one", ls))
        elif not se.strip() and ls:
            out.append(("trailing", ls))
        else:
            # llvm-mc warns: not an instruction, or an instruction that needs more bytes than were emitted
            so2, se2 = _mc(mode, hexs(bs + b"\x90" * PAD) + "\n")
            ls2 = _asm_lines(so2)
            if not se2.strip() and ls2 and all(x == "nop" for x in ls2[1:]):
                out.append(("short", [ls2[0], f"(reads {PAD - len(ls2) + 1} byte(s) more than were emitted)"]))
            else:
                out.append(("undecodable", ls))
    return out


LLVM_REG = {}
for _i in range(16):
    LLVM_REG[G64[_i]] = ("reg", "g", _i, 64)
    LLVM_REG[G32[_i]] = ("reg", "g", _i, 32)
    LLVM_REG[G16[_i]] = ("reg", "g", _i, 16)
    LLVM_REG[G8[_i]] = ("reg", "g", _i, 8)
    LLVM_REG[f"xmm{_i}"] = ("reg", "x", _i, 128)
    LLVM_REG[f"ymm{_i}"] = ("reg", "x", _i, 256)
    LLVM_REG[f"cr{_i}"] = ("reg", "cr", _i, 0)
    LLVM_REG[f"dr{_i}"] = ("reg", "dr", _i, 0)
for _i in range(32):
    LLVM_REG[f"zmm{_i}"] = ("reg", "x", _i, 512)
for _i in range(8):
    LLVM_REG[f"st({_i})"] = ("reg", "st", _i, 80)
    LLVM_REG[f"mm{_i}"] = ("reg", "mm", _i, 64)
    LLVM_REG[f"k{_i}"] = ("reg", "k", _i, 64)
for _i in range(4):
    LLVM_REG[HIGH[_i]] = ("reg", "gh", _i + 4, 8)
    LLVM_REG[f"bnd{_i}"] = ("reg", "bnd", _i, 128)
for _i, _n in enumerate(SEG):
    LLVM_REG[_n] = ("reg", "seg", _i, 16)
LLVM_REG["st"] = ("reg", "st", 0, 80)
PTR = {"byte": 1, "word": 2, "dword": 4, "fword": 6, "qword": 8, "tbyte": 10, "xword": 10, "xmmword": 16, "ymmword": 32, "zmmword": 64}
LLVM_PREFIXES = {"rep", "repe", "repne", "repz", "repnz", "lock", "data16", "data32", "addr16", "addr32", "notrack", "xacquire", "xrelease", "rex64", "bnd"}


def parse_llvm(text):
    """`mnemonic op, op` → (prefixes, mnemonic, [norm]) ; operands that cannot be parsed come back as ('?', text)"""
    toks = text.split(" ")
    pre = []
    while len(toks) > 1 and toks[0] in LLVM_PREFIXES:
        pre.append(toks.pop(0))
    mn = toks[0]
    rest = " ".join(toks[1:]).strip()
    ops = []
    if rest:
        for o in [x.strip() for x in re.split(r",(?![^\[]*\])", rest)]:
            ops += parse_llvm_operand(o)
    return pre, mn, ops


def parse_llvm_operand(o):
    if o in LLVM_REG:
        return [LLVM_REG[o]]
    if re.fullmatch(r"-?(0x[0-9a-fA-F]+|\d+)", o):
        return [("imm", int(o, 0))]
    m = re.fullmatch(r"(-?\d+):(-?\d+)", o)
    if m:       # far pointer seg:offset
        return [("imm", int(m.group(2))), ("imm", int(m.group(1)))]
    m = re.fullmatch(r"(?:(\w+) ptr )?(?:(\w\w):)?(\[[^\]]*\])", o)
    if m:
        size = PTR.get(m.group(1)) if m.group(1) else None
        inner = m.group(3)
        vec = None
        mv = re.search(r"\b([xyz])mm\d+", inner)
        if mv:
            vec = {"x": 128, "y": 256, "z": 512}[mv.group(1)]
        lin = parse_intel_mem(inner)
        if lin is None:
            return [("?", o)]
        coef, disp, width = lin
        return [("mem", tuple(sorted(coef.items())), disp, width, vec, size, m.group(2))]
    return [("?", o)]


def op_equal(e, l):
    """written operand e (Opnd.norm) against printed operand l"""
    if e[0] == "reg":
        return l == e
    if e[0] == "imm":
        if l[0] == "imm":
            return (e[1] - l[1]) % (1 << (8 * e[2])) == 0
        # moffs: the absolute address is an immediate for dynasm (`movabs al, addr`), llvm prints `byte ptr [addr]`
        return l[0] == "mem" and not l[1] and e[2] == 8 and (e[1] - l[2]) % (1 << 64) == 0
    if e[0] == "mem":
        if l[0] != "mem":
            return False
        return e[1] == l[1] and (e[2] - l[2]) % (1 << 32) == 0 and (e[3] is None or l[3] is None or e[3] == l[3]) and e[4] == l[4]
    return False


def fmt_norm(n):
    if n[0] == "reg":
        return f"{n[1]}{n[2]}" + (f":{n[3]}" if n[3] else "")
    if n[0] == "imm":
        return f"imm {n[1]}"
    if n[0] == "mem":
        return "[" + " + ".join(f"{c}{i}*{k}" for ((c, i), k) in n[1]) + f" {n[2]:+d}]" + (f":{n[5]}B" if n[5] else "")
    return str(n[1])


# ------------------------------------------------------------------------------------------------ canonical mnemonics
# Pseudo-ops: a mnemonic that stands for another mnemonic plus a fixed immediate byte.  Both sides are brought to (base, immediate), so
# `vcmpeq_ospd a, b, c` (dynasm, IMM_OP entry) = `vcmppd a, b, c, 16` and llvm's `cmpordpd a, b` = `cmppd a, b, 7`: the immediate byte
# of dynasm's pseudo-op entries is checked against the predicate tables of the SDM / AMD APM, not just the spelling.
_AVX_PRED = ["eq_oq", "lt_os", "le_os", "unord_q", "neq_uq", "nlt_us", "nle_us", "ord_q", "eq_uq", "nge_us", "ngt_us", "false_oq", "neq_oq",
             "ge_os", "gt_os", "true_uq", "eq_os", "lt_oq", "le_oq", "unord_s", "neq_us", "nlt_uq", "nle_uq", "ord_s", "eq_us", "nge_uq",
             "ngt_uq", "false_os", "neq_os", "ge_oq", "gt_oq", "true_us"]
CMP_PRED = {"eq": 0, "lt": 1, "le": 2, "unord": 3, "neq": 4, "nlt": 5, "nle": 6, "ord": 7, "nge": 9, "ngt": 10, "false": 11, "ge": 13, "gt": 14,
            "true": 15}
CMP_PRED.update({n: i for i, n in enumerate(_AVX_PRED)})
PCOM_PRED = {"lt": 0, "le": 1, "gt": 2, "ge": 3, "eq": 4, "neq": 5, "false": 6, "true": 7}


def canon_mnemonic(m):
    """mnemonic → (base mnemonic, implied immediate or None)"""
    mm = re.fullmatch(r"(v?)cmp([a-z_]+?)(ps|pd|ss|sd)", m)
    if mm and mm.group(2) in CMP_PRED:
        return mm.group(1) + "cmp" + mm.group(3), CMP_PRED[mm.group(2)]
    mm = re.fullmatch(r"vpcom([a-z]+?)(u?[bwdq])", m)
    if mm and mm.group(1) in PCOM_PRED:
        return "vpcom" + mm.group(2), PCOM_PRED[mm.group(1)]
    mm = re.fullmatch(r"(v?)pclmul(lq|hq)(lq|hq)dq", m)
    if mm:
        return mm.group(1) + "pclmulqdq", (1 if mm.group(2) == "hq" else 0) | (0x10 if mm.group(3) == "hq" else 0)
    # FMA3: NASM's extra operand-order names; the two multiplicands commute, so 123 = 213 (A8..AF), 312 = 132 (98..9F), 321 = 231 (B8..BF)
    mm = re.fullmatch(r"(vfn?m(?:add|sub|addsub|subadd))(123|312|321)(ps|pd|ss|sd)", m)
    if mm:
        return mm.group(1) + {"123": "213", "312": "132", "321": "231"}[mm.group(2)] + mm.group(3), None
    return m, None


# condition-code spellings: both sides are brought to the first spelling of each group
CC = {"z": "e", "nz": "ne", "c": "b", "nae": "b", "nc": "ae", "nb": "ae", "na": "be", "nbe": "a", "pe": "p", "po": "np", "nge": "l", "nl": "ge",
      "ng": "le", "nle": "g"}


def canon_cc(m):
    for stem in ("cmov", "set", "fcmov", "j", "loop"):
        if m.startswith(stem) and m[len(stem):] in CC:
            return stem + CC[m[len(stem):]]
    return m


# (dynasm mnemonic, llvm mnemonic incl. printed prefixes) → reason.  Built from the differences observed on the whole table; a pair is
# listed only after checking that the bytes are an encoding of the written instruction (same opcode, other spelling).  "mode" restricts
# a pair to one mode.
ALIASES = {
    ("sal", "shl"): "SAL and SHL are the same operation; dynasm encodes both as /4, llvm prints shl",
    ("retn", "ret"): "near return",
    ("int03", "int3"): "spelling", ("ud2a", "ud2"): "spelling", ("fwait", "wait"): "spelling", ("xlat", "xlatb"): "spelling",
    ("xstore", "xstorerng"): "VIA PadLock: llvm's spelling of 0F A7 C0",
    ("iret", "iretd"): "llvm names the operand size: CF without prefix is the 32-bit IRET (iretd); dynasm's iretq has REX.W",
    ("iretw", "iret"): "llvm prints the 66-prefixed 16-bit form as plain `iret`",
    ("popf", "popfq"): "long mode: 9D pops 64 bits", ("pushf", "pushfq"): "long mode: 9C pushes 64 bits",
    ("popf", "popfd"): "protected mode: 9D pops 32 bits", ("pushf", "pushfd"): "protected mode: 9C pushes 32 bits",
    ("popfq", "popfd"): "dynasm accepts popfq in protected mode; same byte 9D, which is popfd there",
    ("pushfq", "pushfd"): "dynasm accepts pushfq in protected mode; same byte 9C, which is pushfd there",
    ("popfw", "popf"): "llvm prints the 66-prefixed 16-bit form as plain popf", ("pushfw", "pushf"): "llvm prints the 66-prefixed 16-bit form as plain pushf",
    ("popa", "popaw"): "dynasm's popa is the 16-bit form (66 61), llvm calls it popaw", ("popad", "popal"): "llvm's (AT&T-derived) name of the 32-bit form",
    ("pusha", "pushaw"): "dynasm's pusha is the 16-bit form (66 60), llvm calls it pushaw", ("pushad", "pushal"): "llvm's (AT&T-derived) name of the 32-bit form",
    ("jrcxz", "jecxz"): "protected mode: E3 without prefix tests ECX; dynasm accepts the spelling jrcxz for it",
    ("lgdt", "lgdtd"): "llvm names the operand size in 32-bit mode", ("lidt", "lidtd"): "llvm names the operand size in 32-bit mode",
    ("sgdt", "sgdtd"): "llvm names the operand size in 32-bit mode", ("sidt", "sidtd"): "llvm names the operand size in 32-bit mode",
    ("mov", "movabs"): "mov r64, imm64 (REX.W B8+r): llvm's name for the 64-bit immediate form",
    ("movabs", "mov"): "protected mode: A0..A3 are plain mov moffs32 (see suspects: movabs in x86 mode)",
    ("movd", "movq"): "REX.W 0F 6E/7E: dynasm accepts movd with a 64-bit register, llvm prints movq",
    ("movsx", "movsxd"): "movsx r64, r/m32 is 63 /r = movsxd",
    ("pmulhrwa", "pmulhrw"): "3DNow! 0F 0F B7: dynasm's name keeps it apart from Cyrix pmulhrw",
    ("vmovqqa", "vmovdqa"): "256-bit spelling", ("vmovqqu", "vmovdqu"): "256-bit spelling", ("vldqqu", "vlddqu"): "256-bit spelling",
    ("vmovntqq", "vmovntdq"): "256-bit spelling",
    ("call", "lcall"): "far call (ptr16:16/32 or m16:16/32)", ("callf", "lcall"): "far call", ("callf", "call"): "far call through memory: llvm prints `call` with an fword operand",
    ("jmp", "ljmp"): "far jump", ("jmpf", "ljmp"): "far jump", ("jmpf", "jmp"): "far jump through memory: llvm prints `jmp` with an fword operand",
    ("fcomip", "fcompi"): "llvm's spelling", ("fucomip", "fucompi"): "llvm's spelling",
    ("fadd", "faddp"): "no-operand fadd is DE C1 = faddp st(1), st (the MASM/NASM convention)", ("fmul", "fmulp"): "no-operand fmul is DE C9 = fmulp st(1), st",
    ("fsub", "fsubp"): "no-operand fsub is DE E9 = fsubp st(1), st", ("fsubr", "fsubrp"): "no-operand fsubr is DE E1 = fsubrp st(1), st",
    ("fdiv", "fdivp"): "no-operand fdiv is DE F9 = fdivp st(1), st", ("fdivr", "fdivrp"): "no-operand fdivr is DE F1 = fdivrp st(1), st",
    ("fclex", "fnclex"): "9B prefix printed by llvm as a separate `wait`", ("finit", "fninit"): "9B prefix printed as a separate `wait`",
    ("fsave", "fnsave"): "9B prefix printed as a separate `wait`", ("fstcw", "fnstcw"): "9B prefix printed as a separate `wait`",
    ("fstenv", "fnstenv"): "9B prefix printed as a separate `wait`", ("fstsw", "fnstsw"): "9B prefix printed as a separate `wait`",
    ("xchg", "nop"): "66 90 / 90: xchg (e)ax, (e)ax is the nop encoding",
}


def alias_reason(dm, lm):
    if dm == lm:
        return None
    if canon_cc(dm) == canon_cc(lm):
        return "condition-code synonym (same opcode)"
    return ALIASES.get((dm, lm))


# ------------------------------------------------------------------------------------------------ normalisation rules
def _g(n, bits):
    return ("reg", "g", n, bits)


ST0, ST1, XMM0 = ("reg", "st", 0, 80), ("reg", "st", 1, 80), ("reg", "x", 0, 128)
X87 = r"f(add|mul|sub|subr|div|divr|com|comp|cmov\w+|comi|compi|ucomi|ucompi|ucom|ucomp|xch|ld|st|stp|free|freep|addp|mulp|subp|subrp|divp|divrp)"
RULES = {
    "fixed-operand": "an operand written for a fixed slot of the format string (A..P, Q..V, W, X: not encoded) that llvm does not print is ignored; when llvm prints it, it must be equal",
    "x87-st0": "x87 arithmetic / compare / exchange: llvm prints the implied st(0) (`fadd st, st(1)`), dynasm's one-operand forms do not take it",
    "x87-st1": "x87 forms written without operands mean st(1) (opcode + 1): llvm prints it",
    "xmm0": "blendvps / blendvpd / pblendvb / sha256rnds2: xmm0 is implied by the opcode; llvm prints it as last operand",
    "string": "string instructions (movs/cmps/stos/lods/scas/ins/outs, xlatb, maskmov*): llvm prints the implied [rsi] / es:[rdi] / [rbx] / accumulator / dx operands",
    "implied-gpr": "monitor / mwait / invlpga / vmload / clzero ... : register operands implied by the opcode, printed by one side only",
    "moffs": "movabs: dynasm takes the absolute address as an immediate (`movabs al, addr`), llvm prints `byte ptr [addr]`; compared modulo 2^64 (2^32 in protected mode)",
    "pseudo-op": "pseudo-op mnemonics (cmpPREDps.., vcmpPREDps.., vpcomPREDb.., pclmulXXYYdq) are compared as base mnemonic + immediate byte",
    "imm-modulo": "immediates are compared modulo 2^(8*slot size): llvm prints some sign-extended, some zero-extended",
    "gpr-width": "a general register printed with another width than written, for instructions where the width is not encoded or llvm fixes the spelling (list GPR_WIDTH_FREE)",
    "commutative-order": "test / xchg with a memory operand have one encoding (84/85 /r, 86/87 /r); llvm prints the memory operand first",
    "far-pointer-order": "far pointers: dynasm writes `offset, segment`, llvm prints `segment, offset`",
    "wait-prefix": "fclex / finit / fsave / fstcw / fstenv / fstsw are 9B + the fn* form: llvm prints `wait` as a separate instruction",
    "xchg-nop": "xchg ax, ax / xchg eax, eax (66 90 / 90) is printed as nop without operands",
    "fma3-order-names": "vfmadd123ps = vfmadd213ps, vfmadd312ps = vfmadd132ps, vfmadd321ps = vfmadd231ps (and all other FMA3 stems): the multiplicands commute, same opcode",
    "cyrix-foreign": "entries of the cyrix feature are not compared: their opcodes were reused by SSE / VMX / SMX and llvm reads those (counted with the undecodable ones)",
}
# llvm mnemonic (regex) → why the printed width of a general register is not the written one although the encoding is the written instruction
GPR_WIDTH_FREE = [
    (r"v?pextr[bwd]|v?extractps|v?movmskp[sd]|v?pmovmskb", lambda lops, widths, it: all(b == 32 for (_, a, b) in widths),
     "destination printed as r32; with REX.W / a 64-bit name written the same register is written (upper half zero)"),
    (r"v?pinsr[bw]", lambda lops, widths, it: all(b == 32 and a in (8, 16) for (_, a, b) in widths), "source register printed as r32; only its low 8/16 bits are read"),
    (r"lar|lsl", lambda lops, widths, it: all(b == 16 for (_, a, b) in widths), "source selector printed as r16 whatever the operand size"),
    (r"mov", lambda lops, widths, it: any(l[0] == "reg" and l[1] == "seg" for l in lops) and all(a == 16 and b == 32 for (_, a, b) in widths),
     "mov r/m16, sreg / mov sreg, r/m16 without 66 prefix (dynasm never emits one for the 16-bit register forms): llvm prints the 32-bit name"),
    (r"call|jmp", lambda lops, widths, it: it.mode == "x64" and all(a == 16 and b == 64 for (_, a, b) in widths),
     "66 FF /2, /4 in long mode: the operand size of near branches is fixed to 64 bits on Intel (llvm prints the 64-bit name) and is 16 bits on AMD; "
     "dynasm accepts the 16-bit register (AUTO_NO32) and emits the prefix"),
]
GPR_WIDTH_FREE.append((r"lwpins|lwpval", lambda lops, widths, it: all(a == 64 and b == 32 for (_, a, b) in widths),
                       "LWPINS / LWPVAL reg64, reg/mem32, imm32: the r/m operand is 32 bits whatever XOP.W says; dynasm's r*v*id format wants both registers the same size"))
ORDER_FREE = r"test|xchg"


# ------------------------------------------------------------------------------------------------ comparison
def op_size_of(it):
    """bytes of the `*` operands of an instantiation (what size_operands computes)"""
    for o, (code, fs) in zip(it.ops, slots(it.sel_entry)):
        if fs == "*" and code not in "io":
            return o.vsib if o.vsib else o.size
    return None


def expected_operands(it):
    """[(norm, fixed)]: what llvm must print for the written operands; immediates get the size of the slot of the entry that takes the line"""
    out = []
    ops = op_size_of(it)
    for o, (code, fs) in zip(it.ops, slots(it.sel_entry)):
        n = o.norm
        if o.kind == "imm":
            n = ("imm", n[1], SIZE[fs] if fs in SIZE else min(ops or 4, 4))
        out.append((n, o.fixed))
    return out


def implied(lbase, l, it):
    """rule id if the printed operand l is implied by the opcode (not written in dynasm syntax)"""
    if re.fullmatch(X87, lbase):
        if l == ST0:
            return "x87-st0"
        if l == ST1 and not it.ops:
            return "x87-st1"
    if re.fullmatch(r"blendvp[sd]|pblendvb|sha256rnds2", lbase) and l == XMM0:
        return "xmm0"
    if re.fullmatch(r"(movs|cmps|stos|lods|scas|ins|outs)[bwdq]|xlatb|v?maskmovdqu|maskmovq", lbase):
        if l[0] == "mem" or (l[0] == "reg" and l[1] == "g" and l[2] in (0, 2)):
            return "string"
    if re.fullmatch(r"monitorx?|mwaitx?|invlpga|vmload|vmsave|vmrun|skinit|clzero|tpause|umwait|umonitor", lbase) and l[0] == "reg" and l[1] == "g":
        return "implied-gpr"
    return None


def compare(it):
    """→ dict for an accepted instruction that llvm-mc reads as one instruction: kinds = set of differences that no rule explains
    (mnemonic | operands | gpr-width | vec-width | order), rules = normalisation rules used, alias = reason or None, memsize = (written, printed)"""
    pre, lm, lops = parse_llvm(it.dis[0])
    dm = it.sel_entry["m"]
    lfull = (" ".join(pre) + " " + lm).strip()
    res = {"llvm": it.dis[0], "lm": lfull, "kinds": set(), "rules": set(), "alias": None}
    dbase, dimm = canon_mnemonic(dm)
    lbase, limm = canon_mnemonic(lm) if not pre else (lfull, None)
    exp = expected_operands(it)
    if dimm is not None or limm is not None:
        res["rules"].add("pseudo-op")
        if dimm is not None:
            exp.append((("imm", dimm, 1), False))
        if limm is not None:
            lops = lops + [("imm", limm)]
    # ---- mnemonic
    if dbase != lbase:
        why = alias_reason(dbase, lbase)
        if why:
            res["alias"] = why
        else:
            res["kinds"].add("mnemonic")
    elif dm != lm:
        res["alias"] = ("FMA3 operand-order name with the multiplicands exchanged (NASM spelling, same opcode)" if dimm is None and limm is None
                        else "pseudo-op spelling of the same base mnemonic and immediate")
    # ---- operands as multisets: encoded operands first, then the fixed ones
    used = [False] * len(lops)
    pairing, missing = [], []
    for k in sorted(range(len(exp)), key=lambda k: exp[k][1]):
        hit = next((j for j, l in enumerate(lops) if not used[j] and op_equal(exp[k][0], l)), None)
        if hit is None:
            missing.append(k)
        else:
            used[hit] = True
            pairing.append((k, hit))
            if exp[k][0][0] == "imm":
                if lops[hit][0] == "mem":
                    res["rules"].add("moffs")
                elif exp[k][0][1] != lops[hit][1]:
                    res["rules"].add("imm-modulo")
    left = [j for j in range(len(lops)) if not used[j]]
    # registers printed with another width
    widths = []
    for k in list(missing):
        e = exp[k][0]
        if e[0] != "reg":
            continue
        hit = next((j for j in left if lops[j][0] == "reg" and lops[j][1] == e[1] and lops[j][2] == e[2]), None)
        if hit is not None:
            widths.append((e[1], e[3], lops[hit][3]))
            missing.remove(k)
            left.remove(hit)
            pairing.append((k, hit))
    if any(exp[k][1] for k in missing):
        res["rules"].add("fixed-operand")
    hard = [exp[k][0] for k in missing if not exp[k][1]]
    # 90 / 66 90 / 48 90 exchange (e/r)ax with itself = nop — except `xchg eax, eax` in long mode: that instruction zeroes the upper half of
    # rax, the one-byte 90 does not (SDM: 90 is NOP in 64-bit mode; the exchange needs 87 C0)
    if lbase == "nop" and dbase == "xchg" and all(o[0] == "reg" and o[1:3] == ("g", 0) for o in hard) and \
            not (it.mode == "x64" and any(o[0] == "reg" and o[3] == 32 for o in hard)):
        hard = []
        res["rules"].add("xchg-nop")
    extra = []
    for j in left:
        r = implied(lbase, lops[j], it)
        if r:
            res["rules"].add(r)
        else:
            extra.append(lops[j])
    if hard or extra:
        res["kinds"].add("operands")
        res["diff"] = {"written_not_printed": [fmt_norm(o) for o in hard], "printed_not_written": [fmt_norm(l) for l in extra]}
    if widths:
        if all(c == "g" for (c, _, _) in widths) and any(re.fullmatch(rx, lbase) and cond(lops, widths, it) for (rx, cond, _) in GPR_WIDTH_FREE):
            res["rules"].add("gpr-width")
        else:
            res["kinds"].add("vec-width" if any(c == "x" for (c, _, _) in widths) else "gpr-width")
            res.setdefault("diff", {})["width"] = [f"{c}: written {a}-bit, printed {b}-bit" for (c, a, b) in widths]
    # ---- order: the written operands that are printed must be printed in the written order (a subsequence of the printed ones)
    def same(e, l):
        return op_equal(e, l) or (e[0] == "reg" and l[0] == "reg" and e[1:3] == l[1:3])
    ptr, in_order = 0, True
    for k in sorted(k for (k, _) in pairing):
        hit = next((j for j in range(ptr, len(lops)) if same(exp[k][0], lops[j])), None)
        if hit is None:
            in_order = False
            break
        ptr = hit + 1
    if not in_order:
        if re.fullmatch(ORDER_FREE, lbase):
            res["rules"].add("commutative-order")
        elif re.fullmatch(r"l?(call|jmp)", lbase) and len(lops) == 2 and all(l[0] == "imm" for l in lops):
            res["rules"].add("far-pointer-order")
        else:
            res["kinds"].add("order")
    # ---- memory size keyword (reported separately: the bytes do not depend on it)
    for (k, j) in pairing:
        e, l = exp[k][0], lops[j]
        if e[0] == "mem" and l[0] == "mem" and e[5] and l[5] and e[5] != l[5]:
            res["memsize"] = (e[5], l[5])
    if any(l[0] == "?" for l in lops):
        res["kinds"].add("unparsed")
    return res


# ------------------------------------------------------------------------------------------------ suspects (class c)
def _S(sid, title, mn, args, kinds, why, right, severity="wrong-code", mode=None):
    return dict(id=sid, title=title, mn=mn, args=args, kinds=set(kinds), why=why, right=right, severity=severity, mode=mode)


FMA3_PD = r"vfn?m(add|sub|addsub|subadd)(123|132|213|231|312|321)pd"
FMA4_P = r"vfn?m(add|sub|addsub|subadd)p[sd]"
SUSPECTS = [
    _S("jmp-far-ptr16-opcode", "jmp / jmpf ptr16:16 is encoded with the far CALL opcode 9A", r"jmp|jmpf", r"iwiw", ["mnemonic"],
       "table: `jmp`/`jmpf` b\"iwiw\" has opcode [0x9A] (copied from call/callf); llvm reads `lcall seg, off`. The 32-bit form b\"idiw\" correctly uses 0xEA.",
       "JMP ptr16:16 is 66 EA cw cw (SDM: EA cd / EA cp); 9A is CALL ptr16:16", mode="x86"),
    _S("fma3-pd-missing-vex-w", "all packed-double FMA3 mnemonics are encoded as their packed-single twin (VEX.W = 0)", FMA3_PD, r"y\*y\*w\*", ["mnemonic"],
       "the 36 `vf[n]m{add,sub,addsub,subadd}{123,132,213,231,312,321}pd` entries have the same opcode and flags as the ps entries (no WITH_REXW); "
       "llvm reads every one as the ...ps instruction. The scalar sd entries do carry WITH_REXW.",
       "VFMADD132PD etc. are VEX.66.0F38.W1 98/A8/B8.. /r (W0 = PS)"),
    _S("gather-missing-vex-w", "vgatherdpd / vgatherqpd / vpgatherdq / vpgatherqq are encoded as the dword-element gathers (VEX.W = 0)",
       r"vgatherdpd|vgatherqpd|vpgatherdq|vpgatherqq", r".*", ["mnemonic", "operands", "vec-width"],
       "no WITH_REXW in the four entries: llvm reads vgatherdps / vgatherqps / vpgatherdd / vpgatherqd; for the q-index forms the ymm destination/mask "
       "even become xmm, for the d-index ymm forms the xmm index becomes ymm",
       "VGATHERDPD/QPD = VEX.66.0F38.W1 92/93 /r, VPGATHERDQ/QQ = VEX.66.0F38.W1 90/91 /r"),
    _S("vpmaskmovq-missing-vex-w", "vpmaskmovq is encoded as vpmaskmovd (VEX.W = 0)", r"vpmaskmovq", r".*", ["mnemonic"],
       "both vpmaskmovq entries are identical to vpmaskmovd's", "VPMASKMOVQ = VEX.66.0F38.W1 8C /r (load), 8E /r (store)"),
    _S("vex-rvmi-enc-mr", "VEX `op dst, src1, src2/m, imm8` entries flagged ENC_MR: sources exchanged, a memory source is dropped",
       r"vblendpd|vblendps|vdpps|vmpsadbw|vpalignr|vpblendd|vpblendw|vshufpd|vshufps|vcmppd|vcmpps", r"y\*y\*w\*ib", ["order", "operands"],
       "with ENC_MR and three register-class operands extract_args takes (reg, rm, vvvv) = (1st, 2nd, 3rd): the second written operand goes to "
       "ModRM.rm and the third to VEX.vvvv. All-register lines come out as `op dst, src2, src1, imm` (not commutative: blend masks, shuffles, alignr, "
       "compare predicates). When the third operand is memory it lands in vvvv, which only reads registers: the emitted bytes have vvvv = xmm0, "
       "rm = second register and no memory operand at all (no SIB, no displacement), without any diagnostic.",
       "VEX.NDS rvmi: ModRM.reg = dst, VEX.vvvv = src1, ModRM.rm = src2/m — the default (flag-less) order, as used by vdppd / vinsertps / vpclmulqdq"),
    _S("fma4-xop-4op-missing-w", "FMA4 packed forms and vpcmov with the register/memory operand last: 3rd and 4th operand exchanged (VEX.W/XOP.W = 0)",
       FMA4_P + r"|vpcmov", r"y\*y\*y\*w\*", ["order", "operands"],
       "entry b\"y*y*y*w*\" puts the 3rd operand in imm8[7:4] and the 4th in ModRM.rm, which is the W = 1 operand order, but has no WITH_REXW "
       "(the scalar vfmaddsd/ss, vpperm and vprot* twins have it). Every all-register line is taken by this entry, so `vfmaddpd a, b, c, d` "
       "computes b*d+c; `vpcmov a, b, c, [m]` is read as `vpcmov a, b, [m], c`.",
       "VFMADDPD xmm1, xmm2, xmm3, xmm4/m128 = VEX.66.0F3A.W1 69 /r /is4; W0 is xmm1, xmm2, xmm3/m128, xmm4. VPCMOV likewise XOP.W1 A2"),
    _S("mov-to-sreg-opcode", "mov sreg, r/m16 is encoded with opcode 8C (mov r/m16, sreg): the direction is reversed", r"mov", r"swmw|swrw", ["order", "operands", "gpr-width"],
       "entries b\"swmw\" and b\"swrw\" have opcode [0x8C] like the store forms; `mov ds, ax` emits 8C D8 = `mov eax, ds`, `mov es, [m]` stores es to memory",
       "MOV Sreg, r/m16 = 8E /r"),
    _S("inc-dec-r16-short-form", "protected mode: inc / dec r16 (short form 40+r / 48+r) lacks the operand-size prefix", r"inc|dec", r"r\*", ["gpr-width"],
       "entry b\"r*\" [0x40]/[0x48] X86_ONLY | SHORT_ARG has no AUTO_SIZE: `dec cx` emits 49 = `dec ecx`", "DEC r16 = 66 48+rw in 32-bit mode", mode="x86"),
    _S("out-imm8-ax", "out imm8, ax lacks the operand-size prefix", r"out", r"ibAw", ["gpr-width"],
       "entry b\"ibAw\" [0xE7] has no WORD_SIZE (the `in ax, imm8`, `out dx, ax` entries have it): `out 5, ax` emits E7 05 = `out 5, eax`", "OUT imm8, AX = 66 E7 ib"),
    _S("xop-map-0x10", "bextr r, r/m, imm32 (TBM) / lwpins / lwpval use XOP map 0x10 instead of 0x0A", r"bextr|lwpins|lwpval", r"r\*v\*id", ["undecodable", "short", "trailing"],
       "the first opcode byte of a XOP entry is the map; these three have 0x10 (decimal 10 written as hex). Emitted 8F F0.. has mmmmm = 10000b, an undefined map; "
       "llvm cannot decode it", "XOP.LZ.0A 10 /r id (BEXTR), XOP.0A 12 /0 id (LWPINS), 12 /1 id (LWPVAL): byte 1 = RXB.01010"),
    _S("movabs-protected-mode", "protected mode: movabs emits a 64-bit address after A0..A3", r"movabs", r".*", ["trailing", "undecodable", "short"],
       "movabs is accepted under `.arch x86` and emits opcode + 8 address bytes; in 32-bit mode moffs is 32 bits, so the upper four bytes are executed as the next instruction(s)",
       "reject in protected mode, or emit moffs32", severity="wrong-code (x86 mode)", mode="x86"),
    _S("missing-auto-vexl", "ymm operands accepted but VEX.L = 0 emitted (entry has `*` sizes but no AUTO_VEXL)", r"vbroadcastss|vcmpeq_ospd|vpsrlq", r"y\*md|y\*y\*w\*|y\*y\*ib", ["vec-width"],
       "vbroadcastss b\"y*md\", vcmpeq_ospd b\"y*y*w*\", vpsrlq b\"y*y*ib\" lack AUTO_VEXL that their sibling entries have: the ymm line encodes the xmm instruction "
       "(upper lane zeroed instead of computed)", "VEX.256 forms need L = 1"),
    _S("rex-before-wait", "fsave / fstcw / fstenv / fstsw with r8-r15 in the address: REX is emitted before the 9B (wait) byte and is lost",
       r"fsave|fstcw|fstenv|fstsw", r"m.", ["operands", "trailing"],
       "the 9B of these entries is part of the opcode bytes, the REX prefix is pushed in front of it: 43 9B DD B4 4D.. = `wait` (REX ignored) + `fnsave [rbp + 2*rcx - 300]` "
       "for `fsave [r13 + r9*2 - 300]`: the wrong memory is written", "9B REX DD /6 (REX must immediately precede the opcode)", mode="x64"),
    _S("high-byte-in-pinsrb", "pinsrb / vpinsrb accept ah/ch/dh/bh and encode spl/bpl/sil/dil's register number", r"v?pinsrb", r".*vbib", ["operands"],
       "slot `vb` takes HIGHBYTE registers; PINSRB reads r32/m8, so rm = 4..7 means esp..edi (low byte): `pinsrb xmm1, ah, 7` inserts spl", "reject high-byte registers here",
       severity="wrong-code (unusual input)"),
    _S("m-star-vexl-panic", "vcvtpd2dq / vcvtpd2ps / vcvttpd2dq xmm, m*: a memory size other than OWORD/YWORD panics the macro", r"vcvtt?pd2(dq|ps)", r"yom\*", ["panic"],
       "`m*` accepts every size keyword; AUTO_VEXL then hits panic!(\"bad formatting data\") for WORD/DWORD/QWORD [..]", "reject with a diagnostic", severity="panic"),
    _S("jecxz-protected-mode", "protected mode: jecxz is emitted with a 67 prefix, which makes it jcxz (tests CX)", r"jecxz", r"ob", ["mnemonic"],
       "entry `jecxz` b\"ob\" [0xE3] carries PREF_67 unconditionally: right in long mode (67 selects ECX instead of RCX), wrong under `.arch x86` where the "
       "address size is already 32 bits and 67 selects CX. `jrcxz` (no prefix) is also accepted in protected mode, where it is what jecxz should be.",
       "JECXZ rel8 = E3 cb without prefix in 32-bit mode", mode="x86"),
    _S("long-mode-only-in-x86", "protected mode accepts instructions that only exist in 64-bit mode", r"(rd|wr)[fg]sbase", r".*", ["undecodable"],
       "rdfsbase/rdgsbase/wrfsbase/wrgsbase r32 are accepted under `.arch x86`; F3 0F AE /0../3 is #UD outside 64-bit mode (llvm-mc i386 refuses to decode)",
       "reject in protected mode", severity="accepts-invalid", mode="x86"),
]


# suspect id → [(mode, dynasm line, the same instruction in llvm's Intel syntax)]: llvm-mc as *assembler* gives the bytes the line should have
CONFIRM = {
    "fma3-pd-missing-vex-w": [("x64", "vfmadd132pd xmm1, xmm2, xmm3", "vfmadd132pd xmm1, xmm2, xmm3")],
    "gather-missing-vex-w": [("x64", "vgatherdpd xmm1, [rbx + xmm4*2], xmm3", "vgatherdpd xmm1, xmmword ptr [rbx + 2*xmm4], xmm3"),
                             ("x64", "vpgatherqq ymm1, [rbx + ymm4*2], ymm3", "vpgatherqq ymm1, ymmword ptr [rbx + 2*ymm4], ymm3")],
    "vpmaskmovq-missing-vex-w": [("x64", "vpmaskmovq xmm1, xmm2, OWORD [rax]", "vpmaskmovq xmm1, xmm2, xmmword ptr [rax]")],
    "vex-rvmi-enc-mr": [("x64", "vblendpd xmm1, xmm2, xmm3, 9", "vblendpd xmm1, xmm2, xmm3, 9"),
                        ("x64", "vblendpd xmm1, xmm2, OWORD [rax], 9", "vblendpd xmm1, xmm2, xmmword ptr [rax], 9"),
                        ("x64", "vcmppd xmm1, xmm2, xmm3, 1", "vcmppd xmm1, xmm2, xmm3, 1"),
                        ("x64", "vpalignr ymm1, ymm2, ymm3, 4", "vpalignr ymm1, ymm2, ymm3, 4")],
    "fma4-xop-4op-missing-w": [("x64", "vfmaddpd xmm1, xmm2, xmm3, xmm0", "vfmaddpd xmm1, xmm2, xmm3, xmm0"),
                               ("x64", "vfmaddpd xmm1, xmm2, xmm3, OWORD [rax]", "vfmaddpd xmm1, xmm2, xmm3, xmmword ptr [rax]"),
                               ("x64", "vpcmov xmm1, xmm2, xmm3, OWORD [rax]", "vpcmov xmm1, xmm2, xmm3, xmmword ptr [rax]")],
    "mov-to-sreg-opcode": [("x64", "mov ds, ax", "mov ds, ax"), ("x64", "mov es, WORD [rax]", "mov es, word ptr [rax]")],
    "inc-dec-r16-short-form": [("x86", "dec cx", "dec cx")],
    "out-imm8-ax": [("x64", "out 5, ax", "out 5, ax")],
    "xop-map-0x10": [("x64", "bextr ecx, edx, 7", "bextr ecx, edx, 7"), ("x64", "lwpins ecx, edx, 7", "lwpins ecx, edx, 7")],
    "missing-auto-vexl": [("x64", "vbroadcastss ymm1, DWORD [rax]", "vbroadcastss ymm1, dword ptr [rax]"), ("x64", "vpsrlq ymm1, ymm2, 7", "vpsrlq ymm1, ymm2, 7"),
                          ("x64", "vcmpeq_ospd ymm1, ymm2, ymm3", "vcmppd ymm1, ymm2, ymm3, 16")],
    "rex-before-wait": [("x64", "fsave [r13 + r9*2 - 300]", "fsave [r13 + 2*r9 - 300]")],
    "unusable-mixed-wildcards": [("x64", "vmovmskpd eax, xmm1", "vmovmskpd eax, xmm1")],
}


def assemble(mode, line):
    """bytes llvm-mc (as assembler, Intel syntax) gives a line; None if it does not assemble"""
    p = subprocess.run([LLVM_MC, "-triple=" + ("x86_64" if mode == "x64" else "i386"), "-x86-asm-syntax=intel", "-show-encoding", "-mattr=" + MATTR],
                       input=line + "\n", stdout=subprocess.PIPE, stderr=subprocess.PIPE, text=True)
    enc = re.findall(r"encoding: \[([^\]]*)\]", p.stdout)
    if not enc or p.stderr.strip():
        return None
    return b"".join(bytes(int(x, 16) for x in e.split(",")) for e in enc)


def confirmations(sid):
    out = []
    rows = CONFIRM.get(sid, [])
    if not rows:
        return out
    answers = plug([f"cl ; .arch {mode} ; {dl}" for (mode, dl, _) in rows])
    for (mode, dl, ll), a in zip(rows, answers):
        st, b = answer_bytes(a)
        ref = assemble(mode, ll)
        out.append({"mode": mode, "dynasm_line": dl, "dynasm_emits": b.hex() if st == "ok" else f"{st}: {str(b)[:100]}",
                    "llvm_mc_assembles_the_same_instruction_to": ref.hex() if ref else None})
    return out


def suspect_of(it, kinds):
    e = it.sel_entry
    for s in SUSPECTS:
        if (s["mode"] is None or s["mode"] == it.mode) and re.fullmatch(s["mn"], e["m"]) and re.fullmatch(s["args"], e["args"]) and kinds & s["kinds"]:
            return s
    return None


# ------------------------------------------------------------------------------------------------ run
def modes_of(e):
    if flag(e, "X86_ONLY"):
        return ["x86"]
    # WITH_REXW entries too: REX.W does not exist in protected mode and VEX.W / XOP.W only where it is part of the opcode (forms without a
    # general purpose operand) — the others must be REFUSED there; if one is accepted its bytes are read by the 32-bit disassembler like any other
    return ["x64", "x86"]


def core_opcode(e):
    ops = bytes.fromhex(e["ops"])
    if flag(e, "VEX_OP") or flag(e, "XOP_OP"):
        ops = ops[1:]
    elif len(ops) > 1 and ops[0] == 0x9B:
        ops = ops[1:]       # wait + x87 instruction: prefixes of the latter sit between the two
    if flag(e, "IMM_OP") or flag(e, "SHORT_ARG"):
        ops = ops[:-1]
    return ops


def key_of(e):
    return f"{e['m']}#{e['i']}"


def describe(e):
    return {"mnemonic": e["m"], "index": e["i"], "args": e["args"], "ops": e["ops"], "reg": e["reg"], "flags": flag_names(e), "features": feature_names(e)}


def example(it):
    d = {"mode": it.mode, "line": it.line, "entry": key_of(it.sel_entry) if it.sel_entry else None}
    if isinstance(it.bytes, bytes):
        d["bytes"] = it.bytes.hex()
    else:
        d["answer"] = str(it.bytes)[:200]
    if it.dis is not None:
        d["llvm"] = it.dis if len(it.dis) != 1 else it.dis[0]
    if it.res and it.res.get("diff"):
        d["diff"] = it.res["diff"]
    return d


ONLY_MNEMONICS = None       # directed runs (C19): only the entries of these mnemonics


def collect(limit=None, log=lambda *a: None):
    """instantiate, compile, disassemble, compare → [Inst]"""
    tab = table()
    entries = tab[:limit] if limit else tab
    if ONLY_MNEMONICS is not None:
        entries = [e for e in entries if e["m"] in ONLY_MNEMONICS]
    bym = by_mnemonic()
    insts, seen = [], {}
    per_entry = collections.Counter()
    for e in entries:
        for mode in modes_of(e):
            for it in instances(e, mode):
                per_entry[key_of(e)] += 1
                if (mode, it.line) in seen:
                    seen[(mode, it.line)].gen.append(key_of(e))
                    continue
                seen[(mode, it.line)] = it
                it.sel = select(e["m"], it.ops, mode)
                it.sel_entry = bym[e["m"]][it.sel] if it.sel is not None else None
                insts.append(it)
    log(f"{len(entries)} entries, {len(insts)} distinct instantiations")
    chunks = [insts[i:i + 5000] for i in range(0, len(insts), 5000)]
    for ch, ans in zip(chunks, common.parallel_map(lambda ch: plug([it.request() for it in ch]), chunks)):
        assert len(ans) == len(ch), "harness/plug lost an answer"
        for it, a in zip(ch, ans):
            it.ans = a
            it.status, it.bytes = answer_bytes(a)
    log("compiled")
    for mode in ("x64", "x86"):
        sel = [it for it in insts if it.mode == mode and it.status == "ok"]
        chunks = [sel[i:i + 3000] for i in range(0, len(sel), 3000)]
        for ch, rs in zip(chunks, common.parallel_map(lambda ch: disassemble([it.bytes for it in ch], mode), chunks)):
            for it, (st, lines) in zip(ch, rs):
                it.dis = lines
                it.status = {"one": "decoded"}.get(st, st)
    log("disassembled")
    for it in insts:
        if it.status in ("decoded", "undecodable", "short", "trailing") and it.sel_entry is None:
            it.status = "matcher-model"          # accepted although select() finds no form: the transcription of the matcher is wrong
            continue
        if it.status == "trailing" and it.dis[0] == "wait" and len(it.dis) == 2 and b"\x9b" in it.bytes[:2]:
            it.dis, it.status, it.wait = it.dis[1:], "decoded", True
        if it.status in ("decoded", "trailing", "short") and "cyrix" in feature_names(it.sel_entry):
            it.status = "foreign"               # Cyrix EMMI / SMM opcodes were reused by SSE / VMX / SMX: llvm reads another instruction
        if it.status == "decoded":
            it.res = compare(it)
            if it.wait:
                it.res["rules"].add("wait-prefix")
    log("compared")
    return insts, entries, per_entry


def run(limit=None, verbose=False, pairwise=False):
    """the whole sweep → report (dict, JSON-serialisable)"""
    global PAIRWISE
    PAIRWISE = pairwise
    t0 = time.time()
    log = (lambda *a: print(f"[x64sweep {time.time() - t0:6.1f}s]", *a, flush=True)) if verbose else (lambda *a: None)
    insts, entries, per_entry = collect(limit, log)
    cnt = collections.Counter()
    per_mode = {m: collections.Counter() for m in ("x64", "x86")}
    undec = collections.defaultdict(lambda: {"instantiations": 0, "entries": set(), "examples": []})
    alias_tab = collections.defaultdict(lambda: {"count": 0, "example": None})
    rule_cnt = collections.Counter()
    rejects = collections.Counter()
    reject_ex = {}
    susp = collections.OrderedDict()
    unexplained = collections.OrderedDict()
    memsize = collections.OrderedDict()
    order_notes = collections.OrderedDict()
    exercised, accepted_entries = set(), set()
    model_bad = []
    per_entry_stat = collections.defaultdict(collections.Counter)
    for it in insts:
        cnt["instantiations"] += 1
        per_mode[it.mode]["instantiations"] += 1
        st = it.status
        if st in ("reject", "panic", "unencodable", "dynamic"):
            cnt[{"reject": "rejected", "panic": "panicked"}.get(st, st)] += 1
            per_mode[it.mode][{"reject": "rejected", "panic": "panicked"}.get(st, st)] += 1
            if st == "reject":
                msg = "no form of the mnemonic matches" if "expected one of the following forms" in it.bytes else re.sub(r"^reject ", "", it.bytes)[:120]
                rejects[msg] += 1
                reject_ex.setdefault(msg, f"{it.mode}: {it.line}")
                if it.sel_entry is not None and msg.startswith("no form"):
                    model_bad.append(example(it))
            if st != "panic":
                continue
        if st == "matcher-model":
            model_bad.append(example(it))
            continue
        e = it.sel_entry
        kinds = None
        if st != "panic":
            cnt["accepted"] += 1
            per_mode[it.mode]["accepted"] += 1
            accepted_entries.add(key_of(e))
            if core_opcode(e) and core_opcode(e) not in it.bytes:
                model_bad.append(dict(example(it), problem="opcode bytes of the predicted entry do not occur in the emitted bytes"))
        if st == "decoded":
            cnt["decoded"] += 1
            per_mode[it.mode]["decoded"] += 1
            exercised.add(key_of(e))
            r = it.res
            for x in r["rules"]:
                rule_cnt[x] += 1
            if r.get("memsize"):
                cnt["memory_size_label_differs"] += 1
                k = key_of(e)
                memsize.setdefault(k, dict(entry=describe(e), written_bytes=r["memsize"][0], llvm_bytes=r["memsize"][1], count=0, example=example(it)))["count"] += 1
            if not r["kinds"]:
                per_entry_stat[key_of(e)]["equal"] += 1
                if r["alias"]:
                    cnt["mnemonic_alias_equal"] += 1
                    a = alias_tab[(e["m"], r["lm"], r["alias"])]
                    a["count"] += 1
                    a["example"] = a["example"] or f"{it.mode}: {it.line}  =  {it.bytes.hex()}  =  {r['llvm']}"
                else:
                    cnt["fully_equal"] += 1
                if r["rules"] - {"imm-modulo"}:
                    cnt["equal_after_normalisation_rules"] += 1
                continue
            kinds = set(r["kinds"])
            for kd in kinds:
                cnt["diff_" + kd] += 1
        elif st in ("undecodable", "short", "trailing", "foreign"):
            cnt[st] += 1
            per_mode[it.mode][st] += 1
            kinds = {st}
        elif st == "panic":
            kinds = {"panic"}
            if e is None:
                continue
        s = suspect_of(it, kinds)
        per_entry_stat[key_of(e)]["suspect:" + s["id"] if s else "/".join(sorted(kinds))] += 1
        if s:
            d = susp.setdefault(s["id"], {"count": 0, "entries": collections.OrderedDict(), "by_kind": collections.OrderedDict(), "kinds": collections.Counter()})
            d["count"] += 1
            d["by_kind"].setdefault("+".join(sorted(kinds)) + "/" + it.mode, example(it))
            for kd in kinds:
                d["kinds"][kd] += 1
            if key_of(e) not in d["entries"]:
                d["entries"][key_of(e)] = example(it)
            cnt["in_suspects"] += 1
        elif st in ("undecodable", "foreign"):
            u = undec["+".join(feature_names(e))]
            u["instantiations"] += 1
            u["entries"].add(key_of(e))
            if len(u["examples"]) < 3 and key_of(e) not in [x["entry"] for x in u["examples"]]:
                u["examples"].append(example(it))
            cnt["undecodable_by_llvm_unknown_extension"] += 1
        else:
            k = (key_of(e), it.mode, tuple(sorted(kinds)))
            d = unexplained.setdefault(k, {"entry": describe(e), "mode": it.mode, "kinds": sorted(kinds), "count": 0, "example": example(it)})
            d["count"] += 1
            cnt["unexplained"] += 1
    # entries
    all_keys = [key_of(e) for e in entries]
    never_accepted = []
    by_gen = collections.defaultdict(list)
    for it in insts:
        for g in it.gen:
            by_gen[g].append(it)
    for e in entries:
        k = key_of(e)
        if k in accepted_entries:
            continue
        its = by_gen.get(k, [])
        taken_by = collections.Counter(key_of(it.sel_entry) for it in its if it.sel_entry is not None and key_of(it.sel_entry) != k)
        rej = collections.Counter(re.sub(r"^reject ", "", str(it.bytes))[:100] for it in its if it.sel_entry is not None and key_of(it.sel_entry) == k and it.status in ("reject", "panic"))
        if not its:
            why = "not instantiable: the slot sizes contradict the register sizes of both modes (e.g. 32-bit cr8, 32-bit control registers in long mode)"
        elif rej:
            why = "every instantiation is rejected by the plugin: " + "; ".join(f"{m} ({n}x)" for m, n in rej.most_common(3))
        else:
            why = "shadowed: its lines are taken by the earlier entr" + ("y " if len(taken_by) == 1 else "ies ") + ", ".join(taken_by)
        never_accepted.append({"entry": describe(e), "instantiations": len(its), "why": why})
    rep = collections.OrderedDict()
    rep["what"] = "dynasm-rs x86/x64 table: bytes emitted by the plugin, read back by llvm-mc 14 --disassemble (lib/x64sweep.py)"
    rep["wall_s"] = round(time.time() - t0, 1)
    c = collections.OrderedDict()
    c["entries"] = len(entries)
    c["mnemonics"] = len({e["m"] for e in entries})
    c["entries_with_an_accepted_instantiation"] = len(accepted_entries)
    c["entries_with_a_decoded_instantiation"] = len(exercised)
    c["entries_never_taken"] = len(never_accepted)
    for k in ("instantiations", "accepted", "rejected", "panicked", "unencodable", "dynamic", "decoded", "fully_equal", "mnemonic_alias_equal",
              "equal_after_normalisation_rules", "memory_size_label_differs", "undecodable", "foreign", "short", "trailing", "diff_mnemonic", "diff_operands",
              "diff_gpr-width", "diff_vec-width", "diff_order", "diff_unparsed", "in_suspects", "undecodable_by_llvm_unknown_extension", "unexplained"):
        c[k] = cnt.get(k, 0)
    c["per_mode"] = {m: dict(v) for m, v in per_mode.items()}
    c["matcher_model_disagreements"] = len(model_bad)
    rep["counts"] = c
    rep["count_legend"] = {
        "instantiations": "distinct (mode, line) pairs; a line generated for several entries of a mnemonic is run once and attributed to the entry the matcher takes",
        "unencodable": "accepted by the plugin but a literal does not fit the emitted push_iN (rustc rejects the expansion)",
        "fully_equal": "one instruction, all bytes, same mnemonic, same operands in the same order (normalisation rules may have been used)",
        "mnemonic_alias_equal": "as fully_equal but the mnemonic differs by an entry of `aliases`",
        "foreign": "entries of the cyrix feature: the opcode was reused by SSE/VMX, llvm reads another instruction (counted with undecodable per feature)",
        "short": "llvm needs more bytes than were emitted", "trailing": "llvm reads more than one instruction",
        "diff_*": "differences left after the normalisation rules, per kind (an instruction can have several)",
        "in_suspects": "differing instantiations covered by an entry of `suspects`", "unexplained": "differing instantiations not covered (listed under `unexplained`)"}
    rep["undecodable_per_feature"] = {f: {"instantiations": u["instantiations"], "entries": len(u["entries"]), "entry_list": sorted(u["entries"]), "examples": u["examples"]}
                                      for f, u in sorted(undec.items())}
    rep["aliases"] = [{"dynasm": d, "llvm": l, "reason": why, "count": a["count"], "example": a["example"]} for (d, l, why), a in sorted(alias_tab.items())]
    rule_cnt["cyrix-foreign"] = cnt.get("foreign", 0)
    rule_cnt["fma3-order-names"] = sum(a["count"] for (d, l, why), a in alias_tab.items() if why.startswith("FMA3"))
    rep["normalisation_rules"] = [{"id": k, "rule": v, "used": rule_cnt.get(k, 0)} for k, v in RULES.items() if v]
    rep["gpr_width_free"] = [{"llvm_mnemonic": rx, "reason": why} for rx, _, why in GPR_WIDTH_FREE]
    rep["rejections"] = [{"reason": k, "count": v, "example": reject_ex[k]} for k, v in rejects.most_common()]
    out = []
    for s in SUSPECTS:
        d = susp.get(s["id"])
        if not d:
            continue
        out.append({"id": s["id"], "title": s["title"], "severity": s["severity"], "instantiations": d["count"], "kinds": dict(d["kinds"]),
                    "entries": list(d["entries"].keys()), "why": s["why"], "right": s["right"], "evidence": list(d["entries"].values())[:6],
                    "evidence_per_kind_and_mode": d["by_kind"],
                    "assembler_cross_check": confirmations(s["id"])})
    unusable = [n for n in never_accepted if n["why"].startswith("every instantiation is rejected")]
    if unusable:
        out.append({"id": "unusable-mixed-wildcards", "title": "entries whose general-register and vector operands are both `*`: every operand combination is rejected",
                    "severity": "rejects-valid", "instantiations": sum(n["instantiations"] for n in unusable), "kinds": {"rejected": sum(n["instantiations"] for n in unusable)},
                    "entries": [f"{n['entry']['mnemonic']}#{n['entry']['index']}" for n in unusable],
                    "why": "b\"r*y*\": size_operands demands one common size for all `*` operands, but r* is 4/8 bytes and y* 16/32: `vmovmskpd eax, xmm1` etc. always fail with "
                           "\"Conflicting operand sizes\"; these mnemonics have no other entry, so they cannot be assembled at all",
                    "right": "b\"r*yo\" / b\"r*yh\" (+ WITH_VEXL) as for movmskpd, or exclude the general register from the size computation",
                    "evidence": [{"entry": f"{n['entry']['mnemonic']}#{n['entry']['index']}", "why": n["why"]} for n in unusable],
                    "assembler_cross_check": confirmations("unusable-mixed-wildcards")})
    rep["suspects"] = out
    spots = [("i", "gather instructions and VEX.W", r"vp?gather[dq](ps|pd|d|q)"),
             ("iii", "pextrw / vpextrw forms", r"v?pextrw"),
             ("iv", "4th register in the immediate byte (is4): vblendv*, vpblendvb, FMA4, vpcmov, vpperm", r"vblendvp[sd]|vpblendvb|vpcmov|vpperm|vfn?m(add|sub|addsub|subadd)[ps][sd]")]
    rep["spot_checks"] = []
    for (tag, title, rx) in spots:
        rows = []
        for e in entries:
            if re.fullmatch(rx, e["m"]):
                st = per_entry_stat.get(key_of(e), {})
                rows.append({"entry": key_of(e), "args": e["args"], "ops": e["ops"], "flags": flag_names(e), "results": dict(st) or "never taken (see entries_never_taken)"})
        bad = sorted({k for r in rows if isinstance(r["results"], dict) for k in r["results"] if k != "equal"})
        rep["spot_checks"].append({"spot": tag, "title": title, "entries": rows,
                                   "conclusion": ("every taken entry reads back as written" if not bad else "differences: " + ", ".join(bad))})
    rep["spot_checks"].append({"spot": "ii", "title": "dynamic registers", "conclusion": "out of scope: only static register names are instantiated"})
    groups = collections.OrderedDict()
    for k, m in memsize.items():
        g = groups.setdefault((m["written_bytes"], m["llvm_bytes"]), {"dynasm_demands": KEYWORD[m["written_bytes"]], "llvm_reads_bytes": m["llvm_bytes"], "instantiations": 0,
                                                                     "entries": [], "example": m["example"]})
        g["instantiations"] += m["count"]
        g["entries"].append(f"{k} {m['entry']['args']}")
    rep["memory_size_labels"] = {
        "note": "the size letter of a memory slot is the size keyword dynasm demands (or assumes) in the source; llvm names the size the instruction accesses. "
                "The emitted bytes do not depend on it, so these are label errors of the table (`blendvpd xmm1, QWORD [rax]` is accepted, `OWORD [rax]` is rejected), "
                "except where llvm's own convention differs (prefetch: byte, punpckl* mm: dword as in the SDM's mm/m32, call/jmp WORD [m] in long mode). "
                "Not counted as operand differences.",
        "entries": sum(len(g["entries"]) for g in groups.values()), "groups": list(groups.values())}
    rep["unexplained"] = list(unexplained.values())
    rep["entries_never_taken"] = never_accepted
    rep["matcher_model_disagreements"] = model_bad[:50]
    return rep


def main(argv):
    pw = "--pairwise" in argv
    argv = [a for a in argv if a != "--pairwise"]
    lim = int(argv[1]) if len(argv) > 1 else None
    rep = run(lim, verbose=True, pairwise=pw)
    with open(REPORT if not pw else "/tmp/x64sweep_pairwise.json", "w") as f:
        json.dump(rep, f, indent=1)
    c = rep["counts"]
    print(json.dumps({k: v for k, v in c.items() if k != "per_mode"}, indent=1))
    for s in rep["suspects"]:
        print(f"SUSPECT {s['id']}: {s['title']}  [{s['instantiations']} instantiations, {len(s['entries'])} entries]")
    print(f"{len(rep['unexplained'])} unexplained groups; report: {REPORT}")
    return 0


if __name__ == "__main__":
    sys.exit(main(sys.argv))
