"""C01 — every label reference resolves to the definition it designates.
Proof: lean/DynasmVerif/Props/C01.lean (forward_designates_first_later, backward_designates_last_earlier, global/dynamic_designates_definition,
patchStatics_result, reference_decodes_to_target — with C05).  Tie: `asm` stream on VecAssembler, Assembler (commits anywhere) and
Modifier for the x64/x86/aarch64/riscv relocation formats; the scanning oracle (lib/asmgen.Oracle) + architecture-side decoders
(lib/asmcheck.arch_decode) evaluate the property directly on the implementation's bytes."""
import asmcheck
import asmgen
import asmprops
import c10
import common
from common import SplitMix, hexb

MODULES = ["DynasmVerif.Props.C01"]


def evaluator(p, res, meta):
    try:
        o = asmgen.Oracle(p).run()
    except asmgen.Unsupported:
        return None
    defective = o.first_failing_commit() is not None
    for (req, a, _) in res:
        k = req.split()[0]
        if k in ("c", "fin", "take", "drain", "}alter", "alter{") and (a.startswith("err") or a == "panic" or a == "dead"):
            if defective:
                return None          # defective programs that are rejected are C06's subject
            return ({"kind": "healthy-program-rejected", "op": k}, f"`{k}` returned `{a}` for a program in which every reference has a definition in range")
    # every commit succeeded: the property speaks about the code produced, also when the program should not have been accepted
    # (references without a designated definition have no expected value and are skipped by check_image)
    fb = asmcheck.final_bytes(res)
    if fb is None:
        return None
    msg = asmcheck.check_image(fb, o)
    if msg:
        return ({"kind": "reference" if "decodes" in msg else "non-field-byte"}, msg)
    return None


def retry_program(rng, fam):
    """a reference whose label is not defined yet when the first commit is attempted (that commit fails: C06), the label defined
    afterwards, then commits that succeed. The property speaks about every successful commit: the reference designates the later definition"""
    front = rng.choice(["asm", "asm", "vec"])
    g = asmgen.Gen(rng, front, fam, max_ops=10, base=0)
    g.header()
    g.lines += ["nd", "nd"]
    g.ndyn = 2
    lines = g.lines
    g.emit(g.code())
    lines.append("gl 9")
    g.defined_global.add(9)
    lines.append("dl 1")
    g.defined_dyn.add(1)

    def healthy():
        k = rng.below(3)
        if k == 0:
            g.ref_line("rg", 9, g.pick_shape())
        elif k == 1:
            g.ref_line("rd", 1, g.pick_shape())
        else:
            g.emit(g.code())
    for _ in range(rng.below(3)):
        healthy()
    kind = rng.choice(["rg", "rf", "rd"])
    name, fix = {"rg": (8, "gl 8"), "rf": (1, "ll 1"), "rd": (0, "dl 0")}[kind]
    g.ref_line(kind, name, g.pick_shape())
    for _ in range(rng.below(3)):
        healthy()
    lines.append("c")
    if rng.chance(1, 2):
        g.emit(g.code())
    lines.append(fix)
    for _ in range(rng.below(3)):
        healthy()
    g.emit(g.code())
    if rng.chance(1, 2):
        lines.append("c")
    lines.append("fin")
    return lines


def retry_evaluator(p, res, meta):
    fail = next((i for i, (req, a, _) in enumerate(res) if req == "c" and a.startswith("err")), None)
    if fail is None or not res[fail][1].startswith("err Unknown"):
        return None
    if any(a.startswith("err") or a in ("panic", "dead", "bad-op", "skipped") for (_, a, _) in res[fail + 1:]):
        return None         # the later commits did not succeed: nothing was produced
    healthy = [req for i, (req, _, _) in enumerate(res) if i != fail]
    try:
        o = asmgen.Oracle(healthy).run()
        if o.first_failing_commit() is not None:
            return None
        patches = o.patches(None)
    except asmgen.Unsupported:
        return None
    fb = asmcheck.final_bytes(res)
    if fb is None or len(fb) != len(o.image):
        return None
    emitted = bytes(o.image)
    lost = {}
    for (start, fmt, v, r) in patches:
        size = asmcheck.fmt_size(fmt)
        if r["i"] < fail and v is not None and fb[start:start + size] == emitted[start:start + size] and \
                asmcheck.arch_decode(fmt, fb[start:start + size]) != asmcheck.expected_decode(fmt, v):
            lost[start] = (r, asmcheck.arch_decode(fmt, fb[start:start + size]), asmcheck.expected_decode(fmt, v))
    msg = asmcheck.check_image(fb, o, skip=lambda start, size: start in lost)
    if msg:
        return ({"kind": "reference" if "decodes" in msg else "non-field-byte"}, msg)
    if lost:
        start = min(lost)
        r, got, want = lost[start]
        front = next((l.split()[1] for l in p if l.startswith("new ")), "?")
        return ({"kind": "unpatched-after-failed-commit", "front": front},
                f"`{res[fail][0]}` failed with `{res[fail][1][:40]}`, the label was then defined and the later commit succeeded, but reference "
                f"`{' '.join(o.lines[r['i']])}` (field at {start}) still holds its placeholder: decodes to {got}, designated target gives {want}")
    return None


def reassemble_program(rng, fam):
    """routines that use the same local label name are committed and then RE-ASSEMBLED IN PLACE by an alter session with the same layout:
    the session goes back, emits the forward reference again and defines the label again at the offset it already has (patching the
    routines last-first when there are two). `>name` designates the first definition emitted after it — here the one of the same routine."""
    g = asmgen.Gen(rng, "asm", fam, max_ops=10, base=0)
    g.header()
    lines, unit = g.lines, g.unit
    off = 0
    routines = []

    def ex(bs):
        nonlocal off
        lines.append(f"ex {hexb(bs)}")
        off += len(bs)

    ex(rng.bytes(unit * rng.range(0, 3)))
    name = rng.below(3)
    for _ in range(rng.range(1, 2)):
        shape = g.pick_shape(data_ok=False)
        start = off
        ph = g.placeholder(shape)
        ex(ph)
        lines.append(f"rf {name} 0 {shape[2]} {shape[3]} {shape[0]}")
        mid = unit * rng.range(0, 3)
        ex(rng.bytes(mid))
        lines.append(f"ll {name}")
        post = unit * rng.range(1, 3)
        ex(rng.bytes(post))
        routines.append((start, shape, len(ph), mid, post))
    lines.append("c")
    lines.append("alter{")
    for (start, shape, n_ph, mid, post) in reversed(routines):
        lines.append(f"goto {start}")
        lines.append(f"ex {hexb(g.placeholder(shape))}")
        lines.append(f"rf {name} {rng.choice([0, 0, unit])} {shape[2]} {shape[3]} {shape[0]}")
        if mid:
            lines.append(f"ex {hexb(rng.bytes(mid))}")
        lines.append(f"ll {name}")
        if rng.chance(1, 2):
            lines.append(f"ex {hexb(rng.bytes(post))}")
    lines.append("}alter")
    lines.append("buf")
    lines.append("fin")
    return lines


def check(run):
    rng = SplitMix(run.seed)
    thorough = run.tier == "thorough"
    common.base_trusted(run, bv=True)
    run.coverage["trusted_base"] += ["harness/rt (asm stream executor)", "lib/asmgen.Oracle (scanning specification in python) and lib/asmcheck.arch_decode (decoders written from the manuals)",
                                     "Vec/HashMap modelled as lists/functions"]
    run.assumptions += ["each reference's field lies inside the bytes emitted since the last commit and fields are pairwise disjoint (what macro-generated code satisfies)",
                        "address-dependent kinds are C12's subject; the macro half (which reloc call each backend emits) is not covered by this check yet"]
    run.coverage["rule"] = ("label programs: names drawn from a pool of 3 (locals redefined many times), forward/backward/global/dynamic references with +- offsets, "
                            "instruction-style and data-directive-style fields of every format of the family, aligns, commits at random points, alter sessions with references; "
                            "run on VecAssembler, Assembler and Modifier x {x64,x86,a64,rv}. non-trivial = >= 1 reference resolved across a redefinition of its name or a commit")
    ok, proofs_ok = asmprops.proof_and_build(run, MODULES, allow_bv=True)
    if not ok:
        return
    found_before = len(run.violations) + len(run.known_hit)
    progs, metas = [], []
    nontrivial = 0
    for i in range(150000 if thorough else 6000):
        fam = rng.choice(["x64", "x86", "a64", "rv"])
        front = rng.choice(["vec", "asm", "asm"])
        g = asmgen.Gen(rng, front, fam, max_ops=60 if thorough else 35)
        lines, _ = g.build()
        progs.append(lines)
        metas.append(None)
        names = [l.split()[1] for l in lines if l.startswith("ll ")]
        if len(names) != len(set(names)) and any(l.split()[0] in ("rf", "rb") for l in lines) or ("c" in lines[:-2] and any(l[:2] in ("rb", "rg") for l in lines)):
            nontrivial += 1
    for i in range(30000 if thorough else 1500):
        lines, meta = c10.session_program(rng, rng.choice(["x64", "x86", "a64", "rv"]), True, False)
        progs.append(lines)
        metas.append(None)
        nontrivial += 1
    for i in range(3000 if thorough else 300):
        progs.append(reassemble_program(rng, rng.choice(["x64", "x86", "a64", "rv"])))
        metas.append(None)
        nontrivial += 1
    stats = asmprops.process(run, progs, evaluator, metas, chunk=250)
    # histories that continue after a failed commit: the label is defined afterwards and a later commit succeeds (own batch: a recorded
    # finding must not use up the report limit of the main batch)
    retries = [retry_program(rng, rng.choice(["x64", "x86", "a64", "rv"])) for _ in range(3000 if thorough else 300)]
    rstats = asmprops.process(run, retries, retry_evaluator, None, chunk=100, label="retry history")
    stats["retry_histories"] = rstats
    stats["requests"] += rstats["requests"]
    # macro half (x86-64): a label as memory operand must be referenced exactly, whatever follows the displacement inside the instruction
    import x64lbl
    stats["x64_label_operands"] = x64lbl.sweep(run)
    # macro half, every backend: the user-supplied offset of a reference reaches the relocation call as written
    import lblofs
    stats["label_offsets"] = lblofs.sweep(run)
    run.coverage["evaluations"] = len(progs) + len(retries)
    run.coverage["distinct_nontrivial"] = nontrivial
    run.coverage["traces_validated_against_impl"] = stats["requests"]
    run.coverage["distribution"] = stats
    run.coverage["samples"] = [[l[:60] for l in progs[3][:40]]]
    asmprops.finish_proofs(run, proofs_ok, found_before)


def replay(path):
    return asmcheck.replay(path)
