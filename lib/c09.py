"""C09 — concurrent executors only ever see complete committed states.
Proof: Props/C09.lean over Model/Conc (inductive invariant over every interleaving of one assembling thread with any number of
executor threads): snapshot_is_commit_boundary, guard_stable, done_monotone, visible_after_return, completion_publishes,
finalize_requires_no_executor, no_deadlock.
Tie: hook-steered schedules of the real code: the assembling thread is parked at every cfg(dynasm_verif) observation point inside
commit (both branches) / alter / finalize while a reader thread tries Executor::lock() (probe) or locks and holds across the
following steps (hold); every event is replayed on the model (granted/blocked must match the model's lock state, what a reader sees
must be the model's view) and the property is evaluated directly on the events."""
import json

import common
import conc

MODULES = ["DynasmVerif.Props.C09"]
FOCUS = "C09"


def check(run, focus=FOCUS, modules=MODULES):
    thorough = run.tier == "thorough"
    common.base_trusted(run, bv=False)
    run.coverage["trusted_base"] += ["std::sync::RwLock modelled as an ideal reader-writer lock (no poisoning, no fairness assumption); Arc as a count",
                                     "the cfg(dynasm_verif) observation points of /repo (add-only hooks, MANIFEST.hooks) and harness/rt conc",
                                     "blocking is observed by timeout (60 ms); memory-model effects (visibility of plain stores) are outside the model"]
    run.assumptions += ["one assembling thread, one steered reader thread per schedule (the theorems cover any number of readers; the tie exercises one, plus the assembling thread's own boundary reads)"]
    ok, log = common.build_harness("rt")
    if not ok:
        run.violation("broken-correspondence", {"kind": "harness-build"}, "harness/rt does not build against the working tree (with --cfg dynasm_verif)", {"log": log[-3000:]}, found_input=False)
        return
    proofs_ok = common.standard_proof_step(run, modules, allow_bv_decide=False, extra_targets=["driver"])
    found_before = len(run.violations) + len(run.known_hit)
    if not proofs_ok and hasattr(run, "broken_build"):
        ok2, _ = common.lake_build(["driver"])
        if not ok2:
            run.violation("broken-obligation", {"kind": "lean-build"}, run.broken_build["first_error"], run.broken_build, found_input=False)
            return
    stats = conc.explore(run, focus, thorough)
    if focus == "C08":
        conc.strace_check(run, stats)
    run.coverage["evaluations"] = stats["events"]
    run.coverage["distinct_nontrivial"] = stats["reader_granted"] + stats["reader_blocked"]
    run.coverage["rule"] = (f"every one of the {stats['observation_points']} observation points of the program commit(in place), commit(grow), alter, commit(in place), finalize x "
                            "{reader probes the lock, reader locks and holds while the assembler runs on}; every event replayed on the Conc model; "
                            "non-trivial = a reader attempt made while the assembling thread is parked inside an operation")
    run.coverage["traces_validated_against_impl"] = stats["schedules"]
    run.coverage["distribution"] = stats
    run.coverage["samples"] = ["rt conc 8 hold", "rt conc 17 probe"]
    if not proofs_ok and hasattr(run, "broken_build"):
        found = (len(run.violations) + len(run.known_hit)) > found_before
        run.violation("broken-obligation", {"kind": "lean-build", "first": run.broken_build["first_error"][:200]}, run.broken_build["first_error"], run.broken_build, found_input=found)


def replay(path):
    rec = json.load(open(path))
    print(json.dumps({k: rec.get(k) for k in ("property", "kind", "what")}, indent=1))
    p = rec.get("payload", {})
    if p.get("schedule"):
        common.build_harness("rt")
        common.lake_build(["driver"])
        lines = conc.run_schedule(*p["schedule"])
        for l, a in zip(lines, conc.replay_on_model(lines)):
            print(f"{l:70s} | model: {a}")
    return 0 if p else 1
