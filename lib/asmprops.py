"""Common flow of the checks that use the `asm` stream (C01 C06 C07 C10 C11 C12 C16 C17):
proof step, correspondence of model and implementation on generated programs, direct evaluation of the property on the
implementation's outputs, shrinking, classification of what was found."""
import common
import asmcheck
from asmcheck import run_programs, first_diff, shrink, replay_payload


def proof_and_build(run, modules, allow_bv=False):
    """returns (harness ok, proofs ok)"""
    ok, log = common.build_harness("rt")
    if not ok:
        run.violation("broken-correspondence", {"kind": "harness-build"}, "harness/rt does not build against the working tree",
                      {"log": log[-3000:]}, found_input=False)
        return False, False
    proofs_ok = common.standard_proof_step(run, modules, allow_bv_decide=allow_bv)
    if not proofs_ok and hasattr(run, "broken_build"):
        ok2, _ = common.lake_build(["driver"])
        if not ok2:
            run.violation("broken-obligation", {"kind": "lean-build"}, run.broken_build["first_error"], run.broken_build, found_input=False)
            return False, False
    return True, proofs_ok


def finish_proofs(run, proofs_ok, found_before):
    if not proofs_ok and hasattr(run, "broken_build"):
        found = (len(run.violations) + len(run.known_hit)) > found_before
        run.violation("broken-obligation", {"kind": "lean-build", "first": run.broken_build["first_error"][:200]},
                      run.broken_build["first_error"], run.broken_build, found_input=found)


def process(run, programs, evaluator, metas=None, limit=4, chunk=400, label="program"):
    """programs: list of line lists. evaluator(program, result) -> None | (match dict, message): the property evaluated on the
    implementation's answers only. Returns statistics."""
    stats = {"programs": len(programs), "requests": 0, "diff_programs": 0, "property_failures": 0}
    cands_pv, cands_diff = [], []
    chunks = [programs[i:i + chunk] for i in range(0, len(programs), chunk)]
    all_results = common.parallel_map(run_programs, chunks)
    idx = 0
    for ch, results in zip(chunks, all_results):
        for p, res in zip(ch, results):
            meta = metas[idx] if metas else None
            idx += 1
            stats["requests"] += len(res)
            if any(a.startswith("err") for (_, a, _) in res):
                stats["with_error"] = stats.get("with_error", 0) + 1
            pv = None
            try:
                pv = evaluator(p, res, meta)
            except Exception as e:   # an evaluator crash must not hide anything: report it as broken machinery
                pv = ({"kind": "evaluator-exception", "type": type(e).__name__}, f"property evaluator raised {type(e).__name__}: {e}")
            d = first_diff(res)
            if pv is None and d is None:
                continue
            if d is not None:
                stats["diff_programs"] += 1
            if pv is not None:
                stats["property_failures"] += 1
            (cands_pv if pv is not None else cands_diff).append((p, res, meta, pv, d))
    # property failures first (they carry a failing input), then programs on which only model and implementation differ
    for (p, res, meta, pv, d) in cands_pv[:limit] + cands_diff[:limit]:
            if pv is not None:
                kind0 = pv[0].get("kind")

                def still(lines, kind0=kind0, meta=meta):
                    r = run_programs([lines])[0]
                    try:
                        x = evaluator(lines, r, meta)
                    except Exception:
                        return False
                    return x is not None and x[0].get("kind") == kind0
                small = shrink(p, still) if len(p) <= 400 else p
                r2 = run_programs([small])[0]
                pv2 = evaluator(small, r2, meta) or pv
                run.violation("failing-input", pv2[0], pv2[1], replay_payload(small, r2))
            else:
                def still(lines):
                    return first_diff(run_programs([lines])[0]) is not None
                small = shrink(p, still) if len(p) <= 400 else p
                r2 = run_programs([small])[0]
                d2 = first_diff(r2) or d
                try:
                    pv2 = evaluator(small, r2, meta)
                except Exception:
                    pv2 = None
                if pv2 is not None:
                    run.violation("failing-input", pv2[0], pv2[1], replay_payload(small, r2))
                else:
                    op = d2[0].split()[0]
                    run.violation("broken-correspondence", {"kind": "model-differs", "op": op},
                                  f"model and implementation differ at `{d2[0][:80]}`: impl `{d2[1][:80]}` / model `{d2[2][:80]}`; "
                                  f"the property's own evaluation on the implementation's outputs finds no failure for this {label}",
                                  replay_payload(small, r2), found_input=False)
    return stats
