"""GNU/LLVM assembler syntax for instantiated aarch64 / riscv instruction forms (lib/forms.py) and an llvm-mc (LLVM 14) wrapper,
so the bytes the dynasm plugin emits can be compared with an independent assembler.

    to_gas(form, vals, optionals=True)                       -> str | None   `form.render(vals, optionals=...)` in llvm-mc syntax
    llvm_assemble(arch, lines, xlen=64, attrs=None)          -> [bytes | None]
    llvm_disassemble(arch, byte_strings, xlen=64, attrs=None) -> [str | None]
    llvm_assemble_ex / llvm_disassemble_ex                    the same with llvm-mc's diagnostic / the partial disassembly
    measure() or `python3 lib/gas.py`                         writes lib/gas_report.json (dynasm against llvm-mc on every form)

The syntax rules follow the repo's own converters (tools/aarch64_gen_tests.py, tools/riscv_gen_tests.py), re-implemented here:
aarch64: `.B16` -> `.16b`, `{v1.B16 * 2}` -> `{v1.16b, v2.16b}`, `mov.inverted` / `mov.logical` -> `mov`, everything lower case,
         system registers given as a number -> `s3_0_c0_c0_0`;
riscv:   `[x1, 8]` -> `8(x1)`, `li.NN` -> `li`, `mop.r.N 3, ...` -> `mop.r.3 ...`, `{ra; 3}` -> `{ra, s0-s2}`,
         `lui` / `auipc` / `c.lui` take the value in dynasm and the 20-bit field in gas.
llvm-mc has no notion of a pc-relative *number* for the riscv pseudo instructions (`la`, `call`, `lb rd, sym`, ...): those are rendered
as the auipc pair the ISA manual defines for them (hi = (off + 0x800) >> 12, lo = off - (hi << 12)), several statements on one line.
A line may hold several statements separated by `;`; its bytes are the concatenation."""
import json
import os
import re
import subprocess

import common
import forms

LLVM_MC = "/usr/lib/llvm-14/bin/llvm-mc"
BATCH = 4000

# every architectural feature llvm-mc 14 knows for aarch64 (there is no `+all`): CPU models and tuning flags left out
A64_ATTR = ("+v8.8a,+v9.3a,+neon,+fp-armv8,+fullfp16,+fp16fml,+crypto,+aes,+sha2,+sha3,+sm4,+crc,+lse,+lse2,+rdm,+rcpc,+rcpc-immo,"
            "+dotprod,+complxnum,+jsconv,+pauth,+mte,+rand,+tme,+bf16,+i8mm,+f32mm,+f64mm,+ls64,+mops,+hbc,+xs,+wfxt,+brbe,+spe,"
            "+spe-eef,+ssbs,+sb,+predres,+bti,+flagm,+altnzcv,+fptoint,+ras,+pan,+pan-rwv,+lor,+vh,+ccpp,+ccdp,+ccidx,+dit,+am,+amvs,"
            "+mpam,+nv,+sel2,+tlb-rmi,+tracev8.4,+trbe,+ete,+ecv,+fgt,+hcx,+rme,+perfmon,+uaops,+specrestrict,+el2vmsa,+el3,"
            "+sve,+sve2,+sve2-aes,+sve2-bitperm,+sve2-sha3,+sve2-sm4,+sme,+sme-f64,+sme-i64")
# riscv: attribute sets tried in this order, a line takes the first one that accepts it.
#  1. everything llvm-mc 14 knows except C (with C enabled llvm-mc silently compresses `add x1, x1, x2` into `c.add`)
#  2. the same plus C (only explicit `c.*` lines get here)
#  3. the *inx extensions, which exclude F/D
_RV_COMMON = "+m,+a,+zba,+zbb,+zbc,+zbs,+zbkb,+zbkc,+zbkx,+zk,+zkn,+zknd,+zkne,+zknh,+zkr,+zks,+zksed,+zksh,+zkt"
RV_ATTRS = (_RV_COMMON + ",+f,+d,+zfh,+zfhmin",
            _RV_COMMON + ",+f,+d,+zfh,+zfhmin,+c",
            _RV_COMMON + ",+zfinx,+zdinx,+zhinx,+zhinxmin")


def attr_chain(arch):
    """the attribute sets tried in turn for a line without a hint"""
    return [A64_ATTR] if arch == "aarch64" else list(RV_ATTRS)


def mc_args(arch, xlen, attr):
    if arch == "aarch64":
        return ["-triple=aarch64", "-mattr=" + attr]
    if arch == "riscv":
        return [f"-triple=riscv{xlen}"] + (["-mattr=" + attr] if attr else [])
    raise ValueError(arch)


LLVM_RV_EXTENSIONS = {"m", "a", "f", "d", "c", "zba", "zbb", "zbc", "zbs", "zbkb", "zbkc", "zbkx", "zfh", "zfhmin", "zfinx", "zdinx", "zhinx",
                      "zhinxmin", "zk", "zkn", "zknd", "zkne", "zknh", "zkr", "zks", "zksed", "zksh", "zkt"}


def rv_attr_of(ext):
    """llvm-mc attributes for one of dynasm's riscv extension names (`i`, `zbb`, `cd`, `dzfh`, `zdinx_zhinx`, ...): the table's own
    requirement, so that both assemblers work under the same ISA (with Zbb enabled `sext.b` is an instruction, without it a pseudo).
    None if llvm-mc 14 lacks a component."""
    parts = []
    for chunk in ext.lower().split("_"):
        while chunk and not chunk.startswith("z"):
            parts.append(chunk[0])
            chunk = chunk[1:]
        if chunk:
            parts.append(chunk)
    parts = [p for p in parts if p != "i"]
    if any(p not in LLVM_RV_EXTENSIONS for p in parts):
        return None
    return ",".join("+" + p for p in parts)


# ---------------------------------------------------------------------------------------------
# rendering

A64_ARRANGEMENT = re.compile(r"\.([bhsdq])([0-9]+)")
A64_MOVI_BYTE_LSL0 = re.compile(r"^(movi v[0-9]+\.(?:16|8)b, -?[0-9a-fx]+) ?, lsl 0$")
A64_REGLIST = re.compile(r"\{ *v([0-9]+)(\.[0-9a-z]+) *\* *([1-4]) *\}")
RV_MEMREF = re.compile(r"\[ *([a-z0-9]+) *(?:, *([^\]]+?) *)?\]")
RV_MOP = re.compile(r"^(c\.mop\.|mop\.r\.|mop\.rr\.)n +(-?[0-9]+),? *")
RV_LI = re.compile(r"^li\.[0-9]+ ")
RV_REGLIST_N = re.compile(r"\{ *ra *; *([0-9]+) *\}")
RV_REGLISTS = ["{ra}", "{ra, s0}", "{ra, s0-s1}", "{ra, s0-s2}", "{ra, s0-s3}", "{ra, s0-s4}", "{ra, s0-s5}", "{ra, s0-s6}", "{ra, s0-s7}",
               "{ra, s0-s8}", "{ra, s0-s9}", None, "{ra, s0-s11}"]
# riscv pseudo instructions whose `Off` operand is pc-relative and expands to an auipc pair (besides la / call / tail / jump)
RV_PCREL_LOADS = {"lb", "lbu", "lh", "lhu", "lw", "lwu", "ld"}
RV_PCREL_FLOADS = {"flh", "flw", "fld", "flq"}
RV_PCREL_STORES = {"sb", "sh", "sw", "sd", "fsh", "fsw", "fsd", "fsq"}


def imm_text(v):
    if isinstance(v, float):
        return repr(v)
    if isinstance(v, int):
        return hex(v) if v >= 1 << 31 else str(v)
    return str(v)


def strip_optionals(s, keep):
    if not keep:
        while "<" in s:
            s2 = forms.OPTIONAL.sub("", s)
            if s2 == s:
                break
            s = s2
    return s.replace("<", "").replace(">", "")


def slot_texts(form, vals):
    """gas text of every slot (dict idx -> text), None if a slot cannot be expressed (labels)"""
    out = {}
    prev_val = None
    for (kind, idx) in form.slots:
        v = vals[idx]
        c = form.constraints.get(idx)
        if kind in forms.A64_REG and form.arch == "aarch64" or kind in ("X", "F") and form.arch == "riscv":
            if isinstance(c, forms.RNext):
                txt = form.reg_text(kind, (prev_val + 1) % 32, False)
            else:
                txt = form.reg_text(kind, v, False)
            prev_val = v if isinstance(v, int) else prev_val
        elif kind in ("Imm", "Off"):
            if isinstance(v, str) and v.startswith("->"):
                return None
            txt = imm_text(v)
            prev_val = v if isinstance(v, int) else prev_val
        else:
            txt = str(v)
        out[idx] = txt
    return out


def a64_sysreg(v):
    """the generic name of a system register given as the 15-bit field o0:op1:CRn:CRm:op2 (op0 = 2 + o0)"""
    return f"s{2 + (v >> 14)}_{(v >> 11) & 7}_c{(v >> 7) & 15}_c{(v >> 3) & 15}_{v & 7}"


def a64_to_gas(form, vals, optionals):
    txt = slot_texts(form, vals)
    if txt is None:
        return None
    if form.mnemonic in ("mrs", "msr"):
        for (kind, idx) in form.slots:
            if kind == "Imm" and isinstance(form.constraints.get(idx), forms.Range) and form.constraints[idx].hi == 32768:
                txt[idx] = a64_sysreg(vals[idx])
    s = forms.SUB.sub(lambda m: txt[int(m.group(2))], form.template)
    s = strip_optionals(s, optionals).lower()
    s = A64_ARRANGEMENT.sub(lambda m: "." + m.group(2) + m.group(1), s)
    s = A64_REGLIST.sub(lambda m: "{" + ", ".join(f"v{(int(m.group(1)) + i) % 32}{m.group(2)}" for i in range(int(m.group(3)))) + "}", s)
    s = s.replace("mov.inverted", "mov").replace("mov.logical", "mov")
    s = " ".join(s.split())
    s = A64_MOVI_BYTE_LSL0.sub(r"\1", s)      # llvm-mc has no `lsl #0` on the byte arrangement (there is no shift field)
    return s


def rv_hi_lo(off):
    hi = (off + 0x800) >> 12
    return hi & 0xFFFFF, off - (hi << 12)


def rv_pcrel(form, vals, txt):
    """the auipc pair of a pc-relative pseudo instruction applied to a number, or None if the form is not one"""
    m = form.mnemonic
    kinds = [k for (k, _) in form.slots]
    in_memref = "[" in form.template
    offs = [i for (k, i) in form.slots if k == "Off"]
    if in_memref or len(offs) != 1 or not isinstance(vals[offs[0]], int):
        return None
    hi, lo = rv_hi_lo(vals[offs[0]])
    regs = [txt[i] for (k, i) in form.slots if k in ("X", "F")]
    if m == "la" and kinds == ["X", "Off"]:
        return f"auipc {regs[0]}, {hi}; addi {regs[0]}, {regs[0]}, {lo}"
    if m in RV_PCREL_LOADS and kinds == ["X", "Off"]:
        return f"auipc {regs[0]}, {hi}; {m} {regs[0]}, {lo}({regs[0]})"
    if m in RV_PCREL_FLOADS | RV_PCREL_STORES and kinds in (["F", "Off", "X"], ["X", "Off", "X"]):
        return f"auipc {regs[1]}, {hi}; {m} {regs[0]}, {lo}({regs[1]})"
    if m == "call" and kinds == ["Off"]:
        return f"auipc x1, {hi}; jalr x1, {lo}(x1)"
    if m == "call" and kinds == ["X", "Off"]:
        return f"auipc {regs[0]}, {hi}; jalr {regs[0]}, {lo}({regs[0]})"
    if m == "tail" and kinds == ["Off"]:
        t = "x7" if "zicfilp" in form.extra[1] else "x6"
        return f"auipc {t}, {hi}; jalr x0, {lo}({t})"
    if m == "jump" and kinds == ["Off", "X"]:
        return f"auipc {regs[0]}, {hi}; jalr x0, {lo}({regs[0]})"
    return None


def rv_to_gas(form, vals, optionals):
    txt = slot_texts(form, vals)
    if txt is None:
        return None
    m = form.mnemonic
    pair = rv_pcrel(form, vals, txt)
    if pair is not None:
        return pair
    for (kind, idx) in form.slots:
        v = vals[idx]
        if m in ("lui", "auipc", "c.lui") and kind in ("Imm", "Off") and isinstance(v, int):
            if v % 4096:
                return None
            txt[idx] = str((v >> 12) & 0xFFFFF)
        if kind == "RegList":
            mm = RV_REGLIST_N.fullmatch(str(v).strip())
            if mm:
                n = int(mm.group(1))
                if n >= len(RV_REGLISTS) or RV_REGLISTS[n] is None:
                    return None
                txt[idx] = RV_REGLISTS[n]
    s = forms.SUB.sub(lambda mm: txt[int(mm.group(2))], form.template)
    s = strip_optionals(s, optionals).lower()
    s = RV_MEMREF.sub(lambda mm: f"{mm.group(2) or ''}({mm.group(1)})", s)
    s = RV_LI.sub("li ", s)
    s = RV_MOP.sub(lambda mm: f"{mm.group(1)}{mm.group(2)} ", s)
    return " ".join(s.split())


def to_gas(form, vals, optionals=True):
    """LLVM/GNU syntax of the instantiation `form.render(vals, optionals=optionals)`; None if it cannot be expressed (label operands)"""
    if form.arch == "aarch64":
        return a64_to_gas(form, vals, optionals)
    if form.arch == "riscv":
        return rv_to_gas(form, vals, optionals)
    raise ValueError(form.arch)


# ---------------------------------------------------------------------------------------------
# llvm-mc

ENCODING = re.compile(r"encoding: \[([^\]]*)\]")
MARK = re.compile(r"^\.Lgas_([0-9]+):\s*$")
DIAG = re.compile(r"^<stdin>:([0-9]+):([0-9]+): (error|warning): (.*)$")


def run_mc(args, text):
    p = subprocess.run([LLVM_MC] + args, input=text, stdout=subprocess.PIPE, stderr=subprocess.PIPE, text=True)
    return p.stdout, p.stderr


def assemble_batch(arch, lines, xlen, attr):
    """one llvm-mc process. Every input line is preceded by its own label; llvm-mc echoes the labels on stdout, so the encodings between
    two labels belong to exactly one input line, and the line numbers of the diagnostics on stderr say which lines were rejected."""
    src = []
    for i, l in enumerate(lines):
        if "\n" in l or ".Lgas_" in l:
            raise ValueError(f"bad line {l!r}")
        src.append(f".Lgas_{i}:")
        src.append(l)
    out, err = run_mc(mc_args(arch, xlen, attr) + ["-show-encoding"], "\n".join(src) + "\n")
    got = [[] for _ in lines]
    bad = [None] * len(lines)
    seen, cur = 0, None
    for l in out.split("\n"):
        m = MARK.match(l)
        if m:
            cur = int(m.group(1))
            if cur != seen:
                raise RuntimeError(f"llvm-mc output out of step: label {cur}, expected {seen}")
            seen += 1
            continue
        m = ENCODING.search(l)
        if m:
            if cur is None:
                raise RuntimeError("encoding before the first label")
            got[cur].append(m.group(1))
    if seen != len(lines):
        raise RuntimeError(f"llvm-mc echoed {seen} of {len(lines)} labels")
    for l in err.split("\n"):
        m = DIAG.match(l)
        if m and m.group(3) == "error":
            n = int(m.group(1))
            if n % 2 == 1:
                raise RuntimeError(f"llvm-mc rejects a marker label: {l}")
            i = n // 2 - 1
            if bad[i] is None:
                bad[i] = m.group(4)
    res = []
    for i in range(len(lines)):
        if bad[i] is not None or not got[i]:
            res.append((None, bad[i] or "no output"))
            continue
        bs = bytearray()
        ok = True
        for enc in got[i]:
            for tok in enc.split(","):
                tok = tok.strip()
                if not re.fullmatch(r"0x[0-9a-fA-F]{2}", tok):
                    ok = False       # a fixup (symbolic operand): the bytes are not final
                    break
                bs.append(int(tok, 16))
        res.append((bytes(bs), None) if ok else (None, "unresolved fixup"))
    return res


def llvm_assemble_ex(arch, lines, xlen=64, attrs=None):
    """[(bytes | None, reason | None)] — reason is llvm-mc's error message for the line under the first attribute set tried.
    attrs: optional per-line llvm-mc attribute string (see rv_attr_of) tried before the generic sets of attr_chain(arch)."""
    lines = list(lines)
    res = [(None, "not expressible") if l is None else None for l in lines]
    plans = {}        # attribute sequence -> line indices
    for i, l in enumerate(lines):
        if l is None:
            continue
        hint = attrs[i] if attrs is not None else None
        seq = tuple(([hint] if hint is not None else []) + [a for a in attr_chain(arch) if a != hint])
        plans.setdefault(seq, []).append(i)
    depth = max((len(seq) for seq in plans), default=0)
    for k in range(depth):
        jobs = []
        for seq, todo in sorted(plans.items()):
            if k < len(seq):
                jobs += [(seq, seq[k], todo[i:i + BATCH]) for i in range(0, len(todo), BATCH)]
        parts = common.parallel_map(lambda j: assemble_batch(arch, [lines[i] for i in j[2]], xlen, j[1]), jobs)
        left = {seq: [] for seq in plans}
        for (seq, _, ch), part in zip(jobs, parts):
            for i, r in zip(ch, part):
                if r[0] is not None:
                    res[i] = r
                else:
                    if res[i] is None:
                        res[i] = r          # keep the diagnostic of the first attribute set
                    left[seq].append(i)
        plans = {seq: sorted(todo) for seq, todo in left.items() if todo}
    return res


def llvm_assemble(arch, lines, xlen=64, attrs=None):
    """bytes per input line, None where llvm-mc 14 rejects the line or does not know the instruction (a None line stays None)"""
    return [r[0] for r in llvm_assemble_ex(arch, lines, xlen, attrs)]


def insn_sizes(arch, bs):
    """instruction boundaries of a byte string as llvm's disassembler steps through it: [(offset, size)]"""
    out, o = [], 0
    while o < len(bs):
        n = 4 if arch == "aarch64" or (bs[o] & 3) == 3 else 2
        if o + n > len(bs):
            n = len(bs) - o
        out.append((o, n))
        o += n
    return out


def disassemble_batch(arch, items, xlen, attr):
    """items: list of bytes. One `[ ... ]` block per line (blocks are decoded independently). llvm-mc prints one line per decoded
    instruction; at the first undecodable one it prints `<stdin>:L:C: warning: invalid instruction encoding` (C locates the byte) and
    drops the rest of that block."""
    src = ["[" + " ".join(f"0x{b:02x}" for b in bs) + "]" for bs in items]
    out, err = run_mc(mc_args(arch, xlen, attr) + ["--disassemble"], "\n".join(src) + "\n")
    texts = [l.strip() for l in out.split("\n") if l.strip() and l.strip() != ".text"]
    texts = [re.sub(r"\s+", " ", t) for t in texts]
    invalid = set()
    for l in err.split("\n"):
        m = DIAG.match(l)
        if m and m.group(3) == "warning" and "invalid instruction encoding" in m.group(4):
            line, col = int(m.group(1)), int(m.group(2))
            invalid.add((line - 1, (col - 2) // 5))      # column 1 is `[`, then 5 characters per byte
    res, k = [], 0
    for i, bs in enumerate(items):
        parts, ok = [], True
        for (o, n) in insn_sizes(arch, bs):
            if (i, o) in invalid or n < 2:
                parts.append("<invalid>")     # llvm-mc gives up on the rest of a block after the first undecodable instruction
                ok = False
                break
            else:
                if k >= len(texts):
                    raise RuntimeError("llvm-mc printed fewer instructions than expected")
                parts.append(texts[k])
                k += 1
        res.append(("; ".join(parts), ok))
    if k != len(texts):
        raise RuntimeError(f"llvm-mc printed {len(texts)} instructions, {k} expected")
    return res


def parse_bytes(b):
    """bytes, a hex string (`2000028b`) or llvm-mc's own input format (`0x20 0x00 0x02 0x8b`)"""
    if b is None or isinstance(b, (bytes, bytearray)):
        return b
    if "0x" in b:
        return bytes(int(t, 16) for t in re.split(r"[\s,\[\]]+", b) if t)
    return bytes.fromhex(b)


def disasm_chain(arch):
    """riscv: the set with C decodes everything the set without it does; the *inx view (same bits, x registers) only as a fallback"""
    return [A64_ATTR] if arch == "aarch64" else [RV_ATTRS[1], RV_ATTRS[2]]


def llvm_disassemble_ex(arch, byte_strings, xlen=64, attrs=None):
    """text per item, `<invalid>` standing for the first instruction llvm-mc cannot decode (the rest of the item is dropped)"""
    items = [parse_bytes(b) for b in byte_strings]
    res = [None] * len(items)
    plans = {}
    for i, b in enumerate(items):
        if not b:
            continue
        hint = attrs[i] if attrs is not None else None
        seq = tuple(([hint] if hint is not None else []) + [a for a in disasm_chain(arch) if a != hint])
        plans.setdefault(seq, []).append(i)

    def go(job):
        (_, attr, ch) = job
        try:
            return disassemble_batch(arch, [items[i] for i in ch], xlen, attr)
        except RuntimeError:
            # could not align the output with the input: one process per item
            return [disassemble_batch(arch, [items[i]], xlen, attr)[0] for i in ch]
    depth = max((len(seq) for seq in plans), default=0)
    for k in range(depth):
        jobs = []
        for seq, todo in sorted(plans.items()):
            if k < len(seq):
                jobs += [(seq, seq[k], todo[i:i + BATCH]) for i in range(0, len(todo), BATCH)]
        parts = common.parallel_map(go, jobs)
        left = {seq: [] for seq in plans}
        for (seq, _, ch), part in zip(jobs, parts):
            for i, (text, ok) in zip(ch, part):
                if ok:
                    res[i] = text
                else:
                    if res[i] is None or res[i].count("; ") < text.count("; "):
                        res[i] = text       # keep the attempt that got furthest
                    left[seq].append(i)
        plans = {seq: sorted(todo) for seq, todo in left.items() if todo}
    return res


def llvm_disassemble(arch, byte_strings, xlen=64, attrs=None):
    """llvm-mc's disassembly per item (bytes or hex string), instructions joined with `; `; None if any part does not decode"""
    return [None if (t is None or "<invalid>" in t) else t for t in llvm_disassemble_ex(arch, byte_strings, xlen, attrs)]


# ---------------------------------------------------------------------------------------------
# measurement: dynasm (the plugin, in-process) against llvm-mc

REPORT = os.path.join(os.path.dirname(os.path.abspath(__file__)), "gas_report.json")
INSTANTIATIONS = ("base", "last", "spread")


def slot_domain(form, idx, prev):
    """form.domain, with the identifier lists in sorted order: `plug extract` prints them in hash-map order, which changes from run to run"""
    d = form.domain(idx, prev=prev)
    if isinstance(form.constraints.get(idx), forms.List_) and all(isinstance(v, str) for v in d):
        d = sorted(d)
    return d


def instantiate(form, which):
    """base: form.base_values() (the first value of every domain, register 1);
    last: every slot takes the last value of its domain;
    spread: registers pairwise different (llvm-mc refuses the `unpredictable` coincidences of base/last), other slots mid-domain"""
    vals, prev, nreg = {}, None, 0
    base = form.base_values()
    if base is None:
        return None
    for idx in form.indices:
        d = slot_domain(form, idx, prev)
        if not d:
            return None
        c = form.constraints.get(idx)
        if which == "base":
            v = base[idx] if base[idx] in d and not (isinstance(c, forms.List_) and isinstance(base[idx], str)) else d[0]
        elif which == "last":
            v = d[-1]
        elif isinstance(c, forms.R):
            pool = [r for r in d if r != 31] or d
            v = pool[(2 + 5 * nreg) % len(pool)]
            nreg += 1
        elif isinstance(c, forms.ModWX):
            v = "SXTX"
        elif isinstance(c, forms.Named) and c.kind == "Rdifferent":
            v = next((r for r in d if r not in vals.values()), d[0])
        else:
            v = d[len(d) // 2]
        vals[idx] = v
        prev = v
    return vals


def plug_header(form, xlen):
    if form.arch == "aarch64":
        return "; .arch aarch64 ;"
    return f"; .arch riscv{xlen} ; .feature {form.extra[1][0]} ;"


def plug_bytes(ans):
    """the bytes of an `ok [...]` answer made of constants only; (None, why) otherwise"""
    if not ans.startswith("ok "):
        return None, ans.split(" ", 1)[0]
    bs = bytearray()
    for s in json.loads(ans[3:]):
        k, _, v = s.partition("|")
        if k in ("c1", "c2", "c4", "c8"):
            bs += int(v, 16).to_bytes(int(k[1]), "little")
        else:
            return None, "not-constant"
    return bytes(bs), None


def plug_compile(requests):
    chunks = [requests[i:i + 20000] for i in range(0, len(requests), 20000)]

    def go(ch):
        rc, out = common.sh([common.PLUG, "exec"], inp="\n".join(ch) + "\n")
        ans = [a for (_, a) in common.answers_of_impl(out)]
        if len(ans) != len(ch):
            raise RuntimeError(f"harness/plug answered {len(ans)} of {len(ch)} requests")
        return ans
    return [a for part in common.parallel_map(go, chunks) for a in part]


def targets():
    """(key, arch, xlen, forms)"""
    a64 = forms.load("aarch64")
    rv = forms.load("riscv")
    return [("aarch64", "aarch64", 64, a64),
            ("riscv32", "riscv", 32, [f for f in rv if "rv32" in f.extra[0]]),
            ("riscv64", "riscv", 64, [f for f in rv if "rv64" in f.extra[0]])]


UNKNOWN_REASONS = ("unrecognized instruction mnemonic", "instruction requires", "invalid instruction")


def run_cases(arch, xlen, fs, picks, optionals=True):
    """picks: [(form index, name of the instantiation, vals)]. One record per pick: dynasm line + bytes, gas line + bytes"""
    cases = []
    for (fi, which, vals) in picks:
        f = fs[fi]
        cases.append({"form": fi, "template": f.template, "mnemonic": f.mnemonic, "inst": which,
                      "dynasm": f.render(vals, optionals=optionals), "gas": to_gas(f, vals, optionals=optionals),
                      "attr": rv_attr_of(f.extra[1][0]) if arch == "riscv" else None})
    answers = plug_compile(["cl " + plug_header(fs[c["form"]], xlen) + " " + c["dynasm"] for c in cases])
    llvm = llvm_assemble_ex(arch, [c["gas"] for c in cases], xlen, [c["attr"] for c in cases])
    for c, a, (lb, why) in zip(cases, answers, llvm):
        db, dwhy = plug_bytes(a)
        c["dynasm_bytes"], c["dynasm_status"] = db, dwhy or "ok"
        c["llvm_bytes"], c["llvm_reason"] = lb, why
    return cases


def standard_picks(fs):
    out = []
    for fi, f in enumerate(fs):
        for which in INSTANTIATIONS:
            vals = instantiate(f, which)
            if vals is not None:
                out.append((fi, which, vals))
    return out


def slot_sweep_picks(fs, full_limit=64):
    """every slot of every form over its whole domain (boundary-directed above full_limit values), the other slots as in `spread`"""
    out = []
    for fi, f in enumerate(fs):
        bg = instantiate(f, "spread")
        if bg is None:
            continue
        seen = set()
        prev = None
        for idx in f.indices:
            d = f.domain(idx, full_limit=full_limit, prev=prev)
            if isinstance(f.constraints.get(idx), forms.List_) and all(isinstance(v, str) for v in d):
                d = sorted(d)
            for v in d:
                vals = dict(bg)
                vals[idx] = v
                key = tuple(sorted((k, str(x)) for k, x in vals.items()))
                if key not in seen:
                    seen.add(key)
                    out.append((fi, f"slot{idx}", vals))
            prev = bg[idx]
    return out


def pair_sweep_picks(fs, per_slot=5):
    """thorough tier: two slots of a form varied together (boundary values of each), the other slots as in `spread` — fields that share
    a word are then exercised against each other, not only against one fixed background"""
    def few(d):
        d = list(d)
        if len(d) <= per_slot:
            return d
        ix = sorted({0, 1, len(d) // 2, len(d) - 2, len(d) - 1})
        return [d[i] for i in ix][:per_slot]
    out = []
    for fi, f in enumerate(fs):
        bg = instantiate(f, "spread")
        if bg is None or len(f.indices) < 2:
            continue
        seen = set()
        idxs = list(f.indices)
        for a in range(len(idxs)):
            for b in range(a + 1, len(idxs)):
                i, j = idxs[a], idxs[b]
                try:
                    di = few(f.domain(i, full_limit=per_slot, prev=bg.get(idxs[a - 1]) if a > 0 else None))
                except Exception:      # noqa
                    continue
                for vi in di:
                    try:
                        dj = few(f.domain(j, full_limit=per_slot, prev=vi if b == a + 1 else bg.get(idxs[b - 1])))
                    except Exception:      # noqa
                        continue
                    for vj in dj:
                        vals = dict(bg)
                        vals[i], vals[j] = vi, vj
                        key = tuple(sorted((k, str(x)) for k, x in vals.items()))
                        if key not in seen:
                            seen.add(key)
                            out.append((fi, f"pair{i}_{j}", vals))
    return out


def is_diff(c):
    return c["dynasm_bytes"] is not None and c["llvm_bytes"] is not None and c["dynasm_bytes"] != c["llvm_bytes"]


def diff_records(key, arch, xlen, cases):
    diff = [c for c in cases if is_diff(c)]
    dis_d = llvm_disassemble_ex(arch, [c["dynasm_bytes"] for c in diff], xlen, [c["attr"] for c in diff])
    dis_l = llvm_disassemble_ex(arch, [c["llvm_bytes"] for c in diff], xlen, [c["attr"] for c in diff])
    out = []
    for c, dd, dl in zip(diff, dis_d, dis_l):
        rec = {"target": key, "inst": c["inst"], "template": c["template"], "dynasm": c["dynasm"], "gas": c["gas"],
               "dynasm_bytes": hexs(c["dynasm_bytes"]), "llvm_bytes": hexs(c["llvm_bytes"]),
               "llvm_disassembly_of_dynasm_bytes": dd, "llvm_disassembly_of_llvm_bytes": dl}
        rec["group"] = classify(rec)
        out.append(rec)
    return out


def summarize(key, arch, xlen, fs, cases):
    per = {}
    for which in INSTANTIATIONS + ("all",):
        sel = [c for c in cases if which == "all" or c["inst"] == which]
        both = [c for c in sel if c["dynasm_bytes"] is not None and c["llvm_bytes"] is not None]
        per[which] = {
            "instantiations": len(sel),
            "compiled_by_dynasm": sum(c["dynasm_bytes"] is not None for c in sel),
            "dynasm_rejected": sum(c["dynasm_status"] == "reject" for c in sel),
            "dynasm_not_constant": sum(c["dynasm_status"] == "not-constant" for c in sel),
            "not_expressible_in_gas": sum(c["gas"] is None for c in sel),
            "assembled_by_llvm": sum(c["llvm_bytes"] is not None for c in sel),
            "compared": len(both),
            "bytes_equal": sum(c["dynasm_bytes"] == c["llvm_bytes"] for c in both),
            "bytes_differ": sum(c["dynasm_bytes"] != c["llvm_bytes"] for c in both),
            "llvm_rejected_or_unknown": sum(c["dynasm_bytes"] is not None and c["gas"] is not None and c["llvm_bytes"] is None for c in sel),
            "llvm_accepts_dynasm_rejects": sum(c["dynasm_status"] == "reject" and c["llvm_bytes"] is not None for c in sel),
        }
    by_form = {}
    for c in cases:
        by_form.setdefault(c["form"], []).append(c)
    eq = lambda c: c["dynasm_bytes"] is not None and c["dynasm_bytes"] == c["llvm_bytes"]
    df = lambda c: c["dynasm_bytes"] is not None and c["llvm_bytes"] is not None and c["dynasm_bytes"] != c["llvm_bytes"]
    forms_summary = {
        "forms": len(fs),
        "forms_instantiated": len(by_form),
        "forms_compiled_by_dynasm": sum(any(c["dynasm_bytes"] is not None for c in cs) for cs in by_form.values()),
        "forms_assembled_by_llvm": sum(any(c["llvm_bytes"] is not None for c in cs) for cs in by_form.values()),
        "forms_with_equal_bytes": sum(any(eq(c) for c in cs) for cs in by_form.values()),
        "forms_with_differing_bytes": sum(any(df(c) for c in cs) for cs in by_form.values()),
        "forms_never_compared": sum(not any(eq(c) or df(c) for c in cs) for cs in by_form.values()),
    }
    return dict(forms_summary, per_instantiation=per)


def hexs(b):
    return None if b is None else b.hex()


def one_sided(key, arch, xlen, cases, section):
    """per template (and llvm-mc diagnostic): dynasm compiles what llvm-mc refuses although it knows the mnemonic, and the converse"""
    known = {c["mnemonic"] for c in cases if c["llvm_bytes"] is not None}
    per = {}
    for c in cases:
        if c["dynasm_bytes"] is not None and c["gas"] is not None and c["llvm_bytes"] is None and c["mnemonic"] in known:
            per.setdefault((c["template"], c["llvm_reason"]), []).append(c)
    shown = [c for cs in per.values() for c in cs[:3]]
    dis = dict(zip(map(id, shown), llvm_disassemble_ex(arch, [c["dynasm_bytes"] for c in shown], xlen, [c["attr"] for c in shown])))
    for (t, why), cs in per.items():
        section["dynasm_accepts_llvm_rejects"].append({
            "target": key, "template": t, "llvm_reason": why, "cases": len(cs), "note": one_sided_note(arch, t, why),
            "examples": [{"dynasm": c["dynasm"], "gas": c["gas"], "dynasm_bytes": hexs(c["dynasm_bytes"]),
                          "llvm_disassembly_of_dynasm_bytes": dis[id(c)]} for c in cs[:3]]})
    per = {}
    for c in cases:
        if c["dynasm_status"] == "reject" and c["llvm_bytes"] is not None:
            per.setdefault(c["template"], []).append(c)
    for t, cs in per.items():
        section["llvm_accepts_dynasm_rejects"].append({
            "target": key, "template": t, "cases": len(cs), "note": one_sided_note(arch, t, None),
            "examples": [{"dynasm": c["dynasm"], "gas": c["gas"], "llvm_bytes": hexs(c["llvm_bytes"])} for c in cs[:3]]})


def one_sided_note(arch, template, why):
    """what the investigation of the one-sided cases found (by template)"""
    m = template.split()[0]
    if why and "unpredictable" in why:
        return "llvm-mc refuses CONSTRAINED UNPREDICTABLE register coincidences (base = transfer register, status = source, Rt = Rt2); dynasm encodes them as written"
    if arch == "aarch64" and m == "msr" and why and "range [0, 1]" in why:
        return ("dynasm accepts 0..15 for every PSTATE field; PAN / UAO / DIT take one bit (CRm = 000x), the other values are "
                "unallocated encodings: dynasm is too permissive here (no wrong bytes for valid input)")
    if arch == "aarch64" and m == "tlbi":
        return ("dynasm takes the register of TLBI as optional for every operation: it accepts a register on operations that have none (Rt != 31 is "
                "emitted) and no register on operations that need one (Rt = 31 is emitted); llvm-mc refuses both")
    if arch == "aarch64" and m in ("bfm", "sbfm", "ubfm") and why is None:
        return ("dynasm's X forms of BFM / SBFM / UBFM carry a CUsum(6) check (opmap.rs, marked `TODO: check`) that demands 1 <= imms and "
                "immr + imms <= 64, as if they were the BFI / BFXIL aliases; the architecture allows immr and imms independently in 0..63 (the W forms "
                "have no such check). Valid instructions such as `ubfm x0, x1, 63, 62` (= lsl x0, x1, 1) are rejected: a table defect, but no wrong bytes")
    if arch == "aarch64" and m in ("add", "adds", "sub", "subs", "cmp", "cmn") and why and "too few operands" in why:
        return ("`add x0, x1, w2` without an extend is not architectural syntax (GNU as refuses it too, tools/aarch64_gen_tests.py works around it); "
                "dynasm accepts it and emits option = UXTX, i.e. the instruction reads all 64 bits of x2 — not the UXTW one might expect")
    if arch == "riscv" and m.startswith(("fmv.", "fcvt.")):
        return "llvm-mc 14's Zfinx/Zdinx/Zhinx support lacks this spelling with x registers; the disassembly of dynasm's bytes shows the expected instruction"
    return ""


def only_unknown(cs):
    """llvm-mc rejects every one of these cases, at least once because it does not know the instruction"""
    return all(c["llvm_bytes"] is None for c in cs) and any(any(u in (c["llvm_reason"] or "") for u in UNKNOWN_REASONS) for c in cs)


def measure(path=REPORT, deep=True):
    report = {"llvm_mc": LLVM_MC, "attributes": {"aarch64": A64_ATTR, "riscv_without_hint": list(RV_ATTRS),
                                                 "riscv": "the extension the table entry names (rv_attr_of), then riscv_without_hint in turn"},
              "instantiations": {"base": "form.base_values() (identifier lists in sorted order)", "last": "every slot takes the last value of its domain",
                                 "spread": "register slots pairwise different, other slots mid-domain (extra: llvm-mc refuses the `unpredictable` "
                                           "register coincidences of base/last)"},
              "counts": {}, "differing": [], "llvm_unknown_mnemonics": {}, "llvm_rejected_other": [], "llvm_accepts_dynasm_rejects": [],
              "slot_sweep": {"what": "extra: every slot of every form over its whole domain, other slots as in `spread`", "counts": {},
                             "differing": [], "dynasm_accepts_llvm_rejects": [], "llvm_accepts_dynasm_rejects": []},
              "without_optionals": {"what": "extra: base / last / spread of every form that has optional parts, rendered with optionals=False",
                                    "counts": {}, "differing": [], "dynasm_accepts_llvm_rejects": [], "llvm_accepts_dynasm_rejects": []}}
    all_diffs = []
    for (key, arch, xlen, fs) in targets():
        cases = run_cases(arch, xlen, fs, standard_picks(fs))
        report["counts"][key] = summarize(key, arch, xlen, fs, cases)
        recs = diff_records(key, arch, xlen, cases)
        report["differing"] += recs
        all_diffs += recs
        # mnemonics llvm-mc does not know: dynasm compiles them, llvm-mc rejects every instantiation, at least once as unknown
        by_mnemonic = {}
        for c in cases:
            if c["dynasm_bytes"] is not None and c["gas"] is not None:
                by_mnemonic.setdefault(c["mnemonic"], []).append(c)
        unknown = sorted(m for m, cs in by_mnemonic.items() if only_unknown(cs))
        report["llvm_unknown_mnemonics"][key] = unknown
        for m, cs in sorted(by_mnemonic.items()):
            if m not in unknown:
                report["llvm_rejected_other"] += [{"target": key, "inst": c["inst"], "dynasm": c["dynasm"], "gas": c["gas"],
                                                   "dynasm_bytes": hexs(c["dynasm_bytes"]), "llvm_reason": c["llvm_reason"]}
                                                  for c in cs if c["llvm_bytes"] is None]
        report["llvm_accepts_dynasm_rejects"] += [{"target": key, "inst": c["inst"], "dynasm": c["dynasm"], "gas": c["gas"], "llvm_bytes": hexs(c["llvm_bytes"])}
                                                  for c in cases if c["dynasm_status"] == "reject" and c["llvm_bytes"] is not None]
        if not deep:
            continue
        sw = report["slot_sweep"]
        cases = run_cases(arch, xlen, fs, slot_sweep_picks(fs))
        both = [c for c in cases if c["dynasm_bytes"] is not None and c["llvm_bytes"] is not None]
        sw["counts"][key] = {"instantiations": len(cases), "compiled_by_dynasm": sum(c["dynasm_bytes"] is not None for c in cases),
                             "assembled_by_llvm": sum(c["llvm_bytes"] is not None for c in cases), "compared": len(both),
                             "bytes_equal": sum(not is_diff(c) for c in both), "bytes_differ": sum(is_diff(c) for c in both)}
        recs = diff_records(key, arch, xlen, cases)
        all_diffs += recs
        per = {}
        for r in recs:
            per.setdefault(r["template"], []).append(r)
        for t, rs in per.items():
            sw["differing"].append({"target": key, "template": t, "cases": len(rs), "group": rs[0]["group"], "examples": rs[:4]})
        one_sided(key, arch, xlen, cases, sw)
        # the same three instantiations with every optional part of the template left out: the defaults of both assemblers must agree
        wo = report["without_optionals"]
        picks = [p for p in standard_picks(fs) if "<" in forms.SUB.sub("", fs[p[0]].template)]
        cases = run_cases(arch, xlen, fs, picks, optionals=False)
        both = [c for c in cases if c["dynasm_bytes"] is not None and c["llvm_bytes"] is not None]
        wo["counts"][key] = {"forms_with_optional_parts": len({p[0] for p in picks}), "instantiations": len(cases),
                             "compiled_by_dynasm": sum(c["dynasm_bytes"] is not None for c in cases),
                             "assembled_by_llvm": sum(c["llvm_bytes"] is not None for c in cases), "compared": len(both),
                             "bytes_equal": sum(not is_diff(c) for c in both), "bytes_differ": sum(is_diff(c) for c in both)}
        recs = diff_records(key, arch, xlen, cases)
        all_diffs += recs
        wo["differing"] += recs
        one_sided(key, arch, xlen, cases, wo)
    groups = {}
    for r in all_diffs:
        groups.setdefault(r["group"], []).append(r)
    report["classification"] = {}
    for g, rs in sorted(groups.items()):
        info = dict(GROUPS.get(g, {"verdict": "unclassified", "why": ""}))
        info["cases"] = len(rs)
        info["mnemonics"] = sorted({r["dynasm"].split()[0] for r in rs})
        info["example"] = {k: rs[0][k] for k in ("target", "dynasm", "gas", "dynasm_bytes", "llvm_bytes", "llvm_disassembly_of_dynasm_bytes")}
        report["classification"][g] = info
    report["classification_a_rendering_mistakes_fixed"] = RENDERING_FIXES
    # the one-sided cases that are not llvm-mc's `unpredictable` refusals, by note
    notes = {}
    for sec in ("slot_sweep", "without_optionals"):
        for side in ("dynasm_accepts_llvm_rejects", "llvm_accepts_dynasm_rejects"):
            for d in report[sec][side]:
                if "unpredictable" in (d.get("llvm_reason") or ""):
                    continue
                n = notes.setdefault((side, d["note"]), {"side": side, "note": d["note"], "cases": 0, "templates": [], "example": d["examples"][0]})
                n["cases"] += d["cases"]
                if d["template"] not in n["templates"]:
                    n["templates"].append(d["template"])
    report["one_sided_findings"] = list(notes.values())
    with open(path, "w") as fh:
        json.dump(report, fh, indent=1, sort_keys=False)
        fh.write("\n")
    return report


# ---------------------------------------------------------------------------------------------
# classification of the differing cases. Where both byte strings claim to load a constant, the claim is checked by evaluating
# llvm-mc's disassembly of both (a few lines of integer arithmetic), not by eye.

GROUPS = {
    "a64-adrp-literal": {
        "verdict": "c: genuine encoding bug in dynasm-rs",
        "why": "ADRP with a literal (non-label) offset: the immhi field (bits 23:5) receives (offset >> 12) & 0x7FFFF instead of "
               "(offset >> 14) & 0x7FFFF (plugin/src/arch/aarch64/compiler.rs, Relocation::ADRP static branch: `scaled & 0x7FFFF` lacks `>> 2`; "
               "the dynamic branch shifts by 14 and is right). immlo (bits 30:29) is right. E.g. `adrp x1, 0x4000` gives 81 00 00 90, which "
               "llvm-mc disassembles as `adrp x1, #65536`; llvm-mc assembles 21 00 00 90. `adrp x1, 0x80000000` gives `adrp x1, #0`. Only page "
               "counts p with (p & 0x7FFFF) == ((p >> 2) & 0x7FFFF), such as 0 and -4096, come out right. Labels are not affected (relocation path)."},
    "a64-mov-inverted": {
        "verdict": "b: legitimate alternative encoding",
        "why": "`mov.inverted` is dynasm's spelling for `force the MOVN form of MOV`; for a constant that MOVZ can also produce llvm-mc (and the "
               "architecture's preferred disassembly) picks MOVZ. Both encodings were evaluated from llvm-mc's disassembly and load the requested constant."},
    "a64-mov-logical": {
        "verdict": "b: legitimate alternative encoding",
        "why": "`mov.logical` forces the ORR-with-zero-register form of MOV (bitmask immediate); llvm-mc prefers MOVZ/MOVN when the constant fits. "
               "Both encodings were evaluated from llvm-mc's disassembly and load the requested constant."},
    "a64-mov-wrong-value": {
        "verdict": "c: genuine encoding bug in dynasm-rs",
        "why": "a MOV alias whose bytes, evaluated from llvm-mc's disassembly, do not load the requested constant"},
    "rv-li-sequence": {
        "verdict": "b: legitimate alternative encoding",
        "why": "`li` / `li.NN` is a pseudo instruction: dynasm always emits the fixed-length lui/addi(w)/slli chain of the chosen width (so that the "
               "size does not depend on the value), llvm-mc emits the shortest sequence. Both sequences were executed (from llvm-mc's disassembly) "
               "and leave the requested constant in the destination register."},
    "rv-li-wrong-value": {
        "verdict": "c: genuine encoding bug in dynasm-rs",
        "why": "an `li` sequence that, executed from llvm-mc's disassembly, does not leave the requested constant in the destination register"},
    "rv-pseudo-vs-extension": {
        "verdict": "b: legitimate alternative encoding",
        "why": "sext.b / sext.h / zext.h / zext.w are shift-pair pseudo instructions under the base ISA and single instructions under Zbb / Zba; "
               "which one comes out depends on the enabled extensions (documented in dynasm-rs). Only seen when llvm-mc runs without the form's own "
               "extension as hint."},
}

RENDERING_FIXES = [
    "riscv lui / auipc / c.lui: dynasm takes the value (a multiple of 4096, negative allowed), llvm-mc the 20-bit field: to_gas emits (value >> 12) & 0xFFFFF",
    "riscv with +c llvm-mc silently compresses `add x1, x1, x2` into c.add: C is only enabled for lines that need it (attribute chain / hint)",
    "riscv sext.b / sext.h / zext.h / zext.w (and any other spelling whose encoding depends on the ISA): llvm-mc is run with the extension the "
    "table entry itself names (rv_attr_of), otherwise Zbb/Zba being enabled turns the shift-pair pseudo into the single instruction",
    "riscv Zfinx / Zdinx / Zhinx forms need an attribute set without F / D",
    "riscv pc-relative pseudo instructions with a number (la, call, tail, jump, lb rd, off, sb rs, off, rt, fld ..): llvm-mc wants a symbol; "
    "to_gas writes the auipc pair out",
    "aarch64 mrs / msr with the system register as a number: llvm-mc wants the generic name s<op0>_<op1>_c<n>_c<m>_<op2>",
    "aarch64 `movi v0.16b, 0, lsl 0`: llvm-mc has no `lsl #0` on the byte arrangement, the suffix is dropped",
    "identifier lists of `plug extract` come in hash-map order (differs between runs): instantiations sort them",
]

RV_ABI = ["zero", "ra", "sp", "gp", "tp", "t0", "t1", "t2", "s0", "s1"] + [f"a{i}" for i in range(8)] + [f"s{i}" for i in range(2, 12)] + [f"t{i}" for i in range(3, 7)]


def sext(v, bits):
    v &= (1 << bits) - 1
    return v - (1 << bits) if v >> (bits - 1) else v


def rv_execute(text, xlen):
    """final register values after a straight-line sequence of the few instructions `li` expands to; None if anything else occurs"""
    regs = {}
    get = lambda r: 0 if r == "zero" else regs.get(r, 0)
    for ins in text.split("; "):
        parts = ins.replace(",", " ").split()
        op, a = parts[0], parts[1:]
        try:
            if op == "nop":
                continue
            elif op == "lui":
                v = sext(int(a[1], 0) << 12, 32)
            elif op == "li":
                v = int(a[1], 0)
            elif op == "mv":
                v = get(a[1])
            elif op == "sext.w":
                v = sext(get(a[1]), 32)
            elif op == "addi":
                v = get(a[1]) + int(a[2], 0)
            elif op == "addiw":
                v = sext(get(a[1]) + int(a[2], 0), 32)
            elif op == "slli":
                v = get(a[1]) << int(a[2], 0)
            elif op == "srli":
                v = (get(a[1]) & ((1 << xlen) - 1)) >> int(a[2], 0)
            else:
                return None
        except (ValueError, IndexError):
            return None
        if a[0] != "zero":
            regs[a[0]] = sext(v, xlen)
    return regs


def a64_mov_value(text):
    """(register, constant) a single MOVZ / MOVN / ORR-with-zero-register instruction loads, from llvm-mc's disassembly"""
    parts = text.replace(",", " ").replace("#", "").split()
    op, rd = parts[0], parts[1]
    bits = 32 if rd.startswith("w") else 64
    mask = (1 << bits) - 1
    try:
        if op == "mov":
            return rd, int(parts[2], 0) & mask
        if op in ("movz", "movn"):
            v = int(parts[2], 0) << (int(parts[4], 0) if len(parts) > 4 and parts[3] == "lsl" else 0)
            return rd, (v if op == "movz" else ~v) & mask
        if op == "orr" and parts[2] in ("wzr", "xzr"):
            return rd, int(parts[3], 0) & mask
    except (ValueError, IndexError):
        pass
    return None


def classify(rec):
    m = rec["dynasm"].split()[0]
    dd, dl = rec["llvm_disassembly_of_dynasm_bytes"], rec["llvm_disassembly_of_llvm_bytes"]
    if rec["target"] == "aarch64":
        if m == "adrp":
            return "a64-adrp-literal"
        if m in ("mov.inverted", "mov.logical", "mov") and dd and dl and "<invalid>" not in dd + dl:
            want = int(rec["dynasm"].split(",")[-1], 0)
            a, b = a64_mov_value(dd), a64_mov_value(dl)
            if a is None or b is None:
                return "unclassified"
            bits = 32 if a[0].startswith("w") else 64
            if a == b and a[1] == want & ((1 << bits) - 1):
                return "a64-mov-inverted" if m == "mov.inverted" else "a64-mov-logical" if m == "mov.logical" else "unclassified"
            return "a64-mov-wrong-value"
        return "unclassified"
    xlen = 32 if rec["target"] == "riscv32" else 64
    if (m == "li" or m.startswith("li.")) and dd and dl and "<invalid>" not in dd + dl:
        want = sext(int(rec["dynasm"].split(",")[-1], 0), xlen)
        a, b = rv_execute(dd, xlen), rv_execute(dl, xlen)
        if a is None or b is None:
            return "unclassified"
        rd = RV_ABI[int(rec["dynasm"].split()[1].rstrip(",")[1:])]
        return "rv-li-sequence" if a == b and (rd == "zero" or a.get(rd) == want) and set(a) <= {rd} else "rv-li-wrong-value"
    if m in ("sext.b", "sext.h", "zext.h", "zext.w"):
        return "rv-pseudo-vs-extension"
    return "unclassified"


if __name__ == "__main__":
    rep = measure()
    for k, v in rep["counts"].items():
        print(k, json.dumps({kk: vv for kk, vv in v.items() if kk != "per_instantiation"}))
        print("   all:", json.dumps(v["per_instantiation"]["all"]))
    for k, v in rep["slot_sweep"]["counts"].items():
        print("slot sweep", k, json.dumps(v))
    for k, v in rep["without_optionals"]["counts"].items():
        print("without optionals", k, json.dumps(v))
    print("differing:", len(rep["differing"]), "+ slot sweep", sum(d["cases"] for d in rep["slot_sweep"]["differing"]),
          {g: i["cases"] for g, i in rep["classification"].items()})
