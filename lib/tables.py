"""T-data translators: the instruction tables of the compiled working tree (dumped by `plug dump <arch>`) → Lean literals in
lean/DynasmVerif/Generated/.  Purely syntactic: every Rust enum variant is transliterated to the Lean constructor of the same name
(Model/A64Table.lean, Model/RvTable.lean, Model/X64Table.lean); an unknown variant is a broken tie, never skipped."""
import json
import os
import subprocess

import common
import rustdebug

CHUNK = 100


class TranslationError(Exception):
    pass


def dump(arch):
    rc, out = common.sh([common.PLUG, "dump", arch])
    if rc != 0:
        raise TranslationError(f"plug dump {arch} failed: {out[-500:]}")
    return [json.loads(l) for l in out.splitlines() if l.strip()]


def lean_str(s):
    return '"' + s.replace("\\", "\\\\").replace('"', '\\"') + '"'


# ---------------------------------------------------------------------------------------------
# aarch64

A64_SIZES = {"BYTE", "B_2", "B_4", "B_6", "B_8", "B_10", "B_16", "B_32", "B_64"}
A64_MODS = {"LSL", "LSR", "ASR", "ROR", "SXTX", "SXTW", "SXTH", "SXTB", "UXTX", "UXTW", "UXTH", "UXTB", "MSL"}
A64_MATCHER_ARITY = {"Dot": 0, "Lit": 1, "LitInt": 1, "LitFloat": 1, "Ident": 0, "Cond": 0, "Imm": 0, "W": 0, "X": 0, "WSP": 0, "XSP": 0, "B": 0,
                     "H": 0, "S": 0, "D": 0, "Q": 0, "V": 1, "VStatic": 2, "VElement": 1, "VElementStatic": 2, "VStaticElement": 2, "RegList": 2,
                     "RegListStatic": 3, "RegListElement": 2, "Offset": 0, "RefBase": 0, "RefOffset": 0, "RefPre": 0, "RefIndex": 0, "LitMod": 1,
                     "Mod": 1, "End": 0}
A64_COMMAND_ARITY = {"R": 1, "REven": 1, "RNoZr": 1, "R4": 1, "RNext": 0, "Ubits": 2, "Uscaled": 3, "Ulist": 2, "Urange": 3, "Usubone": 2, "Usubzero": 2,
                     "Usubmod": 2, "Usum": 2, "Ufields": 1, "Sbits": 2, "Sscaled": 3, "CUbits": 1, "CUsum": 1, "CSscaled": 2, "CUrange": 2, "Uslice": 3,
                     "Sslice": 3, "Special": 2, "Rwidth": 1, "Rotates": 1, "ExtendsW": 1, "ExtendsX": 1, "Cond": 1, "CondInv": 1, "LitList": 2,
                     "Offset": 1, "A": 0, "C": 0}
A64_SPECIALS = {"INVERTED_WIDE_IMMEDIATE_W", "INVERTED_WIDE_IMMEDIATE_X", "WIDE_IMMEDIATE_W", "WIDE_IMMEDIATE_X", "STRETCHED_IMMEDIATE",
                "LOGICAL_IMMEDIATE_W", "LOGICAL_IMMEDIATE_X", "FLOAT_IMMEDIATE", "SPLIT_FLOAT_IMMEDIATE"}
A64_RELOCS = {"B", "BCOND", "ADR", "ADRP", "TBZ", "LITERAL8", "LITERAL16", "LITERAL32", "LITERAL64"}


def a64_arg(x, lit_ids):
    if isinstance(x, bool):
        raise TranslationError(f"unexpected bool {x}")
    if isinstance(x, int):
        return str(x)
    if isinstance(x, float):
        return lean_str(repr(x))
    if isinstance(x, list):
        return "[" + ", ".join(a64_arg(y, lit_ids) for y in x) + "]"
    if isinstance(x, str):
        if x in A64_SIZES or x in A64_MODS or x in A64_SPECIALS or x in A64_RELOCS:
            return "." + x
        raise TranslationError(f"unknown identifier {x}")
    raise TranslationError(f"unexpected value {x!r}")


def a64_variant(v, arity, what, lit_ids):
    name, args = (v[0], list(v[1:])) if isinstance(v, tuple) else (v, [])
    if name not in arity:
        raise TranslationError(f"unknown aarch64 {what} variant `{name}` (table shape changed: the Lean model has no such constructor)")
    if len(args) != arity[name]:
        raise TranslationError(f"aarch64 {what} `{name}` has {len(args)} fields, model expects {arity[name]}")
    out = []
    for i, a in enumerate(args):
        if what == "matcher" and name in ("Lit",):
            out.append(lean_str(a))
        elif what == "matcher" and name == "LitFloat":
            out.append(lean_str(repr(a)))
        elif what == "command" and name == "LitList" and i == 1:
            if a not in lit_ids:
                raise TranslationError(f"LitList refers to unknown literal map {a}")
            out.append(str(lit_ids[a]))
        else:
            out.append(a64_arg(a, lit_ids))
    return "." + name + "".join(" " + (o if not o.startswith(".") or True else o) for o in out) if out else "." + name


def gen_a64(rows=None):
    """writes Generated/A64Data.lean, A64Chunk<k>.lean, A64All.lean. Returns dict(entries=…, chunks=…, modules=[…])"""
    rows = rows if rows is not None else dump("aarch64")
    entries = [r for r in rows if "m" in r]
    special = next((r["special_ident_map"] for r in rows if "special_ident_map" in r), None)
    if special is None:
        raise TranslationError("no SPECIAL_IDENT_MAP in the dump")
    lit_maps = {}
    for s in rustdebug.parse(special):
        k, v = rustdebug.parse(s)
        lit_maps[k] = v
    lit_names = sorted(lit_maps)
    lit_ids = {n: i for i, n in enumerate(lit_names)}
    os.makedirs(common.GEN, exist_ok=True)
    with open(os.path.join(common.GEN, "A64Data.lean"), "w") as f:
        f.write("import DynasmVerif.Model.A64Table\n/-! generated from SPECIAL_IDENT_MAP of the compiled working tree -/\nnamespace DynasmVerif.A64.Gen\n")
        f.write("/-- literal→bits maps, in the order " + ", ".join(lit_names) + " -/\n")
        f.write("def litLists : List (List Nat) := [\n" + ",\n".join("  [" + ", ".join(str(b) for (_, b) in lit_maps[n]) + "]" for n in lit_names) + "]\n")
        f.write("end DynasmVerif.A64.Gen\n")
    chunks = [entries[i:i + CHUNK] for i in range(0, len(entries), CHUNK)]
    modules = []
    for k, ch in enumerate(chunks):
        mod = f"DynasmVerif.Generated.A64Chunk{k}"
        modules.append(mod)
        with open(os.path.join(common.GEN, f"A64Chunk{k}.lean"), "w") as f:
            f.write("import DynasmVerif.Generated.A64Data\nset_option maxRecDepth 100000\nnamespace DynasmVerif.A64.Gen\nopen DynasmVerif.A64\n")
            f.write(f"@[irreducible] def chunk{k} : List (String × Nat × Opdata) := [\n")
            items = []
            for r in ch:
                ms = [a64_variant(m, A64_MATCHER_ARITY, "matcher", lit_ids) for m in rustdebug.parse(r["matchers"])]
                cs = [a64_variant(c, A64_COMMAND_ARITY, "command", lit_ids) for c in rustdebug.parse(r["commands"])]
                items.append(f"  ({lean_str(r['m'])}, {r['i']}, ⟨{r['base']}, [{', '.join(ms)}], [{', '.join(cs)}]⟩)")
            f.write(",\n".join(items) + "]\n")
            f.write(f"theorem chunk{k}_wf : chunk{k}.all (fun e => wellFormed litLists e.2.2) = true := by decide +kernel\n")
            f.write(f"theorem chunk{k}_len : chunk{k}.length = {len(ch)} := by decide +kernel\n")
            f.write("end DynasmVerif.A64.Gen\n")
    with open(os.path.join(common.GEN, "A64All.lean"), "w") as f:
        for m in modules:
            f.write(f"import {m}\n")
        f.write("namespace DynasmVerif.A64.Gen\nopen DynasmVerif.A64\n")
        f.write("def table : List (String × Nat × Opdata) := " + " ++ ".join(f"chunk{k}" for k in range(len(chunks))) + "\n")
        f.write("theorem table_all_wf : table.all (fun e => wellFormed litLists e.2.2) = true := by\n")
        f.write("  delta table\n  repeat rw [List.all_append]\n  rw [" + ", ".join(f"chunk{k}_wf" for k in range(len(chunks))) + "]\n  rfl\n")
        f.write("theorem table_wf : ∀ e ∈ table, wellFormed litLists e.2.2 = true := fun e he => List.all_eq_true.mp table_all_wf e he\n")
        f.write(f"theorem table_length : table.length = {len(entries)} := by\n  delta table\n  repeat rw [List.length_append]\n  rw [" + ", ".join(f"chunk{k}_len" for k in range(len(chunks))) + "]\n")
        f.write("end DynasmVerif.A64.Gen\n")
    return {"entries": len(entries), "chunks": len(chunks), "modules": modules + ["DynasmVerif.Generated.A64All"]}


# ---------------------------------------------------------------------------------------------
# riscv

RV_MATCHER_ARITY = {"X": 0, "F": 0, "Reg": 1, "Ref": 0, "RefOffset": 0, "RefSp": 0, "RefLabel": 0, "Imm": 0, "Offset": 0, "Ident": 0, "Xlist": 0, "Lit": 1}
RV_COMMAND_ARITY = {"Repeat": 0, "Next": 0, "R": 1, "Reven": 1, "Rno0": 1, "Rno02": 1, "Rpop": 1, "Rpops": 1, "Rpops2": 1, "Rlist": 1, "RoundingMode": 1,
                    "FenceSpec": 1, "Csr": 1, "FloatingPointImmediate": 1, "SPImm": 2, "UImm": 2, "SImm": 2, "BigImm": 1, "UImmNo0": 2, "SImmNo0": 2,
                    "UImmOdd": 2, "UImmRange": 2, "BitRange": 3, "RBitRange": 3, "Offset": 1}
RV_RELOCS = {"B", "J", "BC", "JC", "HI20", "LO12", "LO12S", "SPLIT32", "SPLIT32S", "LITERAL8", "LITERAL16", "LITERAL32", "LITERAL64"}
# bit positions of `ExtensionFlags` / `ISAFlags` as declared in riscvdata.rs are read from the source text so that renumbering is seen
import re


def rv_flag_bits():
    src = open(os.path.join(common.REPO, "plugin/src/arch/riscv/riscvdata.rs")).read()
    ext = {m.group(1): int(m.group(2).replace("_", ""), 16) for m in re.finditer(r"const (Ex_\w+) = (0x[0-9A-Fa-f_]+);", src)}
    isa = {m.group(1): int(m.group(2).replace("_", ""), 16) for m in re.finditer(r"const (RV\d+) = (0x[0-9A-Fa-f_]+);", src)}
    if not ext or not isa:
        raise TranslationError("could not read ExtensionFlags / ISAFlags constants from riscvdata.rs")
    return ext, isa


def flags_value(v, table, what):
    """('ExtensionFlags', 'Ex_I') | ('ExtensionFlags', ('|','Ex_A','Ex_Zacas')) | ('ISAFlags', ...)"""
    inner = v[1] if isinstance(v, tuple) and len(v) == 2 else v
    names = list(inner[1:]) if isinstance(inner, tuple) and inner[0] == "|" else [inner]
    total = 0
    for n in names:
        if n not in table:
            raise TranslationError(f"unknown {what} flag {n}")
        total |= table[n]
    return total


def rv_variant(v, arity, what):
    name, args = (v[0], list(v[1:])) if isinstance(v, tuple) else (v, [])
    if name not in arity:
        raise TranslationError(f"unknown riscv {what} variant `{name}`")
    if len(args) != arity[name]:
        raise TranslationError(f"riscv {what} `{name}` has {len(args)} fields, model expects {arity[name]}")
    out = []
    for a in args:
        if what == "matcher" and name == "Reg":
            m = re.fullmatch(r"([XF])(\d+)", a)
            if not m:
                raise TranslationError(f"unknown register id {a}")
            out.append(("0 " if m.group(1) == "X" else "1 ") + m.group(2))
        elif what == "matcher" and name == "Lit":
            out.append(lean_str(a))
        elif isinstance(a, bool) or a in ("true", "false"):
            out.append("true" if a in (True, "true") else "false")
        elif isinstance(a, int):
            out.append(str(a))
        elif isinstance(a, str) and a in RV_RELOCS:
            out.append("." + a)
        else:
            raise TranslationError(f"unexpected field {a!r} in riscv {what} {name}")
    return "(." + name + "".join(" " + o for o in out) + ")" if out else "." + name


def gen_rv(rows=None):
    rows = rows if rows is not None else dump("riscv")
    ext_bits, isa_bits = rv_flag_bits()
    entries = []
    for r in rows:
        op = rustdebug.parse(r["op"])
        if not isinstance(op, dict) or op.get("_") != "Opdata":
            raise TranslationError("riscv Opdata has an unexpected shape")
        t = op["template"]
        if t[0] == "Many":
            tmpl = f"(.Many [{', '.join(str(x) for x in t[1])}])"
        elif t[0] in ("Compressed", "Single"):
            tmpl = f"(.{t[0]} {t[1]})"
        elif t[0] == "Double":
            tmpl = f"(.Double {t[1]} {t[2]})"
        else:
            raise TranslationError(f"unknown template kind {t[0]}")
        isa = flags_value(op["isa_flags"], isa_bits, "ISA")
        exts = [flags_value(x, ext_bits, "extension") for x in op["ext_flags"]]
        ms = [rv_variant(m, RV_MATCHER_ARITY, "matcher") for m in op["matchers"]]
        cs = [rv_variant(c, RV_COMMAND_ARITY, "command") for c in op["commands"]]
        entries.append((r["m"], r["i"], f"⟨{tmpl}, {isa}, [{', '.join(str(e) for e in exts)}], [{', '.join(ms)}], [{', '.join(cs)}]⟩"))
    os.makedirs(common.GEN, exist_ok=True)
    chunks = [entries[i:i + CHUNK] for i in range(0, len(entries), CHUNK)]
    modules = []
    for k, ch in enumerate(chunks):
        mod = f"DynasmVerif.Generated.RvChunk{k}"
        modules.append(mod)
        with open(os.path.join(common.GEN, f"RvChunk{k}.lean"), "w") as f:
            f.write("import DynasmVerif.Model.RvTable\nset_option maxRecDepth 100000\nnamespace DynasmVerif.Rv.Gen\nopen DynasmVerif.Rv\n")
            f.write(f"@[irreducible] def chunk{k} : List (String × Nat × Opdata) := [\n")
            f.write(",\n".join(f"  ({lean_str(m)}, {i}, {e})" for (m, i, e) in ch) + "]\n")
            f.write(f"theorem chunk{k}_wf : chunk{k}.all (fun e => wellFormed e.2.2) = true := by decide +kernel\n")
            f.write(f"theorem chunk{k}_len : chunk{k}.length = {len(ch)} := by decide +kernel\n")
            f.write("end DynasmVerif.Rv.Gen\n")
    with open(os.path.join(common.GEN, "RvAll.lean"), "w") as f:
        for m in modules:
            f.write(f"import {m}\n")
        f.write("namespace DynasmVerif.Rv.Gen\nopen DynasmVerif.Rv\n")
        f.write("def table : List (String × Nat × Opdata) := " + " ++ ".join(f"chunk{k}" for k in range(len(chunks))) + "\n")
        f.write("theorem table_all_wf : table.all (fun e => wellFormed e.2.2) = true := by\n  delta table\n  repeat rw [List.all_append]\n  rw [" +
                ", ".join(f"chunk{k}_wf" for k in range(len(chunks))) + "]\n  rfl\n")
        f.write("theorem table_wf : ∀ e ∈ table, wellFormed e.2.2 = true := fun e he => List.all_eq_true.mp table_all_wf e he\n")
        f.write(f"theorem table_length : table.length = {len(entries)} := by\n  delta table\n  repeat rw [List.length_append]\n  rw [" +
                ", ".join(f"chunk{k}_len" for k in range(len(chunks))) + "]\n")
        f.write("end DynasmVerif.Rv.Gen\n")
    return {"entries": len(entries), "chunks": len(chunks), "modules": modules + ["DynasmVerif.Generated.RvAll"], "ext_bits": ext_bits}


# ---------------------------------------------------------------------------------------------
# x64


def gen_x64(rows=None):
    rows = rows if rows is not None else dump("x64")
    entries = []
    for r in rows:
        args = r["args"].encode("latin-1")
        ops = bytes.fromhex(r["ops"])
        entries.append((r["m"], r["i"], f"⟨[{', '.join(str(b) for b in args)}], [{', '.join(str(b) for b in ops)}], {r['reg']}, {r['flags']}, {r['features']}⟩"))
    os.makedirs(common.GEN, exist_ok=True)
    chunks = [entries[i:i + CHUNK] for i in range(0, len(entries), CHUNK)]
    modules = []
    for k, ch in enumerate(chunks):
        mod = f"DynasmVerif.Generated.X64Chunk{k}"
        modules.append(mod)
        with open(os.path.join(common.GEN, f"X64Chunk{k}.lean"), "w") as f:
            f.write("import DynasmVerif.Model.X64Table\nset_option maxRecDepth 100000\nnamespace DynasmVerif.X64.Gen\nopen DynasmVerif.X64\n")
            f.write(f"@[irreducible] def chunk{k} : List (String × Nat × Opdata) := [\n")
            f.write(",\n".join(f"  ({lean_str(m)}, {i}, {e})" for (m, i, e) in ch) + "]\n")
            f.write(f"theorem chunk{k}_wf : chunk{k}.all (fun e => wellFormed e.2.2) = true := by decide +kernel\n")
            f.write(f"theorem chunk{k}_len : chunk{k}.length = {len(ch)} := by decide +kernel\n")
            f.write("end DynasmVerif.X64.Gen\n")
    with open(os.path.join(common.GEN, "X64All.lean"), "w") as f:
        for m in modules:
            f.write(f"import {m}\n")
        f.write("namespace DynasmVerif.X64.Gen\nopen DynasmVerif.X64\n")
        f.write("def table : List (String × Nat × Opdata) := " + " ++ ".join(f"chunk{k}" for k in range(len(chunks))) + "\n")
        f.write("theorem table_all_wf : table.all (fun e => wellFormed e.2.2) = true := by\n  delta table\n  repeat rw [List.all_append]\n  rw [" +
                ", ".join(f"chunk{k}_wf" for k in range(len(chunks))) + "]\n  rfl\n")
        f.write("theorem table_wf : ∀ e ∈ table, wellFormed e.2.2 = true := fun e he => List.all_eq_true.mp table_all_wf e he\n")
        f.write(f"theorem table_length : table.length = {len(entries)} := by\n  delta table\n  repeat rw [List.length_append]\n  rw [" +
                ", ".join(f"chunk{k}_len" for k in range(len(chunks))) + "]\n")
        f.write("end DynasmVerif.X64.Gen\n")
    return {"entries": len(entries), "chunks": len(chunks), "modules": modules + ["DynasmVerif.Generated.X64All"]}


# ---------------------------------------------------------------------------------------------
# feature data (C20)


def mnemonic_ordinals(arch):
    rows = [r for r in dump(arch) if "m" in r]
    names = []
    for r in rows:
        if not names or names[-1] != r["m"]:
            names.append(r["m"])
    return names


def gen_features(known_unstable, known_shadowed):
    """Generated/FeatData.lean: the extension name → flag table read from riscv/mod.rs::parse_features and riscvdata.rs, the x64 feature names,
    and the lists of known feature-dependent mnemonics (from known_findings.json) that the table theorems are stated against."""
    ext_bits, isa_bits = rv_flag_bits()
    src = open(os.path.join(common.REPO, "plugin/src/arch/riscv/mod.rs")).read()
    arms = re.findall(r'"([a-z0-9]+)"\s*=>\s*riscvdata::ExtensionFlags::(Ex_\w+)', src)
    if len(arms) < 10:
        raise TranslationError("could not read the extension name table from riscv/mod.rs::parse_features")
    for (_, flag) in arms:
        if flag not in ext_bits:
            raise TranslationError(f"parse_features maps to unknown flag {flag}")
    xsrc = open(os.path.join(common.REPO, "plugin/src/arch/x64/x64data.rs")).read()
    xfeat_bits = {m.group(1): int(m.group(2).replace("_", ""), 16) for m in re.finditer(r"const (\w+)\s*=\s*(0x[0-9A-Fa-f_]+);", xsrc[xsrc.index("pub struct Features"):xsrc.index("impl Features")])}
    xnames = re.findall(r'"([a-z0-9]+)"\s*=>\s*Some\(Features::(\w+)\)', xsrc)
    os.makedirs(common.GEN, exist_ok=True)
    with open(os.path.join(common.GEN, "FeatData.lean"), "w") as f:
        f.write("import DynasmVerif.Model.Features\n/-! generated from riscv/mod.rs, riscvdata.rs, x64data.rs and known_findings.json -/\nnamespace DynasmVerif.Feat.Gen\n")
        f.write("def extTable : List (List Nat × Nat) := [\n" + ",\n".join(f"  ([{', '.join(str(ord(c)) for c in n)}], {ext_bits[fl]})" for (n, fl) in arms) + "]\n")
        f.write(f"def exI : Nat := {ext_bits['Ex_I']}\n")
        f.write("def x64Features : List (String × Nat) := [" + ", ".join(f"({lean_str(n)}, {xfeat_bits[fl]})" for (n, fl) in xnames) + "]\n")
        rv_names = mnemonic_ordinals("riscv")
        x_names = mnemonic_ordinals("x64")
        f.write("/-- ordinals (position of the mnemonic in the sorted table) of " + ", ".join(known_unstable) + " -/\n")
        f.write("def knownUnstable : List Nat := [" + ", ".join(str(rv_names.index(m)) for m in sorted(known_unstable, key=lambda m: rv_names.index(m)) if m in rv_names) + "]\n")
        f.write("/-- (ordinal, shadowed form indices) of " + ", ".join(m for (m, _) in known_shadowed) + " -/\n")
        f.write("def knownShadowed : List (Nat × List Nat) := [" + ", ".join(f"({x_names.index(m)}, [{', '.join(str(i) for i in ix)}])" for (m, ix) in sorted(known_shadowed, key=lambda p: x_names.index(p[0])) if m in x_names) + "]\n")
        f.write("end DynasmVerif.Feat.Gen\n")
    return {"ext_names": dict(arms), "ext_bits": ext_bits, "isa_bits": isa_bits, "x64_names": {n: xfeat_bits[fl] for (n, fl) in xnames},
            "rv_mnemonics": rv_names, "x64_mnemonics": x_names}


# ---------------------------------------------------------------------------------------------
# riscv load-immediate / pc-relative sequences (C15): straight-line word expressions + theorem statements from today's table

RV_OFFSET_EQUIV = {   # Command::Offset with an immediate operand: the equivalent bit ranges listed in riscv/compiler.rs
    "HI20": [("RBitRange", 12, 20, 12)], "LO12": [("BitRange", 20, 12, 0)], "LO12S": [("BitRange", 7, 5, 0), ("BitRange", 25, 7, 5)],
    "SPLIT32": [("RBitRange", 12, 20, 12), ("BitRange", 52, 12, 0)], "SPLIT32S": [("RBitRange", 12, 20, 12), ("BitRange", 39, 5, 0), ("BitRange", 57, 7, 5)],
}


def rv_offset_equiv_from_source():
    """re-read the equivalent ranges from the source text so that an edit there is seen"""
    src = open(os.path.join(common.REPO, "plugin/src/arch/riscv/compiler.rs")).read()
    out = {}
    for m in re.finditer(r"Relocation::(\w+) => \{\s*bits = (\d+);\s*scaling = (\d+);\s*commands = &\[(.*?)\];", src, re.S):
        name, bits, scaling, body = m.group(1), int(m.group(2)), int(m.group(3)), m.group(4)
        cmds = []
        for c in re.finditer(r"Command::(R?BitRange)\(([^)]*)\)", body):
            a = [eval(x, {}) for x in c.group(2).split(",")]
            cmds.append((c.group(1),) + tuple(a))
        out[name] = (bits, scaling, cmds)
    if "SPLIT32" not in out:
        raise TranslationError("could not read the Command::Offset equivalent ranges from riscv/compiler.rs")
    return out


def rv_pair_range_from_source(items=None):
    """the accepted range of the auipc-pair offsets: immediates = what the plugin ACCEPTS today (probed at the candidate boundaries for
    every pair pseudo-instruction; the widest answer, so that a form that accepts more than it can encode falsifies the theorems),
    labels = the range test of the runtime's write_value (read from the source text)"""
    imm_lo, imm_hi = -(1 << 31), 0x7FFFF7FF
    if items:
        import c15
        cands = [0x7FFFF7FF, 0x7FFFF800, 0x7FFFFFFF, -(1 << 31)]
        reqs, vals = [], []
        for it in items:
            if not it["check"] or it["check"][0] != "Pair":
                continue
            for xlen in (64, 32):
                if it["isa"] & (2 if xlen == 64 else 1):
                    for v in cands:
                        reqs.append("cl " + c15.header(it, xlen) + " " + c15.syntax(it, str(v)))
                        vals.append(v)
        if reqs:
            _, out = common.sh([common.PLUG, "exec"], inp="\n".join(reqs) + "\n", timeout=600)
            acc = [v for v, (_, a) in zip(vals, common.answers_of_impl(out)) if a.startswith("ok")]
            if not acc:
                raise TranslationError("no auipc-pair pseudo-instruction accepts any of the boundary offsets")
            imm_lo, imm_hi = min(acc), max(acc)
    rt = open(os.path.join(common.REPO, "runtime/src/riscv.rs")).read()
    m = re.search(r"Self::SPLIT32S => \{\s*if value < (-?0x[0-9A-Fa-f_]+) \|\| value > (-?0x[0-9A-Fa-f_]+)", rt)
    if not m:
        raise TranslationError("could not read the SPLIT32 range test from runtime/src/riscv.rs write_value")
    lab_lo, lab_hi = (int(g.replace("_", ""), 16) for g in m.groups())
    return dict(imm=(imm_lo, imm_hi), label=(lab_lo, lab_hi))


def gen_rvli(rows=None):
    """Generated/RvLi.lean: for `li*` and every auipc-pair pseudo instruction the emitted words as bit-vector expressions of the operands,
    and the statement that executing them (Model/RvExec) yields the requested value / pc + offset."""
    rows = rows if rows is not None else dump("riscv")
    equiv = rv_offset_equiv_from_source()
    items = []
    for r in rows:
        op = rustdebug.parse(r["op"])
        cmds = op["commands"]
        names = [c[0] if isinstance(c, tuple) else c for c in cmds]
        is_li = r["m"] == "li" or r["m"].startswith("li.")
        is_pair = any(isinstance(c, tuple) and c[0] == "Offset" and c[1] in ("SPLIT32", "SPLIT32S") for c in cmds)
        if not (is_li or is_pair):
            continue
        t = op["template"]
        words = [t[1]] if t[0] in ("Single", "Compressed") else [t[1], t[2]] if t[0] == "Double" else list(t[1])
        # flat args
        flat = []
        for m in op["matchers"]:
            mn = m[0] if isinstance(m, tuple) else m
            flat += {"X": ["reg"], "F": ["reg"], "Ref": ["reg"], "RefOffset": ["reg", "imm"], "RefSp": ["imm"], "RefLabel": ["reg", "imm"],
                     "Imm": ["imm"], "Offset": ["imm"], "Ident": ["imm"], "Xlist": ["list"], "Reg": [], "Lit": []}[mn]
        cur = 0
        fields = [[] for _ in words]      # per word: lean expressions (BitVec 32)
        regs = set()
        check = None
        rd_var = None
        for c in cmds:
            n = c[0] if isinstance(c, tuple) else c
            a = c[1:] if isinstance(c, tuple) else ()
            if n == "Repeat":
                cur -= 1
                continue
            if n == "Next":
                cur += 1
                continue
            if n in ("R", "Rno0", "Rno02", "Reven"):
                o = a[0]
                regs.add(cur)
                fields[o // 32].append(f"((r{cur}.zeroExtend 32) <<< {o % 32})")
                if o == 7:
                    rd_var = f"r{cur}"
                cur += 1
            elif n in ("SImm", "UImm", "BigImm", "SImmNo0", "UImmNo0"):
                check = (n, a[0])
            elif n in ("BitRange", "RBitRange"):
                o, l, s = a
                src = f"(imm + {1 << (s - 1)}#64)" if n == "RBitRange" else "imm"
                fields[o // 32].append(f"((({src}.sshiftRight {s}) &&& {(1 << l) - 1}#64).truncate 32 <<< {o % 32})")
            elif n == "Offset":
                bits, scaling, eq = equiv[a[0]]
                check = ("Pair", bits)
                for (kind, o, l, s) in eq:
                    src = f"(imm + {1 << (s - 1)}#64)" if kind == "RBitRange" else "imm"
                    fields[o // 32].append(f"((({src}.sshiftRight {s}) &&& {(1 << l) - 1}#64).truncate 32 <<< {o % 32})")
                cur += 1
            else:
                raise TranslationError(f"{r['m']}#{r['i']}: command {n} not handled by the C15 translator")
        isa = flags_value(op["isa_flags"], rv_flag_bits()[1], "ISA")
        exts = [e[1] for e in op["ext_flags"]] if isinstance(op["ext_flags"], list) else []
        chunks = [(c[0], c[1], c[2], c[3]) for c in cmds if isinstance(c, tuple) and c[0] in ("BitRange", "RBitRange")]
        if check and check[0] == "Pair":
            chunks = [tuple(e) for e in equiv[[c[1] for c in cmds if isinstance(c, tuple) and c[0] == "Offset"][0]][2]]
        items.append(dict(m=r["m"], i=r["i"], words=words, fields=fields, regs=sorted(regs), check=check, rd_var=rd_var, isa=isa, is_li=is_li,
                          matchers=[m[0] if isinstance(m, tuple) else m for m in op["matchers"]], exts=exts, chunks=chunks,
                          reloc=next((c[1] for c in cmds if isinstance(c, tuple) and c[0] == "Offset"), None)))
    ranges = rv_pair_range_from_source(items)
    pair_lo, pair_hi = min(ranges["imm"][0], ranges["label"][0]), max(ranges["imm"][1], ranges["label"][1])
    os.makedirs(common.GEN, exist_ok=True)
    thms = []
    with open(os.path.join(common.GEN, "RvLi.lean"), "w") as f:
        f.write("import Std.Tactic.BVDecide\nimport DynasmVerif.Model.RvExec\n/-! generated from today's riscv table: emitted words of `li*` and the auipc-pair pseudo instructions, and what executing them yields -/\n")
        f.write("set_option maxRecDepth 100000\nnamespace DynasmVerif.RvLi\nopen DynasmVerif.RvExec\n")
        f.write(f"/-- the accepted range of auipc-pair offsets: immediates (probed on the plugin) {ranges['imm']}, labels {ranges['label']} (union) -/\n"
                f"def pairLo : BitVec 64 := BitVec.ofInt 64 ({pair_lo})\ndef pairHi : BitVec 64 := BitVec.ofInt 64 ({pair_hi})\n")
        for it in items:
            name = re.sub(r"[^A-Za-z0-9]", "_", it["m"]) + f"_{it['i']}"
            params = " ".join(f"(r{k} : BitVec 5)" for k in it["regs"])
            f.write(f"\n/-- `{it['m']}` form {it['i']}: template {it['words']} -/\ndef {name}_words {params} (imm : BitVec 64) : List (BitVec 32) := [\n")
            f.write(",\n".join("  " + " ||| ".join([f"{w}#32"] + fl) for w, fl in zip(it["words"], it["fields"])) + "]\n")
            rd = it["rd_var"] or f"{(it['words'][0] >> 7) & 31}#5"
            args = " ".join(f"r{k}" for k in it["regs"])
            last_op = it["words"][-1] & 0x7F
            result = "out" if last_op in (0x67, 0x03, 0x07, 0x23, 0x27) else "acc"
            it["result"] = result
            kind, bits = it["check"]
            if kind == "Pair":
                hyp = "(hr : pairLo.sle imm = true ∧ imm.sle pairHi = true)"
            elif bits >= 64:
                hyp = ""
            else:
                hyp = f"(hr : imm.slt {1 << (bits - 1)}#64 = true ∧ (BitVec.ofInt 64 (-{1 << (bits - 1)})).sle imm = true)"
            hrd = f"(h0 : {rd} ≠ 0#5)" if it["rd_var"] else ""
            # when the last instruction is a jalr/load/store the tracked register must be its base: true by construction (Repeat fields)
            for (xl, flag, tag) in ((True, 2, "rv64"), (False, 1, "rv32")):
                if not it["isa"] & flag:
                    continue
                if it["is_li"]:
                    expect = "imm"
                else:
                    expect = "pc + imm" if xl else "sext32 (pc + imm)"
                tn = f"{name}_{tag}"
                f.write(f"theorem {tn} {params} (imm other acc0 out0 pc : BitVec 64) {hrd} {hyp} :\n"
                        f"    (run {'true' if xl else 'false'} {rd} other ⟨acc0, out0, pc⟩ ({name}_words {args} imm)).{result} = {expect} := by\n"
                        f"  simp only [{name}_words, run, step, sext32, fitsSigned, pairLo, pairHi] at *\n  bv_decide (config := {{ timeout := 600 }})\n")
                thms.append(tn)
            f.write(f"theorem {name}_length {params} (imm : BitVec 64) : ({name}_words {args} imm).length = {len(it['words'])} := rfl\n")
            thms.append(f"{name}_length")
        f.write("end DynasmVerif.RvLi\n")
    for it in items:
        del it["fields"]
    return {"entries": [(it["m"], it["i"]) for it in items], "theorems": thms, "items": items, "ranges": ranges, "pair_range": (pair_lo, pair_hi)}
