"""C15 — RISC-V load-immediate and pc-relative sequences compute the requested value.
Proof: Generated/RvLi.lean is written from today's riscv table (template words, register fields, BitRange/RBitRange slices, the
Command::Offset equivalent ranges and the accepted offset range read from the source): one bv_decide theorem per (entry, XLEN) over ALL
immediates — executing the words with the reference semantics Model/RvExec yields imm / pc + imm. Props/C15.lean restates the headlines.
Tie: the bytes the implementation emits — literal immediates (plugin compiled in-process, `plug cl`), runtime immediates (the real
`dynasm!` macro expanded and compiled by rustc, harness/dyn), labels (`RiscvRelocation::write_value` through harness/rt on the emitted
template) — are executed by the same reference semantics (driver stream `rvexec`) and compared with the requested value."""
import json

import common
import dyn
import tables
from common import SplitMix

MODULES = ["DynasmVerif.Props.C15"]
FEAT = {"Ex_I": "i", "Ex_D": "d", "Ex_F": "f", "Ex_Q": "q", "Ex_Zfh": "zfh", "Ex_Zfhmin": "zfhmin", "Ex_Zicfilp": "zicfilp"}
M64 = (1 << 64) - 1


def sx(v, bits):
    v &= (1 << bits) - 1
    return v - (1 << bits) if v >> (bits - 1) else v


def syntax(it, imm_text, rd=5, tmp=6, val=7):
    m = it["matchers"]
    if m == ["X", "Imm"] or m == ["X", "Offset"]:
        return f"{it['m']} x{rd}, {imm_text}"
    if m == ["Offset"]:
        return f"{it['m']} {imm_text}"
    if m == ["Offset", "X"]:
        return f"{it['m']} {imm_text}, x{tmp}"
    if m == ["F", "Offset", "X"]:
        return f"{it['m']} f{val}, {imm_text}, x{tmp}"
    if m == ["X", "Offset", "X"]:
        return f"{it['m']} x{val}, {imm_text}, x{tmp}"
    raise tables.TranslationError(f"C15: operand shape {m} of {it['m']} not handled")


def header(it, xlen):
    feats = [FEAT[e] for e in it["exts"] if e in FEAT]
    return f"; .arch riscv{xlen} ; .feature {feats[0] if feats else 'i'} ;"


def values_for(it, rng, n_random, pair_range):
    """boundary values, sign bits / all-ones / carries in every chunk, random; inside and just outside the documented range"""
    kind, bits = it["check"]
    if kind == "Pair":
        lo, hi = pair_range
    else:
        lo, hi = -(1 << (bits - 1)), (1 << (bits - 1)) - 1
    vals = {0, 1, -1, 2, -2, lo, lo + 1, hi, hi - 1, lo - 1, hi + 1, lo - 0x800, hi + 0x800, -(1 << 31), (1 << 31) - 1, -(1 << 31) - 1, 1 << 31,
            0x7FFFF7FF, 0x7FFFF800, 0x7FFFF7FE, -0x80000800, -0x80000801, -0x800007FF}
    edges = sorted({s for (_, _, l, s) in it["chunks"]} | {s + l for (_, _, l, s) in it["chunks"]})
    for e in edges:
        for d in (-1, 0, 1):
            for sgn in (1, -1):
                vals.add(sgn * ((1 << e) + d))
        vals.add((1 << e) - 0x800 if e >= 12 else (1 << e))
    for (_, _, l, s) in it["chunks"]:
        top = 1 << (s + l - 1)
        for base in (top, top - 1, (1 << (s + l)) - (1 << s), top | ((1 << s) - 1), top >> 1):
            vals.add(base)
            vals.add(-base)
            vals.add(base | 0x800)
            vals.add(base | 0x7FF)
    allsign = 0
    for (_, _, l, s) in it["chunks"]:
        allsign |= 1 << (s + l - 1)
    vals |= {allsign, -allsign, allsign - 1, sx(allsign, 64), sx(0xAAAAAAAAAAAAAAAA, bits if kind != "Pair" else 32), sx(0x5555555555555555, bits if kind != "Pair" else 32)}
    for _ in range(n_random):
        r = rng.next()
        w = bits if kind != "Pair" else 32
        vals.add(sx(r, w))
        vals.add(sx(r, w) | 0x800)
        vals.add(sx(r & ~0xFFF | 0x800, w))
        vals.add(sx(r | 0x7FF, w))
    return sorted(v for v in vals if -(1 << 63) - 2 <= v < (1 << 64)), (lo, hi)


def plug(reqs):
    _, out = common.sh([common.PLUG, "exec"], inp="\n".join(reqs) + "\n", timeout=3600)
    return [a for (_, a) in common.answers_of_impl(out)]


def model_exec(reqs):
    _, out = common.run_model("hdr rvexec 1\n" + "\n".join(reqs) + "\n")
    res = []
    for a in common.answers_of_model(out)[1:]:
        d = dict(t.split("=") for t in a.split() if "=" in t)
        res.append((int(d["acc"]), int(d["out"])) if "acc" in d else None)
    return res


def const_words(ans):
    if not ans.startswith("ok "):
        return None
    b = b""
    for s in json.loads(ans[3:]):
        k, _, v = s.partition("|")
        if k != "c4":
            return None
        b += int(v, 16).to_bytes(4, "little")
    return b


def expected(it, xlen, v, pc):
    if it["is_li"]:
        e = v
    else:
        e = pc + v
    return sx(e, 64) if xlen == 64 else sx(e, 32)


def check(run):
    rng = SplitMix(run.seed)
    thorough = run.tier == "thorough"
    common.base_trusted(run, bv=True)
    run.coverage["trusted_base"] += ["Model/RvExec.lean: the reference semantics of LUI AUIPC ADDI ADDIW SLLI JALR and load/store address formation, written from the RISC-V unprivileged spec (RV32 registers kept sign-extended)",
                                     "lib/tables.py gen_rvli (translator table → bit-vector expressions; checked by executing the implementation's bytes, below)",
                                     "harness/plug, harness/dyn (real dynasm! macro through rustc), harness/rt (RiscvRelocation::write_value)"]
    for h in ("plug", "rt"):
        ok, log = common.build_harness(h)
        if not ok:
            run.violation("broken-correspondence", {"kind": "harness-build"}, f"harness/{h} does not build against the working tree", {"log": log[-3000:]}, found_input=False)
            return
    try:
        gen = tables.gen_rvli()
    except Exception as e:     # noqa
        run.violation("broken-correspondence", {"kind": "translator"}, f"the riscv table could not be translated: {e}", found_input=False)
        return
    extra = ["DynasmVerif.RvLi." + t for t in gen["theorems"]]
    proofs_ok = common.standard_proof_step(run, MODULES, allow_bv_decide=True, extra_targets=["driver"], extra_theorems=extra)
    found_before = len(run.violations) + len(run.known_hit)
    if not proofs_ok and hasattr(run, "broken_build"):
        ok2, _ = common.lake_build(["driver"])
        if not ok2:
            run.violation("broken-obligation", {"kind": "lean-build"}, run.broken_build["first_error"], run.broken_build, found_input=False)
            return
    items = gen["items"]
    pair_range = gen["pair_range"]
    imm_range = gen["ranges"]["imm"]
    pcs = [0, 0x1000, 0x7FFFF000, 0x80000000, 0xFFFFF800, 0x7FFFFFFFFFFFF000, 0xFFFFFFFFFFFFF000, rng.next() & ~1]
    stats = {"literal": 0, "runtime": 0, "label": 0, "hi_lo_pair": 0, "accepted": 0, "rejected": 0, "executions": 0, "entries": len(items), "by_mnemonic": {}}
    nrand = 2000 if thorough else 60

    # ---------------------------------------------------------------- plan
    plan = []          # (it, xlen, v, source)
    for it in items:
        for xlen in (64, 32):
            if not it["isa"] & (2 if xlen == 64 else 1):
                continue
            vals, doc = values_for(it, rng, nrand, pair_range)
            for v in vals:
                plan.append((it, xlen, v, doc))
    # ---------------------------------------------------------------- 1. literal immediates
    reqs = ["cl " + header(it, xlen) + " " + syntax(it, str(v)) for (it, xlen, v, _) in plan]
    answers = []
    chunks = [reqs[i:i + 4000] for i in range(0, len(reqs), 4000)]
    for a in common.parallel_map(plug, chunks):
        answers += a
    execs, meta = [], []
    lengths = {}
    lit_ok = {}
    for (it, xlen, v, doc), req, a in zip(plan, reqs, answers):
        stats["literal"] += 1
        b = const_words(a)
        lit_ok[(it["m"], it["i"], xlen, v)] = b is not None
        key = (it["m"], it["i"])
        if a.startswith("panic"):
            run.violation("failing-input", {"kind": "compile-panic", "mnemonic": it["m"]}, f"`{req[3:]}` panics the compiler: {a[:200]}", {"stream": "plug", "input": [req], "impl": [a]})
            continue
        if b is None:
            stats["rejected"] += 1
            lo, hi = doc
            # (auipc-pair offsets: the accepted range is probed on the implementation, and `documented set is accepted` is C04's statement)
            if it["check"][0] != "Pair" and lo <= v <= hi and a.startswith("reject"):
                run.violation("failing-input", {"kind": "rejects-documented-range", "mnemonic": it["m"], "form": it["i"]},
                              f"`{req[3:]}` is rejected ({a[:120]}) although {v} lies in the documented range [{lo}, {hi}]", {"stream": "plug", "input": [req], "impl": [a]})
            continue
        stats["accepted"] += 1
        stats["by_mnemonic"][it["m"]] = stats["by_mnemonic"].get(it["m"], 0) + 1
        lengths.setdefault((key, xlen), set()).add(len(b))
        for pc in (pcs if not it["is_li"] else pcs[:1]):
            rd = (int.from_bytes(b[:4], "little") >> 7) & 31
            execs.append(f"x {xlen} {rd} {sx(pc, 64)} x{b.hex()}")
            meta.append((it, xlen, v, pc, req, "literal"))
    # ---------------------------------------------------------------- 2. runtime immediates: the real macro through rustc
    cases, case_of = [], {}
    for it in items:
        for xlen in (64, 32):
            if not it["isa"] & (2 if xlen == 64 else 1):
                continue
            ty = "i64" if it["check"][0] == "BigImm" else "i32"
            case_of[(it["m"], it["i"], xlen)] = (len(cases), ty)
            cases.append(dict(body=header(it, xlen) + " " + syntax(it, "v"), vars=[("v", ty)]))
    ok, log = dyn.build("C15", cases)
    if not ok:
        run.violation("broken-correspondence", {"kind": "harness-build", "harness": "dyn"}, "the generated crate using the real dynasm! macro does not build against the working tree",
                      {"log": log[-3000:]}, found_input=False)
    else:
        dreqs, dmeta = [], []
        for (it, xlen, v, doc) in plan:
            idx, ty = case_of[(it["m"], it["i"], xlen)]
            w = 64 if ty == "i64" else 32
            if not -(1 << (w - 1)) <= v < (1 << (w - 1)):
                continue
            dreqs.append((idx, [v]))
            dmeta.append((it, xlen, v, doc))
        for (it, xlen, v, doc), (idx, _), (st, b) in zip(dmeta, dreqs, dyn.run("C15", dreqs)):
            stats["runtime"] += 1
            what = f"dynasm!(ops {cases[idx]['body']}) with v = {v}"
            if st != "ok":
                stats["rejected"] += 1
                lo, hi = doc
                # auipc-pair offsets: the literal spelling of the same operand is the reference for acceptance
                inside = lit_ok.get((it["m"], it["i"], xlen, v), False) if it["check"][0] == "Pair" else lo <= v <= hi
                if inside:
                    run.violation("failing-input", {"kind": "runtime-rejects-documented-range", "mnemonic": it["m"], "form": it["i"]},
                                  f"{what} panics ({b[:120]}) although " + (f"the literal spelling with {v} is accepted" if it["check"][0] == "Pair" else f"{v} lies in the documented range [{lo}, {hi}]"),
                                  {"stream": "dyn", "case": cases[idx], "values": [v], "impl": [b]})
                continue
            stats["accepted"] += 1
            lengths.setdefault(((it["m"], it["i"]), xlen), set()).add(len(b))
            for pc in (pcs[:3] if not it["is_li"] else pcs[:1]):
                rd = (int.from_bytes(b[:4], "little") >> 7) & 31
                execs.append(f"x {xlen} {rd} {sx(pc, 64)} x{b.hex()}")
                meta.append((it, xlen, v, pc, {"stream": "dyn", "case": cases[idx], "values": [v]}, "runtime"))
    # ---------------------------------------------------------------- 2b. immediates written as constant EXPRESSIONS (casts, parentheses, signs):
    # the value is what rustc computes for the expression, never the digits of the literal inside it. The spellings are chosen so that the
    # number inside and the value of the expression both fit the 12-bit variants: a front end that takes the digits assembles another value
    def cast_spellings(ty):
        return [(f"0x7FFu16 as u8 as {ty}", 0xFF), (f"0x1FFi32 as i8 as {ty}", -1), (f"(0x7F0u16 as i8) as {ty}", -16), (f"-(0x7FEu16 as u8 as {ty})", -0xFE),
                (f"(300i32 as u8) as {ty}", 44), (f"0x123 as {ty}", 0x123), (f"-(5 as {ty})", -5)]
    ecases, emeta = [], []
    for it in items:
        for xlen in (64, 32):
            if not it["isa"] & (2 if xlen == 64 else 1):
                continue
            ty = "i64" if it["check"][0] == "BigImm" else "i32"
            for text, val in cast_spellings(ty):
                emeta.append((it, xlen, val, text))
                ecases.append(dict(body=header(it, xlen) + " " + syntax(it, text), vars=[]))
    ok_e, log_e, dropped = dyn.build_tolerant("C15E", ecases)
    if not ok_e:
        run.violation("broken-correspondence", {"kind": "harness-build", "harness": "dyn-expr"}, "the generated crate with constant-expression immediates does not build against the working tree",
                      {"log": log_e[-3000:]}, found_input=False)
    else:
        stats["literal_expression"] = 0
        for k, ((it, xlen, val, text), (st, b)) in enumerate(zip(emeta, dyn.run("C15E", [(k, []) for k in range(len(ecases))]))):
            stats["literal_expression"] += 1
            if k in dropped or st != "ok":
                # every value fits every variant (|v| < 2048, even offsets are not required by these forms?) — a refusal is judged against the plain literal
                if lit_ok.get((it["m"], it["i"], xlen, val)) or -2048 <= val <= 2047 and it["is_li"]:
                    run.violation("failing-input", {"kind": "expression-immediate-refused", "mnemonic": it["m"], "form": it["i"], "text": text},
                                  f"dynasm!(ops {ecases[k]['body']}) {'does not compile' if k in dropped else 'panics'} although the expression evaluates to {val}, which this form accepts",
                                  {"stream": "dyn", "case": ecases[k], "values": []})
                continue
            for pc in (pcs[:2] if not it["is_li"] else pcs[:1]):
                rd = (int.from_bytes(b[:4], "little") >> 7) & 31
                execs.append(f"x {xlen} {rd} {sx(pc, 64)} x{b.hex()}")
                meta.append((it, xlen, val, pc, {"stream": "dyn", "case": ecases[k], "values": []}, "literal-expression"))
    # ---------------------------------------------------------------- 3. labels: the emitted template patched by write_value
    lab = []
    for it in items:
        if it["is_li"]:
            continue
        for xlen in (64, 32):
            if not it["isa"] & (2 if xlen == 64 else 1):
                continue
            # registers on both sides of 16: the patch must leave every register field of both words alone
            for regs in ((5, 6, 7), (21, 22, 23), (31, 31, 30)):
                lab.append((it, xlen, regs))
    tanswers = plug(["cl " + header(it, xlen) + " " + syntax(it, "->target", *regs) for (it, xlen, regs) in lab])
    wreqs, wmeta = [], []
    for (it, xlen, regs), a in zip(lab, tanswers):
        try:
            stmts = json.loads(a[3:]) if a.startswith("ok ") else []
        except ValueError:
            stmts = []
        words = [s for s in stmts if s.startswith("c4|")]
        rel = [s for s in stmts if s.startswith("gj|")]
        if len(words) != 2 or len(rel) != 1:
            run.violation("broken-correspondence", {"kind": "label-template", "mnemonic": it["m"]}, f"`{syntax(it, '->target')}` did not compile to two words and one relocation: {a[:200]}", found_input=False)
            continue
        tmpl = b"".join(int(w[3:], 16).to_bytes(4, "little") for w in words)
        vals, doc = values_for(it, rng, nrand // 2 if regs[0] == 5 else max(8, nrand // 8), pair_range)
        for v in vals:
            wreqs.append(f"w rv.{it['reloc']} x{tmpl.hex()} {v}")
            wmeta.append((it, xlen, v, gen["ranges"]["label"]))
    _, wout = common.run_impl(common.RT, "hdr reloc 1\n" + "\n".join(wreqs) + "\n")
    for (it, xlen, v, doc), req, (_, a) in zip(wmeta, wreqs, common.answers_of_impl(wout)[1:]):
        stats["label"] += 1
        if not a.startswith("ok x"):
            stats["rejected"] += 1
            if doc[0] <= v <= doc[1]:
                run.violation("failing-input", {"kind": "relocation-rejects-documented-range", "mnemonic": it["m"]},
                              f"write_value({it['reloc']}, {v}) fails although {v} lies in the documented range {doc}", {"stream": "reloc", "input": ["hdr reloc 1", req], "impl": [a]})
            continue
        stats["accepted"] += 1
        b = bytes.fromhex(a[4:])
        for pc in pcs[:4]:
            rd = (int.from_bytes(b[:4], "little") >> 7) & 31
            execs.append(f"x {xlen} {rd} {sx(pc, 64)} x{b.hex()}")
            meta.append((it, xlen, v, pc, {"stream": "reloc", "input": ["hdr reloc 1", req]}, "label"))
    # ---------------------------------------------------------------- 4. separate auipc (HI20) + low part (LO12 / LO12S)
    pair_it = dict(m="auipc+low", i=0, is_li=False, result="acc", chunks=[("RBitRange", 12, 20, 12), ("BitRange", 52, 12, 0)], check=("Pair", 32))
    vals, _ = values_for(pair_it, rng, nrand // 2, pair_range)
    hreqs = []
    for v in vals:
        hreqs.append(f"w rv.HI20 x{(0x00000297).to_bytes(4, 'little').hex()} {v}")
        hreqs.append(f"w rv.LO12 x{(0x00028293).to_bytes(4, 'little').hex()} {v}")        # addi x5, x5, lo
        hreqs.append(f"w rv.LO12S x{(0x00728023).to_bytes(4, 'little').hex()} {v}")       # sb x7, lo(x5)
    _, hout = common.run_impl(common.RT, "hdr reloc 1\n" + "\n".join(hreqs) + "\n")
    hans = [a for (_, a) in common.answers_of_impl(hout)[1:]]
    for k, v in enumerate(vals):
        hi, lo, los = hans[3 * k: 3 * k + 3]
        stats["hi_lo_pair"] += 1
        if not (hi.startswith("ok x") and lo.startswith("ok x") and los.startswith("ok x")):
            stats["rejected"] += 1
            doc = gen["ranges"]["label"]
            if doc[0] <= v <= doc[1]:
                run.violation("failing-input", {"kind": "relocation-rejects-documented-range", "mnemonic": "auipc+low"},
                              f"write_value(HI20/LO12/LO12S, {v}) fails although {v} lies in the documented range {doc}", {"stream": "reloc", "input": ["hdr reloc 1"] + hreqs[3 * k: 3 * k + 3], "impl": [hi, lo, los]})
            continue
        stats["accepted"] += 1
        for (second, res) in ((lo, "acc"), (los, "out")):
            b = bytes.fromhex(hi[4:]) + bytes.fromhex(second[4:])
            for xlen in (64, 32):
                for pc in pcs[:3]:
                    execs.append(f"x {xlen} 5 {sx(pc, 64)} x{b.hex()}")
                    meta.append((dict(pair_it, result=res), xlen, v, pc, {"stream": "reloc", "input": ["hdr reloc 1"] + hreqs[3 * k: 3 * k + 3]}, "hi_lo_pair"))
    # ---------------------------------------------------------------- execute everything with the reference semantics
    results = []
    chunks = [execs[i:i + 20000] for i in range(0, len(execs), 20000)]
    for r in common.parallel_map(model_exec, chunks):
        results += r
    reported = set()
    for ex, (it, xlen, v, pc, origin, src), res in zip(execs, meta, results):
        stats["executions"] += 1
        if res is None:
            run.violation("broken-correspondence", {"kind": "driver", "request": ex[:80]}, f"the model driver did not answer `{ex}`", found_input=False)
            break
        got = res[1] if it["result"] == "out" else res[0]
        want = expected(it, xlen, v, pc)
        got_c = sx(got, 64) if xlen == 64 else sx(got, 32)
        if got_c != want:
            key = (it["m"], it["i"], xlen, src)
            if key in reported:
                continue
            reported.add(key)
            payload = origin if isinstance(origin, dict) else {"stream": "plug", "input": [origin]}
            payload = dict(payload, execute=ex, computed=got_c, requested=want, value=v, pc=pc, xlen=xlen)
            what = (f"RV{xlen} {src}: `{it['m']}` with immediate {v} ({v & M64:#x}) leaves {got_c:#x} in the register, not the requested {want:#x}" if it["is_li"] else
                    f"RV{xlen} {src}: `{it['m']}` with offset {v} ({v & M64:#x}) at pc {pc:#x} forms {got_c & M64:#x}, not pc + offset = {want & M64:#x}")
            run.violation("failing-input", {"kind": "wrong-value", "mnemonic": it["m"], "form": it["i"], "xlen": xlen, "source": src}, what, payload)
    for ((key, xlen), ls) in sorted(lengths.items()):
        if len(ls) > 1:
            run.violation("failing-input", {"kind": "length-varies", "mnemonic": key[0], "form": key[1]}, f"`{key[0]}` form {key[1]} on RV{xlen} emits sequences of different lengths {sorted(ls)} depending on the immediate",
                          {"lengths": sorted(ls)})
    run.coverage["evaluations"] = stats["executions"]
    run.coverage["distinct_nontrivial"] = stats["accepted"]
    run.coverage["rule"] = ("every li variant and every auipc-pair pseudo instruction of today's table x RV32/RV64 x {literal immediate (plugin in-process), runtime immediate (real macro via rustc), "
                            "label (write_value on the emitted template), separate HI20+LO12/LO12S} x boundary values, sign-bit / all-ones / carry patterns at every chunk edge, random values, "
                            "and values just outside the range; every accepted sequence executed at several pcs by the reference semantics. non-trivial = accepted sequence")
    run.coverage["traces_validated_against_impl"] = stats["literal"] + stats["runtime"] + stats["label"] + stats["hi_lo_pair"]
    run.coverage["distribution"] = stats
    run.coverage["samples"] = reqs[:2] + execs[:2]
    if not proofs_ok and hasattr(run, "broken_build"):
        found = (len(run.violations) + len(run.known_hit)) > found_before
        run.violation("broken-obligation", {"kind": "lean-build", "first": run.broken_build["first_error"][:200]}, run.broken_build["first_error"], run.broken_build, found_input=found)


def replay(path):
    rec = json.load(open(path))
    print(json.dumps({k: rec.get(k) for k in ("property", "kind", "what")}, indent=1))
    p = rec.get("payload", {})
    if p.get("stream") == "plug" and p.get("input"):
        common.build_harness("plug")
        print("\n".join(f"{r}\n  impl: {a}" for r, a in zip(p["input"], plug(p["input"]))))
    elif p.get("stream") == "reloc" and p.get("input"):
        common.build_harness("rt")
        print(common.run_impl(common.RT, "\n".join(p["input"]) + "\n")[1])
    elif p.get("stream") == "dyn":
        ok, log = dyn.build("C15R", [p["case"]])
        print(dyn.run("C15R", [(0, p["values"])]) if ok else log[-2000:])
    if p.get("execute"):
        common.lake_build(["driver"])
        print(p["execute"], "->", model_exec([p["execute"]]), "requested", p.get("requested"))
    return 0 if p else 1
