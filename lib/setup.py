"""./check --setup : build everything that can be built ahead of time, offline."""
import common


def main():
    ok = True
    for name in ("rt",):
        r, log = common.build_harness(name)
        print(f"[setup] cargo build harness/{name}: {'ok' if r else 'FAILED'}")
        if not r:
            print(log[-3000:])
            ok = False
    r, log = common.lake_build(["DynasmVerif", "driver"])
    print(f"[setup] lake build: {'ok' if r else 'FAILED'}")
    if not r:
        print(log[-3000:])
        ok = False
    return 0 if ok else 1
