"""./check --setup : build everything that can be built ahead of time, offline."""
import common


def main():
    ok = True
    for name in ("rt", "plug"):
        r, log = common.build_harness(name)
        print(f"[setup] cargo build harness/{name}: {'ok' if r else 'FAILED'}")
        if not r:
            print(log[-3000:])
            ok = False
    # generated tables (T-data) so that the first check does not pay for the whole Lean build
    try:
        import tables
        tables.gen_a64(); tables.gen_rv(); tables.gen_x64()
        r, log = common.lake_build(["DynasmVerif.Props.C19"])
        print(f"[setup] table theorems: {'ok' if r else 'FAILED'}")
    except Exception as e:
        print(f"[setup] table generation failed: {e}")
    r, log = common.lake_build(["DynasmVerif", "driver"])
    print(f"[setup] lake build: {'ok' if r else 'FAILED'}")
    if not r:
        print(log[-3000:])
        ok = False
    return 0 if ok else 1
