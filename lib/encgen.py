"""Obligations for C03 / C04 (aarch64): for every distinct group of immediate commands that looks at one operand slot,
 * the Rust expression the macro GENERATES for a run-time operand in that slot (taken from the plugin compiled from the working
   tree, translated by lib/rustexpr.py) — Generated/A64Dyn.lean `ob<N>_dyn_checked/_release`;
 * the statement that it equals the literal path (Model/A64Enc.slotStatic on the table's commands) — theorem `ob<N>_dyn_eq_static`;
 * the statement that the literal path accepts exactly the documented operand set (`plug extract` constraint of that slot) and that
   accepted operands are encoded injectively — theorems `ob<N>_accepts_doc`, `ob<N>_injective`."""
import json
import os
import re

import common
import forms
import rustdebug
import rustexpr
import tables

IMM_CMDS = {"Ubits", "Uscaled", "Uslice", "Ulist", "Urange", "Usubone", "Usubzero", "Usubmod", "Usum", "Ufields", "Sbits", "Sscaled", "Sslice",
            "CUbits", "CUsum", "CSscaled", "CUrange", "Special", "Offset"}
NO_ADVANCE = {"Uslice", "Sslice", "CUbits", "CUsum", "CSscaled", "CUrange"}
SIGNED = {"Sbits", "Sscaled", "Sslice", "CSscaled", "Offset"}
SPECIAL_TY = {"INVERTED_WIDE_IMMEDIATE_W": "u32", "INVERTED_WIDE_IMMEDIATE_X": "u64", "WIDE_IMMEDIATE_W": "u32", "WIDE_IMMEDIATE_X": "u64",
              "STRETCHED_IMMEDIATE": "u64", "LOGICAL_IMMEDIATE_W": "u32", "LOGICAL_IMMEDIATE_X": "u64", "FLOAT_IMMEDIATE": "f32", "SPLIT_FLOAT_IMMEDIATE": "f32"}
EXT_LEAN = {"logical32.ok": "DynasmVerif.A64Imm.L32.encOk", "logical32.val": "DynasmVerif.A64Imm.L32.encVal", "logical64.ok": "DynasmVerif.A64Imm.L64.encOk",
            "logical64.val": "DynasmVerif.A64Imm.L64.encVal", "float.ok": "DynasmVerif.A64Imm.Float.encOk", "float.val": "DynasmVerif.A64Imm.Float.encVal"}


def name_of(c):
    return c[0] if isinstance(c, tuple) else c


def group_commands(cmds):
    """arg index → [commands], mirroring the cursor logic of compile_instruction"""
    cur, groups = 0, {}
    for c in cmds:
        n = name_of(c)
        if n == "A":
            cur += 1
        elif n == "C":
            cur -= 1
        elif n == "Rwidth":
            pass
        else:
            groups.setdefault(cur, []).append(c)
            if n not in NO_ADVANCE:
                cur += 1
    return groups


def attach_entries(fs, rows):
    """forms (from `plug extract`) → table rows (from `plug dump`): both walk the sorted mnemonics and their entries in order;
    one form per entry, two when the entry has a V / RegList matcher. Checked, not assumed: counts and mnemonics must line up."""
    out, i = {}, 0
    for r in rows:
        ms = rustdebug.parse(r["matchers"])
        two = any(name_of(m) in ("V", "RegList") for m in ms)
        for _ in range(2 if two else 1):
            if i >= len(fs):
                raise tables.TranslationError("fewer forms than table entries")
            tok = fs[i].template.split()[0] if fs[i].template.split() else ""
            if not (tok == r["m"] or tok.startswith(r["m"] + ".")):
                raise tables.TranslationError(f"form {i} `{fs[i].template}` does not belong to table entry {r['m']} #{r['i']}")
            out[i] = r
            i += 1
    if i != len(fs):
        raise tables.TranslationError("more forms than table entries")
    return out


def slot_type(group):
    c = group[0]
    n = name_of(c)
    if n == "Special":
        return SPECIAL_TY[c[2]]
    if n == "Offset":
        return "i32"
    return "i32" if n in SIGNED else "u32"


def lean_cmds(group):
    return "[" + ", ".join(tables.a64_variant(c, tables.A64_COMMAND_ARITY, "command", {}) for c in group) + "]"


def doc_lean(c, prev_needed):
    """the documented operand set of a slot (forms constraint) as a Lean Bool over `v : BitVec 64` (and `prev`)"""
    F = forms
    if isinstance(c, F.RangeNon0):
        return f"(DynasmVerif.Enc.inRange ({c.lo}) ({c.hi}) {c.step} v && !(v == 0))"
    if isinstance(c, F.Range2):
        return f"(DynasmVerif.Enc.inRange2 ({c.hi}) prev v)"
    if isinstance(c, F.Range):
        return f"(DynasmVerif.Enc.inRange ({c.lo}) ({c.hi}) {c.step} v)"
    if isinstance(c, F.List_):
        return "(" + " || ".join(f"v == {int(o)}#64" for o in c.options) + ")"
    return None


def gen_a64dyn(limit=None):
    rows = [r for r in tables.dump("aarch64") if "m" in r]
    fs = forms.load("aarch64")
    entry_of = attach_entries(fs, rows)
    obligations, seen = [], {}
    skipped = {}
    for fi, f in enumerate(fs):
        r = entry_of.get(fi)
        if r is None:
            continue
        cmds = rustdebug.parse(r["commands"])
        groups = group_commands(cmds)
        for idx, g in sorted(groups.items()):
            names = [name_of(c) for c in g]
            if not all(n in IMM_CMDS for n in names):
                continue
            if names == ["Offset"] and g[0][1].startswith("LITERAL"):
                continue
            if idx not in f.indices or f.kind_of(idx) not in ("Imm", "Off"):
                continue
            needs_prev = any(n in ("Usum", "CUsum") for n in names)
            key = (lean_cmds(g), needs_prev)
            if key in seen:
                seen[key]["forms"].append(fi)
                continue
            if needs_prev and (idx - 1 not in groups or not all(name_of(c) in IMM_CMDS for c in groups[idx - 1])):
                continue
            if needs_prev:
                key = (key[0], lean_cmds(groups[idx - 1]))
                if key in seen:
                    seen[key]["forms"].append(fi)
                    continue
            ob = dict(n=len(obligations), cmds=g, lean_cmds=key[0], needs_prev=needs_prev, form=fi, idx=idx, ty=slot_type(g), forms=[fi],
                      prev_cmds=lean_cmds(groups[idx - 1]) if needs_prev else None,
                      constraint=f.constraints.get(idx), mnemonic=f.mnemonic, entry=(r["m"], r["i"]))
            seen[key] = ob
            obligations.append(ob)
    if limit:
        obligations = obligations[:limit]
    # ---- the generated run-time expression of each representative.  A rendered line can be taken by ANOTHER entry of the mnemonic (an
    # earlier, more specific form): a candidate is accepted only if its literal spelling at a documented value assembles to what its own
    # run-time expression evaluates to there; otherwise the next form with the same command group is tried (a genuine literal/run-time
    # difference makes every candidate fail: the first is kept and the check reports it)
    def doc_value(c):
        if isinstance(c, forms.Range):
            vs = c.values(64)
            pos = [x for x in vs if x > 0]
            return min(pos) if pos else (0 if 0 in vs else (vs[0] if vs else 0))
        if isinstance(c, forms.List_):
            return int(c.options[-1])
        if isinstance(c, forms.Special):
            v = forms.special_values(c.kind)[1]
            return v
        return 0

    def variants(f):
        """the base instantiation, then variations of the slots that steer the matcher (modifiers, sp-capable registers)"""
        base = f.base_values()
        if base is None:
            return
        yield base
        for i in f.indices:
            c = f.constraints.get(i)
            if isinstance(c, forms.ModWX):
                for m_ in ("UXTW", "SXTW", "SXTX"):
                    d = dict(base); d[i] = m_; yield d
            elif isinstance(c, forms.List_) and all(isinstance(o, str) for o in c.options):
                for o in c.options[1:4]:
                    d = dict(base); d[i] = o; yield d
            elif f.kind_of(i) in ("WSP", "XSP"):
                d = dict(base); d[i] = 31; yield d

    def attempt(ob, fi):
        f = fs[fi]
        want = f"{entry_of[fi]['m']}#{entry_of[fi]['i']}"
        runtime = {ob["idx"]: "v"}
        if ob["needs_prev"]:
            runtime[ob["idx"] - 1] = "a"
        vals = line = None
        cands = list(variants(f))
        if not cands:
            return None
        _, wout = common.sh([common.PLUG, "exec"], inp="\n".join("which " + f.render(v, runtime=runtime) for v in cands) + "\n", timeout=600)
        for v, (_, a) in zip(cands, common.answers_of_impl(wout)):
            if a == want:
                vals, line = v, f.render(v, runtime=runtime)
                break
        if vals is None:
            return dict(skip=f"no instantiation of this form is matched by its own table entry {want}")
        dv = doc_value(f.constraints.get(ob["idx"]))
        pv = doc_value(f.constraints.get(ob["idx"] - 1)) if ob["needs_prev"] else None
        if ob["needs_prev"] and isinstance(f.constraints.get(ob["idx"]), forms.Range2):
            dv = 1
        lit = {ob["idx"]: (repr(dv) if isinstance(dv, float) else str(dv))}
        if ob["needs_prev"]:
            lit[ob["idx"] - 1] = str(pv)
        _, out = common.sh([common.PLUG, "exec"], inp="cl ; .arch aarch64 ; " + line + "\ncl ; .arch aarch64 ; " + f.render(vals, runtime=lit) + "\n", timeout=600)
        ans = [a for (_, a) in common.answers_of_impl(out)]
        if len(ans) != 2 or not ans[0].startswith("ok "):
            return dict(skip="representative line rejected: " + (ans[0][:120] if ans else "no answer"))
        stmts = json.loads(ans[0][3:])
        ex = [s for s in stmts if s.startswith("eu4|")]
        if len(ex) != 1 or len(stmts) != 1:
            return dict(skip="not a single run-time word: " + ans[0][:120])
        expr = ex[0][4:]
        m = re.match(r"^\((\d+)u32 \|", expr)
        if not m:
            return dict(skip="no leading constant")
        variables = {"v": ob["ty"]}
        if ob["needs_prev"]:
            variables["a"] = "u32"
        try:
            ir = {ck: rustexpr.translate(expr, variables, ck) for ck in (True, False)}
        except rustexpr.Untranslatable as e:
            return dict(skip=f"untranslatable: {e}", exec_only=True, vals=vals, line=line, expr=expr, K=int(m.group(1)), vars=variables, ir=None, form=fi, consistent=None)
        res = dict(vals=vals, line=line, expr=expr, K=int(m.group(1)), vars=variables, ir=ir, form=fi, consistent=None)
        # self-test at the documented value (floats enter as f32 bits)
        try:
            import struct
            env = {"v": struct.unpack("<I", struct.pack("<f", dv))[0] if isinstance(dv, float) else dv & ((1 << 64) - 1)}
            if ob["needs_prev"]:
                env["a"] = pv
            ext = {k: (lambda x: 0) for k in ("logical32.ok", "logical32.val", "logical64.ok", "logical64.val", "float.ok", "float.val")}
            uses_ext = "encode_" in expr
            if not uses_ext and ans[1].startswith("ok "):
                st = json.loads(ans[1][3:])
                if len(st) == 1 and st[0].startswith("c4|"):
                    p, val, _ = ir[False]
                    res["consistent"] = (not rustexpr.ev(p, env, ext)) and rustexpr.ev(val, env, ext) == int(st[0][3:], 16)
        except Exception:       # noqa
            pass
        return res

    for ob in obligations:
        chosen = None
        for fi in ob["forms"][:8]:
            r = attempt(ob, fi)
            if r is None:
                continue
            if chosen is None:
                chosen = r
            if "skip" not in r and r.get("consistent") is not False:
                chosen = r
                break
        if chosen is None:
            ob["skip"] = "no base instantiation"
        else:
            ob.update(chosen)
            if "skip" not in chosen or chosen.get("exec_only"):
                ob["constraint"] = fs[ob["form"]].constraints.get(ob["idx"])
                ob["mnemonic"] = fs[ob["form"]].mnemonic
                ob["entry"] = (entry_of[ob["form"]]["m"], entry_of[ob["form"]]["i"])
    # ---- Lean
    os.makedirs(common.GEN, exist_ok=True)
    thms = []
    W = {"u32": 32, "i32": 32, "u64": 64, "f32": 32}
    with open(os.path.join(common.GEN, "A64Dyn.lean"), "w") as fh:
        fh.write("import Std.Tactic.BVDecide\nimport DynasmVerif.Model.A64Enc\nimport DynasmVerif.Model.EncUtil\n"
                 "/-! generated on every run: run-time operand expressions of the aarch64 macro (translated from the generated Rust) and their obligations -/\n"
                 "set_option maxRecDepth 100000\nset_option maxHeartbeats 1000000\nnamespace DynasmVerif.A64Dyn\nopen DynasmVerif.A64 DynasmVerif.A64Enc DynasmVerif.Enc\n")
        for ob in obligations:
            if "skip" in ob:
                continue
            n, w = ob["n"], W[ob["ty"]]
            ext = {"u32": f"(v.zeroExtend 64)", "i32": "(v.signExtend 64)", "u64": "v", "f32": "(v.zeroExtend 64)"}[ob["ty"]]
            params = ("(a : BitVec 32) " if ob["needs_prev"] else "") + f"(v : BitVec {w})"
            args = ("a " if ob["needs_prev"] else "") + "v"
            prev = "(a.zeroExtend 64)" if ob["needs_prev"] else "0#64"
            fh.write(f"\n/-- `{ob['line']}` ({ob['entry'][0]} #{ob['entry'][1]}, operand {ob['idx']}): {ob['expr'][:400].replace('-/', '- /')} -/\n")
            for ck, tag in ((True, "checked"), (False, "release")):
                p, val, ty = ob["ir"][ck]
                fh.write(f"def ob{n}_panic_{tag} {params} : Bool := {rustexpr.lean(p, EXT_LEAN)}\n")
                fh.write(f"def ob{n}_word_{tag} {params} : BitVec 32 := {rustexpr.lean(val, EXT_LEAN)}\n")
            if ob["needs_prev"]:
                fh.write(f"def ob{n}_static {params} : Res :=\n  ((slotStatic {ob['prev_cmds']} 0#64 {prev}).1 && (slotStatic {ob['lean_cmds']} {prev} {ext}).1,\n"
                         f"   (slotStatic {ob['prev_cmds']} 0#64 {prev}).2 ||| (slotStatic {ob['lean_cmds']} {prev} {ext}).2)\n")
            else:
                fh.write(f"def ob{n}_static {params} : Res := slotStatic {ob['lean_cmds']} {prev} {ext}\n")
            for tag in ("checked", "release"):
                fh.write(f"theorem ob{n}_dyn_eq_static_{tag} {params} :\n    ob{n}_panic_{tag} {args} = !(ob{n}_static {args}).1 ∧\n"
                         f"    (ob{n}_panic_{tag} {args} = false → ob{n}_word_{tag} {args} = {ob['K']}#32 ||| (ob{n}_static {args}).2) := by\n"
                         f"  simp only [ob{n}_panic_{tag}, ob{n}_word_{tag}, ob{n}_static]\n  enc_unfold\n  bv_decide (config := {{ timeout := 120 }})\n")
                thms.append(f"ob{n}_dyn_eq_static_{tag}")
            ob["theorems"] = [f"ob{n}_dyn_eq_static_checked", f"ob{n}_dyn_eq_static_release"]
            # C04: accepts exactly the documented set; injective on it
            doc = doc_lean(ob["constraint"], ob["needs_prev"])
            if doc is not None:
                pv = "(prev v : BitVec 64)"
                hp = "(hp : (0#64).sle prev = true ∧ prev.slt 4096#64 = true) " if ob["needs_prev"] else ""
                fh.write(f"theorem ob{n}_accepts_doc {pv} {hp}(hd : {doc} = true) : (slotStatic {ob['lean_cmds']} prev v).1 = true := by\n  enc_unfold\n  bv_decide (config := {{ timeout := 120 }})\n")
                fh.write(f"theorem ob{n}_injective (prev v w : BitVec 64) (hv : (slotStatic {ob['lean_cmds']} prev v).1 = true) (hw : (slotStatic {ob['lean_cmds']} prev w).1 = true)\n"
                         f"    (h : (slotStatic {ob['lean_cmds']} prev v).2 = (slotStatic {ob['lean_cmds']} prev w).2) : v = w := by\n"
                         f"  enc_unfold\n  bv_decide (config := {{ timeout := 120 }})\n")
                thms += [f"ob{n}_accepts_doc", f"ob{n}_injective"]
                ob["theorems"] += [f"ob{n}_accepts_doc", f"ob{n}_injective"]
                ob["doc"] = doc
        fh.write("end DynasmVerif.A64Dyn\n")
    return dict(obligations=obligations, theorems=thms, forms=fs, entry_of=entry_of)


# =================================================================================================== riscv
RV_CHECKS = {"UImm", "SImm", "BigImm", "UImmNo0", "SImmNo0", "UImmOdd", "UImmRange"}
RV_TY = {"UImm": "u32", "UImmNo0": "u32", "UImmOdd": "u32", "UImmRange": "u32", "SImm": "i32", "SImmNo0": "i32", "BigImm": "i64", "Offset": "i32"}
RV_REGS = {"R", "Reven", "Rno0", "Rno02", "Rpop", "Rpops", "Rpops2", "Rlist", "RoundingMode", "FenceSpec", "Csr", "FloatingPointImmediate", "SPImm"}


def rv_groups(cmds, equiv, ranges):
    """arg index → dict(check=lean Check, fields=[(rounded, o, l, s)], ty) for the immediate slots, mirroring the cursor logic of compile_instruction"""
    cur, out, open_ = 0, {}, None
    for c in cmds:
        n = name_of(c)
        a = c[1:] if isinstance(c, tuple) else ()
        if n == "Repeat":
            cur -= 1
        elif n == "Next":
            cur += 1
            open_ = None
        elif n in RV_CHECKS:
            if n in ("UImm", "UImmNo0"):
                chk = f".{'range' if n == 'UImm' else 'rangeNo0'} 0 {(1 << a[0]) - 1} {a[1]}"
            elif n in ("SImm", "SImmNo0"):
                chk = f".{'range' if n == 'SImm' else 'rangeNo0'} ({-(1 << (a[0] - 1))}) {(1 << a[0]) - 1} {a[1]}"
            elif n == "BigImm":
                chk = f".big {a[0]}"
            elif n == "UImmOdd":
                chk = f".odd {(1 << a[0]) - 1} {a[1]}"
            else:
                chk = f".between {a[0]} {a[1]}"
            open_ = dict(check=chk, fields=[], ty=RV_TY[n], cmd=c)
            out[cur] = open_
        elif n in ("BitRange", "RBitRange"):
            if open_ is not None:
                open_["fields"].append((n == "RBitRange", a[0], a[1], a[2]))
        elif n == "Offset":
            if a[0] in equiv:
                bits, scaling, eq = equiv[a[0]]
                rng = (1 << bits) - 1 if bits != 32 else ranges["imm"][1] - ranges["imm"][0]
                out[cur] = dict(check=f".range ({-(1 << (bits - 1))}) {rng} {scaling}", fields=[(k == "RBitRange", o, l, s) for (k, o, l, s) in eq], ty="i32", cmd=c)
            cur += 1
            open_ = None
        else:
            cur += 1
            open_ = None
    return out


def gen_rvdyn():
    rows = [r for r in tables.dump("riscv") if "m" in r]
    fs = forms.load("riscv")
    if len(rows) != len(fs):
        raise tables.TranslationError("riscv forms and table rows do not line up")
    equiv = tables.rv_offset_equiv_from_source()
    ranges = tables.rv_pair_range_from_source()
    obligations, seen = [], {}
    for fi, (f, r) in enumerate(zip(fs, rows)):
        if f.template.split()[0] != r["m"]:
            raise tables.TranslationError(f"form {fi} `{f.template}` does not belong to table entry {r['m']}")
        op = rustdebug.parse(r["op"])
        t = op["template"]
        nwords = 1 if t[0] in ("Single", "Compressed") else 2 if t[0] == "Double" else len(t[1])
        for idx, g in sorted(rv_groups(op["commands"], equiv, ranges).items()):
            if idx not in f.indices or f.kind_of(idx) not in ("Imm", "Off") or not g["fields"]:
                continue
            fields = "[" + ", ".join(f"⟨{'true' if rd else 'false'}, {o}, {l}, {s}⟩" for (rd, o, l, s) in g["fields"]) + "]"
            key = (g["check"], fields, t[0], nwords)
            if key in seen:
                seen[key]["forms"].append(fi)
                continue
            ob = dict(n=len(obligations), check=g["check"], fields=fields, ty=g["ty"], form=fi, idx=idx, forms=[fi], constraint=f.constraints.get(idx), mnemonic=f.mnemonic,
                      compressed=t[0] == "Compressed", nwords=nwords, needs_prev=False, lean_cmds=g["check"] + " " + fields, cmd=g["cmd"], raw_fields=g["fields"])
            seen[key] = ob
            obligations.append(ob)
    # ---- the generated run-time expression of each representative
    reqs = []
    for ob in obligations:
        f = fs[ob["form"]]
        vals = f.base_values()
        if vals is None:
            ob["skip"] = "no base instantiation"
            reqs.append("cl ; .arch riscv64 ; .feature i ; nop")
            continue
        ob["vals"] = vals
        ob["line"] = f.render(vals, runtime={ob["idx"]: "v"})
        isa = "riscv64" if "rv64" in f.extra[0] else "riscv32"
        ob["header"] = f"; .arch {isa} ; .feature {f.extra[1][0]} ;"
        reqs.append("cl " + ob["header"] + " " + ob["line"])
    _, out = common.sh([common.PLUG, "exec"], inp="\n".join(reqs) + "\n", timeout=3600)
    answers = [a for (_, a) in common.answers_of_impl(out)]
    W = {"u32": 32, "i32": 32, "i64": 64}
    for ob, a in zip(obligations, answers):
        if "skip" in ob:
            continue
        if not a.startswith("ok "):
            ob["skip"] = "representative line rejected: " + a[:120]
            continue
        stmts = [s for s in json.loads(a[3:]) if s[:2] in ("c2", "c4", "eu")]
        ob["words"] = []
        try:
            for s in stmts:
                k, _, txt = s.partition("|")
                if k in ("c2", "c4"):
                    ob["words"].append(dict(K=int(txt, 16), ir=None, w=16 if k == "c2" else 32))
                    continue
                m = re.match(r"^\(+(\d+)u32 \|", txt)
                if not m:
                    raise rustexpr.Untranslatable("no leading constant")
                ir = {ck: rustexpr.translate(txt, {"v": ob["ty"]}, ck) for ck in (True, False)}
                ob["words"].append(dict(K=int(m.group(1)), ir=ir, w=16 if k == "eu2" else 32, expr=txt))
            if not any(w["ir"] for w in ob["words"]):
                ob["skip"] = "no run-time word"
        except rustexpr.Untranslatable as e:
            ob["skip"] = f"untranslatable: {e}"
        ob["vars"] = {"v": ob["ty"]}
    os.makedirs(common.GEN, exist_ok=True)
    thms = []
    with open(os.path.join(common.GEN, "RvDyn.lean"), "w") as fh:
        fh.write("import Std.Tactic.BVDecide\nimport DynasmVerif.Model.RvEnc\nimport DynasmVerif.Model.EncUtil\n"
                 "/-! generated on every run: run-time immediate expressions of the riscv macro (translated from the generated Rust) and their obligations -/\n"
                 "set_option maxRecDepth 100000\nset_option maxHeartbeats 1000000\nnamespace DynasmVerif.RvDyn\nopen DynasmVerif.RvEnc DynasmVerif.Enc\n")
        for ob in obligations:
            if "skip" in ob:
                continue
            n, w = ob["n"], W[ob["ty"]]
            ext = {"u32": "(v.zeroExtend 64)", "i32": "(v.signExtend 64)", "i64": "v"}[ob["ty"]]
            fh.write(f"\n/-- `{ob['line']}` ({ob['mnemonic']}, operand {ob['idx']}) -/\n")
            for tag, ck in (("checked", True), ("release", False)):
                panics = [rustexpr.lean(wd["ir"][ck][0]) for wd in ob["words"] if wd["ir"]]
                fh.write(f"def ob{n}_panic_{tag} (v : BitVec {w}) : Bool := " + " || ".join(panics) + "\n")
                for k, wd in enumerate(ob["words"]):
                    if wd["ir"]:
                        fh.write(f"def ob{n}_word{k}_{tag} (v : BitVec {w}) : BitVec {wd['w']} := {rustexpr.lean(wd['ir'][ck][1])}\n")
                conj = [f"ob{n}_panic_{tag} v = !(Check.ok ({ob['check']}) {ext})"]
                for k, wd in enumerate(ob["words"]):
                    if wd["ir"]:
                        rhs = f"({wd['K']}#32 ||| contrib {ob['fields']} {ext} {k})"
                        if wd["w"] == 16:
                            rhs = f"({rhs}.truncate 16)"
                        conj.append(f"(ob{n}_panic_{tag} v = false → ob{n}_word{k}_{tag} v = {rhs})")
                fh.write(f"theorem ob{n}_dyn_eq_static_{tag} (v : BitVec {w}) :\n    " + " ∧\n    ".join(conj) + " := by\n"
                         f"  simp only [ob{n}_panic_{tag}, " + ", ".join(f"ob{n}_word{k}_{tag}" for k, wd in enumerate(ob["words"]) if wd["ir"]) + "]\n  rv_unfold\n  bv_decide (config := { timeout := 120 })\n")
                thms.append(f"ob{n}_dyn_eq_static_{tag}")
            ob["theorems"] = [f"ob{n}_dyn_eq_static_checked", f"ob{n}_dyn_eq_static_release"]
            doc = doc_lean(ob["constraint"], False)
            # HI20 / LO12 / LO12S carry one half of a 32-bit offset by design: the instruction alone does not determine the operand
            partial = name_of(ob["cmd"]) == "Offset" and ob["cmd"][1] in ("HI20", "LO12", "LO12S")
            if doc is not None and partial:
                fh.write(f"theorem ob{n}_accepts_doc (v : BitVec 64) (hd : {doc} = true) : Check.ok ({ob['check']}) v = true := by\n  rv_unfold\n  bv_decide (config := {{ timeout := 120 }})\n")
                thms.append(f"ob{n}_accepts_doc")
                ob["theorems"].append(f"ob{n}_accepts_doc")
            elif doc is not None:
                fh.write(f"theorem ob{n}_accepts_doc (v : BitVec 64) (hd : {doc} = true) : Check.ok ({ob['check']}) v = true := by\n  rv_unfold\n  bv_decide (config := {{ timeout := 120 }})\n")
                allw = " ∧ ".join(f"contrib {ob['fields']} v {k} = contrib {ob['fields']} w {k}" for k in range(ob["nwords"]))
                fh.write(f"theorem ob{n}_injective (v w : BitVec 64) (hv : Check.ok ({ob['check']}) v = true) (hw : Check.ok ({ob['check']}) w = true)\n"
                         f"    (h : {allw}) : v = w := by\n  rv_unfold\n  bv_decide (config := {{ timeout := 120 }})\n")
                thms += [f"ob{n}_accepts_doc", f"ob{n}_injective"]
                ob["theorems"] += [f"ob{n}_accepts_doc", f"ob{n}_injective"]
        fh.write("end DynasmVerif.RvDyn\n")
    return dict(obligations=obligations, theorems=thms, forms=fs)


# =================================================================================================== register slots (both backends)
A64_REG_CLS = {"R": ".any", "REven": ".even", "RNoZr": ".noZr", "R4": ".low16"}
RV_REG_CLS = {"R": ".any", "Reven": ".even", "Rno0": ".no0", "Rno02": ".no02", "Rpop": ".pop", "Rpops": ".pops", "Rpops2": ".pops"}
A64_REG_KINDS = {"W", "X", "WSP", "XSP", "B", "H", "S", "D", "Q", "V", "WX"}


def gen_regdyn():
    """Generated/RegDyn.lean: one obligation per register command class of each backend (representative: a single-word form whose slot is
    handled by exactly that command): the run-time expression the macro generates for `X(v)` = the literal-path model RegEnc for every
    in-family register number."""
    obligations, seen = [], set()
    # aarch64
    rows = [r for r in tables.dump("aarch64") if "m" in r]
    fs = forms.load("aarch64")
    entry_of = attach_entries(fs, rows)
    for fi, f in enumerate(fs):
        r = entry_of.get(fi)
        groups = group_commands(rustdebug.parse(r["commands"]))
        for idx, g in sorted(groups.items()):
            if len(g) != 1 or name_of(g[0]) not in A64_REG_CLS or idx not in f.indices or f.kind_of(idx) not in A64_REG_KINDS:
                continue
            key = ("aarch64", name_of(g[0]))
            if key in seen:
                continue
            base = f.base_values()
            if base is None or any(isinstance(v, str) and v.startswith("->") for v in base.values()):
                continue
            seen.add(key)
            fam = "X" if f.kind_of(idx) == "WX" else f.kind_of(idx)
            obligations.append(dict(n=len(obligations), arch="aarch64", cls=A64_REG_CLS[name_of(g[0])], off=g[0][1], header="; .arch aarch64 ;",
                                    line=f.render(base, runtime={idx: f"{fam}(v)"}), ty="u32", mnemonic=f.mnemonic, cmd=name_of(g[0])))
    # riscv
    rrows = [r for r in tables.dump("riscv") if "m" in r]
    rfs = forms.load("riscv")
    for fi, (f, r) in enumerate(zip(rfs, rrows)):
        op = rustdebug.parse(r["op"])
        if op["template"][0] not in ("Single", "Compressed"):
            continue
        cmds = op["commands"]
        if any(name_of(c) == "Repeat" for c in cmds):
            continue
        cur = 0
        for c in cmds:
            n = name_of(c)
            if n == "Next":
                cur += 1
                continue
            if n in RV_CHECKS or n in ("BitRange", "RBitRange"):
                continue
            if n in RV_REG_CLS and cur in f.indices and f.kind_of(cur) in ("X", "F"):
                key = ("riscv", n)
                base = f.base_values()
                if key not in seen and base is not None and not any(isinstance(v, str) and v.startswith("->") for v in base.values()) and "e" not in f.extra[1][0][:1]:
                    seen.add(key)
                    isa = "riscv64" if "rv64" in f.extra[0] else "riscv32"
                    cls = RV_REG_CLS[n]
                    if n == "Rpops2":
                        cls = f"(.popsNe {base[cur - 1]})"
                    obligations.append(dict(n=len(obligations), arch="riscv", cls=cls, off=c[1], header=f"; .arch {isa} ; .feature {f.extra[1][0]} ;",
                                            line=f.render(base, runtime={cur: f"{f.kind_of(cur)}(v)"}), ty="u8", mnemonic=f.mnemonic, cmd=n,
                                            compressed=op["template"][0] == "Compressed"))
                    # the same class on the E profile (x16..x31 do not exist): the run-time test must use the 16 register file
                    if f.kind_of(cur) == "X" and all(not (isinstance(v, int) and v >= 16) for v in base.values()):
                        obligations.append(dict(obligations[-1], n=len(obligations), header=f"; .arch {isa}e ; .feature {f.extra[1][0]} ;", embedded=True, cmd=n + " (E profile)"))
            cur += 1
    _, out = common.sh([common.PLUG, "exec"], inp="\n".join("cl " + ob["header"] + " " + ob["line"] for ob in obligations) + "\n", timeout=600)
    for ob, (_, a) in zip(obligations, common.answers_of_impl(out)):
        if not a.startswith("ok "):
            ob["skip"] = "representative line rejected: " + a[:100]
            continue
        stmts = [s for s in json.loads(a[3:]) if s[:2] in ("c2", "c4", "eu")]
        if len(stmts) != 1 or not stmts[0].startswith("eu"):
            ob["skip"] = "not a single run-time word"
            continue
        k, _, txt = stmts[0].partition("|")
        m = re.match(r"^\(+(\d+)u32 \|", txt)
        if not m:
            ob["skip"] = "no leading constant"
            continue
        ob["K"], ob["w"], ob["expr"] = int(m.group(1)), (16 if k == "eu2" else 32), txt
        try:
            ob["ir"] = {ck: rustexpr.translate(txt, {"v": ob["ty"]}, ck) for ck in (True, False)}
        except rustexpr.Untranslatable as e:
            ob["skip"] = f"untranslatable: {e}"
    thms = []
    with open(os.path.join(common.GEN, "RegDyn.lean"), "w") as fh:
        fh.write("import Std.Tactic.BVDecide\nimport DynasmVerif.Model.RegEnc\n/-! generated on every run: run-time register expressions of the macro and their obligations -/\n"
                 "namespace DynasmVerif.RegDyn\nopen DynasmVerif.RegEnc\n")
        for ob in obligations:
            if "skip" in ob:
                continue
            n, w = ob["n"], (32 if ob["ty"] == "u32" else 8)
            ext = "v" if w == 32 else "(v.zeroExtend 32)"
            fh.write(f"\n/-- `{ob['header']} {ob['line']}` ({ob['arch']} {ob['cmd']}): {ob['expr'][:300].replace('-/', '- /')} -/\n")
            for tag, ck in (("checked", True), ("release", False)):
                p, val, _ = ob["ir"][ck]
                fh.write(f"def ob{n}_panic_{tag} (v : BitVec {w}) : Bool := {rustexpr.lean(p)}\n")
                fh.write(f"def ob{n}_word_{tag} (v : BitVec {w}) : BitVec {ob['w']} := {rustexpr.lean(val)}\n")
                rhs = f"({ob['K']}#32 ||| place (Cls.code {ob['cls']} {ext}) {ob['off']})"
                if ob["w"] == 16:
                    rhs = f"({rhs}.truncate 16)"
                fh.write(f"theorem ob{n}_dyn_eq_static_{tag} (v : BitVec {w}) (hn : v.ult 32 = true) :\n"
                         f"    ob{n}_panic_{tag} v = !(Cls.ok {ob['cls']} {'true' if ob.get('embedded') else 'false'} {ext}) ∧ (ob{n}_panic_{tag} v = false → ob{n}_word_{tag} v = {rhs}) := by\n"
                         f"  simp only [ob{n}_panic_{tag}, ob{n}_word_{tag}, Cls.ok, Cls.code, place] at *\n  bv_decide (config := {{ timeout := 120 }})\n")
                thms.append(f"ob{n}_dyn_eq_static_{tag}")
            # C04: the class accepts exactly its registers and encodes them injectively
            emb = 'true' if ob.get('embedded') else 'false'
            fh.write(f"theorem ob{n}_injective (a b : BitVec 32) (ha : a.ult 32 = true) (hb : b.ult 32 = true) (oa : Cls.ok {ob['cls']} {emb} a = true) (ob : Cls.ok {ob['cls']} {emb} b = true)\n"
                     f"    (h : Cls.code {ob['cls']} a = Cls.code {ob['cls']} b) : a = b := by\n  simp only [Cls.ok, Cls.code] at *\n  bv_decide (config := {{ timeout := 120 }})\n")
            thms.append(f"ob{n}_injective")
        fh.write("end DynasmVerif.RegDyn\n")
    return dict(obligations=obligations, theorems=thms)
