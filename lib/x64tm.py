"""C13, type-mapped operands (`reg => Type[index].field`): base + index * size_of::<Type>() + constant_index * size_of + offset_of(field),
with the scale evaluated by rustc. By execution only (the scale is a Rust constant expression): the real macro through rustc, the bytes
disassembled by llvm-mc and compared with the linear form the Rust types define."""
import re

import common
import dyn
import c13

PRELUDE = """
#[repr(C)] #[allow(dead_code)] pub struct P1 { pub a: u8 }
#[repr(C)] #[allow(dead_code)] pub struct P2 { pub a: u8, pub b: u8 }
#[repr(C)] #[allow(dead_code)] pub struct P4 { pub a: u16, pub b: u8, pub c: u8 }
#[repr(C)] #[allow(dead_code)] pub struct P8 { pub a: u32, pub b: u16, pub c: u8, pub d: u8 }
#[repr(C)] #[allow(dead_code)] pub struct Big { pub a: u64, pub b: [u8; 120], pub c: u32, pub d: [u8; 300], pub e: u16 }
"""
TYPES = {"P1": (1, {"a": 0}), "P2": (2, {"a": 0, "b": 1}), "P4": (4, {"a": 0, "b": 2, "c": 3}), "P8": (8, {"a": 0, "b": 4, "c": 6, "d": 7}),
         "u8": (1, {}), "u16": (2, {}), "u32": (4, {}), "u64": (8, {}), "Big": (440, {"a": 0, "b": 8, "c": 128, "d": 132, "e": 432})}
G64 = c13.G64


def sweep(run, thorough):
    stats = {"cases": 0, "runs": 0, "checked": 0}
    cases, meta = [], []
    bases = [0, 3, 4, 5, 12, 13]
    for ty, (size, fields) in TYPES.items():
        attrs = [None] + list(fields)
        for b in bases:
            for attr in attrs:
                at = f".{attr}" if attr else ""
                off = fields[attr] if attr else 0
                # no index
                if attr or ty == "Big":
                    cases.append(dict(body=f"; .arch x64 ; lea eax, {G64[b]} => {ty}{at}", vars=[]))
                    meta.append((b, None, 0, off))
                if size <= 8:
                    for i in (1, 9, 13):
                        cases.append(dict(body=f"; .arch x64 ; lea eax, {G64[b]} => {ty}[{G64[i]}]{at}", vars=[]))
                        meta.append((b, i, size, off))
                        if size * 2 <= 8:
                            cases.append(dict(body=f"; .arch x64 ; lea eax, {G64[b]} => {ty}[{G64[i]} * 2 + 3]{at}", vars=[]))
                            meta.append((b, i, size * 2, off + 3 * size))
                    cases.append(dict(body=f"; .arch x64 ; lea eax, {G64[b]} => {ty}[5]{at}", vars=[]))
                    meta.append((b, None, 0, off + 5 * size))
                    cases.append(dict(body=f"; .arch x64 ; lea eax, {G64[b]} => {ty}[v]{at}", vars=[("v", "i32")]))
                    meta.append((b, None, 0, ("v", size, off)))
        # dynamic base register
        for attr in attrs[:2]:
            at = f".{attr}" if attr else ""
            off = fields[attr] if attr else 0
            if size <= 8:
                cases.append(dict(body=f"; .arch x64 ; lea eax, Rq(r) => {ty}[rcx]{at}", vars=[("r", "u8")]))
                meta.append(("r", 1, size, off))
    # displacement-size override: a displacement that fits is a disp8; one that does NOT fit must never become another address
    # (want = None: the only acceptable outcomes are a panic when the code runs — the value is a Rust constant expression the macro cannot see)
    for b in (0, 3, 12):
        cases.append(dict(body=f"; .arch x64 ; lea eax, {G64[b]} => P8[BYTE 5].c", vars=[]))
        meta.append((b, None, 0, 5 * 8 + 6))
        cases.append(dict(body=f"; .arch x64 ; lea eax, {G64[b]} => Big[BYTE 0].b", vars=[]))
        meta.append((b, None, 0, 8))
        cases.append(dict(body=f"; .arch x64 ; lea eax, {G64[b]} => Big[BYTE 0].c", vars=[]))
        meta.append((b, None, 0, "unencodable"))        # offset 128
        cases.append(dict(body=f"; .arch x64 ; lea eax, {G64[b]} => Big[BYTE 0].e", vars=[]))
        meta.append((b, None, 0, "unencodable"))        # offset 432
        cases.append(dict(body=f"; .arch x64 ; lea eax, {G64[b]} => Big[BYTE 1]", vars=[]))
        meta.append((b, None, 0, "unencodable"))        # 440
        cases.append(dict(body=f"; .arch x64 ; lea eax, {G64[b]} => P8[BYTE w].d", vars=[("w", "i8")]))
        meta.append((b, None, 0, ("w", 8, 7)))
    ok, log = dyn.build("C13T", cases, PRELUDE)
    if not ok:
        run.violation("broken-correspondence", {"kind": "harness-build", "harness": "dyn-typemap"}, "the generated crate with type-mapped operands does not build against the working tree",
                      {"log": log[-3000:]}, found_input=False)
        return stats
    stats["cases"] = len(cases)
    reqs, want = [], []
    for i, (b, idx, scale, off) in enumerate(meta):
        runs = [[]]
        if cases[i]["vars"] and cases[i]["vars"][0][0] == "v":
            runs = [[0], [1], [-1], [7], [-16]]
        elif cases[i]["vars"] and cases[i]["vars"][0][0] == "w":
            runs = [[0], [1], [-1], [15], [-16], [16], [-17], [100]]
        elif cases[i]["vars"]:
            runs = [[n] for n in (0, 4, 5, 12, 13, 15)]
        for vals in runs:
            bb = vals[0] if b == "r" else b
            o = off if not isinstance(off, tuple) else off[2] + vals[0] * off[1]
            if cases[i]["vars"] and cases[i]["vars"][0][0] == "w" and not -128 <= o <= 127:
                o = "unencodable"
            coef = {("g", bb): 1}
            if idx is not None:
                coef[("g", idx)] = coef.get(("g", idx), 0) + scale
            reqs.append((i, vals))
            want.append((coef, o))
    res = dyn.run("C13T", reqs)
    good = [k for k, (st, _) in enumerate(res) if st == "ok"]
    dis = c13.disassemble([res[k][1] for k in good], True)
    for k, text in zip(good, dis):
        stats["runs"] += 1
        i, vals = reqs[k]
        lin = c13.parse_intel_mem(text) if text else None
        if lin is None:
            continue
        stats["checked"] += 1
        coef, disp, _ = lin
        wcoef, wdisp = want[k]
        if wdisp == "unencodable":
            run.violation("failing-input", {"kind": "typemap-truncated-displacement", "case": re.sub(r"G64|r1[0-5]|r[0-9]|rax|rbx|rsp|rbp", "R", cases[i]["body"])[:60]},
                          f"dynasm!(ops {cases[i]['body']}) with {vals} assembles to {res[k][1].hex()} = `{text}`: the displacement the Rust types define does not fit the "
                          f"BYTE displacement that was asked for; it was truncated into another address instead of being reported",
                          {"stream": "dyn", "case": cases[i], "values": vals, "prelude": PRELUDE})
            continue
        if coef != wcoef or (disp - wdisp) % (1 << 32) != 0:
            run.violation("failing-input", {"kind": "typemap-wrong-address", "case": re.sub(r"G64|r1[0-5]|r[0-9]|rax|rbx|rsp|rbp", "R", cases[i]["body"])[:60]},
                          f"dynasm!(ops {cases[i]['body']}) with {vals} assembles to {res[k][1].hex()} = `{text}`: the Rust types define {c13.fmt_coef(wcoef)} + {wdisp}",
                          {"stream": "dyn", "case": cases[i], "values": vals, "prelude": PRELUDE})
    for k, (st, b) in enumerate(res):
        if st != "ok" and want[k][1] == "unencodable":
            stats["unencodable_reported"] = stats.get("unencodable_reported", 0) + 1
        elif st != "ok":
            i, vals = reqs[k]
            run.violation("failing-input", {"kind": "typemap-panics", "case": cases[i]["body"][:60]}, f"dynasm!(ops {cases[i]['body']}) with {vals} panics: {b[:100]}",
                          {"stream": "dyn", "case": cases[i], "values": vals, "prelude": PRELUDE})
    return stats
