"""C03 on x86/x64: a register supplied at run time (`Rq(v)`, `Rx(v)`, …) must assemble to the same instruction as the register named
literally. Byte identity is not required (the dynamic spelling may use a longer equivalent encoding: REX always present, 3-byte VEX):
both byte strings are disassembled by llvm-mc and must read the same.
One macro case per (encoding class of the table = format string + flags, operand size, register slot), the other operands at the
defaults of lib/x64sweep.py; every register number of the class at run time; compiled by the REAL macro through rustc (harness/dyn)."""
import common
import dyn
import x64sweep as xs

DYN_FAMILY = {("legacy", 1): "Rb", ("legacy", 2): "Rw", ("legacy", 4): "Rd", ("legacy", 8): "Rq", ("xmm", 16): "Rx", ("xmm", 32): "Ry",
              ("mmx", 8): "Rm", ("fp", 10): "Rf", ("segment", 2): "Rs", ("bound", 16): "RB",
              ("control", 8): "RC", ("control", 4): "RC", ("debug", 8): "RD", ("debug", 4): "RD"}


def plan(all_entries=False):
    """[(entry, mode, ops (defaults), slot index, [alternative register operands])]"""
    out, seen = [], set()
    for e in xs.table():
        for mode in xs.modes_of(e):
            if mode == "x64" and xs.flag(e, "X86_ONLY"):
                continue
            sl = xs.slots(e)
            for opsize in xs.op_sizes(e, mode):
                defaults, alts = [], []
                for j, (code, fs) in enumerate(sl):
                    d, a = xs.slot_alternatives(e, j, code, fs, opsize, mode)
                    defaults.append(d)
                    alts.append(a)
                if any(d is None for d in defaults):
                    continue
                for j, (code, fs) in enumerate(sl):
                    regs = [a for a in alts[j] if a.kind == "reg" and not a.fixed and (a.fam, a.size) in DYN_FAMILY]
                    if len(regs) < 2 or defaults[j].kind != "reg":
                        continue
                    key = (e["args"], tuple(sorted(xs.flag_names(e))), str(opsize), j, mode) if not all_entries else (e["m"], e["i"], str(opsize), j, mode)
                    if key in seen:
                        continue
                    seen.add(key)
                    out.append((e, mode, defaults, j, regs))
    return out


def sweep(run, thorough):
    pl = plan(all_entries=False)
    stats = {"classes": len(pl), "runtime_runs": 0, "compared": 0, "literal_rejected": 0, "not_compiled": 0}
    # the plugin must accept the dynamic line for it to be compiled by rustc; the literal lines give the reference bytes
    dyn_lines, lit_reqs, lit_index = [], [], []
    for k, (e, mode, defaults, j, regs) in enumerate(pl):
        ops = list(defaults)
        fam = DYN_FAMILY[(regs[0].fam, regs[0].size)]
        texts = [o.text for o in ops]
        texts[j] = f"{fam}(v)"
        dyn_lines.append(f"; .arch {mode} ; {e['m']} " + ", ".join(texts))
        for r in regs:
            t2 = [o.text for o in ops]
            t2[j] = r.text
            lit_reqs.append(f"cl ; .arch {mode} ; {e['m']} " + ", ".join(t2))
            lit_index.append((k, r.num))
    accepted = xs.plug(["cl " + l for l in dyn_lines])
    cases, case_of = [], {}
    for k, (l, a) in enumerate(zip(dyn_lines, accepted)):
        if a.startswith("ok "):
            case_of[k] = len(cases)
            cases.append(dict(body=l, vars=[("v", "u8")]))
        else:
            stats["not_compiled"] += 1
    ok, log = dyn.build("C03X", cases)
    if not ok:
        # a single bad case should not hide the rest: report and stop (the build log names the line)
        run.violation("broken-correspondence", {"kind": "harness-build", "harness": "dyn-x64"}, "the generated crate with dynamic x64 registers does not build against the working tree",
                      {"log": log[-3000:]}, found_input=False)
        return stats
    lit_ans = []
    for part in common.parallel_map(xs.plug, [lit_reqs[i:i + 4000] for i in range(0, len(lit_reqs), 4000)]):
        lit_ans += part
    lit_bytes = {}
    for (k, n), a in zip(lit_index, lit_ans):
        st, b = xs.answer_bytes(a)
        lit_bytes[(k, n)] = b if st == "ok" else None
    dreqs, dmeta = [], []
    for (k, n) in lit_index:
        if k in case_of:
            dreqs.append((case_of[k], [n]))
            dmeta.append((k, n))
    dres = dyn.run("C03X", dreqs)
    # disassemble both sides per mode
    for mode in ("x64", "x86"):
        sel = [i for i, (k, n) in enumerate(dmeta) if pl[k][1] == mode and dres[i][0] == "ok" and lit_bytes.get((k, n)) is not None]
        rt_dis = xs.disassemble([dres[i][1] for i in sel], mode)
        lt_dis = xs.disassemble([lit_bytes[dmeta[i]] for i in sel], mode)
        for i, (rs, rl), (ls, ll) in zip(sel, rt_dis, lt_dis):
            k, n = dmeta[i]
            stats["compared"] += 1
            if dres[i][1] == lit_bytes[(k, n)]:
                continue
            # x87: a dynamic register cannot select the st0-specific form; `fadd st(0), st` and `fadd st, st(0)` are the same instruction on the same registers
            norm = lambda lines: [str(x).replace("st(0)", "st") for x in (lines or [])]      # noqa: E731
            # protected mode has no upper register half: the one-byte 90 IS `xchg eax, eax` there (llvm prints it as nop)
            if mode == "x86" and dres[i][1] == b"\x90" and [str(x) for x in (rl or [])] == ["nop"]:
                rl = ["xchg eax, eax"]
            if (rs, norm(rl)) != (ls, norm(ll)):
                e = pl[k][0]
                run.violation("failing-input", {"kind": "x64-runtime-register-differs", "mnemonic": e["m"], "mode": pl[k][1], "args": e["args"], "flags": sorted(xs.flag_names(e)), "slot": pl[k][3], "value": n},
                              f"dynasm!(ops {dyn_lines[k]}) with v = {n} assembles to {dres[i][1].hex()} = `{rl}`, the literal register to {lit_bytes[(k, n)].hex()} = `{ll}`",
                              {"stream": "dyn", "case": cases[case_of[k]], "values": [n], "literal": lit_reqs[lit_index.index((k, n))]})
    for i, (k, n) in enumerate(dmeta):
        stats["runtime_runs"] += 1
        if lit_bytes.get((k, n)) is None:
            stats["literal_rejected"] += 1
        elif dres[i][0] != "ok":
            e = pl[k][0]
            run.violation("failing-input", {"kind": "x64-runtime-register-panics", "args": e["args"], "flags": sorted(xs.flag_names(e)), "slot": pl[k][3]},
                          f"dynasm!(ops {dyn_lines[k]}) with v = {n} panics ({dres[i][1][:80]}) although the literal register assembles", {"stream": "dyn", "case": cases[case_of[k]], "values": [n]})
    return stats
