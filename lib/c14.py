"""C14 — aarch64 special-immediate encoders exactly invert the architectural decoders.
Proof: lean/DynasmVerif/Props/C14.lean (sound + complete for logical32/64, wide32/64, stretched, float; bv_decide over the full domains).
Tie: EXHAUSTIVE for 32-bit inputs: the accepted set of every copy of every 32-bit encoder (plugin helper, public dynasmrt function) over all
2^32 inputs, with encodings, must equal the image of the architectural decoder computed by the Lean model; 64-bit: every representable value,
its single-bit flips and rotations, and random values, implementation vs model. The inline runtime code the macro generates is C03's tie."""
import json
import os

import common
from common import SplitMix

MODULES = ["DynasmVerif.Props.C14"]
ENC32 = [("p.logical32", "logical32"), ("r.logical32", "logical32"), ("p.wide32", "wide32"), ("p.float", "float"), ("r.float", "float")]
ENC64 = [("p.logical64", "logical64"), ("r.logical64", "logical64"), ("p.wide64", "wide64"), ("p.stretched", "stretched")]


def plug(reqs):
    rc, out = common.sh([common.PLUG, "exec"], inp="\n".join(reqs) + "\n", timeout=3600)
    return [a for (_, a) in common.answers_of_impl(out)]


def model(reqs):
    rc, out = common.run_model("hdr a64imm 1\n" + "\n".join(reqs) + "\n")
    return common.answers_of_model(out)[1:]


def parse_pairs(ans):
    toks = ans.split()
    head = [t for t in toks if "=" in t and ":" not in t]
    pairs = {}
    for t in toks:
        if ":" in t:
            v, e = t.split(":")
            pairs[int(v)] = e
    return head, pairs


def rotl(v, k, w):
    k %= w
    return ((v << k) | (v >> (w - k))) & ((1 << w) - 1) if k else v


def check(run):
    rng = SplitMix(run.seed)
    thorough = run.tier == "thorough"
    common.base_trusted(run, bv=True)
    run.coverage["trusted_base"] += ["Model/A64Imm.lean decoders written from the ARM ARM pseudocode (DecodeBitMasks, MOVZ chunk, AdvSIMDExpandImm, VFPExpandImm)",
                                     "harness/plug (calls the plugin's encoding_helpers and dynasmrt::aarch64::encode_* in-process)",
                                     "f32::to_bits/from_bits (floats enter as bit patterns)"]
    ok, log = common.build_harness("plug")
    if not ok:
        run.violation("broken-correspondence", {"kind": "harness-build"}, "harness/plug does not build against the working tree", {"log": log[-3000:]}, found_input=False)
        return
    # the inline run-time copies the macro generates (compiler.rs handle_special_immediates): their generated theorems (translated from
    # today's generated Rust: run-time expression = compile-time encoder, for every value; accepted operands encoded injectively) are part of this check
    import encgen
    inline, unstated, modules = None, [], list(MODULES)
    try:
        inline = encgen.gen_a64dyn()
        special = [ob for ob in inline["obligations"] if "Special" in str(ob.get("lean_cmds"))]
        with open(os.path.join(common.GEN, "C14Inline.lean"), "w") as fh:
            fh.write("import DynasmVerif.Generated.A64Dyn\n/-! generated: the obligations of the special-immediate operands, under C14's name -/\nnamespace DynasmVerif.C14Inline\n")
            for ob in special:
                if "skip" in ob:
                    unstated.append((ob.get("mnemonic") or str(ob.get("lean_cmds")), ob["skip"]))
                    continue
                for t in inline["theorems"]:
                    if t.startswith(f"ob{ob['n']}_"):
                        fh.write(f"theorem {t} : type_of% @DynasmVerif.A64Dyn.{t} := @DynasmVerif.A64Dyn.{t}\n")
            fh.write("end DynasmVerif.C14Inline\n")
        modules.append("DynasmVerif.Generated.C14Inline")
        inline = dict(inline, obligations=special)
    except Exception as e:       # noqa
        run.violation("broken-correspondence", {"kind": "translator"}, f"the obligations of the inline special-immediate code could not be generated: {e}", found_input=False)
        inline = None
    # second tie (T-bits): the text of the nine encoder functions (plugin + run-time crate) translated to Lean and proved equal to the model
    import immtrans
    imm_tr, imm_msg = None, None
    try:
        imm_tr = immtrans.translate_all()
        immtrans.emit_lean(imm_tr, os.path.join(common.GEN, "ImmCode.lean"))
        modules.append("DynasmVerif.Props.C14Code")
        run.coverage["trusted_base"] += ["lib/immtrans.py + lib/reloctrans.py + lib/rustexpr.py (source text of the encoders -> bit-vector IR -> Lean); count_ones / trailing_zeros / "
                                         "rotate_left as the unrolled definitions of Model/A64Imm"]
    except immtrans.Untranslatable as ex:
        imm_msg = f"the special-immediate encoders can no longer be translated (lib/immtrans.py): {ex}"
    proofs_ok = common.standard_proof_step(run, modules, allow_bv_decide=True)
    found_before = len(run.violations) + len(run.known_hit)
    if not proofs_ok and hasattr(run, "broken_build"):
        ok2, _ = common.lake_build(["driver"])
        if not ok2:
            run.violation("broken-obligation", {"kind": "lean-build"}, run.broken_build["first_error"], run.broken_build, found_input=False)
            return
    stats = {"exhaustive_32bit_inputs": 0, "accepted": {}, "queries64": 0}
    # ---- 32-bit encoders: all 2^32 inputs
    images = dict(zip(["logical32", "wide32", "float", "logical64", "wide64", "stretched"],
                      model(["img logical32", "img wide32", "img float", "img logical64", "img wide64", "img stretched"])))
    sweeps = plug(["encsweep " + n for (n, _) in ENC32])
    for ((name, fn), ans) in zip(ENC32, sweeps):
        head, got = parse_pairs(ans)
        _, want = parse_pairs(images[fn])
        stats["exhaustive_32bit_inputs"] += 1 << 32
        stats["accepted"][name] = len(got)
        if "panics=0" not in head:
            run.violation("failing-input", {"kind": "encoder-panics", "fn": name}, f"{name} panics on some inputs ({head})", {"stream": "plug", "input": ["encsweep " + name], "impl": [ans[:200]]})
        extra = sorted(set(got) - set(want))
        missing = sorted(set(want) - set(got))
        wrong = sorted(v for v in set(got) & set(want) if got[v] != want[v])
        for (lst, kind, msg) in ((extra, "accepts-unrepresentable", "is accepted but no valid encoding expands to it"),
                                 (missing, "rejects-representable", "is representable (a valid encoding expands to it) but is rejected"),
                                 (wrong, "wrong-encoding", "is encoded differently from the encoding that expands to it")):
            if lst:
                v = lst[0]
                req = f"enc {name} {v}"
                a = plug([req])[0]
                m = model([f"q {fn} {v}"])[0]
                run.violation("failing-input", {"kind": kind, "fn": name},
                              f"{name}({v:#x}) = {a}: the value {msg} (architectural image says {want.get(v, 'not representable')}; {len(lst)} such inputs among all 2^32)",
                              {"stream": "plug", "input": [req], "impl": [a], "model": [m]})
    # ---- 64-bit encoders: representable values and their neighbourhoods
    for (name, fn) in ENC64:
        _, want = parse_pairs(images[fn])
        if any(e == "REJECTED" for e in want.values()):
            run.violation("broken-obligation", {"kind": "model-rejects-image", "fn": fn}, f"the model encoder rejects a value of the decoder's image ({fn})", found_input=False)
        vals = sorted(want)
        cand = set(vals)
        sample = vals if thorough else [vals[i] for i in sorted(set(rng.below(len(vals)) for _ in range(400)))]
        for v in sample:
            for b in range(64):
                cand.add(v ^ (1 << b))
            for k in (1, 2, 7, 8, 16, 31, 32, 63):
                cand.add(rotl(v, k, 64))
        for _ in range(200000 if thorough else 20000):
            cand.add(rng.next())
        cand = sorted(cand)
        reqs_i = [f"enc {name} {v}" for v in cand]
        reqs_m = [f"q {fn} {v}" for v in cand]
        chunks = [(reqs_i[i:i + 50000], reqs_m[i:i + 50000]) for i in range(0, len(cand), 50000)]
        res = common.parallel_map(lambda c: (plug(c[0]), model(c[1])), chunks)
        stats["queries64"] += len(cand)
        # the translation of the source text, evaluated in python, against the compiled function (validates the translator)
        key = {"p.logical64": "p_L64", "r.logical64": "r_L64", "p.wide64": "p_W64", "p.stretched": "p_Stretched"}.get(name)
        if imm_tr and key:
            flat = [a for (ai, _) in res for a in ai]
            step = max(1, len(cand) // 1500)
            for v, a in list(zip(cand, flat))[::step]:
                t = immtrans.evaluate(imm_tr[key], v)
                want_t = "panic" if t == "panic" else ("none" if t is None else f"some {t}")
                stats["translation_validated"] = stats.get("translation_validated", 0) + 1
                if a.split()[:2] != want_t.split()[:2]:
                    run.violation("broken-correspondence", {"kind": "imm-translation-differs", "fn": name},
                                  f"{name}({v:#x}): the compiled function answers `{a}`, the translation of its source text `{want_t}`", {"stream": "plug", "input": [f"enc {name} {v}"], "impl": [a]},
                                  found_input=False)
                    break
        done = False
        off = 0
        for (ai, am) in res:
            for j, (a, m) in enumerate(zip(ai, am)):
                v = cand[off + j]
                if a != m and not done:
                    done = True
                    rep = v in want
                    if a.startswith("none") and rep:
                        kind, msg = "rejects-representable", "representable but rejected"
                    elif a.startswith("some") and not rep:
                        kind, msg = "accepts-unrepresentable", "accepted although no valid encoding expands to it"
                    elif a.startswith("panic"):
                        kind, msg = "encoder-panics", "panics"
                    else:
                        kind, msg = "wrong-encoding", f"encoded as {a} but the encoding that expands to it is {m}"
                    run.violation("failing-input", {"kind": kind, "fn": name}, f"{name}({v:#x}): {msg}",
                                  {"stream": "plug", "input": [reqs_i[off + j]], "impl": [a], "model": [m]})
            off += len(ai)
        stats["accepted"][name] = len(vals)
    # ---- the inline copies by execution: literal spelling (compile-time encoder) vs run-time spelling (generated code, through rustc)
    if inline is not None:
        import enc
        stats["inline_runtime_copies"] = {k: v for k, v in enc.sweep(run, inline, "both", thorough, crate="C14I").items() if k in ("literal", "runtime", "pairs_compared", "runtime_accepted", "expression_twins")}
        if unstated:
            found = (len(run.violations) + len(run.known_hit)) > found_before
            run.violation("broken-obligation", {"kind": "obligation-not-stated", "first": unstated[0][0]},
                          "; ".join(f"`{m}`: {w[:120]}" for (m, w) in unstated[:4]) + ": the inline run-time encoder of this operand can no longer be translated, so its theorems are not stated",
                          {"unstated": [list(u) for u in unstated]}, found_input=found)
    run.coverage["evaluations"] = stats["exhaustive_32bit_inputs"] + stats["queries64"]
    run.coverage["distinct_nontrivial"] = sum(stats["accepted"].values())
    run.coverage["rule"] = ("32-bit encoders (plugin + runtime copies): every one of the 2^32 inputs, accepted set with encodings compared with the decoder image from the Lean model; "
                            "64-bit encoders: all representable values (5334 logical, 262144 wide, 256 byte masks), single-bit flips and rotations of (a sample of) them, random values. "
                            "non-trivial = accepted (representable) input")
    run.coverage["traces_validated_against_impl"] = stats["queries64"] + len(ENC32)
    run.coverage["exhaustive"] = True
    run.coverage["distribution"] = stats
    run.coverage["samples"] = ["encsweep p.logical32", "enc p.logical64 6148914691236517205", "img logical64"]
    if imm_msg:
        run.violation("broken-correspondence", {"kind": "imm-translation"}, imm_msg, found_input=(len(run.violations) + len(run.known_hit)) > found_before)
    if not proofs_ok and hasattr(run, "broken_build"):
        found = (len(run.violations) + len(run.known_hit)) > found_before
        run.violation("broken-obligation", {"kind": "lean-build", "first": run.broken_build["first_error"][:200]}, run.broken_build["first_error"], run.broken_build, found_input=found)


def replay(path):
    rec = json.load(open(path))
    print(json.dumps({k: rec.get(k) for k in ("property", "kind", "what")}, indent=1))
    inp = rec.get("payload", {}).get("input")
    if not inp:
        print(json.dumps(rec.get("payload", {}), indent=1)[:3000])
        return 1
    common.build_harness("plug")
    print("\n".join(f"{r}\n  impl: {a}" for r, a in zip(inp, plug(inp))))
    return 0
