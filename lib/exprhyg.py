"""C03 — a run-time operand is an EXPRESSION: the macro must use it as a unit wherever it splices it into generated code.
For every macro case of the run-time sweeps a twin is built in which the run-time variable `v` is replaced by `0 | v` — the same value,
with the lowest-precedence integer operator at the top — and the twin must give exactly the outcome of the original on the same
values (bytes, or panic). A splice such as `! #expr` or `- #expr` without parentheses makes the twin assemble a different instruction."""
import re

import dyn

PROBE = "0 | v"
PROBE_LEFT = "v | 0"        # the variable on the left: shows a splice in front of a tighter-binding operator (`#expr >> 12`, `#expr & m`)
INT_TYPES = {"u8", "u16", "u32", "u64", "i8", "i16", "i32", "i64", "usize", "isize"}


def twin(case):
    vs = dict(case["vars"])
    if vs.get("v") not in INT_TYPES:
        return None
    body = re.sub(r"(?<![\w.>])v(?![\w.(])", PROBE, case["body"])
    return None if body == case["body"] else dict(case, body=body)


def twin_left(case):
    vs = dict(case["vars"])
    if vs.get("v") not in INT_TYPES:
        return None
    body = re.sub(r"(?<![\w.>])v(?![\w.(])", PROBE_LEFT, case["body"])
    return None if body == case["body"] else dict(case, body=body)


def compare_left(run, pid, focus, cases, reqs, results, per_case=8):
    """second probe, `v | 0`: built in a crate of its own because a splice such as `#expr as u32` turns it into a COMPILE error (mismatched
    types) — those cases are dropped (a compile error is not a silent difference), the others must behave exactly like `v`"""
    twins, ix = [], {}
    for i, c in enumerate(cases):
        t = twin_left(c)
        if t is not None:
            ix[i] = len(twins)
            twins.append(t)
    if not twins:
        return {"twins": 0}
    ok, log, dropped = dyn.build_tolerant(pid + "L", twins)
    if not ok:
        run.violation("broken-correspondence", {"kind": "harness-build", "harness": "dyn-expression-twins"}, "the crate with `v | 0` operand twins does not build even after dropping the cases rustc rejects",
                      {"log": log[-2500:]}, found_input=False)
        return {"twins": len(twins), "built": False}
    live = {i: j for i, j in ix.items() if j not in dropped}
    st = compare(run, pid + "L", focus, cases + twins, {i: len(cases) + j for i, j in live.items()}, reqs, results, per_case, remap=lambda k: k - len(cases))
    st["compile_errors"] = len(dropped)
    return st


def extend(cases):
    """returns (cases + twins, {index of a case: index of its twin})"""
    out, ix = list(cases), {}
    for i, c in enumerate(cases):
        t = twin(c)
        if t is not None:
            ix[i] = len(out)
            out.append(t)
    return out, ix


def compare(run, pid, focus, all_cases, twin_ix, reqs, results, per_case=8, remap=lambda k: k):
    """reqs/results: what the sweep ran on the original cases. Re-runs up to `per_case` of them per case (accepted and rejected ones) on the twin."""
    chosen, seen = [], {}
    for (ci, vals), (st, b) in zip(reqs, results):
        if ci not in twin_ix:
            continue
        k = seen.setdefault(ci, {"ok": 0, "other": 0})
        cls = "ok" if st == "ok" else "other"
        if k[cls] >= per_case // 2:
            continue
        k[cls] += 1
        chosen.append((ci, vals, st, b))
    tres = dyn.run(pid, [(remap(twin_ix[ci]), vals) for (ci, vals, _, _) in chosen])
    n = 0
    reported = set()
    for (ci, vals, st, b), (tst, tb) in zip(chosen, tres):
        n += 1
        same = (st == tst) and (st != "ok" or b == tb)
        # one report per mnemonic (the same splice serves every register list / operand variant of it)
        key = all_cases[ci]["body"].split(";")[-1].split()[0]
        if not same and key not in reported:
            reported.add(key)
            show = lambda s, x: x.hex() if s == "ok" else f"panic ({str(x)[:60]})"      # noqa: E731
            if focus == "C03":
                run.violation("failing-input", {"kind": "operand-expression-not-a-unit", "case": all_cases[ci]["body"][:80]},
                              f"dynasm!(ops {all_cases[twin_ix[ci]]['body']}) with v = {vals[-1]} gives {show(tst, tb)} but with the operand written `v` it gives {show(st, b)}: "
                              f"the expression is spliced into the generated code without parentheses",
                              {"stream": "dyn", "case": all_cases[twin_ix[ci]], "values": vals, "plain_case": all_cases[ci]})
    return {"twins": len(twin_ix), "twin_runs": n, "differing": len(reported)}
