"""C04 — unencodable operands are rejected, never silently truncated or wrapped.
Proof: Generated/A64Dyn.lean `ob<N>_accepts_doc` (documented set ⊆ accepted) and `ob<N>_injective` (accepted operands are encoded
injectively: nothing is masked into the field), with C03's dyn = static for the run-time spelling; Props/C04.lean.
Tie: as C03, plus on the implementation: documented values accepted in both spellings, accepted values pairwise distinct words."""
import c03

MODULES = ["DynasmVerif.Props.C04"]


def check(run):
    c03.check(run, focus="C04", modules=MODULES, suffix=("_accepts_doc", "_injective"))


replay = c03.replay
