"""Instruction forms of the aarch64 / riscv tables as instantiable templates (from `plug extract <arch>`, i.e. the repo's own
`extract_opmap()` with the documented operand constraints), with deterministic, boundary-directed operand domains.

A Form has slots (operand placeholders `<Kind,idx>`), a constraint per slot index, and renders to dynasm syntax and to
GNU/LLVM syntax. Used by C02 C03 C04 C19 C20."""
import ast
import math
import re

import common

SUB = re.compile(r"<([a-zA-Z]+),([0-9]+)>")
OPTIONAL = re.compile(r"<[^<>]*>")


class R:
    def __init__(self, count, scale=1):
        # riscv uses a bit mask of allowed registers, aarch64 a count (+ step)
        self.count, self.scale = count, scale

    def allowed(self):
        if self.count > 64:      # mask
            return [i for i in range(32) if (self.count >> i) & 1]
        return list(range(0, self.count, self.scale))


class Range:
    def __init__(self, lo, hi, step):
        self.lo, self.hi, self.step = lo, hi, step

    def values(self, full_limit):
        n = (self.hi - self.lo + self.step - 1) // self.step
        if n <= full_limit:
            return list(range(self.lo, self.hi, self.step))
        last = self.lo + (n - 1) * self.step
        c = {self.lo, self.lo + self.step, last, last - self.step, 0 if self.lo <= 0 < self.hi and (0 - self.lo) % self.step == 0 else self.lo}
        # a few interior points with single bits / alternating bits
        k = 1
        while k * self.step < self.hi - self.lo:
            c.add(self.lo + k * self.step)
            c.add(last - k * self.step)
            k *= 2
        return sorted(v for v in c if self.lo <= v < self.hi)

    def outside(self):
        last = self.lo + ((self.hi - self.lo - 1) // self.step) * self.step
        out = [self.lo - self.step, last + self.step, self.lo - 1, self.hi, self.hi + 1]
        if self.step > 1:
            out += [self.lo + 1, last - 1, self.lo + self.step - 1]
        return sorted(set(out))


class RangeNon0(Range):
    def values(self, full_limit):
        return [v for v in Range.values(self, full_limit) if v != 0]

    def outside(self):
        return sorted(set(Range.outside(self) + [0]))


class Range2(Range):
    """depends on the previous operand: 1 ..= max - prev"""
    pass


class List_:
    def __init__(self, *opts):
        self.options = list(opts)


class ModWX:
    pass


class RNext:
    pass


class Special:
    def __init__(self, kind):
        self.kind = kind


class Named:
    """riscv: Csr / RoundingMode / FenceSpec / FloatingPointImmediate / Rdifferent / RList / StackAdjustImmediate"""
    def __init__(self, kind, *args):
        self.kind, self.args = kind, args


def _ctx():
    d = dict(R=R, Range=Range, Range2=Range2, RangeNon0=RangeNon0, List=List_, ModWX=ModWX, RNext=RNext, Special=Special)
    for k in ("Csr", "RoundingMode", "FenceSpec", "FloatingPointImmediate", "Rdifferent", "RList", "StackAdjustImmediate"):
        d[k] = (lambda kind: (lambda *a: Named(kind, *a)))(k)
    return d


def logical_imms(bits, rng=None):
    out = []
    sizes = [2, 4, 8, 16, 32, 64] if bits == 64 else [2, 4, 8, 16, 32]
    for es in sizes:
        for ones in sorted({1, 2, es // 2, es - 1}):
            if not 0 < ones < es:
                continue
            for rot in sorted({0, 1, es // 2, es - 1}):
                el = ((1 << ones) - 1)
                el = ((el >> rot) | (el << (es - rot))) & ((1 << es) - 1) if rot else el
                v = 0
                for k in range(bits // es):
                    v |= el << (k * es)
                out.append(v)
    return sorted(set(out))


def special_values(kind):
    if kind == "wide_w":
        return [0, 1, 0xFFFF, 0x10000, 0xFFFF0000, 0x8000, 0x12340000]
    if kind == "wide_x":
        return [0, 1, 0xFFFF, 0xFFFF0000, 0xFFFF << 32, 0xFFFF << 48, 0x8000 << 48, 0x1234 << 16]
    if kind == "inverted_w":
        return [v ^ 0xFFFFFFFF for v in special_values("wide_w")]
    if kind == "inverted_x":
        return [v ^ 0xFFFFFFFFFFFFFFFF for v in special_values("wide_x")]
    if kind == "logical_w":
        return logical_imms(32)[:40]
    if kind == "logical_x":
        return logical_imms(64)[:50]
    if kind == "float":
        return [((-1.0) ** s) * (2.0 ** e) * ((16.0 + m) / 16.0) for s in (0, 1) for e in (-3, 0, 4) for m in (0, 1, 15)]
    if kind == "stretched":
        out = []
        for imm in (0, 1, 0x80, 0xFF, 0xA5, 0x5A, 0x0F):
            v = 0
            for b in range(8):
                if (imm >> b) & 1:
                    v |= 0xFF << (8 * b)
            out.append(v)
        return out
    raise NotImplementedError(kind)


A64_REG = {"W": "w", "X": "x", "WSP": "w", "XSP": "x", "B": "b", "H": "h", "S": "s", "D": "d", "Q": "q", "V": "v", "WX": "x"}


class Form:
    def __init__(self, arch, template, constraints, extra=None, line=0):
        self.arch, self.template, self.constraints, self.extra, self.line = arch, template, constraints, extra or [], line
        self.mnemonic = template.split()[0] if template.split() else ""
        self.slots = [(k, int(i)) for (k, i) in SUB.findall(template)]
        self.indices = []
        for (_, i) in self.slots:
            if i not in self.indices:
                self.indices.append(i)

    def kind_of(self, idx):
        return next(k for (k, i) in self.slots if i == idx)

    # ---- domains
    def domain(self, idx, full_limit=64, prev=None):
        c = self.constraints.get(idx)
        kind = self.kind_of(idx)
        if isinstance(c, R):
            return c.allowed()
        if kind == "Off":
            # a jump-target operand: a label (only a label reaches the entries whose matcher is `Offset` when an `Imm` entry of the
            # same shape precedes them) and the immediate values the constraint documents
            base = c.values(full_limit) if isinstance(c, Range) else [0, 4, 8]
            return ["->lbl"] + base
        if isinstance(c, Range2):
            hi = c.hi - (prev if isinstance(prev, int) else 0)
            return Range(1, max(2, hi), c.step).values(full_limit)
        if isinstance(c, Range):
            return c.values(full_limit)
        if isinstance(c, List_):
            return list(c.options)
        if isinstance(c, ModWX):
            return ["LSL", "SXTX", "UXTW", "SXTW"]
        if isinstance(c, RNext):
            return ["next"]
        if isinstance(c, Special):
            return special_values(c.kind)
        if isinstance(c, Named):
            return named_values(c)
        if c is None:
            if kind in ("Imm", "Off"):
                return [0, 4, 8]
            if kind == "Ident":
                return []
            return [0, 1]
        raise NotImplementedError(type(c))

    def base_values(self):
        """one valid value per slot (None if a slot has no known domain)"""
        vals = {}
        prev = None
        for idx in self.indices:
            d = self.domain(idx, prev=prev)
            if not d:
                return None
            c = self.constraints.get(idx)
            v = d[min(1, len(d) - 1)] if isinstance(c, (R,)) else d[0]
            if isinstance(c, ModWX):
                v = "LSL"
            vals[idx] = v
            prev = v
        return vals

    # ---- rendering
    def reg_text(self, kind, v, dynamic):
        if self.arch == "aarch64":
            if dynamic:
                fam = "X" if kind == "WX" else kind
                return f"{fam}({v})"
            if v == 31 and kind in ("W", "X", "WX"):
                return {"W": "wzr", "X": "xzr", "WX": "xzr"}[kind]
            if v == 31 and kind == "WSP":
                return "wsp"
            if v == 31 and kind == "XSP":
                return "sp"
            return f"{A64_REG[kind]}{v}"
        # riscv
        if dynamic:
            return f"{kind}({v})"
        return f"{'x' if kind == 'X' else 'f'}{v}"

    def render(self, vals, dynamic=(), optionals=True, runtime=None):
        """dynamic: slot indices rendered as dynamic registers; runtime: {idx: expr text} immediates replaced by a Rust expression"""
        runtime = runtime or {}
        out = {}
        prev_val, prev_dyn = None, False
        for (kind, idx) in self.slots:
            v = vals[idx]
            c = self.constraints.get(idx)
            if idx in runtime:
                txt = runtime[idx]
                if kind in A64_REG or kind in ("X", "F"):
                    prev_dyn = True      # a register given as a run-time expression: a following "next register" slot must be written xzr/wzr
            elif kind in A64_REG or kind in ("X", "F") and self.arch == "riscv":
                if isinstance(c, RNext):
                    # the register after the previous one; with a dynamic predecessor the syntax requires XZR/WZR
                    txt = self.reg_text(kind, 31, False) if prev_dyn else self.reg_text(kind, (prev_val + 1) % 32, False)
                else:
                    dyn = idx in dynamic and not (self.arch == "aarch64" and "SP" in kind and v != 31)
                    txt = self.reg_text(kind, v, dyn)
                    prev_dyn = dyn
                prev_val = v if isinstance(v, int) else prev_val
            elif kind in ("Imm", "Off"):
                txt = repr(v) if isinstance(v, float) else str(v)
                if isinstance(v, str) and v.startswith("->"):
                    txt = "@@GLOBAL@@" + v[2:]      # `<`/`>` are the template's optional markers: put the arrow back at the end
                prev_val = v if isinstance(v, int) else prev_val
            else:
                txt = str(v)
            out[idx] = txt
        s = SUB.sub(lambda m: out[int(m.group(2))], self.template)
        if not optionals:
            while "<" in s:
                s2 = OPTIONAL.sub("", s)
                if s2 == s:
                    break
                s = s2
        return s.replace("<", "").replace(">", "").replace("@@GLOBAL@@", "->")


def named_values(c):
    k = c.kind
    if k == "RoundingMode":
        return ["rne", "rtz", "rdn", "rup", "rmm", "dyn"]
    if k == "FenceSpec":
        return ["iorw", "rw", "r", "w", "i", "o", "io"]
    if k == "Csr":
        return ["fflags", "cycle", "0", "0xFFF", "0x300"]
    if k == "FloatingPointImmediate":
        return ["1.0", "0.5", "min", "inf", "nan"]
    if k == "RList":
        return ["{ra}", "{ra, s0}", "{ra, s0-s1}", "{ra, s0-s11}", "{ra; 3}"]
    if k == "StackAdjustImmediate":
        return []     # depends on the register list: handled by the dedicated sweep
    if k == "Rdifferent":
        return [8, 9, 18, 23]
    return []


def load(arch):
    """arch in aarch64 | riscv. Returns list of Form."""
    rc, out = common.sh([common.PLUG, "extract", arch])
    if rc != 0:
        raise RuntimeError(f"plug extract {arch} failed")
    ctx = _ctx()
    forms = []
    for n, line in enumerate(out.splitlines()):
        parts = line.split("\t")
        if len(parts) < 2 or not parts[0].startswith('"'):
            continue
        template = ast.literal_eval(parts[0].strip())
        constraints = eval(parts[1].strip(), ctx)
        for c in constraints.values():
            # identifier lists come out of a hash map in varying order: sort them so that every run instantiates the same operands
            if isinstance(c, List_) and all(isinstance(o, str) for o in c.options):
                c.options.sort()
        extra = [ast.literal_eval(p) for p in parts[2:]] if len(parts) > 2 else []
        forms.append(Form(arch, template, constraints, extra, n))
    return forms
