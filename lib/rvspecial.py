"""C04 on riscv operands that are not plain integers and that llvm-mc 14 cannot check (Zcmp, Zfa) or checks only by name (CSR):
an independent reference written from the ISA manuals —
  Zcmp cm.push/cm.pop/cm.popret/cm.popretz: rlist = 4 ({ra}) … 15 ({ra, s0-s11}; s0-s10 does not exist), stack_adj = base(rlist, XLEN) + 16*spimm,
        spimm in 0..3, base = 16 * ceil((#registers * XLEN/8) / 16);
  Zfa fli.{h,s,d,q}: the 32-entry constant table, index in rs1;
  Zicsr: the 12-bit CSR number in bits 31:20 —
compared with the plugin (literal spelling) and the real macro (run-time spelling): every value of the operand set is accepted and lands in
its field, everything outside is rejected / panics. The reference was validated against the GNU-as vectors pinned in the repo's tests."""
import json
import struct

import common
import dyn

FLI = [-1.0, "min", 2.0 ** -16, 2.0 ** -15, 2.0 ** -8, 2.0 ** -7, 0.0625, 0.125, 0.25, 0.3125, 0.375, 0.4375, 0.5, 0.625, 0.75, 0.875,
       1.0, 1.25, 1.5, 1.75, 2.0, 2.5, 3.0, 4.0, 8.0, 16.0, 128.0, 256.0, 2.0 ** 15, 2.0 ** 16, "inf", "nan"]
RLIST_TEXT = {4: "{ra}", 5: "{ra, s0}", **{k: "{ra, s0-s%d}" % (k - 5) for k in range(6, 15)}, 15: "{ra, s0-s11}"}
ZCMP = {"cm.push": (0b10111000, -1), "cm.pop": (0b10111010, 1), "cm.popret": (0b10111110, 1), "cm.popretz": (0b10111100, 1)}


def zcmp_base(rlist, xlen):
    nregs = rlist - 3 if rlist < 15 else 13
    return 16 * ((nregs * (xlen // 8) + 15) // 16)


def plug(reqs):
    _, out = common.sh([common.PLUG, "exec"], inp="\n".join(reqs) + "\n", timeout=600)
    return [a for (_, a) in common.answers_of_impl(out)]


def const16or32(a):
    if not a.startswith("ok "):
        return None
    st = json.loads(a[3:])
    if len(st) != 1 or st[0][:2] not in ("c2", "c4"):
        return "dynamic"
    return int(st[0][3:], 16)


def sweep(run, thorough):
    stats = {"zcmp_literal": 0, "zcmp_runtime": 0, "fli": 0, "csr_literal": 0, "csr_runtime": 0, "accepted": 0, "rejected": 0}

    def bad(kind, line, what, payload=None):
        run.violation("failing-input", {"kind": kind, "line": line[:70]}, f"`{line}`: {what}", payload or {"stream": "plug", "input": ["cl " + line]})

    # ------------------------------------------------------------------ Zcmp, literal
    reqs, meta = [], []
    for xlen in (64, 32):
        for mn, (funct, sign) in ZCMP.items():
            for rlist in range(4, 16):
                base = zcmp_base(rlist, xlen)
                for adj in sorted({base - 16, base - 8, base, base + 8, base + 16, base + 32, base + 48, base + 56, base + 64, 0, 16}):
                    if adj < 0:
                        continue
                    line = f"; .arch riscv{xlen} ; .feature zcmp ; {mn} {RLIST_TEXT[rlist]}, {sign * adj}"
                    reqs.append("cl " + line)
                    ok = adj >= base and (adj - base) % 16 == 0 and (adj - base) // 16 <= 3
                    meta.append((line, ((funct << 8) | (rlist << 4) | (((adj - base) // 16) << 2) | 0b10) if ok else None))
        # the register list that does not exist, and an empty adjustment sign error
        reqs.append(f"cl ; .arch riscv{xlen} ; .feature zcmp ; cm.push {{ra, s0-s10}}, -112")
        meta.append((reqs[-1][3:], None))
        reqs.append(f"cl ; .arch riscv{xlen} ; .feature zcmp ; cm.push {{ra, s0}}, 32")
        meta.append((reqs[-1][3:], None))
    for (line, want), a in zip(meta, plug(reqs)):
        stats["zcmp_literal"] += 1
        got = const16or32(a)
        if a.startswith("panic"):
            bad("compile-panic", line, f"panics the compiler: {a[:120]}")
        elif got == "dynamic":
            continue
        elif want is None and got is not None:
            bad("zcmp-accepts-unencodable", line, f"is accepted and assembles to {got:#06x} although this register list / stack adjustment cannot be encoded")
        elif want is not None and got is None:
            bad("zcmp-rejects-valid", line, f"is rejected ({a[:90]}) although rlist and stack adjustment are encodable as {want:#06x}")
        elif want is not None and got != want:
            bad("zcmp-wrong-field", line, f"assembles to {got:#06x}, the Zcmp encoding is {want:#06x}")
        stats["accepted" if got is not None else "rejected"] += 1
    # ------------------------------------------------------------------ Zcmp, run-time stack adjustment
    cases, cmeta = [], []
    for xlen in (64, 32):
        for mn, (funct, sign) in ZCMP.items():
            for rlist in (4, 5, 6, 7, 9, 12, 14, 15):
                cases.append(dict(body=f"; .arch riscv{xlen} ; .feature zcmp ; {mn} {RLIST_TEXT[rlist]}, v", vars=[("v", "i32")]))
                cmeta.append((xlen, mn, funct, sign, rlist))
    import exprhyg
    all_cases, twin_ix = exprhyg.extend(cases)
    ok, log = dyn.build("C04Z", all_cases)
    if not ok:
        run.violation("broken-correspondence", {"kind": "harness-build", "harness": "dyn-zcmp"}, "the generated crate with Zcmp run-time stack adjustments does not build", {"log": log[-2000:]}, found_input=False)
    else:
        reqs, want = [], []
        for i, (xlen, mn, funct, sign, rlist) in enumerate(cmeta):
            base = zcmp_base(rlist, xlen)
            for adj in sorted({base - 16, base - 1, base, base + 1, base + 8, base + 16, base + 32, base + 48, base + 64, 0, 1 << 20}):
                for sg in (1, -1):
                    v = sg * adj
                    reqs.append((i, [v]))
                    okv = sg == sign and adj >= base and (adj - base) % 16 == 0 and (adj - base) // 16 <= 3
                    want.append(((funct << 8) | (rlist << 4) | (((adj - base) // 16) << 2) | 0b10) if okv or (adj == 0 and False) else None)
        zres = dyn.run("C04Z", reqs)
        stats["expression_twins"] = exprhyg.compare(run, "C04Z", "C03", all_cases, twin_ix, reqs, zres)
        for (i, vals), w, (st, b) in zip(reqs, want, zres):
            stats["zcmp_runtime"] += 1
            got = int.from_bytes(b, "little") if st == "ok" else None
            if got != w:
                run.violation("failing-input", {"kind": "zcmp-runtime", "case": cases[i]["body"][:70]},
                              f"dynasm!(ops {cases[i]['body']}) with v = {vals[0]}: " + (f"assembles to {got:#06x}" if got is not None else f"panics ({b[:60]})") +
                              (f", the Zcmp encoding is {w:#06x}" if w is not None else " although this stack adjustment cannot be encoded for the register list"),
                              {"stream": "dyn", "case": cases[i], "values": vals})
    # ------------------------------------------------------------------ Zcmp, register list by count `{ra; n}` (n = number of s registers), and the E profile
    # n literal: the macro still lowers it to an expression, so the bytes come from rustc; n at run time: `n as _` (the macro binds it as u32 and as u8).
    # The list must mean exactly what `{ra, s0-s(n-1)}` means; n = 11 does not exist; on RV32E/RV64E only s0 and s1 exist (n <= 2).
    ccases, cmeta2 = [], []
    lreq, lmeta = [], []
    for xlen in (64, 32):
        for prof in ("", "e"):
            nmax = 2 if prof == "e" else 12
            for mn, (funct, sign) in (list(ZCMP.items()) if thorough else [("cm.push", ZCMP["cm.push"]), ("cm.popret", ZCMP["cm.popret"])]):
                for n in range(0, 15):
                    rlist = 15 if n == 12 else n + 4
                    valid = n <= nmax and n != 11 and n <= 12
                    base = zcmp_base(rlist, xlen) if n <= 12 and n != 11 else 16
                    body = f"; .arch riscv{xlen}{prof} ; .feature zcmp ; {mn} {{ra; {n}}}, {sign * (base + 16)}"
                    lreq.append("cl " + body)
                    lmeta.append((body, ((funct << 8) | (rlist << 4) | (1 << 2) | 0b10) if valid else None))
                for adj in ((64, 112) if xlen == 64 else (48, 64)):
                    ccases.append(dict(body=f"; .arch riscv{xlen}{prof} ; .feature zcmp ; {mn} {{ra; n as _}}, {sign * adj}", vars=[("n", "u32")]))
                    cmeta2.append((xlen, prof, nmax, funct, adj))
            # the textual list on the E profile: beyond s1 is a compile error
            for rlist in range(4, 16):
                body = f"; .arch riscv{xlen}{prof} ; .feature zcmp ; cm.push {RLIST_TEXT[rlist]}, {-(zcmp_base(rlist, xlen))}"
                lreq.append("cl " + body)
                lmeta.append((body, ((ZCMP["cm.push"][0] << 8) | (rlist << 4) | 0b10) if (rlist <= 6 or prof == "") else None))
    lans = plug(lreq)
    # literal counts: accepted ones are expressions → evaluate them by compiling
    lit_cases = [dict(body=b, vars=[]) for (b, w), a in zip(lmeta, lans) if a.startswith("ok ") and const16or32(a) == "dynamic"]
    for (b, w), a in zip(lmeta, lans):
        stats["zcmp_count_literal"] = stats.get("zcmp_count_literal", 0) + 1
        got = const16or32(a)
        if a.startswith("panic"):
            bad("compile-panic", b, f"panics the compiler: {a[:120]}")
        elif got == "dynamic":
            continue
        elif w is None and got is not None:
            bad("zcmp-accepts-unencodable", b, f"is accepted and assembles to {got:#06x} although this register list does not exist for the target")
        elif w is not None and got is None:
            bad("zcmp-rejects-valid", b, f"is rejected ({a[:90]}) although the register list exists ({w:#06x})")
        elif w is not None and got != w:
            bad("zcmp-wrong-field", b, f"assembles to {got:#06x}, the Zcmp encoding is {w:#06x}")
    ok, log = dyn.build("C04ZN", lit_cases + ccases)
    if not ok:
        run.violation("broken-correspondence", {"kind": "harness-build", "harness": "dyn-zcmp-count"}, "the generated crate with Zcmp register lists by count does not build", {"log": log[-2000:]}, found_input=False)
    else:
        want_by_body = dict(lmeta)
        reqs = [(i, []) for i in range(len(lit_cases))]
        want = [want_by_body[c["body"]] for c in lit_cases]
        for j, (xlen, prof, nmax, funct, adj) in enumerate(cmeta2):
            for n in range(0, 17):
                rlist = 15 if n == 12 else n + 4
                valid = n <= nmax and n != 11 and n <= 12
                base = zcmp_base(rlist, xlen) if valid else 0
                okv = valid and adj >= base and (adj - base) % 16 == 0 and (adj - base) // 16 <= 3
                reqs.append((len(lit_cases) + j, [n]))
                want.append(((funct << 8) | (rlist << 4) | (((adj - base) // 16) << 2) | 0b10) if okv else None)
        allc = lit_cases + ccases
        for (i, vals), w, (st, b) in zip(reqs, want, dyn.run("C04ZN", reqs)):
            stats["zcmp_count_runtime"] = stats.get("zcmp_count_runtime", 0) + 1
            got = int.from_bytes(b, "little") if st == "ok" else None
            if got != w:
                run.violation("failing-input", {"kind": "zcmp-count", "case": allc[i]["body"][:70]},
                              f"dynasm!(ops {allc[i]['body']})" + (f" with n = {vals[0]}" if vals else "") + ": " +
                              (f"assembles to {got:#06x}" if got is not None else f"panics ({b[:60]})") +
                              (f", the Zcmp encoding is {w:#06x}" if w is not None else " although this register list / stack adjustment does not exist for the target"),
                              {"stream": "dyn", "case": allc[i], "values": vals})
    # ------------------------------------------------------------------ Zfa fli
    reqs, meta = [], []
    for (mn, feat, fmt) in (("fli.s", "f, zfa", 0b00), ("fli.d", "d, zfa", 0b01), ("fli.h", "zfh, zfa", 0b10), ("fli.q", "q, zfa", 0b11)):
        for idx, val in enumerate(FLI):
            txt = val if isinstance(val, str) else repr(val)
            line = f"; .arch riscv64 ; .feature {feat} ; {mn} f3, {txt}"
            reqs.append("cl " + line)
            meta.append((line, (0b1111000 << 25) | (fmt << 25) | (1 << 20) | (idx << 15) | (3 << 7) | 0b1010011))
        # non-constants, among them doubles that only ROUND to a table constant
        for val in (0.3, 5.0, 1.1, -2.0, 0.0, 65537.0, 0.03125, "0.2500000001", "1.00000001", "0.12500000001", "2.0000000000000004", "65535.999999999"):
            line = f"; .arch riscv64 ; .feature {feat} ; {mn} f3, {val if isinstance(val, str) else repr(val)}"
            reqs.append("cl " + line)
            meta.append((line, None))
    for (line, want), a in zip(meta, plug(reqs)):
        stats["fli"] += 1
        got = const16or32(a)
        if want is None and got is not None and got != "dynamic":
            bad("fli-accepts-non-constant", line, f"is accepted ({got:#010x}) although the value is not one of the 32 Zfa constants")
        elif want is not None and got is None:
            bad("fli-rejects-constant", line, f"is rejected ({a[:80]}) although the value is Zfa constant number {(want >> 15) & 31}")
        elif want is not None and got != "dynamic" and got != want:
            bad("fli-wrong-index", line, f"assembles to {got:#010x}; the Zfa table puts this constant at index {(want >> 15) & 31} ({want:#010x})")
    # ------------------------------------------------------------------ CSR numbers, literal and run-time
    nums = sorted(set(range(0, 4096, 1 if thorough else 37)) | {0, 1, 2, 3, 0x7FF, 0x800, 0xC00, 0xFFE, 0xFFF})
    outside = [4096, 4097, 8191, 65536, 1 << 31]
    reqs = [f"cl ; .arch riscv64 ; .feature zicsr ; csrrw x1, {n}, x2" for n in nums + outside]
    for n, a in zip(nums + outside, plug(reqs)):
        stats["csr_literal"] += 1
        got = const16or32(a)
        want = ((n << 20) | (2 << 15) | (1 << 12) | (1 << 7) | 0b1110011) if n < 4096 else None
        if got == "dynamic":
            continue
        if got != want:
            bad("csr-number", f"; .arch riscv64 ; .feature zicsr ; csrrw x1, {n}, x2", (f"assembles to {got:#010x}" if got is not None else f"is rejected ({a[:60]})") +
                (f", CSR {n:#x} belongs in bits 31:20 ({want:#010x})" if want is not None else " although a CSR number has 12 bits"))
    case = [dict(body="; .arch riscv64 ; .feature zicsr ; csrrw x1, v, x2", vars=[("v", "u32")])]
    ok, log = dyn.build("C04C", case)
    if ok:
        rq = [(0, [n]) for n in nums[:: (1 if thorough else 4)] + outside]
        for (i, vals), (st, b) in zip(rq, dyn.run("C04C", rq)):
            stats["csr_runtime"] += 1
            n = vals[0]
            got = int.from_bytes(b, "little") if st == "ok" else None
            want = ((n << 20) | (2 << 15) | (1 << 12) | (1 << 7) | 0b1110011) if n < 4096 else None
            if got != want:
                run.violation("failing-input", {"kind": "csr-runtime", "n": n if n >= 4096 else "in-range"}, f"dynasm!(ops {case[0]['body']}) with v = {n}: " +
                              (f"assembles to {got:#010x}" if got is not None else "panics") + (f", expected {want:#010x}" if want is not None else " although a CSR number has 12 bits"),
                              {"stream": "dyn", "case": case[0], "values": vals})
    return stats
