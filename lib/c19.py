"""C19 — instruction-table entries are internally consistent.
Proof: lean/DynasmVerif/Props/C19.lean over Generated/{A64,Rv,X64}All.lean — the tables dumped from the compiled working tree on
this run, every entry checked by `decide +kernel` against Model/{A64,Rv,X64}Table.wellFormed; fields_read_back (generic).
Tie: T-data (the theorem is about today's tables) + no-panic / independence / injectivity sweep through the plugin-as-library."""
import json
import os
import re

import common
import forms
import tables
from common import SplitMix

MODULES = ["DynasmVerif.Props.C19"]


def words_of(ans):
    """constant words of an `ok [...]` answer, or None if not all-constant"""
    if not ans.startswith("ok "):
        return None
    out = []
    for s in json.loads(ans[3:]):
        k, _, v = s.partition("|")
        if k in ("c1", "c2", "c4", "c8"):
            out.append((k, int(v, 16)))
        elif k == "x":
            out.append((k, v))
        elif k in ("gj", "fj", "bj", "dj", "xj"):
            out.append((k, s))
        else:
            return None
    return tuple(out)


def header(f):
    if f.arch == "aarch64":
        return "; .arch aarch64 ;"
    isa = "riscv64" if "rv64" in f.extra[0] else "riscv32"
    return f"; .arch {isa} ; .feature {f.extra[1][0]} ;"


def bit_partners(dom):
    """pairs of domain values that differ in exactly one bit (one pair per bit position)"""
    ints = [v for v in dom if isinstance(v, int)]
    s = set(ints)
    pairs = {}
    for v in ints:
        for b in range(0, 33):
            w = v ^ (1 << b)
            if w in s and b not in pairs:
                pairs[b] = (v, w)
    return list(pairs.values())


def upd(base, **kw):
    raise NotImplementedError


def with_(base, changes):
    d = dict(base)
    d.update(changes)
    return d


def sweep_requests(fs, thorough, rng, directed=False):
    """(requests, plan): plan entries describe what to compare"""
    reqs, plan = [], []

    def add(f, vals):
        reqs.append("cl " + header(f) + " " + f.render(vals))
        return len(reqs) - 1

    for fi, f in enumerate(fs):
        base = f.base_values()
        if base is None:
            continue
        b = add(f, base)
        plan.append(("base", fi, b))
        doms = {}
        prev = None
        for idx in f.indices:
            d = f.domain(idx, full_limit=64 if thorough else 16, prev=prev)
            doms[idx] = d
            prev = base[idx]
        # injectivity: two operand values differing in one bit give different encodings
        for idx in f.indices:
            if isinstance(f.constraints.get(idx), (forms.RNext, forms.Range2)) or any(isinstance(f.constraints.get(j), (forms.Range2, forms.RNext)) for j in f.indices):
                continue
            for (v, w) in bit_partners(doms[idx])[: (33 if thorough else 6)]:
                a = add(f, with_(base, {idx: v}))
                c = add(f, with_(base, {idx: w}))
                plan.append(("inj", fi, idx, v, w, a, c))
        # independence: changing two operands changes disjoint bits. Only register operands are varied (and never to 31 / sp / zr):
        # a register number below 31 cannot change which table entry matches, so all four encodings come from the same entry.
        ids = [i for i in f.indices if isinstance(f.constraints.get(i), forms.R) and f.kind_of(i) not in ("WSP", "XSP")
               and not any(isinstance(f.constraints.get(j), (forms.Range2, forms.RNext)) for j in f.indices)]
        if directed:
            # the table theorem already failed for this mnemonic: also vary plain range immediates (non-zero values)
            ids += [i for i in f.indices if type(f.constraints.get(i)) is forms.Range and f.kind_of(i) == "Imm"
                    and not any(isinstance(f.constraints.get(j), (forms.Range2, forms.RNext)) for j in f.indices)]
        for x in range(len(ids)):
            for y in range(x + 1, len(ids)):
                j, k = ids[x], ids[y]
                dj_ = [v for v in doms[j] if v != 31 and v != base[j] and v != 0 and isinstance(v, int)]
                dk_ = [v for v in doms[k] if v != 31 and v != base[k] and v != 0 and isinstance(v, int)]
                if not dj_ or not dk_:
                    continue
                alts_j = [dj_[-1], dj_[len(dj_) // 2]][: (2 if thorough else 1)]
                alts_k = [dk_[-1], dk_[len(dk_) // 2]][: (2 if thorough else 1)]
                for aj in alts_j:
                    for ak in alts_k:
                        wj = add(f, with_(base, {j: aj}))
                        wk = add(f, with_(base, {k: ak}))
                        wjk = add(f, with_(base, {j: aj, k: ak}))
                        plan.append(("ind", fi, j, aj, k, ak, b, wj, wk, wjk))
    return reqs, plan


def xor_words(a, b):
    if a is None or b is None or len(a) != len(b):
        return None
    out = []
    for (k1, v1), (k2, v2) in zip(a, b):
        if k1 != k2 or not isinstance(v1, int):
            if (k1, v1) == (k2, v2):
                out.append(0)
                continue
            return None
        out.append(v1 ^ v2)
    return tuple(out)


def run_sweep(run, fs, thorough, rng, only_mnemonics=None):
    sel = [f for f in fs if only_mnemonics is None or f.mnemonic in only_mnemonics]
    reqs, plan = sweep_requests(sel, thorough, rng, directed=only_mnemonics is not None)
    chunks = [reqs[i:i + 20000] for i in range(0, len(reqs), 20000)]

    def go(ch):
        rc, out = common.sh([common.PLUG, "exec"], inp="\n".join(ch) + "\n")
        return [a for (_, a) in common.answers_of_impl(out)]
    answers = [a for part in common.parallel_map(go, chunks) for a in part]
    stats = {"requests": len(reqs), "answered": len(answers), "forms": len(sel), "panics": 0, "inj": 0, "ind": 0, "rejected": 0}
    if len(answers) != len(reqs):
        run.violation("broken-correspondence", {"kind": "plug-crash"}, f"harness/plug answered {len(answers)} of {len(reqs)} requests", found_input=False)
        return stats
    found = 0
    for p in plan:
        if p[0] == "base":
            a = answers[p[2]]
            if a.startswith("panic"):
                stats["panics"] += 1
                if found < 3:
                    found += 1
                    run.violation("failing-input", {"kind": "macro-panic", "mnemonic": sel[p[1]].mnemonic},
                                  f"the macro panics on an instantiation its matcher accepts: `{reqs[p[2]][3:]}`: {a[:160]}",
                                  {"stream": "plug", "input": [reqs[p[2]]], "impl": [a]})
            elif not a.startswith("ok"):
                stats["rejected"] += 1
        elif p[0] == "inj":
            _, fi, idx, v, w, ia, ic = p
            for i in (ia, ic):
                if answers[i].startswith("panic"):
                    stats["panics"] += 1
                    if found < 3:
                        found += 1
                        run.violation("failing-input", {"kind": "macro-panic", "mnemonic": sel[fi].mnemonic},
                                      f"the macro panics on `{reqs[i][3:]}`: {answers[i][:160]}", {"stream": "plug", "input": [reqs[i]], "impl": [answers[i]]})
            wa, wc = words_of(answers[ia]), words_of(answers[ic])
            if wa is None or wc is None:
                continue
            stats["inj"] += 1
            if wa == wc and found < 6:
                found += 1
                run.violation("failing-input", {"kind": "operand-lost", "mnemonic": sel[fi].mnemonic, "slot": idx},
                              f"`{reqs[ia][3:]}` and `{reqs[ic][3:]}` differ in operand {idx} ({v} vs {w}) but assemble to the same bytes {answers[ia][:60]}: "
                              f"a bit of the operand is swallowed by the template or another field",
                              {"stream": "plug", "input": [reqs[ia], reqs[ic]], "impl": [answers[ia], answers[ic]]})
        else:
            _, fi, j, aj, k, ak, b, wj, wk, wjk = p
            W0, Wj, Wk, Wjk = (words_of(answers[i]) for i in (b, wj, wk, wjk))
            dj, dk, djk = xor_words(W0, Wj), xor_words(W0, Wk), xor_words(W0, Wjk)
            if dj is None or dk is None or djk is None:
                continue
            stats["ind"] += 1
            clash = any(x & y for x, y in zip(dj, dk))
            nonadd = any((x ^ y) != z for x, y, z in zip(dj, dk, djk))
            if (clash or nonadd) and found < 6:
                found += 1
                run.violation("failing-input", {"kind": "operands-interfere", "mnemonic": sel[fi].mnemonic, "slots": [j, k]},
                              f"operands {j} and {k} of `{reqs[b][3:]}` are not independent: changing {j}→{aj} flips {[hex(x) for x in dj]}, changing {k}→{ak} flips "
                              f"{[hex(x) for x in dk]}, changing both flips {[hex(x) for x in djk]}",
                              {"stream": "plug", "input": [reqs[i] for i in (b, wj, wk, wjk)], "impl": [answers[i] for i in (b, wj, wk, wjk)]})
    return stats


def check(run):
    rng = SplitMix(run.seed)
    thorough = run.tier == "thorough"
    common.base_trusted(run)
    run.coverage["trusted_base"] += ["lib/tables.py + lib/rustdebug.py (syntactic translation of the dumped tables into Lean literals)",
                                     "harness/plug (the plugin compiled as a library, build.rs widening visibility) and the proc-macro-error2 shim",
                                     "Model/{A64,Rv,X64}Table.lean: cmdMask/cmdFields list the bits each command writes (transcribed from compile_instruction)"]
    run.assumptions += ["x64: the table predicate is proved; that it implies 'no panic' is checked by the sweep, not by a Lean theorem",
                        "aarch64 LitList commands may share bits with the template where every literal has them set (checked per literal)"]
    ok, log = common.build_harness("plug")
    if not ok:
        run.violation("broken-correspondence", {"kind": "harness-build"}, "harness/plug does not build against the working tree (the plugin no longer has the expected module layout)",
                      {"log": log[-3000:]}, found_input=False)
        return
    gen_info, gen_err = {}, None
    try:
        gen_info["a64"] = tables.gen_a64()
        gen_info["rv"] = tables.gen_rv()
        gen_info["x64"] = tables.gen_x64()
    except tables.TranslationError as e:
        gen_err = str(e)
    fs = []
    try:
        fs = forms.load("aarch64") + forms.load("riscv")
    except Exception as e:
        run.violation("broken-correspondence", {"kind": "extract"}, f"extract_opmap output could not be read: {e}", found_input=False)
    found_before = len(run.violations) + len(run.known_hit)
    suspects = None
    proofs_ok = False
    if gen_err is None:
        proofs_ok = common.standard_proof_step(run, MODULES, allow_bv_decide=False)
        n_chunks = sum(g["chunks"] for g in gen_info.values())
        run.coverage["obligations"] += 2 * n_chunks
        if proofs_ok:
            run.coverage["discharged"] += 2 * n_chunks
        elif hasattr(run, "broken_build"):
            # which chunk theorems failed → which mnemonics to look at first
            failed = sorted(set(re.findall(r"Generated/(A64|Rv|X64)Chunk(\d+)\.lean", run.lake_log)))
            suspects = set()
            for (arch, k) in failed:
                path = os.path.join(common.GEN, f"{arch}Chunk{k}.lean")
                suspects |= set(re.findall(r'^\s*\("([^"]+)",', open(path).read(), re.M))
            run.broken_build["failed_chunks"] = [f"{a}Chunk{k}" for (a, k) in failed]
            run.coverage["discharged"] += 2 * (n_chunks - len(failed))
    stats = {}
    x64_failed = [c for c in getattr(run, "broken_build", {}).get("failed_chunks", []) if c.startswith("X64")] if hasattr(run, "broken_build") else []
    if x64_failed and suspects:
        # directed search on the x64 side: every instantiation of the suspect mnemonics, compiled and read back by the disassembler
        try:
            import x64sweep
            x64sweep.ONLY_MNEMONICS = set(suspects)
            rep = x64sweep.run(limit=None, pairwise=True)
            x64sweep.ONLY_MNEMONICS = None
            stats["directed_x64"] = {"instantiations": rep["counts"].get("instantiations", 0)}
            for u in (rep.get("unexplained") or [])[:3]:
                ex = u.get("example", {})
                run.violation("failing-input", {"kind": "x64-entry-inconsistent", "entry": ex.get("entry")},
                              f"table entry {ex.get('entry')}: `.arch {ex.get('mode')}; {ex.get('line')}` assembles to {ex.get('bytes')}, which the disassembler reads as `{ex.get('llvm')}` ({ex.get('diff')}): "
                              f"format string, opcode bytes and flags of the entry do not fit together"[:500],
                              {"stream": "plug", "input": [f"cl ; .arch {ex.get('mode')} ; {ex.get('line')}"], "record": u})
        except Exception as e:       # noqa
            run.assumptions.append(f"directed x64 search failed: {e}")
    if fs:
        if suspects:
            # directed search first: every form of the suspect mnemonics, full depth
            stats["directed"] = run_sweep(run, fs, True, rng, only_mnemonics=suspects)
        stats["sweep"] = run_sweep(run, fs, thorough, rng)
    run.coverage["evaluations"] = sum(s.get("requests", 0) for s in stats.values())
    run.coverage["distinct_nontrivial"] = sum(s.get("inj", 0) + s.get("ind", 0) for s in stats.values())
    run.coverage["rule"] = ("table theorems: every entry of the three dumped tables; sweep: for every aarch64/riscv form (extract_opmap templates) the base instantiation "
                            "(no-panic), for every operand slot pairs of values differing in one bit must give different bytes (injectivity), for every pair of slots the bit "
                            "flips of changing each operand must be disjoint and add up (independence). non-trivial = injectivity or independence comparison on constant output")
    run.coverage["traces_validated_against_impl"] = run.coverage["evaluations"]
    run.coverage["distribution"] = dict(stats, tables={k: {"entries": v["entries"], "chunks": v["chunks"]} for k, v in gen_info.items()})
    run.coverage["samples"] = ["cl ; .arch aarch64 ; add x0, x1, 4", {"table_rows": {k: v["entries"] for k, v in gen_info.items()}}]
    run.coverage["exhaustive"] = gen_err is None
    if gen_err is not None:
        found = (len(run.violations) + len(run.known_hit)) > found_before
        run.violation("broken-correspondence", {"kind": "table-translation"}, f"the instruction tables no longer translate into the Lean model: {gen_err}", found_input=found)
    elif not proofs_ok and hasattr(run, "broken_build"):
        found = (len(run.violations) + len(run.known_hit)) > found_before
        run.violation("broken-obligation", {"kind": "table-wf", "chunks": run.broken_build.get("failed_chunks", [])[:4]},
                      f"table well-formedness no longer checks ({', '.join(run.broken_build.get('failed_chunks', [])[:6]) or run.broken_build['first_error'][:160]}); "
                      f"suspect mnemonics: {sorted(suspects or [])[:12]}", run.broken_build, found_input=found)


def replay(path):
    rec = json.load(open(path))
    print(json.dumps({k: rec.get(k) for k in ("property", "kind", "what")}, indent=1))
    inp = rec.get("payload", {}).get("input")
    if not inp:
        print(json.dumps(rec.get("payload", {}), indent=1)[:3000])
        return 1
    common.build_harness("plug")
    rc, out = common.sh([common.PLUG, "exec"], inp="\n".join(inp) + "\n")
    print(out)
    return 0
