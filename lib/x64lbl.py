"""C01, macro half on x86-64: a label used as a memory operand (`[->lbl]`, rip-relative) must make the instruction reference exactly the
label's address whatever follows the displacement inside the instruction (imm8/16/32, the is4 register byte, static or dynamic).
One program per encoding class of the table with a memory-capable slot: `<insn with [->lbl]> ; nop ; nop ; nop ; ->lbl:` assembled by
the REAL macro into a VecAssembler (harness/dyn), then disassembled by llvm-mc: the first instruction must read `[rip + 3]`."""
import re

import common
import dyn
import x64sweep as xs

PAD = 3


def plan():
    out, seen = [], set()
    for e in xs.table():
        if xs.flag(e, "X86_ONLY"):
            continue
        sl = xs.slots(e)
        for opsize in xs.op_sizes(e, "x64"):
            defaults, alts = [], []
            for j, (code, fs) in enumerate(sl):
                d, a = xs.slot_alternatives(e, j, code, fs, opsize, "x64")
                defaults.append(d)
                alts.append(a)
            if any(d is None for d in defaults):
                continue
            for j, (code, fs) in enumerate(sl):
                if code not in "muvw":
                    continue
                mems = [a for a in alts[j] if a.kind == "mem"]
                if not mems:
                    continue
                key = (e["args"], tuple(sorted(xs.flag_names(e))), str(opsize), j)
                if key in seen:
                    continue
                seen.add(key)
                texts = [o.text for o in defaults]
                texts[j] = re.sub(r"\[.*\]", "[->lbl]", mems[0].text)
                variants = [list(texts)]
                # a register living in the trailing immediate byte (4th register operand): also as a dynamic register
                regslots = [k for k, (c, _) in enumerate(sl) if c in "yw" and k != j]
                if len([c for (c, _) in sl if c in "ywrvm"]) >= 4 and regslots:
                    k = regslots[-1]
                    t2 = list(texts)
                    t2[k] = ("Rx" if defaults[k].size == 16 else "Ry") + "(v)"
                    variants.append(t2)
                for t in variants:
                    out.append((e, f"{e['m']} " + ", ".join(t)))
    return out


def sweep(run):
    pl = plan()
    stats = {"classes": len(pl), "assembled": 0, "checked": 0, "not_accepted": 0}
    acc = xs.plug([f"cl ; .arch x64 ; {l}" for (_, l) in pl])
    cases, meta = [], []
    for (e, l), a in zip(pl, acc):
        if not a.startswith("ok "):
            stats["not_accepted"] += 1
            continue
        cases.append(dict(body=f"; .arch x64 ; {l} ; nop ; nop ; nop ; ->lbl:", vars=[("v", "u8")], asm="vec|dynasmrt::x64::X64Relocation|0"))
        meta.append((e, l))
    ok, log = dyn.build("C01X", cases)
    if not ok:
        run.violation("broken-correspondence", {"kind": "harness-build", "harness": "dyn-x64-labels"}, "the generated crate with label memory operands does not build against the working tree",
                      {"log": log[-3000:]}, found_input=False)
        return stats
    res = dyn.run("C01X", [(i, [9]) for i in range(len(cases))])
    good = [(i, b) for i, (st, b) in enumerate(res) if st == "ok"]
    stats["assembled"] = len(good)
    dis = xs.disassemble([b[:-PAD] for (_, b) in good], "x64")
    for (i, b), (st, lines) in zip(good, dis):
        e, l = meta[i]
        text = (lines or [""])[0] if isinstance(lines, list) else str(lines)
        m = re.search(r"\[rip ?([+-]) ?(\d+|0x[0-9a-fA-F]+)\]", text)
        stats["checked"] += 1
        if st != "one" or not m:
            # not decodable as one instruction (e.g. an extension llvm-mc 14 lacks): cannot be judged here
            stats["checked"] -= 1
            continue
        d = int(m.group(2), 0) * (1 if m.group(1) == "+" else -1)
        if d != PAD:
            run.violation("failing-input", {"kind": "label-operand-misses-target", "args": e["args"], "flags": sorted(xs.flag_names(e))},
                          f"dynasm!(ops ; .arch x64 ; {l} ; nop ; nop ; nop ; ->lbl:) assembles to {b.hex()}: the instruction reads `{text}`, i.e. {d - PAD:+d} bytes away from the label "
                          f"(it must reference rip + {PAD})", {"stream": "dyn", "case": cases[i], "values": [9]})
    for i, (st, b) in enumerate(res):
        if st != "ok":
            e, l = meta[i]
            run.violation("failing-input", {"kind": "label-operand-panics", "args": e["args"], "flags": sorted(xs.flag_names(e))}, f"dynasm!(ops ; .arch x64 ; {l} ; …) panics: {b[:120]}",
                          {"stream": "dyn", "case": cases[i], "values": [9]})
    return stats
