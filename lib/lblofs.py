"""C01, macro half: the user-supplied offset of a label reference (`<name - a + b`, `>name + 8`, `->name - 4*2`) reaches the relocation call as
the expression that was written. The plugin's output for a reference is `<kind>j|<label>|<offset expression>|…`; the offset expression is
evaluated (integer arithmetic, Rust precedence = Python precedence for + - * and parentheses) for several values of the variables and
compared with the written one — in instructions, memory operands and data directives of every backend."""
import json
import re

import common

OFFSETS = ["", "+ 3", "- 3", "+ a", "- a", "- a + b", "- a - b", "+ a - b", "+ a + b", "- a * b + 2", "- (a + b)", "+ a * 2 - b", "- 8 + 4", "- 2 - 3 - 4",
           "+ (a - b) * 3", "- a + b - 1"]
CARRIERS = [("x64", "jmp {ref}"), ("x64", "lea rax, [{ref}]"), ("x64", "mov eax, [{ref}]"), ("x64", ".i32 {ref}"), ("x64", ".u64 {ref}"), ("x64", "jz {ref}"),
            ("x86", "jmp {ref}"), ("x86", "mov eax, [{ref}]"),
            ("aarch64", "b {ref}"), ("aarch64", "adr x1, {ref}"), ("aarch64", "cbz x1, {ref}"), ("aarch64", "ldr x1, {ref}"), ("aarch64", ".u32 {ref}"),
            ("riscv64", "jal x1, {ref}"), ("riscv64", "beq x1, x2, {ref}"), ("riscv64", "la x1, {ref}"), ("riscv64", ".i32 {ref}")]
KINDS = [("<", "bj"), (">", "fj"), ("->", "gj")]
ENVS = [dict(a=5, b=3), dict(a=-7, b=11), dict(a=1 << 20, b=-(1 << 10))]


def ev(txt, env):
    t = re.sub(r"(\d+)(isize|usize|i8|i16|i32|i64|u8|u16|u32|u64)\b", r"\1", txt)
    if not re.fullmatch(r"[0-9ab+\-*() ]*", t):
        raise ValueError(txt)
    return eval(t or "0", {"__builtins__": {}}, dict(env))


def sweep(run):
    ok, log = common.build_harness("plug")
    if not ok:
        run.violation("broken-correspondence", {"kind": "harness-build"}, "harness/plug does not build against the working tree", {"log": log[-3000:]}, found_input=False)
        return {}
    reqs, meta = [], []
    for (arch, carrier) in CARRIERS:
        hdr = f"; .arch {arch} ;" + (" .feature i ;" if arch.startswith("riscv") else "")
        for (sig, tag) in KINDS:
            for ofs in OFFSETS:
                ref = f"{sig}name {ofs}".strip()
                reqs.append(f"cl {hdr} {carrier.format(ref=ref)}")
                meta.append((tag, ofs))
    _, out = common.sh([common.PLUG, "exec"], inp="\n".join(reqs) + "\n", timeout=600)
    stats = {"references": 0, "rejected": 0}
    reported = set()
    for (tag, ofs), req, (_, a) in zip(meta, reqs, common.answers_of_impl(out)):
        if not a.startswith("ok "):
            stats["rejected"] += 1
            continue
        refs = [s for s in json.loads(a[3:]) if s.split("|")[0] == tag]
        if len(refs) != 1:
            if ("shape", ofs) not in reported:
                reported.add(("shape", ofs))
                run.violation("broken-correspondence", {"kind": "label-offset-shape", "offset": ofs}, f"`{req[3:]}`: expected one `{tag}` statement, got {a[:160]}", {"stream": "plug", "input": [req]}, found_input=False)
            continue
        stats["references"] += 1
        got_txt = refs[0].split("|")[2]
        try:
            bad = next((env for env in ENVS if ev(got_txt, env) != ev("0 " + ofs, env)), None)
        except Exception:      # noqa
            if ("text", ofs) not in reported:
                reported.add(("text", ofs))
                run.violation("broken-correspondence", {"kind": "label-offset-text", "offset": ofs}, f"`{req[3:]}`: the offset expression `{got_txt}` is not understood", {"stream": "plug", "input": [req]}, found_input=False)
            continue
        if bad is not None and ofs not in reported:
            reported.add(ofs)
            run.violation("failing-input", {"kind": "label-offset", "offset": ofs},
                          f"`{req[3:]}`: the reference is made with offset `{got_txt}` = {ev(got_txt, bad)} for a = {bad['a']}, b = {bad['b']}; the offset that was written is `{ofs}` = {ev('0 ' + ofs, bad)}",
                          {"stream": "plug", "input": [req], "impl": [a]})
    return stats
