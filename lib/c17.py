"""C17 — alignment, data directives and literal pools place bytes where they promise.
Proof: lean/DynasmVerif/Props/C17.lean (align_correct, *_align_emits, session_emit_spec, push_le, pool_push_places).
Tie: `asm` stream on all five assembler types + direct evaluation of the property on the implementation's outputs."""
import asmcheck
import asmprops
import common
from common import SplitMix, hexb

MODULES = ["DynasmVerif.Props.C17"]
ALIGNS = list(range(1, 34)) + [64, 4096]


def align_case(front, fam, start, a, f, rng):
    """program exercising one align at a given start offset on one assembler type; meta describes where to look"""
    body = rng.bytes(start)
    if front in ("simple", "vec"):
        new = "new simple" if front == "simple" else f"new vec {fam} base=0"
        lines = [new, f"ex {hexb(body)}", "off", f"al {a} {f}", "off", "e x77", "fin"]
        return lines, {"kind": "align", "a": a, "f": f, "offs": (2, 4), "final": "fin"}
    if front == "asm":
        k = rng.below(start + 1)
        lines = [f"new asm {fam}", f"ex {hexb(body[:k])}", "c", f"ex {hexb(body[k:])}", "off", f"al {a} {f}", "off", "e x77", "fin"]
        return lines, {"kind": "align", "a": a, "f": f, "offs": (4, 6), "final": "fin"}
    if front == "mod":
        total = start + a + 3
        lines = [f"new asm {fam}", f"ex {hexb(rng.bytes(total))}", "c", "alter{", f"goto {start}", "off", f"al {a} {f}", "off", "e x77", "}alter", "buf"]
        return lines, {"kind": "align", "a": a, "f": f, "offs": (5, 7), "final": "buf"}
    if front == "unc":
        host = rng.choice(["simple", "vec", "asm"])
        total = start + a + 3
        new = {"simple": "new simple", "vec": f"new vec {fam} base=0", "asm": f"new asm {fam}"}[host]
        lines = [new, f"ex {hexb(rng.bytes(total))}", "unc{", f"goto {start}", "off", f"al {a} {f}", "off", "e x77", "}unc", "fin"]
        return lines, {"kind": "align", "a": a, "f": f, "offs": (4, 6), "final": "fin"}
    raise ValueError(front)


def data_case(front, fam, rng):
    new = {"simple": "new simple", "vec": f"new vec {fam} base=0", "asm": f"new asm {fam}"}[front]
    lines, expect = [new], bytearray()
    for _ in range(rng.range(1, 12)):
        k = rng.choice(["p16", "p32", "p64", "pi8", "pi16", "pi32", "pi64"])
        n = {"p16": 2, "p32": 4, "p64": 8, "pi8": 1, "pi16": 2, "pi32": 4, "pi64": 8}[k]
        signed = k.startswith("pi")
        lo, hi = (-(1 << (8 * n - 1)), (1 << (8 * n - 1)) - 1) if signed else (0, (1 << (8 * n)) - 1)
        v = rng.choice([lo, hi, 0, -1 if signed else 1, lo + 1, hi - 1, rng.range(lo, hi), 0x0102030405060708 & hi if not signed else rng.range(lo, hi)])
        lines.append(f"{k} {v}")
        expect += (v % (1 << (8 * n))).to_bytes(n, "little")
        if front == "asm" and rng.chance(1, 6):
            lines.append("c")
    lines.append("fin")
    return lines, {"kind": "data", "expect": bytes(expect)}


def pool_case(front, fam, rng, valid=True):
    new = {"vec": f"new vec {fam} base=0", "asm": f"new asm {fam}", "mod": f"new asm {fam}"}[front]
    unit = {"x64": 1, "x86": 1, "a64": 4, "rv": 2}[fam]
    lines = [new, "gl 9", "nd"]
    pre = rng.bytes(unit * rng.range(0, 9))
    if front == "mod":
        lines += [f"ex {hexb(rng.bytes(400))}", "c", "alter{", f"goto {rng.below(40)}"]
    lines.append(f"ex {hexb(pre)}")
    entries = []
    widest = 1
    plines = ["pool{"]
    for _ in range(rng.range(1, 10)):
        c = rng.below(10)
        if c < 6:
            size = rng.choice([1, 2, 4, 8])
            v = rng.below(1 << (8 * size))
            plines.append(f"pv {size} {v}")
            entries.append(("v", len(plines) - 1, size, v))
            import math
            widest = widest * size // math.gcd(widest, size)
        elif c < 8:
            # explicit alignment inside the pool: any number, also not a power of two (the pool then starts at a multiple of all of them);
            # the filler is drawn from two values so that neighbouring alignment requests often share it
            size = rng.choice([1, 2, 4, 8, 3, 6, 12, 2, 4]) if valid else rng.choice([1, 2, 3, 4, 5, 8, 16])
            plines.append(f"pa {size} {rng.choice([0, 0, 0xCC, rng.below(256)])}")
            if valid:
                import math
                widest = widest * size // math.gcd(widest, size)
            else:
                widest = max(widest, size)
        else:
            size = rng.choice([2, 4, 8]) if fam != "a64" else rng.choice([4, 8])
            k = rng.choice(["g", "d", "f"])
            name = {"g": 9, "d": 0, "f": 3}[k]
            plines.append(f"pl {k} {name} {size}")
            entries.append((k, len(plines) - 1, size, name))
            import math
            widest = widest * size // math.gcd(widest, size)
    if valid:
        lines.append(f"al {widest} 0")
    lines.append("off")                    # pool start
    start_ix = len(lines) - 1
    base = len(lines)
    lines += plines
    lines.append("}pool")
    lines += ["ll 3", "dl 0", "off"]
    if front == "mod":
        lines += ["}alter", "buf"]
    else:
        lines.append("fin")
    return lines, {"kind": "pool", "valid": valid, "start_ix": start_ix, "base": base,
                   "entries": [(k, base + i, size, x) for (k, i, size, x) in entries], "after_ix": base + len(plines) + 3,
                   "final": "buf" if front == "mod" else "fin"}


def final_of(res):
    return asmcheck.final_bytes(res)


def evaluator(p, res, meta):
    if meta is None:
        return None
    ans = [a for (_, a, _) in res]
    if any(a in ("panic", "dead") or a.startswith("bad-op") for a in ans):
        if meta["kind"] == "pool" and not meta["valid"]:
            return None
        return ({"kind": "unexpected-panic", "case": meta["kind"]}, f"{meta['kind']} case panicked / was rejected: {[r for (r, a, _) in res if a in ('panic', 'bad-op')][:1]}")
    if meta["kind"] == "align":
        i0, i1 = meta["offs"]
        before, after = int(ans[i0]), int(ans[i1])
        a, f = meta["a"], meta["f"]
        pad = after - before
        final = final_of(res)
        if after % a != 0:
            return ({"kind": "align-not-multiple"}, f"offset {after} after align({a}) from {before} is not a multiple of {a}")
        if pad < 0 or pad >= a or any((before + k) % a == 0 for k in range(pad)):
            return ({"kind": "align-not-minimal"}, f"align({a}) at offset {before} padded {pad} bytes; fewer would do")
        if final is None or len(final) <= after:
            return ({"kind": "align-no-bytes"}, "no final bytes to inspect")
        if any(b != (f & 0xFF) for b in final[before:after]):
            return ({"kind": "align-filler"}, f"padding bytes {final[before:after].hex()} are not all {f & 0xFF:02x}")
        if final[after] != 0x77:
            return ({"kind": "align-marker"}, f"the byte emitted after the align is not at offset {after}")
        return None
    if meta["kind"] == "data":
        final = final_of(res)
        if final != meta["expect"]:
            return ({"kind": "data-le"}, f"data directives produced {final.hex() if final else None}, little-endian expectation {meta['expect'].hex()}")
        return None
    if meta["kind"] == "pool":
        if not meta["valid"]:
            return None
        final = final_of(res)
        start = int(ans[meta["start_ix"]])
        after = int(ans[meta["after_ix"]])
        if final is None:
            return ({"kind": "pool-no-bytes"}, "no final bytes")
        for (k, ix, size, x) in meta["entries"]:
            o = int(ans[ix])
            pos = start + o
            if pos % size != 0:
                return ({"kind": "pool-misaligned"}, f"pool entry `{p[ix]}` promised at pool+{o} = {pos}, not naturally aligned")
            got = int.from_bytes(final[pos:pos + size], "little")
            if k == "v":
                want = x
            else:
                # label entries resolve relative to the start of the field: global 9 at offset 0, dynamic 0 and forward 3 right after the pool
                target = 0 if k == "g" else after
                want = (target - pos) % (1 << (8 * size))
            if got != want:
                return ({"kind": "pool-value", "entry": k}, f"pool entry `{p[ix]}` at pool start {start} + returned offset {o}: found {got:#x}, expected {want:#x}")
        return None
    return None


def check(run):
    rng = SplitMix(run.seed)
    thorough = run.tier == "thorough"
    common.base_trusted(run)
    run.coverage["trusted_base"] += ["harness/rt (asm stream executor)", "lib/c17.py evaluator (reads offsets and final bytes of the implementation)"]
    run.assumptions += ["f32/f64 to_bits is not modelled (floats enter as bit patterns)",
                        "literal pools: stated for a start offset that is a multiple of every alignment the pool uses (power-of-two sizes: aligned to its widest entry)"]
    run.coverage["rule"] = ("align: (assembler type in simple/vec/asm/modifier/uncommitted) x start offset 0..70 x alignment 1..33,64,4096 x filler; data: random "
                            "sequences of push_u16..i64 with boundary values; pools: random pushes of 4 widths, label entries, explicit aligns, into vec/asm/modifier. "
                            "non-trivial = align case with non-zero padding, or a pool with >= 1 inserted alignment gap")
    ok, proofs_ok = asmprops.proof_and_build(run, MODULES)
    if not ok:
        return
    found_before = len(run.violations) + len(run.known_hit)
    progs, metas = [], []
    fams = ["x64", "x86", "a64", "rv"]
    nontrivial = set()
    for front in ("simple", "vec", "asm", "mod", "unc"):
        combos = [(s, a) for s in range(0, 71) for a in ALIGNS]
        if not thorough:
            combos = [combos[rng.below(len(combos))] for _ in range(260)] + [(s, a) for s in (0, 1, 31, 63) for a in (1, 2, 3, 8, 33, 4096)]
        for (s, a) in combos:
            lines, meta = align_case(front, rng.choice(fams), s, a, rng.below(256), rng)
            progs.append(lines)
            metas.append(meta)
            if s % a != 0:
                nontrivial.add((front, s, a))
    for _ in range(40000 if thorough else 1000):
        lines, meta = data_case(rng.choice(["simple", "vec", "asm"]), rng.choice(fams), rng)
        progs.append(lines)
        metas.append(meta)
    npool = 0
    for _ in range(80000 if thorough else 2000):
        lines, meta = pool_case(rng.choice(["vec", "asm", "mod"]), rng.choice(fams), rng, valid=not rng.chance(1, 6))
        progs.append(lines)
        metas.append(meta)
        if any(l.startswith("pa ") for l in lines) or len(meta["entries"]) > 2:
            npool += 1
    stats = asmprops.process(run, progs, evaluator, metas)
    # macro half: the directives as lowered by the macro, with run-time values through rustc and with literals folded by the plugin
    import c17x
    stats["macro_directives"] = c17x.sweep(run, run.tier == "thorough")
    run.coverage["evaluations"] = len(progs)
    run.coverage["distinct_nontrivial"] = len(nontrivial) + npool
    run.coverage["traces_validated_against_impl"] = stats["requests"]
    run.coverage["distribution"] = dict(stats, align_cases=sum(1 for m in metas if m["kind"] == "align"),
                                        data_cases=sum(1 for m in metas if m["kind"] == "data"),
                                        pool_cases=sum(1 for m in metas if m["kind"] == "pool"),
                                        pool_cases_outside_premise=sum(1 for m in metas if m["kind"] == "pool" and not m["valid"]))
    run.coverage["samples"] = [progs[0], progs[-1]]
    run.coverage["exhaustive"] = thorough
    asmprops.finish_proofs(run, proofs_ok, found_before)


def replay(path):
    return asmcheck.replay(path)
