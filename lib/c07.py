"""C07 — committed code is exactly what was emitted, across commits and buffer growth.
Proof: lean/DynasmVerif/Props/C07.lean (growCap_*, commit_appends, history_tracks, offset_is_emitted, ptr_addresses_byte).
Tie: `asm` stream on the real Assembler with commit sizes crossing 1x/2x/4x capacity exactly, by one less and one more."""
import asmcheck
import asmgen
import asmprops
import common
from common import SplitMix, hexb

MODULES = ["DynasmVerif.Props.C07"]
PAGE = 4096


def history(rng, fam, thorough):
    """label-free history with commit totals placed on and around capacity boundaries"""
    lines = [f"new asm {fam}"]
    total = 0
    emitted = bytearray()
    n_commits = rng.range(1, 6)
    cap = PAGE
    for _ in range(n_commits):
        # choose the next committed total relative to the current capacity ladder
        cands = [total, total + 1, cap - 1, cap, cap + 1, 2 * cap - 1, 2 * cap, 2 * cap + 1, 4 * cap - 1, 4 * cap, 4 * cap + 1,
                 total + rng.range(1, 64), total + rng.range(1, 3 * PAGE), cap + rng.range(2, PAGE)]
        if thorough:
            cands += [8 * cap + 1, 8 * cap - 1]
        # committed totals are kept below 1 MiB: beyond that the hex-encoded histories only cost memory, the capacity ladder is the same
        target = rng.choice([c for c in cands if total <= c <= max(total, 1 << 20)])
        need = target - total
        while need > 0:
            c = rng.below(10)
            if c < 5 or need < 16:
                k = min(need, rng.choice([1, 2, 3, 7, 64, 500, 4095, 4096, 4097, need]))
                bs = rng.bytes(k)
                lines.append(f"{rng.choice(['e', 'ex', 'ev']) if k < 300 else rng.choice(['ex', 'ev'])} {hexb(bs)}")
                emitted += bs
                need -= k
            elif c < 7:
                k = rng.choice(["p16", "p32", "p64"])
                n = {"p16": 2, "p32": 4, "p64": 8}[k]
                if n <= need:
                    v = rng.below(1 << (8 * n))
                    lines.append(f"{k} {v}")
                    emitted += v.to_bytes(n, "little")
                    need -= n
            elif c < 8:
                al = rng.choice([2, 4, 8, 16, 64])
                pad = asmgen.align_pad(len(emitted), al)
                if pad <= need:
                    f = rng.below(256)
                    lines.append(f"al {al} {f}")
                    emitted += bytes([f]) * pad
                    need -= pad
            else:
                lines.append("off")
        total = target
        lines.append("off")
        lines.append("c")
        while cap <= total and total > cap:
            cap *= 2
        if total > 0:
            lines.append("buf")
            for _ in range(2):
                lines.append(f"ptr {rng.below(total)}")
            lines.append(f"ptr {total - 1}")
    tail = rng.bytes(rng.below(20))
    if tail:
        lines.append(f"ex {hexb(tail)}")
        emitted += tail
    lines.append("off")
    lines.append("fin")
    return lines, {"kind": "history", "boundary": any(abs(len(emitted) - b) <= 1 for b in (PAGE, 2 * PAGE, 4 * PAGE, 8 * PAGE))}


def evaluator(p, res, meta):
    """scan: the buffer after each commit is the concatenation of everything emitted before it; offsets count emitted bytes and
    never decrease; ptr(o) reads the byte emitted at o"""
    emitted = bytearray()
    committed = 0
    last_off = -1
    labelled = any(l.split()[0] in ("rf", "rb", "rg", "rd", "rx") for l in p)
    defective = False       # a commit of a defective batch failed (C06's subject): from then on only the offset is this property's business
    for (req, a, _) in res:
        ws = req.split()
        if a in ("panic", "dead"):
            if defective:
                return None         # what may and may not panic after an error is C11's subject (finalize with a pending error panics by design)
            return ({"kind": "panic", "op": ws[0]}, f"`{req[:60]}` panicked in a history of emits and commits")
        bs = asmgen.parse_emit(ws)
        if bs is not None:
            emitted += bs
        elif ws[0] == "al":
            al, f = int(ws[1]), int(ws[2])
            emitted += bytes([f & 0xFF]) * asmgen.align_pad(len(emitted), al)
        elif ws[0] == "off":
            o = int(a)
            if o != len(emitted):
                return ({"kind": "offset"}, f"offset() = {o} but {len(emitted)} bytes were emitted (committed {committed} + pending {len(emitted) - committed})")
            if o < last_off:
                return ({"kind": "offset-decreased"}, f"offset() went from {last_off} to {o}")
            last_off = o
        elif ws[0] == "c":
            if not a.startswith("ok"):
                if labelled or (meta and meta.get("kind") == "defective"):
                    try:
                        if asmgen.Oracle(p).run().first_failing_commit() is not None:
                            defective = True     # a defective batch: C06's subject; the pending bytes stay pending, the offset must not move
                            continue
                    except asmgen.Unsupported:
                        return None
                if defective:
                    continue
                return ({"kind": "commit-error"}, f"commit of a defect-free batch returned `{a}`")
            committed = len(emitted)
        elif ws[0] == "buf" and "stale-executor-sees" in a:
            old = a.split("stale-executor-sees=")[1]
            return ({"kind": "stale-executor"}, f"an Executor obtained before this commit sees {(len(old) - 1) // 2} bytes while a fresh reader() sees {(len(a.split()[0]) - 1) // 2}: the commit is not visible through existing executors")
        elif ws[0] == "buf" and not labelled and not defective:
            got = bytes.fromhex(a[1:])
            if got != bytes(emitted[:committed]):
                k = next((i for i in range(min(len(got), committed)) if got[i] != emitted[i]), min(len(got), committed))
                return ({"kind": "committed-bytes"}, f"executable buffer has {len(got)} bytes, {committed} were committed; first difference at offset {k}")
        elif ws[0] == "ptr" and not labelled and not defective:
            o = int(ws[1])
            if int(a) != emitted[o]:
                return ({"kind": "ptr"}, f"ptr({o}) reads {int(a):#x}, the byte emitted at that offset is {emitted[o]:#x}")
        elif ws[0] == "fin" and not labelled and not defective:
            if not a.startswith("ok"):
                return ({"kind": "finalize"}, f"finalize returned `{a[:40]}`")
            got = bytes.fromhex(a.split()[-1][1:])
            if got != bytes(emitted):
                return ({"kind": "final-bytes"}, f"finalize returned {len(got)} bytes, {len(emitted)} were emitted (or contents differ)")
    if labelled and not defective and not (meta and meta.get("kind") == "defective"):
        try:
            o = asmgen.Oracle(p).run()
        except asmgen.Unsupported:
            return None
        if o.first_failing_commit() is None:
            fb = asmcheck.final_bytes(res)
            if fb is not None:
                msg = asmcheck.check_image(fb, o)
                if msg:
                    return ({"kind": "labelled-image"}, msg)
    return None


def check(run):
    rng = SplitMix(run.seed)
    thorough = run.tier == "thorough"
    common.base_trusted(run)
    run.coverage["trusted_base"] += ["harness/rt (asm stream executor; reads the buffer through reader().lock(), ptr() and finalize)",
                                     "copy primitives (copy_from_slice) modelled as list operations", "lib/c07.py evaluator"]
    run.assumptions += ["the address of a new mapping is an environment input", "position-dependent fields are C12's subject"]
    run.coverage["rule"] = ("histories of emit (single bytes, words, extends up to >1 page, aligns), 1-5 commits whose totals are drawn from "
                            "{same, +1, cap-1, cap, cap+1, 2cap-1..2cap+1, 4cap-1..4cap+1, random}, buf/ptr/off after each commit, finalize; plus labelled programs "
                            "with large fillers. non-trivial = history whose final size is within 1 of a capacity boundary or that moved the buffer at least once")
    ok, proofs_ok = asmprops.proof_and_build(run, MODULES)
    if not ok:
        return
    found_before = len(run.violations) + len(run.known_hit)
    progs, metas = [], []
    for _ in range(3000 if thorough else 500):
        lines, meta = history(rng, rng.choice(["x64", "x86", "a64", "rv"]), thorough)
        progs.append(lines)
        metas.append(meta)
    # labelled programs across growth (position independent references only)
    for _ in range(600 if thorough else 200):
        fam = rng.choice(["x64", "a64", "rv"])
        g = asmgen.Gen(rng, "asm", fam, max_ops=25)
        lines, _ = g.build()
        # stretch: put a filler of about a page after the header so that later commits cross capacity boundaries
        unit = asmgen.UNIT[fam]
        fill = (rng.choice([PAGE - 40, PAGE - 8, PAGE, 2 * PAGE - 16, 3 * PAGE]) // unit) * unit
        if fam == "rv":
            fill = min(fill, 1800)       # keep B/JC/BC references in range
        if fam == "a64":
            fill = min(fill, 3 * PAGE)
        lines = [lines[0], f"ex {hexb(bytes([0x90]) * fill)}"] + lines[1:]
        progs.append(lines)
        metas.append({"kind": "labelled", "boundary": False})
    # defective programs: a commit that FAILS leaves the pending bytes pending — the offset still counts every emitted byte and never goes back
    for _ in range(3000 if thorough else 300):
        fam = rng.choice(["x64", "x86", "a64", "rv"])
        g = asmgen.Gen(rng, "asm", fam, max_ops=20, defect_rate=(1, 1), big=False)
        lines, _ = g.build()
        out = []
        for l in lines:
            out.append(l)
            if l == "c":
                out.append("off")
                if rng.chance(1, 2):
                    out.append(f"ex {hexb(rng.bytes(asmgen.UNIT[fam] * rng.range(1, 4)))}")
                    out.append("off")
        progs.append(out)
        metas.append({"kind": "defective", "boundary": False})
    stats = asmprops.process(run, progs, evaluator, metas, chunk=40)
    moved = 0
    run.coverage["evaluations"] = len(progs)
    run.coverage["distinct_nontrivial"] = sum(1 for m in metas if m.get("boundary"))
    run.coverage["traces_validated_against_impl"] = stats["requests"]
    run.coverage["distribution"] = stats
    run.coverage["samples"] = [[l[:80] for l in progs[0]]]
    asmprops.finish_proofs(run, proofs_ok, found_before)


def replay(path):
    return asmcheck.replay(path)
