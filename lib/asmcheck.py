"""Running `asm` stream programs through implementation and model, shrinking, and the architecture-side field decoders used by
the direct (model-independent) property evaluation on the implementation's bytes."""
import json
import os

import common
from asmgen import Oracle, Unsupported, fmt_size, fmt_kind, fmt_range, in_range


def run_programs(programs, timeout=3600):
    """programs: list of line lists. Returns per program a list of (request, impl answer, model answer)."""
    text = "hdr asm 1\n" + "\nreset\n".join("\n".join(p) for p in programs) + "\n"
    rc1, impl = common.run_impl(common.RT, text, timeout=timeout)
    rc2, model = common.run_model(impl, timeout=timeout)
    pairs = common.answers_of_impl(impl)
    manswers = common.answers_of_model(model)
    out, cur = [], []
    for i, (req, ans) in enumerate(pairs[1:], 1):   # skip hdr
        m = manswers[i] if i < len(manswers) else "<missing>"
        # the closure of an alter session panicked: the lock is poisoned, the harness cannot read the address any more
        if ans.endswith("moved=?") and m.startswith("ok addr="):
            m = ans
        if req == "reset":
            out.append(cur)
            cur = []
        else:
            cur.append((req, ans, m))
    out.append(cur)
    # a crashed harness answers fewer programs than were sent
    while len(out) < len(programs):
        out.append([("<crash>", "<missing>", "<missing>")])
    return out


def first_diff(res):
    for (req, a, m) in res:
        if a != m:
            return (req, a, m)
    return None


def shrink(program, still_fails, max_rounds=6):
    """delta-debugging on the line list (the `new …` line stays first); `still_fails(lines)` re-runs both sides"""
    cur = list(program)
    for _ in range(max_rounds):
        changed = False
        n = max(1, len(cur) // 2)
        while n >= 1:
            i = 1
            while i < len(cur):
                cand = cur[:i] + cur[i + n:]
                if len(cand) >= 2 and still_fails(cand):
                    cur = cand
                    changed = True
                else:
                    i += n
            n //= 2
        if not changed:
            break
    return cur


# ---------------------------------------------------------------------------------------------
# architecture-side decoders (python copy written from the manuals; only used to evaluate C01/C12 on observed bytes)


def sext(v, bits):
    v &= (1 << bits) - 1
    return v - (1 << bits) if v >> (bits - 1) else v


def bits(w, hi, lo):
    return (w >> lo) & ((1 << (hi - lo + 1)) - 1)


def arch_decode(fmt, bs):
    w = int.from_bytes(bs, "little")
    base = fmt if not (fmt.startswith("x86") and fmt.count(".") == 2) else fmt.rsplit(".", 1)[0]
    if base == "a64.B":
        return sext(bits(w, 25, 0), 26) * 4
    if base == "a64.BCOND":
        return sext(bits(w, 23, 5), 19) * 4
    if base == "a64.TBZ":
        return sext(bits(w, 18, 5), 14) * 4
    if base == "a64.ADR":
        return sext((bits(w, 23, 5) << 2) | bits(w, 30, 29), 21)
    if base == "a64.ADRP":
        return sext((bits(w, 23, 5) << 2) | bits(w, 30, 29), 21) << 12
    if base == "rv.B":
        return sext((bits(w, 31, 31) << 12) | (bits(w, 7, 7) << 11) | (bits(w, 30, 25) << 5) | (bits(w, 11, 8) << 1), 13)
    if base == "rv.J":
        return sext((bits(w, 31, 31) << 20) | (bits(w, 19, 12) << 12) | (bits(w, 20, 20) << 11) | (bits(w, 30, 21) << 1), 21)
    if base == "rv.BC":
        return sext((bits(w, 12, 12) << 8) | (bits(w, 6, 5) << 6) | (bits(w, 2, 2) << 5) | (bits(w, 11, 10) << 3) | (bits(w, 4, 3) << 1), 9)
    if base == "rv.JC":
        return sext((bits(w, 12, 12) << 11) | (bits(w, 8, 8) << 10) | (bits(w, 10, 9) << 8) | (bits(w, 6, 6) << 7) | (bits(w, 7, 7) << 6)
                    | (bits(w, 2, 2) << 5) | (bits(w, 11, 11) << 4) | (bits(w, 5, 3) << 1), 12)
    if base == "rv.HI20":
        return sext(bits(w, 31, 12) << 12, 32)
    if base == "rv.LO12":
        return sext(bits(w, 31, 20), 12)
    if base == "rv.LO12S":
        return sext((bits(w, 31, 25) << 5) | bits(w, 11, 7), 12)
    if base == "rv.SPLIT32":
        return sext(bits(w, 31, 12) << 12, 32) + sext(bits(w >> 32, 31, 20), 12)
    if base == "rv.SPLIT32S":
        w2 = w >> 32
        return sext(bits(w, 31, 12) << 12, 32) + sext((bits(w2, 31, 25) << 5) | bits(w2, 11, 7), 12)
    return sext(w, 8 * len(bs))


FIELD_MASK = {"a64.B": 0x03FFFFFF, "a64.BCOND": 0x00FFFFE0, "a64.ADR": 0x60FFFFE0, "a64.ADRP": 0x60FFFFE0, "a64.TBZ": 0x0007FFE0,
              "rv.B": 0xFE000F80, "rv.J": 0xFFFFF000, "rv.BC": 0x1C7C, "rv.JC": 0x1FFC, "rv.HI20": 0xFFFFF000, "rv.LO12": 0xFFF00000,
              "rv.LO12S": 0xFE000F80, "rv.SPLIT32": 0xFFF00000FFFFF000, "rv.SPLIT32S": 0xFE000F80FFFFF000}


def field_mask(fmt):
    return FIELD_MASK.get(fmt, (1 << (8 * fmt_size(fmt))) - 1)


def expected_decode(fmt, v):
    if fmt == "a64.ADRP":
        return ((v + 0xFFF) >> 12) << 12
    if fmt == "rv.HI20":
        return sext(((v + 0x800) >> 12) << 12, 32)
    if fmt in ("rv.LO12", "rv.LO12S"):
        return sext(v, 12)
    return v


def check_image(final, oracle, bufaddr=None, skip=lambda start, size: False):
    """C01 on observed bytes: every reference field decodes to designated target − refpoint + offset, every other bit is as emitted.
    Returns None or a description of the first failure."""
    emitted = bytes(oracle.image)
    if len(final) != len(emitted):
        return f"length {len(final)} != emitted {len(emitted)}"
    mask = bytearray(len(emitted))      # 0xFF where a field bit lives
    try:
        patches = oracle.patches(bufaddr)
    except Unsupported:
        return None         # not a program this oracle speaks about
    for (start, fmt, v, r) in patches:
        size = fmt_size(fmt)
        if r.get("dead"):
            continue            # overwritten by a later alter session: the session's bytes are what must be there
        if skip(start, size) or v is None or r.get("partial"):
            for k in range(size):
                mask[start + k] = 0xFF
            continue
        fm = field_mask(fmt).to_bytes(size, "little")
        for k in range(size):
            mask[start + k] |= fm[k]
        got = arch_decode(fmt, final[start:start + size])
        want = expected_decode(fmt, v)
        if got != want:
            return (f"reference `{' '.join(oracle.lines[r['i']])}` (field at {start}) decodes to {got}, designated target gives {want}")
    for k in range(len(emitted)):
        if (final[k] ^ emitted[k]) & ~mask[k] & 0xFF:
            return f"byte at offset {k} is {final[k]:02x} but {emitted[k]:02x} was emitted there (not part of a reference field)"
    return None


def final_bytes(res):
    """the bytes a program finally produced according to the implementation: answer of the last fin/take/drain/buf"""
    for (req, a, m) in reversed(res):
        k = req.split()[0]
        if k in ("fin", "take", "drain") and a.startswith("ok"):
            return bytes.fromhex(a.split()[-1][1:])
        if k == "buf" and a.startswith("x"):
            return bytes.fromhex(a[1:])
    return None


def replay_payload(program, res=None):
    p = {"stream": "asm", "input": ["hdr asm 1"] + list(program)}
    if res is not None:
        p["impl"] = [a for (_, a, _) in res]
        p["model"] = [m for (_, _, m) in res]
    return p


def replay(path):
    rec = json.load(open(path))
    print(json.dumps({k: rec.get(k) for k in ("property", "kind", "what")}, indent=1))
    inp = rec.get("payload", {}).get("input")
    if not inp:
        print("no concrete input recorded (broken obligation / correspondence):")
        print(json.dumps(rec.get("payload", {}), indent=1)[:4000])
        return 1
    common.build_harness("rt")
    common.lake_build(["driver"])
    res = run_programs([inp[1:]])[0]
    bad = False
    for (req, a, m) in res:
        flag = "" if a == m else "   <-- differs"
        bad = bad or a != m
        print(f"{req}\n    impl : {a[:200]}\n    model: {m[:200]}{flag}")
    return 1 if bad else 0
