"""C03 / C04 on aarch64 and riscv register slots: a register number supplied at run time (`X(v)`, `V(v)`, …) must assemble to exactly
the bytes of the register named literally; where the literal register is rejected by the form (odd register in an even-only slot,
register 31 where zr/sp is not allowed, x0 in a no-zero slot, equal registers where they must differ …) the run-time spelling must
panic, never mask the number into the field.
One macro case per (register command class, operand position) — every register number 0..31 at run time, the other operands literal;
for forms whose slot depends on ANOTHER register (must differ / must be the next) the pair is swept: dynamic x literal."""
import json

import common
import dyn
import forms

A64_KINDS = {"W", "X", "WSP", "XSP", "B", "H", "S", "D", "Q", "V", "WX"}


def fam_of(arch, kind):
    if arch == "aarch64":
        return "X" if kind == "WX" else kind
    return kind


def sig(c):
    if isinstance(c, forms.R):
        return ("R", c.count, c.scale)
    if isinstance(c, forms.Named):
        return ("N", c.kind) + tuple(str(a) for a in c.args)
    return (type(c).__name__,)


class Emb:
    """a riscv form on the E profile (16 integer registers): same form, `.arch riscv32e` / `riscv64e`"""
    def __init__(self, f):
        self.f = f

    def __getattr__(self, k):
        return getattr(self.f, k)


def header(f):
    if f.arch == "aarch64":
        return "; .arch aarch64 ;"
    isa = "riscv64" if "rv64" in f.extra[0] else "riscv32"
    if isinstance(f, Emb):
        isa += "e"
    return f"; .arch {isa} ; .feature {f.extra[1][0]} ;"


def plan(thorough):
    out, seen = [], set()
    for arch in ("aarch64", "riscv"):
        for fi, f in enumerate(forms.load(arch)):
            base = f.base_values()
            if base is None:
                continue
            # jump-target slots: an immediate instead of a label (the SimpleAssembler behind the macro has no labels)
            base = {k: (next((x for x in f.domain(k) if isinstance(x, int)), 0) if isinstance(v, str) and v.startswith("->") else v) for k, v in base.items()}
            regslots = [(k, i) for (k, i) in f.slots if (k in A64_KINDS if arch == "aarch64" else k in ("X", "F")) and isinstance(f.constraints.get(i), (forms.R, forms.Named))]
            dep = [i for (_, i) in regslots if isinstance(f.constraints.get(i), forms.Named)]
            for pos, (kind, idx) in enumerate(regslots):
                c = f.constraints.get(idx)
                if isinstance(c, forms.Named) and c.kind not in ("Rdifferent",):
                    continue
                key = (arch, kind, sig(c), pos, tuple(sig(f.constraints[i]) for i in dep)) if not thorough else (arch, fi, idx)
                if key in seen:
                    continue
                seen.add(key)
                # partner slot for pair sweeps: a slot whose constraint refers to this one (the next slot with a Named constraint), or this slot's own predecessor
                partner = None
                if isinstance(c, forms.Named) and pos > 0:
                    partner = regslots[pos - 1][1]
                elif pos + 1 < len(regslots) and isinstance(f.constraints.get(regslots[pos + 1][1]), forms.Named):
                    partner = regslots[pos + 1][1]
                out.append((f, base, kind, idx, partner))
                # the same class on the E profile, where x16..x31 do not exist: every integer register slot is a constrained one there
                # (floating point slots too: the E profile halves the INTEGER file only, f16..f31 exist and must be accepted at run time as literally)
                if arch == "riscv" and kind in ("X", "F"):
                    ekey = ("riscv-e", kind, sig(c), pos, tuple(sig(f.constraints[i]) for i in dep)) if not thorough else ("riscv-e", fi, idx)
                    if ekey not in seen:
                        seen.add(ekey)
                        out.append((Emb(f), base, kind, idx, partner))
    return out


def words(ans):
    if not ans.startswith("ok "):
        return None
    b = b""
    for s in json.loads(ans[3:]):
        k, _, v = s.partition("|")
        if k in ("c1", "c2", "c4", "c8"):
            b += int(v, 16).to_bytes(int(k[1]), "little")
        else:
            return "dynamic"
    return b


def sweep(run, focus, thorough):
    pl = plan(thorough)
    stats = {"classes": len(pl), "runtime_runs": 0, "pairs": 0, "literal_accepted": 0, "literal_rejected": 0}
    cases, lits, meta = [], [], []
    for (f, base, kind, idx, partner) in pl:
        fam = fam_of(f.arch, kind)
        line = f.render(base, runtime={idx: f"{fam}(v)"})
        accepted = True
        cases.append(dict(body=header(f) + " " + line, vars=[("v", "u8")]))
        pvals = [base.get(partner)] if partner is None else sorted(set(x for x in f.domain(partner) if isinstance(x, int)))[:32]
        for pv in pvals:
            for n in range(32):
                vals = dict(base)
                vals[idx] = n
                if partner is not None:
                    vals[partner] = pv
                lits.append("cl " + header(f) + " " + f.render(vals))
                meta.append((len(cases) - 1, n, pv))
    # which dynamic lines does the plugin accept at all
    acc = plug(["cl " + c["body"] for c in cases])
    live = [i for i, a in enumerate(acc) if a.startswith("ok ")]
    remap = {i: k for k, i in enumerate(live)}
    # pair sweeps need the partner literal in the macro line: one case per (class, partner value)
    dcases, dindex = [], {}
    for ci in live:
        (f, base, kind, idx, partner) = pl[ci]
        fam = fam_of(f.arch, kind)
        pvals = [None] if partner is None else sorted(set(x for x in f.domain(partner) if isinstance(x, int)))[:32]
        for pv in pvals:
            vals = dict(base)
            if partner is not None:
                vals[partner] = pv
            dindex[(ci, pv if partner is not None else base.get(partner))] = len(dcases)
            dcases.append(dict(body=header(f) + " " + f.render(vals, runtime={idx: f"{fam}(v)"}), vars=[("v", "u32" if f.arch == "aarch64" else "u8")]))
    # a partner literal the form rejects in this configuration (x18.. on the E profile) makes the macro line a compile error: not a case
    dacc = plug(["cl " + c["body"] for c in dcases])
    keep = [i for i, a in enumerate(dacc) if a.startswith("ok ")]
    renum = {i: k for k, i in enumerate(keep)}
    dcases = [dcases[i] for i in keep]
    dindex = {k: renum[v] for k, v in dindex.items() if v in renum}
    ok, log = dyn.build(focus + "R", dcases)
    if not ok:
        run.violation("broken-correspondence", {"kind": "harness-build", "harness": "dyn-registers"}, "the generated crate with dynamic aarch64/riscv registers does not build against the working tree",
                      {"log": log[-3000:]}, found_input=False)
        return stats
    lans = plug(lits)
    dreqs, dmeta = [], []
    for (ci, n, pv), la in zip(meta, lans):
        if (ci, pv) not in dindex:
            continue
        dreqs.append((dindex[(ci, pv)], [n]))
        dmeta.append((ci, n, pv, la))
    dres = dyn.run(focus + "R", dreqs)
    for (ci, n, pv, la), (di, _), (st, b) in zip(dmeta, dreqs, dres):
        (f, base, kind, idx, partner) = pl[ci]
        stats["runtime_runs"] += 1
        if partner is not None:
            stats["pairs"] += 1
        lw = words(la)
        if lw == "dynamic":
            continue
        desc = f"dynasm!(ops {dcases[di]['body']}) with v = {n}"
        payload = {"stream": "dyn", "case": dcases[di], "values": [n]}
        m = {"mnemonic": f.mnemonic, "kind": None, "slot": idx, "constraint": list(sig(f.constraints.get(idx)))}
        if lw is None:
            stats["literal_rejected"] += 1
            if st == "ok":
                # out-of-family numbers (>= the family size) are a caller error for unconstrained slots; constrained slots must reject
                c = f.constraints.get(idx)
                plain = isinstance(c, forms.R) and c.scale == 1 and (c.count in (32,) or c.count > 64 and c.count == 0xFFFFFFFF)
                if plain and not isinstance(f, Emb):
                    continue
                m["kind"] = "runtime-register-masked"
                run.violation("failing-input", m, f"{desc} assembles to {b.hex()} although the literal register is rejected ({la[:100]}): the number was masked into the field", payload)
        else:
            stats["literal_accepted"] += 1
            if st != "ok":
                m["kind"] = "runtime-register-panics"
                run.violation("failing-input", m, f"{desc} panics ({b[:80]}) although the literal register assembles to {lw.hex()}", payload)
            elif b != lw and focus == "C03" and f.arch == "aarch64" and kind in ("WSP", "XSP") and n != 31:
                # `WSP(0)` names w0 in the sp-family slot; the literal `w0` is matched by the plain-register entry of the mnemonic when there is one
                # (mov w0, w1 = orr, mov WSP(0), w1 = add #0): two encodings of the same move chosen by the matcher, not by the operand encoder
                stats["sp_family_other_entry"] = stats.get("sp_family_other_entry", 0) + 1
            elif b != lw and focus == "C03":
                m["kind"] = "runtime-register-differs"
                run.violation("failing-input", m, f"{desc} assembles to {b.hex()}, the literal register to {lw.hex()}", payload)
    return stats


def plug(reqs):
    out = []
    for part in common.parallel_map(lambda ch: [a for (_, a) in common.answers_of_impl(common.sh([common.PLUG, "exec"], inp="\n".join(ch) + "\n", timeout=3600)[1])],
                                    [reqs[i:i + 4000] for i in range(0, len(reqs), 4000)]):
        out += part
    return out
