"""C16 — all assembler front-ends agree, and a reused assembler behaves like a fresh one.
Proof: lean/DynasmVerif/Props/C16.lean (take_resets, drain_resets, run_after_take_eq_fresh, exec_agrees_with_vec, unc_emit_spec).
Tie: the same operations on SimpleAssembler / VecAssembler / Assembler under random commit partitions / UncommittedModifier
replay, and chains of programs through one reused VecAssembler vs fresh ones; bytes compared implementation-to-implementation."""
import asmcheck
import asmgen
import asmprops
import common
from common import SplitMix, hexb

MODULES = ["DynasmVerif.Props.C16"]


def core_program(rng, fam, label_free):
    g = asmgen.Gen(rng, "vec", fam, max_ops=22, commits=False, label_free=label_free, base=0)
    lines, _ = g.build()
    body = [l for l in lines[1:-1] if l != "off"]
    return body


def safe_commit_points(body):
    """indices i such that a commit placed after body[i] meets no pending forward/global/dynamic reference"""
    pts = []
    for i in range(len(body)):
        # the placeholder bytes and the relocation call of one instruction are emitted by one dynasm! statement: no commit between them
        if i + 1 < len(body) and body[i + 1].split()[0] in ("rf", "rb", "rg", "rd", "rx"):
            continue
        try:
            o = asmgen.Oracle(["new vec x64 base=0"] + body[:i + 1] + ["c"]).run()
        except asmgen.Unsupported:
            continue
        if o.first_failing_commit() is None:
            pts.append(i)
    return pts


def frontends_case(rng, fam, label_free):
    body = core_program(rng, fam, label_free)
    lines = [f"new vec {fam} base=0"] + body + ["fin"]
    segs = [("vec", 0)]
    if label_free:
        segs.append(("simple", len(lines)))
        lines += ["new simple"] + body + ["fin"]
    pts = safe_commit_points(body)
    for _ in range(3 if label_free else 4):
        cut = sorted(set(rng.choice(pts) for _ in range(rng.range(0, 4)))) if pts else []
        segs.append(("asm", len(lines)))
        lines.append(f"new asm {fam}")
        for i, l in enumerate(body):
            lines.append(l)
            if i in cut:
                lines.append("c")
        lines.append("fin")
    if label_free:
        # the uncommitted modifier replaying the program over a buffer of the final length
        total = sum(len(asmgen.parse_emit(l.split()) or b"") for l in body if not l.startswith("al"))
        if not any(l.startswith("al") for l in body):
            host = rng.choice(["simple", "vec", "asm"])
            new = {"simple": "new simple", "vec": f"new vec {fam} base=0", "asm": f"new asm {fam}"}[host]
            segs.append(("unc", len(lines)))
            lines += [new, f"ex {hexb(bytes(total))}", "unc{", "goto 0"] + body + ["}unc", "fin"]
    return lines, {"kind": "frontends", "segs": segs}


def reuse_case(rng, fam):
    """2-5 programs through one reused VecAssembler (take/drain), each also on a fresh one"""
    n = rng.range(2, 5)
    bodies = []
    for _ in range(n):
        b = core_program(rng, fam, label_free=False)
        # dynamic labels are allocated per program: keep the `nd` lines, ids restart at 0 after take (labels.clear())
        bodies.append(b)
    # sometimes one program of the chain is defective (its take/drain fails): what the assembler does next is compared with the model
    # (the property itself only speaks about successfully finished programs)
    if n >= 2 and rng.chance(1, 3):
        k = rng.below(n - 1)
        defect = rng.choice([["gl 8", "gl 8"], ["dl 7"], ["gl 8", "gl 8"]])
        at = rng.below(len(bodies[k]) + 1)
        bodies[k] = bodies[k][:at] + defect + bodies[k][at:]
    lines = [f"new vec {fam} base=0"]
    marks = []
    for b in bodies:
        lines += b
        marks.append(len(lines))
        lines.append(rng.choice(["take", "drain"]))
    fresh = []
    for b in bodies:
        fresh.append(len(lines))
        lines += [f"new vec {fam} base=0"] + b + ["fin"]
    return lines, {"kind": "reuse", "marks": marks, "fresh": fresh, "n": n}


def seg_final(res, start, end):
    for (req, a, _) in reversed(res[start:end]):
        k = req.split()[0]
        if k in ("fin", "take", "drain"):
            return a
    return None


def evaluator(p, res, meta):
    if meta is None:
        return None
    news = [i for i, (req, _, _) in enumerate(res) if req.startswith("new ")] + [len(res)]
    if meta["kind"] == "frontends":
        finals = []
        for k in range(len(news) - 1):
            a = seg_final(res, news[k], news[k + 1])
            front = res[news[k]][0].split()[1]
            finals.append((front, a, news[k]))
        ref = finals[0][1]
        if ref is None or not ref.startswith("ok"):
            return None     # the shrunk program is no longer defect free
        refbytes = ref.split()[-1]
        for (front, a, at) in finals[1:]:
            if a is None:
                continue
            if any(x == "panic" for (_, x, _) in res[at:]) and False:
                pass
            if not a.startswith("ok"):
                # an executable assembler cut by a commit before a pending forward reference's definition reports Unknown
                if a.startswith("err Unknown") or a in ("panic", "dead"):
                    seg_lines = [r for (r, _, _) in res[at:]]
                    if "c" in seg_lines and a.startswith("err Unknown"):
                        continue
                return ({"kind": "frontend-error", "front": front}, f"the {front} front-end returned `{a[:60]}` for a program the vector assembler assembled")
            if a.split()[-1] != refbytes:
                return ({"kind": "frontends-differ", "front": front}, f"the {front} front-end produced {a.split()[-1][:80]} but VecAssembler produced {refbytes[:80]} for the same operations")
        return None
    if meta["kind"] == "reuse":
        if len(news) - 1 < 2:
            return None
        # answers of take/drain in the first segment, in order, against the fin of the fresh runs, in order
        reused = [a for (req, a, _) in res[news[0]:news[1]] if req in ("take", "drain")]
        fresh = [seg_final(res, news[k], news[k + 1]) for k in range(1, len(news) - 1)]
        for i, (x, y) in enumerate(zip(reused, fresh)):
            if x is None or y is None:
                continue
            if not x.startswith("ok") and i == 0:
                return None
            if i > 0 and not reused[i - 1].startswith("ok"):
                return None          # only successfully finished programs are in the property
            if x != y:
                return ({"kind": "reuse-differs"}, f"program #{i + 1} through a reused VecAssembler gave `{x[:70]}`, a fresh assembler gives `{y[:70]}`")
        return None
    return None


def check(run):
    rng = SplitMix(run.seed)
    thorough = run.tier == "thorough"
    common.base_trusted(run)
    run.coverage["trusted_base"] += ["harness/rt (asm stream executor)", "lib/c16.py evaluator (compares the implementation's outputs with each other)"]
    run.assumptions += ["position-independent references only (relative kinds)", "commit partitions are drawn from points where no forward/global/dynamic reference is pending; "
                        "a commit placed earlier yields UnknownLabel by design"]
    run.coverage["rule"] = ("each generated label program is run on VecAssembler and on Assembler under 4 random commit partitions (label-free ones also on "
                            "SimpleAssembler and replayed through UncommittedModifier); chains of 2-5 programs through one reused VecAssembler (take/drain) vs fresh. "
                            "non-trivial = program with >= 1 label reference, or chain of >= 2 programs")
    ok, proofs_ok = asmprops.proof_and_build(run, MODULES)
    if not ok:
        return
    found_before = len(run.violations) + len(run.known_hit)
    progs, metas = [], []
    nontrivial = 0
    for _ in range(40000 if thorough else 1200):
        fam = rng.choice(["x64", "x86", "a64", "rv"])
        lf = rng.chance(1, 3)
        lines, meta = frontends_case(rng, fam, lf)
        progs.append(lines)
        metas.append(meta)
        if any(l.split()[0] in ("rf", "rb", "rg", "rd") for l in lines):
            nontrivial += 1
    for _ in range(25000 if thorough else 800):
        lines, meta = reuse_case(rng, rng.choice(["x64", "x86", "a64", "rv"]))
        progs.append(lines)
        metas.append(meta)
        nontrivial += 1
    stats = asmprops.process(run, progs, evaluator, metas, chunk=100)
    run.coverage["evaluations"] = len(progs)
    run.coverage["distinct_nontrivial"] = nontrivial
    run.coverage["traces_validated_against_impl"] = stats["requests"]
    run.coverage["distribution"] = dict(stats, frontends_cases=sum(1 for m in metas if m["kind"] == "frontends"),
                                        reuse_cases=sum(1 for m in metas if m["kind"] == "reuse"))
    run.coverage["samples"] = [[l[:60] for l in progs[0][:40]]]
    asmprops.finish_proofs(run, proofs_ok, found_before)


def replay(path):
    return asmcheck.replay(path)
