"""C12 — address-dependent references stay correct when the buffer moves or is altered.
Proof: lean/DynasmVerif/Props/C12.lean (value_moves_with_buffer, adjust_tracks_move, adjustManaged_frame, removeBetween_spec, add_spec).
Tie: `asm` stream on Assembler<X86Relocation> on this 64-bit host: 8-byte AbsToRel / RelToAbs fields and 4-byte RelToAbs fields to extern
targets near the mapping (`@N` = buffer address + N), commits forced across 1x,2x,4x capacity, alter sessions overwriting none/some/all
tracked fields; decoded targets are read through reader().lock() after every move."""
import os

import asmcheck
import asmgen
import asmprops
import common
from common import SplitMix, hexb

MODULES = ["DynasmVerif.Props.C12"]
PAGE = 4096


def managed_program(rng, thorough):
    lines = ["new asm x86", "nd", "nd"]
    fields = []          # (start, size) of tracked fields, for choosing what sessions overwrite
    trail = {}           # (start, size) -> bytes of the same instruction behind the field
    off = 0

    def emit(n):
        nonlocal off
        lines.append(f"ex {hexb(rng.bytes(n))}")
        off += n

    def add_field():
        nonlocal off
        c = rng.below(10)
        # the field need not end its instruction: `mov QWORD [->cell], imm32` has an immediate behind the displacement (field_offset > size)
        tr = rng.choice([0, 0, 0, 1, 4, 8, 8])
        if c < 4:
            # absolute address of a label (AbsToRel), 8 bytes, data-directive style
            kind = rng.choice(["rb", "rg", "rd"])
            toff = rng.choice([0, 0, 5, -3])
            lines.append(f"ex {hexb(rng.bytes(8 + tr))}")
            off += 8 + tr
            name = {"rb": 1, "rg": 9, "rd": 0}[kind]
            lines.append(f"{kind} {name} {toff} {8 + tr} {8 + tr} x86.8.1")
            fields.append((off - 8 - tr, 8))
            trail[(off - 8 - tr, 8)] = tr
        elif c < 7:
            # relative distance to a fixed external address (RelToAbs), 8 bytes
            lines.append(f"ex {hexb(rng.bytes(8 + tr))}")
            off += 8 + tr
            lines.append(f"rx @{rng.range(-2**40, 2**40)} {8 + tr} 0 x86.8.2")
            fields.append((off - 8 - tr, 8))
            trail[(off - 8 - tr, 8)] = tr
        elif c < 9:
            # call rel32 to an external address within +-2 GiB of the mapping
            lines.append("ex " + hexb(bytes([0xE8]) + rng.bytes(4)))
            off += 5
            lines.append(f"rx @{rng.range(-2**30, 2**30)} 4 0 x86.4.2")
            fields.append((off - 4, 4))
        else:
            # plain relative reference (not tracked)
            lines.append("ex " + hexb(bytes([0xE9]) + rng.bytes(4)))
            off += 5
            lines.append(f"rb 1 0 4 0 x86.4.0")

    lines += ["ll 1", "gl 9", "dl 0"]
    emit(rng.range(1, 30))
    n_rounds = rng.range(2, 5)
    for rnd in range(n_rounds):
        for _ in range(rng.range(1, 4)):
            add_field()
            emit(rng.range(0, 12))
        # commit, sometimes with a filler that forces a move
        if rng.chance(2, 3):
            emit(rng.choice([PAGE - off % PAGE - 1, PAGE, PAGE + 1, 2 * PAGE + 3, 5000, 9000]) % (3 * PAGE) + 1)
        lines.append("c")
        lines.append("buf")
        # alter session overwriting none / some / all of the tracked fields (each fully)
        if fields and rng.chance(1, 2):
            lines.append("alter{")
            mode = rng.choice(["none", "some", "all", "new", "rewrite"])
            victims = [] if mode in ("none", "new") else (list(fields) if mode == "all" else [f for f in fields if rng.chance(1, 2)])
            for (st, n) in victims:
                tr = trail.get((st, n), 0)
                if tr and rng.chance(1, 2):
                    # only the bytes BEHIND the field (the immediate): the field itself is untouched and stays tracked
                    lines.append(f"goto {st + n}")
                    lines.append(f"ex {hexb(rng.bytes(tr))}")
                    continue
                lines.append(f"goto {st}")
                # cover exactly the field: it is forgotten, whatever follows it in its instruction
                lines.append(f"ex {hexb(rng.bytes(n))}")
                fields.remove((st, n))
            if mode in ("none", "new", "rewrite"):
                # write somewhere that holds no tracked field; possibly a new tracked field
                free = [i for i in range(0, off - 12) if not any(s - 12 <= i < s + m + trail.get((s, m), 0) for (s, m) in fields)]
                if free:
                    at = rng.choice(free)
                    lines.append(f"goto {at}")
                    if mode in ("new", "rewrite"):
                        lines.append(f"ex {hexb(rng.bytes(8))}")
                        lines.append(f"rx @{rng.range(-2**40, 2**40)} 8 0 x86.8.2")
                        if mode == "rewrite":
                            # ... and replace the field the session has just written by plain bytes: it must be forgotten again
                            if rng.chance(1, 2):
                                lines.append(f"goto {rng.choice(free)}")
                                lines.append(f"ex {hexb(rng.bytes(2))}")
                            lines.append(f"goto {at}")
                            lines.append(f"ex {hexb(rng.bytes(8))}")
                        else:
                            fields.append((at, 8))
                    else:
                        lines.append(f"ex {hexb(rng.bytes(3))}")
            lines.append("}alter")
            lines.append("buf")
    meta = {"kind": "managed"}
    if fields and rng.chance(1, 3):
        # a session that overwrites tracked fields and then FAILS (duplicate global label): what it wrote stays in the buffer,
        # so the fields it replaced must not be adjusted by later moves either
        lines.append("alter{")
        victims = [f for f in fields if rng.chance(2, 3)] or [fields[0]]
        for (st, n) in victims:
            lines.append(f"goto {st}")
            lines.append(f"ex {hexb(rng.bytes(n))}")
            fields.remove((st, n))
        meta["session_fields"] = []
        if rng.chance(1, 2):
            lines.append("gl 9")                  # duplicate global: the error slot fires before anything is patched
        else:
            # the session writes an absolute reference that resolves, then a reference that does not: the first one is patched (and must be
            # tracked from then on: it is in the buffer) before the session fails on the second
            free = [i for i in range(0, off - 24) if not any(s - 24 <= i < s + m + 8 + trail.get((s, m), 0) for (s, m) in fields + victims)]
            if free:
                at = rng.choice(free)
                toff = rng.choice([0, 0, 5, -3])
                lines += [f"goto {at}", f"ex {hexb(rng.bytes(8))}", f"rg 9 {toff} 8 8 x86.8.1", "ex xe900000000", "rf 7 0 4 0 x86.4.0"]
                meta["session_fields"].append((at, toff))
                fields.append((at, 8))
            else:
                lines.append("gl 9")
        meta["fail_at"] = len(lines)
        lines.append("}alter")
        lines.append("buf")
        meta["victims"] = victims
        meta["tracked"] = list(fields)
    # final growth so that everything moves once more
    emit(rng.choice([PAGE, 3 * PAGE]))
    lines.append("c")
    lines.append("buf")
    if "fail_at" in meta and rng.chance(1, 2):
        emit(rng.choice([2 * PAGE, 5 * PAGE]))
        lines.append("c")
        lines.append("buf")
    return lines, meta


def mixed_adjust_program(rng):
    """a byte-sized reference to a fixed external address cannot follow the buffer to another mapping (the growing commit reports
    Impossible(managed)) — the OTHER tracked fields, in front of it and behind it, must follow all the same"""
    lines = ["new asm x86", "nd", "nd", "ll 1", "gl 9", "dl 0"]

    def wide():
        c = rng.below(3)
        if c == 0:
            lines.append(f"ex {hexb(rng.bytes(8))}")
            lines.append(f"rx @{rng.range(-2**40, 2**40)} 8 0 x86.8.2")
        elif c == 1:
            lines.append(f"ex {hexb(rng.bytes(8))}")
            lines.append(f"{rng.choice(['rb 1', 'rg 9', 'rd 0'])} {rng.choice([0, 5, -3])} 8 8 x86.8.1")
        else:
            lines.append("ex " + hexb(bytes([0xE8]) + rng.bytes(4)))
            lines.append(f"rx @{rng.range(-2**30, 2**30)} 4 0 x86.4.2")
        lines.append(f"ex {hexb(rng.bytes(rng.range(0, 9)))}")

    lines.append(f"ex {hexb(rng.bytes(rng.range(1, 20)))}")
    for _ in range(rng.range(0, 2)):
        wide()
    lines.append("ex xeb00")
    here = sum(len(bytes.fromhex(l.split()[1][1:])) for l in lines if l.startswith("ex "))
    lines.append(f"rx @{here + rng.range(-100, 100)} 1 0 x86.1.2")
    lines.append(f"ex {hexb(rng.bytes(rng.range(0, 9)))}")
    for _ in range(rng.range(1, 3)):
        wide()
    lines += ["c", "buf"]
    for _ in range(rng.range(1, 2)):
        lines.append(f"ex {hexb(rng.bytes(rng.choice([PAGE, PAGE + 1, 2 * PAGE + 5, 5000])))}")
        if rng.chance(1, 2):
            wide()
        lines += ["c", "buf"]
    return lines, {"kind": "mixed-adjust"}


def error_program(rng):
    """small absolute fields cannot hold a 47-bit address: the error path"""
    lines = ["new asm x86", "ll 1", f"ex {hexb(rng.bytes(4))}"]
    n = rng.choice([1, 2, 4])
    lines.append(f"rb 1 0 {n} {n} x86.{n}.1")
    lines += ["c", "buf"]
    return lines, {"kind": "error"}


def pending_growth_session_program(rng):
    """an alter session opened while uncommitted code is pending that does not fit the mapping: the commit at the head of `alter` MOVES the
    buffer, and the address-dependent fields the session writes must be computed against the new address"""
    lines = ["new asm x86", "nd", "nd", "ll 1", "gl 9", "dl 0"]
    lines.append(f"ex {hexb(rng.bytes(rng.range(16, 64)))}")
    lines.append(f"ex {hexb(rng.bytes(8))}")
    lines.append(f"rx @{rng.range(-2**40, 2**40)} 8 0 x86.8.2")
    lines.append(f"ex {hexb(rng.bytes(rng.range(8, 40)))}")
    lines += ["c", "buf"]
    # pending, uncommitted code that outgrows the 4096-byte mapping (sometimes two doublings)
    lines.append(f"ex {hexb(rng.bytes(rng.choice([4200, 5000, 9000])))}")
    lines.append("alter{")
    at = rng.range(16, 40) & ~7
    lines.append(f"goto {at + 80}")
    k = rng.below(3)
    lines.append(f"ex {hexb(rng.bytes(8))}")
    if k == 0:
        # an ABSOLUTE external target (the harness resolves `@N` inside a session against the address before the session)
        lines.append(f"rx {0x7f0000000000 + rng.range(0, 2**36)} 8 0 x86.8.2")
    elif k == 1:
        lines.append("rg 9 0 8 8 x86.8.1")
    else:
        lines.append("rd 0 3 8 8 x86.8.1")
    lines += ["}alter", "buf"]
    if rng.chance(1, 2):
        lines.append(f"ex {hexb(rng.bytes(20000))}")
        lines += ["c", "buf"]
    return lines, {"kind": "managed"}


def failed_commit_over_tracked_offsets_program(rng):
    """committed code with tracked fields at small offsets; then a batch whose FIRST bytes are a reference without definition, so that the
    unresolved field has the same offset inside its batch as a tracked field has in the buffer; the commit fails, the label is defined, the
    retry succeeds and a later commit moves the buffer: the old tracked fields must still follow"""
    lines = ["new asm x86", "nd", "nd", "ll 1", "gl 9", "dl 0"]
    shape = rng.below(3)
    if shape == 0:
        lines.append("ex " + hexb(bytes([0xE8]) + rng.bytes(4)))
        lines.append(f"rx @{rng.range(-2**30, 2**30)} 4 0 x86.4.2")
    elif shape == 1:
        lines.append(f"ex {hexb(rng.bytes(8))}")
        lines.append(f"rx @{rng.range(-2**40, 2**40)} 8 0 x86.8.2")
    else:
        lines.append(f"ex {hexb(rng.bytes(8))}")
        lines.append("rg 9 5 8 8 x86.8.1")
    lines.append(f"ex {hexb(rng.bytes(rng.range(20, 60)))}")
    lines += ["c", "buf"]
    # the failing batch: same leading layout, a plain relative reference to a label that does not exist yet
    if shape == 0:
        lines.append("ex " + hexb(bytes([0xE9]) + rng.bytes(4)))
        lines.append("rg 20 0 4 0 x86.4.0")
    else:
        lines.append(f"ex {hexb(rng.bytes(8))}")
        lines.append("rg 20 0 8 8 x86.8.0")
    lines.append(f"ex {hexb(rng.bytes(rng.range(4, 30)))}")
    fail_ix = len(lines)
    lines.append("c")
    lines.append("gl 20")
    lines.append(f"ex {hexb(rng.bytes(rng.choice([4200, 9000])))}")
    lines += ["c", "buf"]
    return lines, {"kind": "managed", "expected_err": [fail_ix]}


def evaluator(p, res, meta):
    """after every commit / session: every tracked, not overwritten field decodes to the value its reference denotes at the buffer's
    CURRENT address"""
    addr = None
    resolved = []
    last_commit = -1
    snap = b""
    for idx, (req, a, _) in enumerate(res):
        ws = req.split()
        for w in a.split():
            if w.startswith("addr="):
                addr = int(w[5:])
        resolved.append(" ".join(str(addr + int(w[1:])) if w.startswith("@") and addr is not None else w for w in ws))
        if a in ("panic", "dead"):
            return ({"kind": "panic", "op": ws[0]}, f"`{req[:50]}` panicked")
        if ws[0] in ("c", "}alter") and a.startswith("ok"):
            last_commit = idx
        if meta and meta["kind"] == "mixed-adjust" and ws[0] == "c" and a.startswith("err Impossible(managed)"):
            last_commit = idx           # the growing commit moved and published the buffer, then reported the field that cannot follow
            continue
        if meta and meta["kind"] == "error":
            if ws[0] == "c" and not a.startswith("err Impossible"):
                return ({"kind": "small-absolute-field-accepted"}, f"a {p[3].split()[-1]} absolute field cannot hold a mapping address but commit returned `{a}`")
            continue
        fail_at = meta.get("fail_at") if meta else None
        if fail_at is not None and idx >= fail_at:
            # the failing session and what follows it: its replacement bytes are not touched by later moves (the tracked fields that
            # are left are compared with the model, which adjusts them)
            if idx == fail_at:
                if not (a.startswith("err Duplicate") or a.startswith("err Unknown(local 7)")):
                    return ({"kind": "unexpected-answer", "op": ws[0]}, f"the session has a defect (duplicate global / undefined forward label) but `{ws[0]}` returned `{a}`")
            elif ws[0] == "c" and a.startswith("err"):
                return ({"kind": "unexpected-error", "op": ws[0]}, f"`{ws[0]}` after the failed session returned `{a}`")
            elif ws[0] == "buf" and a.startswith("x"):
                got = bytes.fromhex(a[1:])
                # absolute references the failed session wrote and patched: they denote the label (offset 0) at the buffer's CURRENT address
                for (at, toff) in meta.get("session_fields", []):
                    val = int.from_bytes(got[at:at + 8], "little")
                    if addr is not None and val != (addr + toff) % (1 << 64):
                        return ({"kind": "managed-field"}, f"the absolute reference the (failed) session wrote at offset {at} reads {val:#x}; the label is at {addr + toff:#x} "
                                                            f"(buffer at {addr:#x}): the field is in the buffer but does not follow it")
                if idx == fail_at + 1:
                    snap = got
                else:
                    skip = set()
                    for (st, n) in meta["tracked"]:
                        skip.update(range(st, st + n))
                    for o in range(len(snap)):
                        if o not in skip and got[o] != snap[o]:
                            vic = [v for v in meta["victims"] if v[0] <= o < v[0] + v[1]]
                            return ({"kind": "replacement-touched-by-move" if vic else "non-field-byte"},
                                    f"byte at offset {o} was {snap[o]:02x} after the (failed) session that overwrote the tracked field at {vic[0][0] if vic else '?'} "
                                    f"and is {got[o]:02x} after a later move (buffer at {addr:#x})")
            continue
        if ws[0] in ("c", "}alter") and a.startswith("err"):
            if meta and idx in meta.get("expected_err", ()) and a.startswith("err Unknown"):
                continue
            return ({"kind": "unexpected-error", "op": ws[0]}, f"`{ws[0]}` returned `{a}`")
        if ws[0] == "buf" and a.startswith("x") and last_commit >= 0:
            try:
                o = asmgen.Oracle(resolved[:last_commit + 1]).run()
            except asmgen.Unsupported:
                return None
            got = bytes.fromhex(a[1:])
            if len(got) != len(o.image):
                return None
            # (the byte-sized field of a mixed-adjust program is the one that cannot follow: not judged)
            msg = asmcheck.check_image(got, o, bufaddr=addr, skip=(lambda start, size: size == 1) if meta and meta["kind"] == "mixed-adjust" else (lambda start, size: False))
            if msg:
                return ({"kind": "managed-field" if "decodes" in msg else "non-field-byte"}, msg + f" (buffer at {addr:#x})")
    return None


def check(run):
    rng = SplitMix(run.seed)
    thorough = run.tier == "thorough"
    common.base_trusted(run, bv=True)
    run.coverage["trusted_base"] += ["harness/rt (asm stream executor on Assembler<X86Relocation>)", "lib/asmgen.Oracle + lib/asmcheck decoders"]
    run.assumptions += ["real 32-bit absolute fields cannot be exercised on this 64-bit host (they only reach the error path); 8-byte fields stand in for them",
                        "mapping addresses are environment inputs (`@N` targets are resolved against the address the implementation reports)"]
    run.coverage["rule"] = ("histories on Assembler<X86Relocation>: 8-byte AbsToRel fields to local/global/dynamic labels, 8-byte and 4-byte RelToAbs fields to extern targets, plain relative "
                            "references, 2-5 rounds each ending in a commit (2 of 3 with a filler that crosses a capacity boundary and moves the mapping), alter sessions that overwrite "
                            "none/some/all tracked fields or add a new tracked field. non-trivial = history with >= 1 move while >= 1 field is tracked")
    # second tie: the text of `impl PatchLoc` (value / range / adjust / needs_adjustment) translated to Lean on every run and proved equal to the
    # model's functions in Props/C12Code.lean
    import patchtrans
    modules, trans_msg = list(MODULES), None
    try:
        patchtrans.emit_lean(patchtrans.translate(), os.path.join(common.LEAN, "DynasmVerif", "Generated", "PatchCode.lean"))
        modules.append("DynasmVerif.Props.C12Code")
        run.coverage["trusted_base"] += ["lib/patchtrans.py + lib/rustexpr.py (text of impl PatchLoc -> bit-vector IR -> Lean)"]
    except patchtrans.Untranslatable as ex:
        trans_msg = f"`impl PatchLoc` in runtime/src/components.rs can no longer be translated (lib/patchtrans.py): {ex}"
    ok, proofs_ok = asmprops.proof_and_build(run, modules, allow_bv=True)
    if not ok:
        return
    found_before = len(run.violations) + len(run.known_hit)
    progs, metas = [], []
    for _ in range(12000 if thorough else 1200):
        lines, meta = managed_program(rng, thorough)
        progs.append(lines)
        metas.append(meta)
    for _ in range(2000 if thorough else 150):
        lines, meta = pending_growth_session_program(rng)
        progs.append(lines)
        metas.append(meta)
    for _ in range(2000 if thorough else 150):
        lines, meta = failed_commit_over_tracked_offsets_program(rng)
        progs.append(lines)
        metas.append(meta)
    for _ in range(3000 if thorough else 300):
        lines, meta = mixed_adjust_program(rng)
        progs.append(lines)
        metas.append(meta)
    for _ in range(80 if thorough else 30):
        lines, meta = error_program(rng)
        progs.append(lines)
        metas.append(meta)
    stats = asmprops.process(run, progs, evaluator, metas, chunk=40)
    run.coverage["evaluations"] = len(progs)
    run.coverage["distinct_nontrivial"] = sum(1 for p in progs if sum(1 for l in p if l.startswith("rx") or l.endswith(".1")) and p.count("c") >= 2)
    run.coverage["traces_validated_against_impl"] = stats["requests"]
    run.coverage["distribution"] = stats
    run.coverage["samples"] = [[l[:60] for l in progs[0][:40]]]
    if trans_msg:
        run.violation("broken-correspondence", {"kind": "patchloc-translation"}, trans_msg, found_input=(len(run.violations) + len(run.known_hit)) > found_before)
    asmprops.finish_proofs(run, proofs_ok, found_before)


def replay(path):
    return asmcheck.replay(path)
