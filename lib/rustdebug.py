"""Parser for Rust `{:?}` renderings of the table entries (enum variants with tuple/struct payloads, slices, strings, numbers)."""
import re

TOKEN = re.compile(r'\s*(?:(?P<str>"(?:[^"\\]|\\.)*")|(?P<num>-?\d+\.\d+(?:e-?\d+)?|-?\d+|inf|NaN)|(?P<id>[A-Za-z_][A-Za-z0-9_]*)|(?P<p>[\[\]\(\)\{\},:|]))')


def tokenize(s):
    pos, out = 0, []
    while pos < len(s):
        m = TOKEN.match(s, pos)
        if not m:
            if s[pos:].strip() == "":
                break
            raise ValueError(f"cannot tokenize at {s[pos:pos+30]!r}")
        pos = m.end()
        if m.group("str") is not None:
            out.append(("str", bytes(m.group("str")[1:-1], "utf-8").decode("unicode_escape")))
        elif m.group("num") is not None:
            t = m.group("num")
            out.append(("num", float(t) if ("." in t or t in ("inf", "NaN")) else int(t)))
        elif m.group("id") is not None:
            out.append(("id", m.group("id")))
        else:
            out.append(("p", m.group("p")))
    return out


class P:
    def __init__(self, toks):
        self.t, self.i = toks, 0

    def peek(self):
        return self.t[self.i] if self.i < len(self.t) else (None, None)

    def eat(self, kind=None, val=None):
        k, v = self.peek()
        if (kind and k != kind) or (val is not None and v != val):
            raise ValueError(f"expected {kind} {val}, got {k} {v} at {self.i}")
        self.i += 1
        return v

    def value(self):
        k, v = self.peek()
        if k == "str" or k == "num":
            self.i += 1
            return v
        if k == "p" and v == "[":
            return self.seq("[", "]")
        if k == "p" and v == "(":
            return tuple(self.seq("(", ")"))
        if k == "id":
            self.i += 1
            name = v
            k2, v2 = self.peek()
            if k2 == "p" and v2 == "(":
                args = self.seq("(", ")")
                return (name,) + tuple(args) if True else None
            if k2 == "p" and v2 == "{":
                self.eat("p", "{")
                fields = {}
                while self.peek() != ("p", "}"):
                    f = self.eat("id")
                    self.eat("p", ":")
                    fields[f] = self.value()
                    if self.peek() == ("p", ","):
                        self.i += 1
                self.eat("p", "}")
                return {"_": name, **fields}
            # bitflags: A | B
            names = [name]
            while self.peek() == ("p", "|"):
                self.i += 1
                names.append(self.eat("id"))
            return names[0] if len(names) == 1 else ("|",) + tuple(names)
        raise ValueError(f"unexpected {k} {v}")

    def seq(self, a, b):
        self.eat("p", a)
        out = []
        while self.peek() != ("p", b):
            out.append(self.value())
            if self.peek() == ("p", ","):
                self.i += 1
        self.eat("p", b)
        return out


def parse(s):
    p = P(tokenize(s))
    v = p.value()
    if p.i != len(p.t):
        raise ValueError("trailing tokens")
    return v
